SPECIFICATION GSpec
CONSTANTS NameLens <- AllNameLens
          Cids <- AllCids
          TsVals <- AllTsVals
          Modes <- AllModes
          Mtimes <- AllMtimes
          CaseNames <- AllNames
          F1Data <- T1Data
          F2Links <- T2Links
          D = 3
          E = 3
          HN <- H1N
          HC <- H1C
          HT <- H1T
          HModes <- H1Modes
          HMtimes <- H1Mtimes
INVARIANTS Emit GEstExact
