SPECIFICATION Spec
CONSTANTS NameLens <- MCNameLens
          Cids <- MCCids
          TsVals <- MCTs
          Modes <- MCModes
          Mtimes <- MCMtimes
INVARIANTS TypeOK EstExact
