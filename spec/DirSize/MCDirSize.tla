------------------------------ MODULE MCDirSize ------------------------------
(* Phase M: exhaustive exploration of the edit state machine over a small class set;
   EstExact = the incremental bookkeeping equals the size derived from the wire rules. *)
EXTENDS DirSize
MCNameLens == <<0, 88>>
MCCids     == <<AllCids[1], AllCids[5]>>
MCTs       == {Pow2m1(7), Pow2(7)}
MCModes    == {[present |-> FALSE, perm |-> 0], [present |-> TRUE, perm |-> 420]}
MCMtimes   == {NoMtime, [neg |-> TRUE, mag |-> FromNat(1), ns |-> 1]}
=============================================================================
