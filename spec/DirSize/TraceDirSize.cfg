SPECIFICATION TSpec
CONSTANTS NameLens <- AllNameLens
          Cids <- AllCids
          TsVals <- AllTsVals
          Modes <- AllModes
          Mtimes <- AllMtimes
          Devs = @DEVS@
INVARIANTS TEstExact DevReport
CONSTRAINT TraceConstraint
POSTCONDITION TracePost
CHECK_DEADLOCK FALSE
