----------------------------- MODULE TraceDirSize -----------------------------
(* Phase T for C17: a recorded edit history of a real BasicDirectory in block-size mode
   (NDJSON; several runs separated by Reset) must be a behaviour of DirSize, and at EVERY
   event the logged in-package field estimatedSize and the logged len(RawData()) must both
   equal DirBlockSize recomputed here from the model entries; the logged sharding decision
   must equal ShouldShard(size after the add, logged threshold).
   The logged name/CID byte lengths are re-checked against the spec's own tables. *)
EXTENDS DirSize

Trace == ndJsonDeserialize("trace.ndjson")
VARIABLES l,
          emode,   \* the mode the ESTIMATOR accounts for (= mode unless a deviation made it forget the field)
          dev      \* deviations used so far
tvars == <<vars, l, emode, dev>>
ASSUME TLCSet(1, 0)
CONSTANT Devs     \* names of the open known-finding deviations enabled by the runner

Ev == Trace[l]
IsEvent(e) == l <= Len(Trace) /\ Trace[l].ev = e /\ l' = l + 1

TInit == /\ l = 1 /\ entries = Empty /\ est = 0 /\ mode = Absent /\ mtime = NoMtime
         /\ emode = Absent /\ dev = {}

\* both observables of the real directory against the model, after the step
Observed == /\ Ev.est = est'
            /\ Ev.raw = DirBlockSize(entries', mode', mtime')

TReset == /\ IsEvent("Reset")
          /\ entries' = Empty /\ mode' = Ev.mode /\ mtime' = Ev.mtime
          /\ est' = DataFieldSize(Ev.mode, Ev.mtime)
          /\ emode' = Ev.mode /\ UNCHANGED dev
          /\ Observed
TAdd == /\ IsEvent("Add")
        /\ Ev.n \in Names /\ Ev.c \in 1..Len(Cids)
        /\ Ev.nl = NameLens[Ev.n] /\ Ev.clen = CidLen(Cids[Ev.c])
        /\ Add(Ev.n, [c |-> Ev.c, ts |-> Ev.ts])
        /\ Ev.sw = ShouldShard(est', Ev.thr)
        /\ UNCHANGED <<emode, dev>>
        /\ Observed
TRemove == /\ IsEvent("Remove")
           /\ Ev.n \in Names /\ Ev.nl = NameLens[Ev.n]
           /\ IF Ev.existed THEN Remove(Ev.n) ELSE RemoveAbsent(Ev.n)
           /\ UNCHANGED <<emode, dev>>
           /\ Observed
\* ideal: the reloaded directory accounts for exactly what its node carries
TReload == /\ IsEvent("Reload") /\ Reload /\ emode' = mode /\ UNCHANGED dev /\ Observed
\* open finding Dev_C17_ZeroPermReload (as built): NewBasicDirectoryFromNode recovers the mode through
\* FSNode.Mode(), which is 0 for permission value 0, so the recomputed estimate leaves out the
\* stored Mode field (2 bytes) although the serialized block keeps it.  Only for such a mode.
TReloadDev == /\ "Dev_C17_ZeroPermReload" \in Devs
              /\ IsEvent("Reload")
              /\ mode.present /\ mode.perm = 0
              /\ est' = DirBlockSize(entries, Absent, mtime)
              /\ emode' = Absent /\ dev' = dev \cup {"Dev_C17_ZeroPermReload"}
              /\ UNCHANGED <<entries, mode, mtime>>
              /\ Observed

TNext == TReset \/ TAdd \/ TRemove \/ TReload \/ TReloadDev
TSpec == TInit /\ [][TNext]_tvars

\* the property, after the first Reset; with a deviation in force the estimate is exact for the
\* mode the estimator accounts for (emode = mode on every path that needed no deviation)
TEstExact == l > 1 => /\ est = DirBlockSize(entries, emode, mtime)
                      /\ (dev = {} => emode = mode)
DevReport == l <= Len(Trace) \/ \A d \in dev : PrintT(<<"DEV_USED", d>>)

TraceConstraint == TLCSet(1, IF l - 1 > TLCGet(1) THEN l - 1 ELSE TLCGet(1))
TracePost == PrintT(<<"TRACE_HWM", TLCGet(1)>>)
=============================================================================
