------------------------------ MODULE Directory ------------------------------
(* C15 / C16 -- UnixFS directories (ipld/unixfs/io/directory.go, ipld/unixfs/hamt/hamt.go).

   C15: BasicDirectory, HAMTDirectory and DynamicDirectory are maps  name -> target; every
        enumeration API, Find and a reload from the root node show exactly that map; the HAMT is
        a trie over hash digits whose shape is a function of the key set (insert/fork,
        remove/collapse => Canonical).
   C16: a DynamicDirectory is sharded exactly when the documented rule says so, per-directory
        settings survive every conversion, and hence the root (type, trie, entries => CID) is a
        function of (entries, configuration) alone.

   The actions mirror the decision structure of the code (needsToSwitchToHAMTDir,
   needsToSwitchToBasicDir, the four conversion paths of DynamicDirectory.AddChild/RemoveChild)
   WITHOUT its known defects.  Each known defect is a named deviation: an extra outcome of the
   action, enabled only when its name is in Devs, with a guard that states exactly when the code
   takes it.  `dev` records the deviations used since the last Reset; the property invariants are
   claimed for deviation-free runs.

   C15 (independence): several directory objects can be live at once -- the original, directories
   loaded from its root node (NewDirectoryFromNode(GetNode())), root nodes the caller still holds.
   Each is its own map.  The variables entries..bk describe the object the calls go to ("focused");
   `parked` holds the other live objects, `nodes` the retained root nodes.  A call changes the
   focused object only (CallFrame, Independence); Fork / Focus create and select objects.

   The bookkeeping fields of the implementation (estimatedSize, totalLinks, sizeChange) are kept
   in `bk`.  They are used only in guards of deviations; the *Core actions do not constrain bk'
   (model checking adds BkRule = how the code maintains them, trace validation copies the logged
   values) so that a change of the bookkeeping that keeps the property is not an alarm.  *)
EXTENDS Naturals, Integers, Sequences, FiniteSets, TLC

CONSTANTS Devs          \* enabled deviations (subset of AllDevs); {} = the property

DevGate   == "Dev_C16_SizeGate"           \* HAMT->basic evaluated only if sizeChange+delta < 0
DevAddThr == "Dev_C16_AddDropsThreshold"  \* HAMT->basic inside AddChild loses hamtShardingSize
DevZero   == "Dev_C16_ZeroThrDisabled"    \* threshold 0 short-circuits MaxLinks in Disabled mode
DevNewName == "Dev_C16_OpSizeNewName"     \* HAMT op-size counts the entry to add without its name
DevPrefix == "Dev_C16_OpSizePrefix"       \* HAMT op-size counts the old link with its slot prefix
DevReload == "Dev_C15_ReloadLinkCount"    \* totalLinks of a reloaded HAMT = links of the root shard
AllDevs   == {DevGate, DevAddThr, DevZero, DevNewName, DevPrefix, DevReload}

VARIABLES
  w,        \* world: [len : name -> bytes, h : name -> hash digits, cidLen, tsize : target -> Nat]
  cfg,      \* [kind, est, gthr, thr, maxLinks, width, stat, cb]  (cb = CID builder, only in the CID)
  entries,  \* [Names -> Targets \cup {NoT}]
  mode,     \* "basic" | "hamt"  representation of the live directory object
  set,      \* live per-directory settings [thr, maxLinks, est]
  bk,       \* implementation bookkeeping [est, tl, sc]
  trie,     \* [s : set of shard paths (incl. root <<>>), v : key -> path of the shard holding it]
  err,      \* result of the last call: "" | "notExist" | "maxLinks"
  dev,      \* deviations used in this run
  parked,   \* the OTHER live directory objects: sequence of [entries, mode, set, bk, trie]
  nodes     \* root nodes handed out earlier and still held by the caller: sequence of
            \* [owner, e, e0]: owner = Me (the focused object returned it from GetNode), k >= 1
            \* (parked[k] did), Nobody (decoded from the store, or its directory is gone);
            \* e = the entries it shows, e0 = the entries it showed when it was handed out

vars == <<w, cfg, entries, mode, set, bk, trie, err, dev, parked, nodes>>

NoT     == "-"
Names   == DOMAIN w.len
Targets == DOMAIN w.cidLen
Kinds   == {"basic", "hamt", "dynamic"}
Ests    == {"links", "block", "disabled"}

Max(S) == CHOOSE x \in S : \A y \in S : x >= y
ToSet(s) == {s[i] : i \in 1..Len(s)}

(* ------------------------------------------------------------------ sizes ---------- *)
VarintLen(v) == IF v < 128 THEN 1 ELSE IF v < 16384 THEN 2 ELSE IF v < 2097152 THEN 3 ELSE 4
\* dag-pb PBLink inside PBNode.Links, from the protobuf wire rules
LinkSzBlockBy(nameLen, t) ==
  LET ll == 1 + VarintLen(w.cidLen[t]) + w.cidLen[t] + 1 + VarintLen(nameLen) + nameLen
            + 1 + VarintLen(w.tsize[t])
  IN 1 + VarintLen(ll) + ll
LinkSzBy(est, nameLen, t) == CASE est = "links"    -> nameLen + w.cidLen[t]
                               [] est = "block"    -> LinkSzBlockBy(nameLen, t)
                               [] est = "disabled" -> 0
LinkSz(est, n, t) == LinkSzBy(est, w.len[n], t)
\* UnixFS Data field of a directory node: Type only, or Type + mode 0755 + mtime (seconds, 5-byte varint)
DataSz == IF cfg.stat = "none" THEN 4 ELSE 15
PadLen == CASE cfg.width <= 16 -> 1 [] cfg.width <= 256 -> 2 [] OTHER -> 3

Keys(e)  == {n \in Names : e[n] # NoT}
Count(e) == Cardinality(Keys(e))
RECURSIVE SumSz(_, _, _)
SumSz(est, e, K) == IF K = {} THEN 0
                    ELSE LET n == CHOOSE x \in K : TRUE IN LinkSz(est, n, e[n]) + SumSz(est, e, K \ {n})
EstSizeBy(est, e) == (IF est = "block" THEN DataSz ELSE 0) + SumSz(est, e, Keys(e))

(* ------------------------------------------------------------------ the rule -------- *)
\* documented: shard when the estimated size is above the threshold (per-directory value if set,
\* else the global one; 0 = size criterion off; Disabled mode ignores it) or above MaxLinks.
EffThrOf(s)        == IF s.thr > 0 THEN s.thr ELSE cfg.gthr
SizeOnOf(s)        == s.est # "disabled" /\ EffThrOf(s) > 0
ShouldShardBy(s, e) == \/ SizeOnOf(s) /\ EstSizeBy(s.est, e) > EffThrOf(s)
                       \/ s.maxLinks > 0 /\ Count(e) > s.maxLinks
CfgSettings == [thr |-> cfg.thr, maxLinks |-> cfg.maxLinks, est |-> cfg.est]
EffThr         == EffThrOf(set)
SizeOn         == SizeOnOf(set)
ShouldShard(e) == ShouldShardBy(set, e)
CritOn         == SizeOn \/ set.maxLinks > 0       \* some criterion can move the directory at all

(* ------------------------------------------------------------------ HAMT trie ------- *)
HLen      == Len(w.h[CHOOSE n \in Names : TRUE])
Pfx(n, k) == SubSeq(w.h[n], 1, k)
LCP(a, b) == Max({k \in 0..HLen : \A i \in 1..k : w.h[a][i] = w.h[b][i]})
EmptyTrie == [s |-> {<<>>}, v |-> <<>>]
\* the unique trie in which a shard exists exactly for every prefix shared by >= 2 keys
CanonTrie(K) ==
  [s |-> {<<>>} \cup {p \in {Pfx(n, k) : n \in K, k \in 1..(HLen - 1)} :
                          Cardinality({m \in K : Pfx(m, Len(p)) = p}) >= 2},
   v |-> [n \in K |-> Pfx(n, Max({0} \cup {LCP(n, m) : m \in K \ {n}}))]]
\* swapValue, value # nil, key absent: descend while the slot holds a shard; empty slot => value
\* here; slot holds another value => fork new shards down to the first differing digit.
TrieInsert(tr, n) ==
  LET K   == DOMAIN tr.v
      d   == Max({k \in 0..(HLen - 1) : Pfx(n, k) \in tr.s})
      occ == {m \in K : tr.v[m] = Pfx(n, d) /\ w.h[m][d + 1] = w.h[n][d + 1]}
  IN
  IF occ = {} THEN [s |-> tr.s, v |-> [x \in K \cup {n} |-> IF x = n THEN Pfx(n, d) ELSE tr.v[x]]]
  ELSE LET m == CHOOSE x \in occ : TRUE
           c == LCP(n, m)
       IN [s |-> tr.s \cup {Pfx(n, k) : k \in (d + 1)..c},
           v |-> [x \in K \cup {n} |-> IF x \in {n, m} THEN Pfx(n, c) ELSE tr.v[x]]]
\* swapValue, value = nil: remove the value, then on the way back up every shard on the path
\* that is left with exactly one child which is a value hands it to its parent and disappears.
RECURSIVE Unwind(_, _, _, _)
Unwind(s, v, n, k) ==
  IF k = 0 THEN [s |-> s, v |-> v]
  ELSE LET p    == Pfx(n, k)
           vals == {x \in DOMAIN v : v[x] = p}
           subs == {q \in s : Len(q) = k + 1 /\ SubSeq(q, 1, k) = p}
       IN IF p \in s /\ subs = {} /\ Cardinality(vals) <= 1
          THEN Unwind(s \ {p}, [x \in DOMAIN v |-> IF x \in vals THEN Pfx(n, k - 1) ELSE v[x]], n, k - 1)
          ELSE Unwind(s, v, n, k - 1)
TrieRemove(tr, n) ==
  Unwind(tr.s, [x \in DOMAIN tr.v \ {n} |-> tr.v[x]], n, Len(tr.v[n]))
RootLinks(tr) == Cardinality({x \in DOMAIN tr.v : tr.v[x] = <<>>}) + Cardinality({q \in tr.s : Len(q) = 1})
\* lookup as getValue does it: follow shards, then the slot must hold exactly this key
Resolves(tr, n) == /\ n \in DOMAIN tr.v
                   /\ LET d == Max({k \in 0..(HLen - 1) : Pfx(n, k) \in tr.s}) IN tr.v[n] = Pfx(n, d)
                   /\ \A k \in 0..Len(tr.v[n]) : Pfx(n, k) \in tr.s

(* ------------------------------------------------------------------ outcomes -------- *)
Out(e, m, s, tr, er, d) == /\ entries' = e /\ mode' = m /\ set' = s /\ trie' = tr /\ err' = er
                           /\ dev' = dev \cup d /\ UNCHANGED <<w, cfg>>
Same(er, d) == Out(entries, mode, set, trie, er, d)

Present(n)  == entries[n] # NoT
With(n, t)  == [entries EXCEPT ![n] = t]
MaxOK(e)    == set.maxLinks = 0 \/ Count(e) <= set.maxLinks
\* size delta of the operation as needsToSwitchToBasicDir means to compute it (units of the mode)
Delta(n, t) == (IF t = NoT THEN 0 ELSE LinkSz(set.est, n, t))
               - (IF Present(n) THEN LinkSz(set.est, n, entries[n]) ELSE 0)
\* The two op-size deviations: the link built from the node to add has no name (DevNewName); the
\* old link may still carry the PadLen-character slot prefix in its name (DevPrefix).  Each makes the
\* computed delta smaller than Delta by the "slack" below.
SlackNew(n, t) == LinkSz(set.est, n, t) - LinkSzBy(set.est, 0, t)
SlackOld(n)    == LinkSzBy(set.est, w.len[n] + PadLen, entries[n]) - LinkSz(set.est, n, entries[n])
\* candidate explanations, smallest set of deviations first
SlackCands(n, t) ==
  LET new == t # NoT /\ DevNewName \in Devs
      old == Present(n) /\ DevPrefix \in Devs
  IN << [ok |-> new, s |-> IF t # NoT THEN SlackNew(n, t) ELSE 0, d |-> {DevNewName}],
        [ok |-> old, s |-> IF Present(n) THEN SlackOld(n) ELSE 0, d |-> {DevPrefix}],
        [ok |-> new /\ old, s |-> (IF t # NoT THEN SlackNew(n, t) ELSE 0) + (IF Present(n) THEN SlackOld(n) ELSE 0),
         d |-> {DevNewName, DevPrefix}] >>
MaxSlack(n, t) == (IF t # NoT THEN SlackNew(n, t) ELSE 0) + (IF Present(n) THEN SlackOld(n) ELSE 0)

TrieAfterAdd(n) == IF Present(n) THEN trie ELSE TrieInsert(trie, n)

(* ---- pure BasicDirectory ---- *)
BasicAdd(n, t) ==
  IF ~Present(n) /\ set.maxLinks > 0 /\ Count(entries) + 1 > set.maxLinks
  THEN Same("maxLinks", {})                                   \* documented for pure basic directories
  ELSE Out(With(n, t), "basic", set, EmptyTrie, "", {})
(* ---- pure HAMTDirectory ---- *)
HamtAdd(n, t) == Out(With(n, t), "hamt", set, TrieAfterAdd(n), "", {})

(* ---- DynamicDirectory.AddChild on a BasicDirectory: needsToSwitchToHAMTDir ---- *)
DynBasicAdd(n, t) ==
  LET e2     == With(n, t)
      maxEx  == ~Present(n) /\ set.maxLinks > 0 /\ Count(entries) + 1 > set.maxLinks
      sizeEx == SizeOn /\ EstSizeBy(set.est, e2) > EffThr
  IN \/ (sizeEx \/ maxEx)  /\ Out(e2, "hamt", set, CanonTrie(Keys(e2)), "", {})
     \/ ~(sizeEx \/ maxEx) /\ Out(e2, "basic", set, EmptyTrie, "", {})
     \/ /\ DevZero \in Devs /\ set.est = "disabled" /\ EffThr = 0 /\ maxEx
        /\ Same("maxLinks", {DevZero})          \* early return => plain basic add => limit error

(* ---- DynamicDirectory.AddChild / RemoveChild on a HAMTDirectory: needsToSwitchToBasicDir.
        t = NoT is RemoveChild of a present name. ---- *)
DynHamtOp(n, t) ==
  LET e2      == With(n, t)
      tr2     == IF t = NoT THEN TrieRemove(trie, n) ELSE TrieAfterAdd(n)
      toBasic == CritOn /\ ~ShouldShard(e2)
      newTL   == bk.tl + (IF t = NoT THEN 0 ELSE 1) - (IF Present(n) THEN 1 ELSE 0)
      fits(x) == EstSizeBy(set.est, e2) - x <= EffThr /\ bk.sc + Delta(n, t) - x < 0
      cands   == SlackCands(n, t)
      okIdx   == {i \in 1..3 : cands[i].ok /\ fits(cands[i].s)}
      opSize(thrLost) ==        \* believed below the threshold although it is not
          /\ ~toBasic /\ SizeOn /\ MaxOK(e2) /\ okIdx # {}
          /\ LET c == cands[CHOOSE i \in okIdx : \A j \in okIdx : i <= j]
             IN Out(e2, "basic", IF thrLost THEN [set EXCEPT !.thr = 0] ELSE set, EmptyTrie, "",
                    c.d \cup IF thrLost THEN {DevAddThr} ELSE {})
  IN \/ toBasic  /\ Out(e2, "basic", set, EmptyTrie, "", {})
     \/ ~toBasic /\ Out(e2, "hamt", set, tr2, "", {})
     \/ /\ DevGate \in Devs /\ toBasic /\ set.est # "disabled"
        /\ bk.sc + Delta(n, t) >= 0                        \* the size-change gate: not even evaluated
        /\ Out(e2, "hamt", set, tr2, "", {DevGate})
     \/ /\ DevAddThr \in Devs /\ toBasic /\ t # NoT /\ set.thr > 0
        /\ Out(e2, "basic", [set EXCEPT !.thr = 0], EmptyTrie, "", {DevAddThr})
     \/ opSize(FALSE)
     \/ DevAddThr \in Devs /\ t # NoT /\ set.thr > 0 /\ opSize(TRUE)
     \/ /\ DevReload \in Devs /\ set.maxLinks > 0 /\ bk.tl < Count(entries)
        /\ newTL <= set.maxLinks /\ Count(e2) > set.maxLinks
        /\ set.est = "disabled" \/ EstSizeBy(set.est, e2) - MaxSlack(n, t) <= EffThr
        /\ Same("maxLinks", {DevReload})     \* conversion started on the wrong count, copy hits the limit

AddCore(n, t) == CASE cfg.kind = "basic" -> BasicAdd(n, t)
                   [] cfg.kind = "hamt"  -> HamtAdd(n, t)
                   [] OTHER -> IF mode = "basic" THEN DynBasicAdd(n, t) ELSE DynHamtOp(n, t)
\* DevReload also hits a removal of an ABSENT name: the conversion is attempted before the lookup
ReloadMiss(n) == /\ DevReload \in Devs /\ cfg.kind = "dynamic" /\ mode = "hamt" /\ set.maxLinks > 0
                 /\ bk.tl < Count(entries) /\ bk.tl <= set.maxLinks /\ Count(entries) > set.maxLinks + 1
                 /\ Same("maxLinks", {DevReload})
RemoveCore(n) ==
  IF ~Present(n) THEN Same("notExist", {}) \/ (ReloadMiss(n) /\ (set.est = "disabled" \/ EstSizeBy(set.est, entries) <= EffThr))
  ELSE CASE mode = "basic" -> Out(With(n, NoT), "basic", set, EmptyTrie, "", {})
         [] cfg.kind = "hamt" -> Out(With(n, NoT), "hamt", set, TrieRemove(trie, n), "", {})
         [] OTHER -> DynHamtOp(n, NoT)
\* a new directory object from the root node; the caller re-applies the settings (as MFS does)
ReloadCore == Out(entries, mode, CfgSettings, trie, "", {})

(* ---- C15: independence of directory objects -------------------------------------- *)
Me        == 0
Nobody    == -1
MaxParked == 2                   \* at most 3 live directory objects, 2 retained nodes
ThisObj   == [entries |-> entries, mode |-> mode, set |-> set, bk |-> bk, trie |-> trie]
\* A call on the focused object changes no other directory object.  A retained node is a value of
\* its own as well: it can change only in lock-step with the object that returned it from GetNode
\* ("the root of this directory": the interface leaves open whether that is the live root or a
\* snapshot, BasicDirectory and HAMTDirectory differ) -- never through any other object.
Own == {i \in DOMAIN nodes : nodes[i].owner = Me}
NodesAfter(F) == [i \in DOMAIN nodes |-> IF i \in F THEN [nodes[i] EXCEPT !.e = entries'] ELSE nodes[i]]
CallFrame(F)  == F \subseteq Own /\ parked' = parked /\ nodes' = NodesAfter(F)
ReOwn(f(_))   == [i \in DOMAIN nodes |-> [nodes[i] EXCEPT !.owner = f(nodes[i].owner)]]
\* Reload replaces the focused object by the one loaded from its root; the old object is dropped
ReloadFrame == /\ parked' = parked
               /\ LET f(o) == IF o = Me THEN Nobody ELSE o IN nodes' = ReOwn(f)
\* Fork: load a second directory from the root node of the focused one and keep BOTH: the old
\* object is parked, the calls go to the copy, the caller keeps the node it loaded from
\* (via = "node": the very node GetNode returned; "store": the node decoded from the block store)
ForkFrame(via) ==
  LET k == Len(parked) + 1
      f(o) == IF o = Me THEN k ELSE o
  IN /\ k <= MaxParked
     /\ parked' = Append(parked, ThisObj)
     /\ nodes' = Append(ReOwn(f), [owner |-> IF via = "node" THEN k ELSE Nobody, e |-> entries, e0 |-> entries])
\* Focus: the next calls go to parked[k]; it is found exactly as it was left (bk' left open as in
\* the other *Core actions)
FocusCore(k) ==
  LET f(o) == IF o = Me THEN k ELSE IF o = k THEN Me ELSE o
  IN /\ k \in DOMAIN parked
     /\ entries' = parked[k].entries /\ mode' = parked[k].mode /\ set' = parked[k].set
     /\ trie' = parked[k].trie /\ err' = "" /\ dev' = dev /\ UNCHANGED <<w, cfg>>
     /\ parked' = [parked EXCEPT ![k] = ThisObj]
     /\ nodes' = ReOwn(f)

(* ---- C15 alone: the same map / trie steps with the representation left open ---- *)
MapAdd(n, t, m2) ==
  \/ /\ cfg.kind = "basic" /\ BasicAdd(n, t)
  \/ /\ cfg.kind # "basic" /\ m2 \in (IF cfg.kind = "hamt" THEN {"hamt"} ELSE {"basic", "hamt"})
     /\ \/ Out(With(n, t), m2, set, CASE m2 = "basic" -> EmptyTrie
                                      [] mode = "hamt" -> TrieAfterAdd(n)
                                      [] OTHER -> CanonTrie(Keys(With(n, t))), "", {})
        \/ /\ DevReload \in Devs /\ cfg.kind = "dynamic" /\ mode = "hamt" /\ set.maxLinks > 0
           /\ bk.tl < Count(entries) /\ Count(With(n, t)) > set.maxLinks
           /\ bk.tl + 1 - (IF Present(n) THEN 1 ELSE 0) <= set.maxLinks
           /\ Same("maxLinks", {DevReload})
MapRemove(n, m2) ==
  IF ~Present(n) THEN Same("notExist", {}) \/ ReloadMiss(n)
  ELSE \/ /\ m2 \in (IF cfg.kind = "dynamic" /\ mode = "hamt" THEN {"basic", "hamt"} ELSE {mode})
          /\ Out(With(n, NoT), m2, set, IF m2 = "hamt" THEN TrieRemove(trie, n) ELSE EmptyTrie, "", {})
       \/ /\ DevReload \in Devs /\ cfg.kind = "dynamic" /\ mode = "hamt" /\ set.maxLinks > 0
          /\ bk.tl < Count(entries) /\ Count(entries) > set.maxLinks + 1 /\ bk.tl - 1 <= set.maxLinks
          /\ Same("maxLinks", {DevReload})

(* ------------------------------------------------------------------ bookkeeping rule - *)
\* how the code maintains estimatedSize / totalLinks / sizeChange (sizeChange always in
\* "links" units, even in block mode)
BkRule(n, t, isReload) ==
  bk' = IF isReload
        THEN IF mode = "basic" THEN [est |-> EstSizeBy(set'.est, entries), tl |-> Count(entries), sc |-> 0]
             ELSE [est |-> 0, tl |-> RootLinks(trie), sc |-> 0]
        ELSE IF err' # "" THEN bk
        ELSE LET dl == (IF t = NoT THEN 0 ELSE LinkSz("links", n, t))
                       - (IF Present(n) THEN LinkSz("links", n, entries[n]) ELSE 0)
                 dt == (IF t = NoT THEN 0 ELSE 1) - (IF Present(n) THEN 1 ELSE 0)
             IN CASE mode' = "basic" -> [est |-> EstSizeBy(set'.est, entries'), tl |-> Count(entries'), sc |-> 0]
                  [] mode = "basic"  -> [est |-> 0, tl |-> Count(entries'), sc |-> dl]
                  [] OTHER           -> [est |-> 0, tl |-> bk.tl + dt, sc |-> bk.sc + dl]

(* ------------------------------------------------------------------ model checking --- *)
CONSTANTS Worlds, CfgSet(_)      \* instances explored by Init (see the MC* / Gen* definitions)

Start(ww, cc) == [entries |-> [n \in DOMAIN ww.len |-> NoT],
                  mode |-> IF cc.kind = "hamt" THEN "hamt" ELSE "basic",
                  set |-> [thr |-> cc.thr, maxLinks |-> cc.maxLinks, est |-> cc.est],
                  bk |-> [est |-> IF cc.est = "block" THEN (IF cc.stat = "none" THEN 4 ELSE 15) ELSE 0,
                          tl |-> 0, sc |-> 0]]
InitWith(ww, cc) ==
        /\ w = ww /\ cfg = cc /\ entries = Start(ww, cc).entries /\ mode = Start(ww, cc).mode
        /\ set = Start(ww, cc).set /\ bk = Start(ww, cc).bk
        /\ trie = EmptyTrie /\ err = "" /\ dev = {} /\ parked = <<>> /\ nodes = <<>>
\* a fresh directory of configuration cc in world ww (new run)
ResetTo(ww, cc) ==
        /\ w' = ww /\ cfg' = cc /\ entries' = Start(ww, cc).entries /\ mode' = Start(ww, cc).mode
        /\ set' = Start(ww, cc).set /\ bk' = Start(ww, cc).bk
        /\ trie' = EmptyTrie /\ err' = "" /\ dev' = {} /\ parked' = <<>> /\ nodes' = <<>>
Init == \E ww \in Worlds : \E cc \in CfgSet(ww) : InitWith(ww, cc)

AnyFrame  == \E F \in SUBSET Own : CallFrame(F)
Add(n, t) == AddCore(n, t) /\ BkRule(n, t, FALSE) /\ AnyFrame
Remove(n) == RemoveCore(n) /\ BkRule(n, NoT, FALSE) /\ AnyFrame
Reload    == ReloadCore /\ BkRule(NoT, NoT, TRUE) /\ ReloadFrame

Next == \/ \E n \in Names : (\E t \in Targets : Add(n, t)) \/ Remove(n)
        \/ Reload
Spec == Init /\ [][Next]_vars

\* several live objects (C15 independence)
Fork(via) == ReloadCore /\ BkRule(NoT, NoT, TRUE) /\ ForkFrame(via)
Focus(k)  == FocusCore(k) /\ bk' = parked[k].bk
NextObjs  == Next \/ (\E via \in {"node", "store"} : Fork(via)) \/ (\E k \in DOMAIN parked : Focus(k))
SpecObjs  == Init /\ [][NextObjs]_vars

(* ------------------------------------------------------------------ invariants ------- *)
TypeOK == /\ entries \in [Names -> Targets \cup {NoT}] /\ mode \in {"basic", "hamt"}
          /\ err \in {"", "notExist", "maxLinks"} /\ dev \subseteq Devs
          /\ DOMAIN trie.v = (IF mode = "hamt" THEN Keys(entries) ELSE {})
          /\ cfg.kind = "basic" => mode = "basic"
          /\ cfg.kind = "hamt" => mode = "hamt"
\* C15: the trie is a function of the key set, and every stored name resolves
Canonical  == trie = (IF mode = "hamt" THEN CanonTrie(Keys(entries)) ELSE EmptyTrie)
Resolvable == mode = "hamt" => \A n \in Keys(entries) : Resolves(trie, n)
\* C16
ShardedIffRuleStrict == cfg.kind = "dynamic" => ((mode = "hamt") <=> ShouldShardBy(CfgSettings, entries))
ShardedIffRule       == dev = {} => ShardedIffRuleStrict
SettingsSurvive      == dev = {} => set = CfgSettings
\* the root node is determined by representation + entries (+ trie shape) under a fixed
\* configuration; it must equal the root of the canonical fresh build of the same entries
RootOf    == [mode |-> mode, e |-> entries, trie |-> trie]
CanonRoot == LET m == IF cfg.kind = "hamt" \/ (cfg.kind = "dynamic" /\ ShouldShardBy(CfgSettings, entries))
                      THEN "hamt" ELSE "basic"
             IN [mode |-> m, e |-> entries, trie |-> IF m = "hamt" THEN CanonTrie(Keys(entries)) ELSE EmptyTrie]
CidFunctionOfEntries == dev = {} => RootOf = CanonRoot
\* pure basic directories respect MaxLinks
BasicLimit == cfg.kind = "basic" /\ cfg.maxLinks > 0 => Count(entries) <= cfg.maxLinks

\* C15 independence: every live object is a well-formed directory of its own, and a step leaves
\* every object it is not addressed to exactly as it was (still parked, or focused now), and
\* changes a retained node only together with the object that handed it out
ObjsOK == /\ Len(parked) <= MaxParked /\ Len(nodes) <= MaxParked
          /\ \A k \in DOMAIN parked :
                /\ parked[k].entries \in [Names -> Targets \cup {NoT}] /\ parked[k].mode \in {"basic", "hamt"}
                /\ parked[k].trie = (IF parked[k].mode = "hamt" THEN CanonTrie(Keys(parked[k].entries)) ELSE EmptyTrie)
          /\ \A i \in DOMAIN nodes : nodes[i].owner \in {Me, Nobody} \cup DOMAIN parked
Independent ==
  /\ \A k \in DOMAIN parked :
        \/ k \in DOMAIN parked' /\ parked'[k] = parked[k]
        \/ /\ entries' = parked[k].entries /\ mode' = parked[k].mode /\ trie' = parked[k].trie
           /\ set' = parked[k].set /\ bk' = parked[k].bk
  /\ \A i \in DOMAIN nodes :
        /\ i \in DOMAIN nodes' /\ nodes'[i].e0 = nodes[i].e0
        /\ nodes'[i].e # nodes[i].e => nodes[i].owner = Me /\ nodes'[i].e = entries'
Independence == [][Independent]_vars

\* bk is read only by deviation guards: with Devs = {} it cannot influence behaviour
ViewNoBk == <<w, cfg, entries, mode, set, trie, err, dev, parked, nodes>>

(* ------------------------------------------------------------------ MC instances ----- *)
\* abstract world for model checking: 4 names of sizes 1..3, two targets, hash digits with every
\* sharing pattern (b,c share 2 levels with each other and 1 with a; d alone; chain: c2)
MCWorld(hh) == [len |-> [a |-> 1, b |-> 2, c |-> 3, d |-> 2], h |-> hh,
                cidLen |-> [T1 |-> 2, T2 |-> 4], tsize |-> [T1 |-> 1, T2 |-> 200]]
MCWorlds == {MCWorld([a |-> <<0, 0, 0, 0>>, b |-> <<0, 1, 0, 0>>, c |-> <<0, 1, 1, 0>>, d |-> <<1, 0, 0, 0>>]),
             MCWorld([a |-> <<0, 0, 0, 1>>, b |-> <<0, 0, 0, 0>>, c |-> <<0, 1, 1, 0>>, d |-> <<0, 1, 0, 0>>])}
MCWorlds1 == {MCWorld([a |-> <<0, 0, 0, 0>>, b |-> <<0, 1, 0, 0>>, c |-> <<0, 1, 1, 0>>, d |-> <<1, 0, 0, 0>>])}
MCCfgs(ww) == {c \in [kind : Kinds, est : Ests, gthr : {0, 9, 1000}, thr : {0, 8}, maxLinks : {0, 2},
                      width : {8}, stat : {"none"}, cb : {"v0"}] :
                 /\ c.est # "disabled" => c.gthr > 0
                 /\ c.kind # "dynamic" => c.thr = 0 /\ c.gthr = 1000 /\ c.est = "links"}
\* C15 independence: a 2-name world, one configuration of every kind (+ a basic one with a limit)
MCWorldsObj == {[len |-> [a |-> 1, b |-> 2], h |-> [a |-> <<0, 0, 0, 0>>, b |-> <<0, 1, 0, 0>>],
                 cidLen |-> [T1 |-> 2, T2 |-> 4], tsize |-> [T1 |-> 1, T2 |-> 200]]}
MCCfgsObj(ww) ==
  {c \in MCCfgs(ww) : /\ c.thr = 0
                      /\ c.est = "links"
                      /\ c.gthr = (IF c.kind = "dynamic" THEN 9 ELSE 1000)
                      /\ (c.maxLinks = 2 => c.kind = "basic")}
ObjsBound == Len(parked) <= 1
\* with Devs = {} the bookkeeping and the last result are never read; e0 is constant per node
ViewObjs == <<w, cfg, entries, mode, set, trie, dev,
              [k \in DOMAIN parked |-> <<parked[k].entries, parked[k].mode, parked[k].set, parked[k].trie>>],
              [i \in DOMAIN nodes |-> <<nodes[i].owner, nodes[i].e>>]>>
\* the as-built model (all deviations enabled): dynamic directories, thresholds at the boundary
MCCfgsDyn(ww) == {c \in MCCfgs(ww) : c.kind = "dynamic" /\ c.gthr \in {0, 9}}
\* C15 alone: all kinds, one threshold, no per-directory value
MCCfgsMap(ww) == {c \in MCCfgs(ww) : c.thr = 0 /\ c.gthr \in {9, 1000} /\ c.est # "block"}
=============================================================================
