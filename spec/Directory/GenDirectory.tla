---------------------------- MODULE GenDirectory ----------------------------
(* Phase G for C15/C16: TLC enumerates the configurations (CASE lines) and the edit histories
   (BEHAVIOUR lines) that are replayed into the real directories.  The replay is recorded as a
   trace and every step is then checked by TraceDirectory (which carries the deviations), so the
   histories printed here are inputs. *)
EXTENDS Directory, Json

CONSTANTS D,        \* history length (BFS) / upper bound (simulation)
          E,        \* emit when Len(hist) = E
          GCases,   \* set of [w, cfg] explored
          OpsMode   \* "c15": adds, replacements, removals (also of absent names), reloads, and the
                    \*        object steps: Fork (load a 2nd/3rd live directory from the root node,
                    \*        keep the old one and the node), Focus (redirect the calls to a parked one)
                    \* "c16": adds, replacements, removals of present names
VARIABLE hist
gvars == <<vars, hist>>

(* ---- worlds: real byte lengths (names are invented by the harness with exactly these lengths
        and with the pairwise common-prefix pattern of h under the real murmur3 digits) ---- *)
Tg == [cidLen |-> [T1 |-> 34, T2 |-> 68], tsize |-> [T1 |-> 4, T2 |-> 203]]
P0 == [a |-> <<0,0,0,0,0,0>>, b |-> <<1,0,0,0,0,0>>, c |-> <<2,0,0,0,0,0>>, d |-> <<3,0,0,0,0,0>>]
P1 == [a |-> <<0,0,0,0,0,0>>, b |-> <<0,0,1,0,0,0>>, c |-> <<0,1,0,0,0,0>>, d |-> <<1,0,0,0,0,0>>]
P2 == [a |-> <<0,0,0,0,0,0>>, b |-> <<0,0,0,1,0,0>>, c |-> <<0,1,0,0,0,0>>, d |-> <<0,1,1,0,0,0>>]
P3 == [a |-> <<0,0,0,0,0,0>>, b |-> <<0,0,0,0,1,0>>, c |-> <<0,0,1,0,0,0>>, d |-> <<0,0,2,0,0,0>>]
World(lens, hh) == [len |-> lens, h |-> hh, cidLen |-> Tg.cidLen, tsize |-> Tg.tsize]
Len15 == [a |-> 1, b |-> 255, c |-> 3, d |-> 8]     \* 1-char and 255-char names
Len16 == [a |-> 3, b |-> 4, c |-> 5, d |-> 4]
\* shard width x sharing pattern: deep sharing only where the brute-force name search is cheap
WP == {<<8, P0>>, <<8, P1>>, <<8, P2>>, <<8, P3>>, <<16, P2>>, <<16, P3>>, <<256, P1>>, <<1024, P1>>}
Big == 262144                                      \* the default global HAMTShardingSize

Cfg(k, e, g, t, m, wd, st, cb) ==
  [kind |-> k, est |-> e, gthr |-> g, thr |-> t, maxLinks |-> m, width |-> wd, stat |-> st, cb |-> cb]

(* C15: kinds x max-links x thresholds (global / per directory) x estimation modes x widths x
   hash sharing x stat x CID builder *)
Cases15 ==
  {[w |-> World(Len15, wp[2]), cfg |-> Cfg("dynamic", e, gt[1], gt[2], m, wp[1], st, cb)] :
       e \in Ests, gt \in {<<Big, 0>>, <<300, 0>>, <<Big, 300>>}, m \in {0, 2}, wp \in WP,
       st \in {"none", "set"}, cb \in {"v0", "v1"}}
  \cup {[w |-> World(Len15, wp[2]), cfg |-> Cfg("hamt", "links", Big, 0, 0, wp[1], st, cb)] :
       wp \in WP, st \in {"none", "set"}, cb \in {"v0", "v1"}}
  \cup {[w |-> World(Len15, P0), cfg |-> Cfg("basic", e, Big, 0, m, 8, st, cb)] :
       e \in {"links", "block"}, m \in {0, 2}, st \in {"none", "set"}, cb \in {"v0", "v1"}}
\* the cases whose histories are enumerated exhaustively in the quick tier
Base15 ==
  {[w |-> World(Len15, P2), cfg |-> Cfg("dynamic", "links", 300, 0, 0, 8, "none", "v0")],
   [w |-> World(Len15, P3), cfg |-> Cfg("dynamic", "block", Big, 300, 2, 16, "set", "v1")],
   [w |-> World(Len15, P1), cfg |-> Cfg("dynamic", "disabled", Big, 0, 2, 8, "none", "v0")],
   [w |-> World(Len15, P3), cfg |-> Cfg("hamt", "links", Big, 0, 0, 8, "none", "v0")],
   [w |-> World(Len15, P1), cfg |-> Cfg("hamt", "links", Big, 0, 0, 256, "set", "v1")],
   [w |-> World(Len15, P0), cfg |-> Cfg("basic", "links", Big, 0, 2, 8, "none", "v0")]}

\* histories for C15 do not depend on the case (every op is always enabled): enumerate them once
Generic15 == {[w |-> World(Len15, P3), cfg |-> Cfg("hamt", "links", Big, 0, 0, 8, "none", "v0")]}

(* C16: dynamic directories, thresholds placed so that the 2nd / 3rd entry crosses:
   links mode  {a,b}->T1 = 75, {a,b,c}->T1 = 114;  block mode 95 / 142 (+11 with mode+mtime) *)
ThrOf(e, st) == IF e = "links" THEN {74, 75, 76, 113, 114}
                ELSE {x + (IF st = "set" THEN 11 ELSE 0) : x \in {94, 95, 96, 141, 142}}
Cases16 ==
  UNION {{[w |-> World(Len16, wp[2]), cfg |-> Cfg("dynamic", es[1], gt[1], gt[2], m, wp[1], es[2], "v0")] :
            wp \in {<<8, P2>>, <<256, P1>>}, m \in {0, 3},
            gt \in {<<x, 0>> : x \in ThrOf(es[1], es[2])} \cup {<<Big, x>> : x \in ThrOf(es[1], es[2])}} :
         es \in {"links", "block"} \X {"none", "set"}}
  \cup {[w |-> World(Len16, wp[2]), cfg |-> Cfg("dynamic", "disabled", g, 0, m, wp[1], "none", "v0")] :
       wp \in {<<8, P2>>, <<256, P1>>}, m \in {2, 3}, g \in {0, Big}}
  \cup {[w |-> World(Len16, P3), cfg |-> Cfg("hamt", "links", Big, 0, 0, 8, "none", "v0")]}
Base16 ==
  {c \in Cases16 :
     \/ /\ c.cfg.width = 8
        /\ \/ /\ c.cfg.stat = "none" /\ c.cfg.est = "links"
              /\ <<c.cfg.gthr, c.cfg.thr, c.cfg.maxLinks>> \in {<<75, 0, 0>>, <<Big, 76, 0>>, <<Big, 114, 3>>}
           \/ /\ c.cfg.stat = "set" /\ c.cfg.est = "block"       \* 95 + 11 bytes of mode/mtime
              /\ <<c.cfg.gthr, c.cfg.thr, c.cfg.maxLinks>> = <<Big, 106, 0>>
           \/ c.cfg.est = "disabled" /\ c.cfg.maxLinks = 2
     \* width 256 (2-character slot prefix); replayed WITHOUT ForEachLink in the observations, so that
     \* link names inside the shard keep their prefix (Dev_C16_OpSizePrefix)
     \/ /\ c.cfg.width = 256 /\ c.cfg.stat = "none" /\ c.cfg.est = "links"
        /\ <<c.cfg.gthr, c.cfg.thr, c.cfg.maxLinks>> = <<75, 0, 0>>}
One16 == {c \in Base16 : c.cfg.est = "links" /\ c.cfg.gthr = 75 /\ c.cfg.width = 8}

(* ---- histories ---- *)
AddOps == {nt \in Names \X Targets : nt[2] = "T1" \/ nt[1] \in {"a", "b"}}
GInit == hist = <<>> /\ \E c \in GCases : InitWith(c.w, c.cfg)
\* Every call is enabled in every state of Directory (with some outcome), so each op sequence is
\* a history of the spec; only `entries` is evolved here (to prune no-op removals), the full step
\* relation is applied to the recorded replay by TraceDirectory.
Light(e) == entries' = e /\ UNCHANGED <<w, cfg, mode, set, bk, trie, err, dev, parked, nodes>>
\* object steps, light as well: `parked` carries the entries of the parked objects (so that removals
\* of absent names etc. are pruned per object), `nodes` is not needed to enumerate inputs
GFork(via) == /\ OpsMode = "c15" /\ Len(parked) < MaxParked
              /\ parked' = Append(parked, ThisObj) /\ hist' = Append(hist, <<"F", via, NoT>>)
              /\ UNCHANGED <<w, cfg, entries, mode, set, bk, trie, err, dev, nodes>>
GFocus(k)  == /\ OpsMode = "c15"
              /\ entries' = parked[k].entries /\ parked' = [parked EXCEPT ![k] = ThisObj]
              /\ hist' = Append(hist, <<"S", ToString(k), NoT>>)
              /\ UNCHANGED <<w, cfg, mode, set, bk, trie, err, dev, nodes>>
GNext == /\ Len(hist) < D
         /\ \/ \E nt \in AddOps : Light(With(nt[1], nt[2])) /\ hist' = Append(hist, <<"A", nt[1], nt[2]>>)
            \/ \E n \in Names : /\ OpsMode = "c15" \/ Present(n)
                                /\ Light(With(n, NoT)) /\ hist' = Append(hist, <<"R", n, NoT>>)
            \/ OpsMode = "c15" /\ Light(entries) /\ hist' = Append(hist, <<"L", NoT, NoT>>)
            \/ \E via \in {"node", "store"} : GFork(via)
            \/ \E k \in DOMAIN parked : GFocus(k)
GSpec == GInit /\ [][GNext]_gvars
Beh == [w |-> w, cfg |-> cfg, ops |-> hist]
Emit == Len(hist) # E \/ PrintT(<<"BEHAVIOUR", ToJson(Beh)>>)
EmitOps == Len(hist) # E \/ PrintT(<<"BEHAVIOUR", ToJson(hist)>>)

\* -simulate: one printed history per E steps, then a fresh case
Flush == /\ Len(hist) = E /\ PrintT(<<"BEHAVIOUR", ToJson(Beh)>>)
         /\ hist' = <<>> /\ \E c \in GCases : ResetTo(c.w, c.cfg)
GNextSim == IF Len(hist) = E THEN Flush ELSE GNext
GSpecSim == GInit /\ [][GNextSim]_gvars

\* the configurations alone
CaseSpec == GInit /\ [][FALSE]_gvars
EmitCase == PrintT(<<"CASE", ToJson([w |-> w, cfg |-> cfg, base |-> [w |-> w, cfg |-> cfg] \in Base15])>>)
=============================================================================
