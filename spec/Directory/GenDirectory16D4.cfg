SPECIFICATION GSpec
CONSTANTS Devs = {}
          Worlds <- MCWorlds
          CfgSet <- MCCfgs
          D = 4
          E = 4
          GCases <- Base16
          OpsMode = "c16"
INVARIANTS Emit
