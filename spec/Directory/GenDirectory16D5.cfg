SPECIFICATION GSpec
CONSTANTS Devs = {}
          Worlds <- MCWorlds
          CfgSet <- MCCfgs
          D = 5
          E = 5
          GCases <- Base16
          OpsMode = "c16"
INVARIANTS Emit
