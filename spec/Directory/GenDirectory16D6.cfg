SPECIFICATION GSpec
CONSTANTS Devs = {}
          Worlds <- MCWorlds
          CfgSet <- MCCfgs
          D = 6
          E = 6
          GCases <- Base16
          OpsMode = "c16"
INVARIANTS Emit
