SPECIFICATION GSpec
CONSTANTS Devs = {}
          Worlds <- MCWorlds
          CfgSet <- MCCfgs
          D = 6
          E = 6
          GCases <- One16
          OpsMode = "c16"
INVARIANTS Emit
