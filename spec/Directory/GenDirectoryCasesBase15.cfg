SPECIFICATION CaseSpec
CONSTANTS Devs = {}
          Worlds <- MCWorlds
          CfgSet <- MCCfgs
          D = 0
          E = 0
          GCases <- Base15
          OpsMode = "c15"
INVARIANTS EmitCase
