SPECIFICATION GSpec
CONSTANTS Devs = {}
          Worlds <- MCWorlds
          CfgSet <- MCCfgs
          D = 3
          E = 3
          GCases <- Generic15
          OpsMode = "c15"
INVARIANTS EmitOps
