SPECIFICATION GSpec
CONSTANTS Devs = {}
          Worlds <- MCWorlds
          CfgSet <- MCCfgs
          D = 4
          E = 4
          GCases <- Generic15
          OpsMode = "c15"
INVARIANTS EmitOps
