SPECIFICATION GSpec
CONSTANTS Devs = {}
          Worlds <- MCWorlds
          CfgSet <- MCCfgs
          D = 5
          E = 5
          GCases <- Generic15
          OpsMode = "c15"
INVARIANTS EmitOps
