SPECIFICATION GSpecSim
CONSTANTS Devs = {}
          Worlds <- MCWorlds
          CfgSet <- MCCfgs
          D = 100000
          E = 60
          GCases <- Cases15
          OpsMode = "c15"
