SPECIFICATION GSpecSim
CONSTANTS Devs = {}
          Worlds <- MCWorlds
          CfgSet <- MCCfgs
          D = 100000
          E = 40
          GCases <- Cases16
          OpsMode = "c16"
