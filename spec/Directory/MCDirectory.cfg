SPECIFICATION Spec
CONSTANTS Devs = {}
          Worlds <- MCWorlds
          CfgSet <- MCCfgs
INVARIANTS TypeOK Canonical Resolvable ShardedIffRule SettingsSurvive CidFunctionOfEntries BasicLimit
VIEW ViewNoBk
CHECK_DEADLOCK FALSE
