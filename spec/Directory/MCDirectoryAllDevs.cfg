SPECIFICATION Spec
CONSTANTS Devs <- AllDevs
          Worlds <- MCWorlds1
          CfgSet <- MCCfgsDyn
INVARIANTS TypeOK Canonical Resolvable ShardedIffRule SettingsSurvive CidFunctionOfEntries BasicLimit
CHECK_DEADLOCK FALSE
