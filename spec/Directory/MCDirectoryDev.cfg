SPECIFICATION Spec
CONSTANTS Devs = {"Dev_C16_SizeGate"}
          Worlds <- MCWorlds
          CfgSet <- MCCfgs
INVARIANTS TypeOK Canonical Resolvable ShardedIffRuleStrict
CHECK_DEADLOCK FALSE
