SPECIFICATION Spec
CONSTANTS Devs = {}
          Worlds <- MCWorlds
          CfgSet <- MCCfgsMap
INVARIANTS TypeOK Canonical Resolvable BasicLimit
VIEW ViewNoBk
CHECK_DEADLOCK FALSE
