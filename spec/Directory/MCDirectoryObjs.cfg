SPECIFICATION SpecObjs
CONSTANTS Devs = {}
          Worlds <- MCWorldsObj
          CfgSet <- MCCfgsObj
INVARIANTS TypeOK Canonical Resolvable BasicLimit ObjsOK
PROPERTY Independence
CONSTRAINT ObjsBound
VIEW ViewObjs
CHECK_DEADLOCK FALSE
