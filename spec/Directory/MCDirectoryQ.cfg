SPECIFICATION Spec
CONSTANTS Devs = {}
          Worlds <- MCWorlds1
          CfgSet <- MCCfgs
INVARIANTS TypeOK Canonical Resolvable ShardedIffRule SettingsSurvive CidFunctionOfEntries BasicLimit
VIEW ViewNoBk
CHECK_DEADLOCK FALSE
