--------------------------- MODULE TraceDirectory ---------------------------
(* Phase G/T binding for C15 and C16: a recorded run of the real directories (one event per
   AddChild / RemoveChild / Reload, each carrying the complete observation battery taken right
   after the call) must be a behaviour of Directory, every observation equal to what the model
   state dictates.  Several runs per trace, separated by Reset events.

   Strict = TRUE  (C16): the representation (basic/HAMT), the live per-directory settings and the
                   root CID class must follow the switching actions of Directory (ideal outcome,
                   or an enabled deviation under its guard).
   Strict = FALSE (C15): map, trie and listing semantics only; the representation is whatever
                   the directory chose (MapAdd / MapRemove), settings are not compared.        *)
EXTENDS Directory, Json

CONSTANTS Strict

Trace == ndJsonDeserialize("trace.ndjson")
VARIABLES l, devAll
tvars == <<vars, l, devAll>>
ASSUME TLCSet(1, 0)

Ev == Trace[l]
IsEvent(e) == l <= Len(Trace) /\ Trace[l].ev = e /\ l' = l + 1

TInit == /\ l = 1 /\ devAll = {}
         /\ w = [len |-> <<>>, h |-> <<>>, cidLen |-> <<>>, tsize |-> <<>>]
         /\ cfg = [kind |-> "basic", est |-> "links", gthr |-> 0, thr |-> 0, maxLinks |-> 0,
                   width |-> 8, stat |-> "none", cb |-> "v0"]
         /\ entries = <<>> /\ mode = "basic" /\ set = [thr |-> 0, maxLinks |-> 0, est |-> "links"]
         /\ bk = [est |-> 0, tl |-> 0, sc |-> 0] /\ trie = EmptyTrie /\ err = "" /\ dev = {}

Pairs(e) == {<<n, e[n]>> : n \in Keys(e)}
Listing(s, e) == ToSet(s) = Pairs(e) /\ Len(s) = Count(e)      \* exactly the entries, no duplicates

\* what the harness observed right after the call, against the primed model state
Observed ==
  /\ err' = Ev.err /\ mode' = Ev.mode /\ bk' = Ev.bk
  /\ Listing(Ev.links, entries') /\ Listing(Ev.each, entries') /\ Listing(Ev.async, entries')
  /\ Listing(Ev.reload, entries')                      \* NewDirectoryFromNode(GetNode()) lists the same
  /\ Ev.find = entries'                                \* Find(name) for every name of the world
  /\ Ev.cidIs = mode'                                  \* root CID = canonical fresh build of this type
  /\ mode' = "hamt" => /\ ToSet(Ev.shards) = trie'.s \ {<<>>}
                       /\ ToSet(Ev.vals) = {<<n, trie'.v[n]>> : n \in DOMAIN trie'.v}
                       /\ Len(Ev.vals) = Cardinality(DOMAIN trie'.v)
  /\ Strict => /\ set' = [thr |-> Ev.thr, maxLinks |-> Ev.maxLinks, est |-> Ev.est]
               /\ (mode' = "basic" /\ set'.est # "disabled") => Ev.bk.est = EstSizeBy(set'.est, entries')
               /\ (dev' = {} /\ Ev.cidDyn # "na") => Ev.cidDyn = "same"
  /\ devAll' = devAll \cup dev'

TReset == /\ IsEvent("Reset")
          /\ ResetTo([len |-> Ev.w.len, h |-> Ev.w.h, cidLen |-> Ev.w.cidLen, tsize |-> Ev.w.tsize], Ev.cfg)
          /\ mode' = Ev.mode /\ bk' = Ev.bk /\ devAll' = devAll
TAdd    == /\ IsEvent("AddChild")
           /\ IF Strict THEN AddCore(Ev.n, Ev.t) ELSE MapAdd(Ev.n, Ev.t, Ev.mode)
           /\ Observed
TRemove == /\ IsEvent("RemoveChild")
           /\ IF Strict THEN RemoveCore(Ev.n) ELSE MapRemove(Ev.n, Ev.mode)
           /\ Observed
TReload == IsEvent("Reload") /\ ReloadCore /\ Observed

TNext == TReset \/ TAdd \/ TRemove \/ TReload
TSpec == TInit /\ [][TNext]_tvars

TraceConstraint == TLCSet(1, IF l - 1 > TLCGet(1) THEN l - 1 ELSE TLCGet(1))
TracePost == PrintT(<<"TRACE_HWM", TLCGet(1)>>)
DevReport == l <= Len(Trace) \/ \A d \in devAll : PrintT(<<"DEV_USED", d>>)
\* the module invariants, evaluated on every state of the run (state before the first Reset excluded)
TInv == l > 1 => /\ TypeOK /\ Canonical /\ Resolvable /\ BasicLimit
                 /\ Strict => ShardedIffRule /\ SettingsSurvive /\ CidFunctionOfEntries
=============================================================================
