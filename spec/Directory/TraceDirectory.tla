--------------------------- MODULE TraceDirectory ---------------------------
(* Phase G/T binding for C15 and C16: a recorded run of the real directories (one event per
   AddChild / RemoveChild / Reload, each carrying the complete observation battery taken right
   after the call) must be a behaviour of Directory, every observation equal to what the model
   state dictates.  Several runs per trace, separated by Reset events.

   Independence (C15): every event also carries the observation of every OTHER live directory
   object (Ev.others, in the order of `parked`) and of every retained root node (Ev.nodes): each
   must still show its own entries and root CID whatever was done to the focused object.  Fork /
   Focus events create a second (third) live object from the root node / redirect the calls.

   Strict = TRUE  (C16): the representation (basic/HAMT), the live per-directory settings and the
                   root CID class must follow the switching actions of Directory (ideal outcome,
                   or an enabled deviation under its guard).
   Strict = FALSE (C15): map, trie and listing semantics only; the representation is whatever
                   the directory chose (MapAdd / MapRemove), settings are not compared.        *)
EXTENDS Directory, Json

CONSTANTS Strict

Trace == ndJsonDeserialize("trace.ndjson")
VARIABLES l, devAll
tvars == <<vars, l, devAll>>
ASSUME TLCSet(1, 0)

Ev == Trace[l]
IsEvent(e) == l <= Len(Trace) /\ Trace[l].ev = e /\ l' = l + 1

TInit == /\ l = 1 /\ devAll = {}
         /\ w = [len |-> <<>>, h |-> <<>>, cidLen |-> <<>>, tsize |-> <<>>]
         /\ cfg = [kind |-> "basic", est |-> "links", gthr |-> 0, thr |-> 0, maxLinks |-> 0,
                   width |-> 8, stat |-> "none", cb |-> "v0"]
         /\ entries = <<>> /\ mode = "basic" /\ set = [thr |-> 0, maxLinks |-> 0, est |-> "links"]
         /\ bk = [est |-> 0, tl |-> 0, sc |-> 0] /\ trie = EmptyTrie /\ err = "" /\ dev = {}
         /\ parked = <<>> /\ nodes = <<>>

Pairs(e) == {<<n, e[n]>> : n \in Keys(e)}
Listing(s, e) == ToSet(s) = Pairs(e) /\ Len(s) = Count(e)      \* exactly the entries, no duplicates

\* the other live objects and the retained nodes, re-observed after this step
ObservedObjs ==
  /\ Len(Ev.others) = Len(parked')
  /\ \A k \in DOMAIN parked' :
        /\ Ev.others[k].mode = parked'[k].mode
        /\ Listing(Ev.others[k].links, parked'[k].entries) /\ Ev.others[k].find = parked'[k].entries
        /\ Ev.others[k].cid = "same"                    \* the root CID it had when it was parked
  /\ Len(Ev.nodes) = Len(nodes')
  /\ \A i \in DOMAIN nodes' :
        /\ Listing(Ev.nodes[i].links, nodes'[i].e)
        /\ Ev.nodes[i].cid = (IF nodes'[i].e = nodes'[i].e0 THEN "same" ELSE "diff")   \* vs. the CID at hand-out
\* the frame of a call: the logged listing of a node handed out by the focused object itself decides
\* whether it is read as the live root or as a snapshot; nothing else may move (CallFrame)
TFrame == CallFrame({i \in Own : i <= Len(Ev.nodes) /\ ToSet(Ev.nodes[i].links) = Pairs(entries')})

\* what the harness observed right after the call, against the primed model state
Observed ==
  /\ err' = Ev.err /\ mode' = Ev.mode /\ bk' = Ev.bk
  /\ Listing(Ev.links, entries') /\ Listing(Ev.each, entries') /\ Listing(Ev.async, entries')
  /\ Listing(Ev.reload, entries')                      \* NewDirectoryFromNode(GetNode()) lists the same
  /\ Ev.find = entries'                                \* Find(name) for every name of the world
  /\ Ev.cidIs = mode'                                  \* root CID = canonical fresh build of this type
  /\ mode' = "hamt" => /\ ToSet(Ev.shards) = trie'.s \ {<<>>}
                       /\ ToSet(Ev.vals) = {<<n, trie'.v[n]>> : n \in DOMAIN trie'.v}
                       /\ Len(Ev.vals) = Cardinality(DOMAIN trie'.v)
  /\ Strict => /\ set' = [thr |-> Ev.thr, maxLinks |-> Ev.maxLinks, est |-> Ev.est]
               /\ (mode' = "basic" /\ set'.est # "disabled") => Ev.bk.est = EstSizeBy(set'.est, entries')
               /\ (dev' = {} /\ Ev.cidDyn # "na") => Ev.cidDyn = "same"
  /\ devAll' = devAll \cup dev'
  /\ ObservedObjs

TReset == /\ IsEvent("Reset")
          /\ ResetTo([len |-> Ev.w.len, h |-> Ev.w.h, cidLen |-> Ev.w.cidLen, tsize |-> Ev.w.tsize], Ev.cfg)
          /\ mode' = Ev.mode /\ bk' = Ev.bk /\ devAll' = devAll
TAdd    == /\ IsEvent("AddChild")
           /\ IF Strict THEN AddCore(Ev.n, Ev.t) ELSE MapAdd(Ev.n, Ev.t, Ev.mode)
           /\ TFrame /\ Observed
TRemove == /\ IsEvent("RemoveChild")
           /\ IF Strict THEN RemoveCore(Ev.n) ELSE MapRemove(Ev.n, Ev.mode)
           /\ TFrame /\ Observed
TReload == IsEvent("Reload") /\ ReloadCore /\ ReloadFrame /\ Observed
TFork   == IsEvent("Fork") /\ ReloadCore /\ ForkFrame(Ev.via) /\ Observed
TFocus  == IsEvent("Focus") /\ FocusCore(Ev.k) /\ Observed

TNext == TReset \/ TAdd \/ TRemove \/ TReload \/ TFork \/ TFocus
TSpec == TInit /\ [][TNext]_tvars

TraceConstraint == TLCSet(1, IF l - 1 > TLCGet(1) THEN l - 1 ELSE TLCGet(1))
TracePost == PrintT(<<"TRACE_HWM", TLCGet(1)>>)
DevReport == l <= Len(Trace) \/ \A d \in devAll : PrintT(<<"DEV_USED", d>>)
\* the module invariants, evaluated on every state of the run (state before the first Reset excluded)
TInv == l > 1 => /\ TypeOK /\ Canonical /\ Resolvable /\ BasicLimit /\ ObjsOK
                 /\ Strict => ShardedIffRule /\ SettingsSurvive /\ CidFunctionOfEntries
=============================================================================
