SPECIFICATION TSpec
CONSTANTS Devs = @DEVS@
          Strict = FALSE
          Worlds <- MCWorlds
          CfgSet <- MCCfgs
INVARIANTS TInv DevReport
CONSTRAINT TraceConstraint
POSTCONDITION TracePost
CHECK_DEADLOCK FALSE
