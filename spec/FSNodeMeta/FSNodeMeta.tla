----------------------------- MODULE FSNodeMeta -----------------------------
(* C18 -- UnixFS metadata (mode, extended mode, mtime, file size) of an FSNode.

   The content of this specification is the BIT-LEVEL mapping between a Go os.FileMode and
   the UnixFS `mode` field, and the "unset" rules.  Modes are written as SETS OF BIT POSITIONS
   (an os.FileMode has bit 31 = ModeDir, 27 = ModeSymlink, 23 = ModeSetuid, 22 = ModeSetgid,
   20 = ModeSticky, 8..0 = rwxrwxrwx; a POSIX mode has 11 = setuid, 10 = setgid, 9 = sticky,
   8..0 = rwxrwxrwx), so nothing overflows TLC's 32-bit integers and the harness only
   converts between a uint32 and the list of its set bits.

   UnixFS `mode` field (uint32, optional): low 12 bits = POSIX permission value,
   high 20 bits = "extended" bits that SetMode must preserve.
   Rules stated by the property / the accessor documentation:
     Mode()        = 0                           when the permission value is 0 ("unset")
                   = os bits of the permission value + the type bit of the node type otherwise
     the field is absent on the wire  iff  permission value = 0 and extended bits = 0
     ModTime()     = the instant given to SetModTime; the zero time.Time means unset (field absent);
                     the nanosecond sub-field is present iff nanoseconds > 0
     FileSize()    = content length for File/Raw (inline data + child block sizes), length of the
                     target path for Symlink, 0 for directories
   One action per public mutator of ipld/unixfs.FSNode; Serialize/Parse is the identity.

   ENTRY POINTS.  The FSNode setters are not the only way to give a node a mode and an mtime: the
   stat-taking constructors of ipld/unixfs (FilePBDataWithStat, FolderPBDataWithStat,
   EmptyDirNodeWithStat, HAMTShardDataWithStat), the plain constructors followed by the setters on
   the parsed node (WrapData, SymlinkData, FilePBData, FolderPBData, HAMTShardData, NewFSNode), and
   the paths that call them (hamt.Shard.SetStat, uio directories created WithStat and their
   Basic<->HAMT conversions and reloads, the importer's FileMode/FileModTime) all take the same
   (os.FileMode, time.Time) pair.  The property does not depend on the entry point: whatever the
   way in, the node read back has the metadata model of  NewFSNode(type); SetMode(mode);
   SetModTime(mtime)  (EntryTab, AfterEntry, InitEntry below).  *)
EXTENDS Naturals, Integers, Sequences, FiniteSets, TLC, Json

CONSTANTS Types,      \* node types explored
          PermVals,   \* permission values 0..4095 explored by the state machine
          JunkBits,   \* sets of NON-permission os.FileMode bits that SetMode must ignore
          ExtVals,    \* extended-mode arguments [lo : 0..2^20-1, hi : BOOLEAN]  (hi: bits above the 20 are set too)
          TimeVals,   \* SetModTime arguments [neg, mag, ns]
          DataLens, BlockSizes, MaxBlocks

AllTypes == {"Raw", "Directory", "File", "Metadata", "Symlink", "HAMTShard"}

(* ---------------------------------------------------------------- bits *)
P2 == <<1, 2, 4, 8, 16, 32, 64, 128, 256, 512, 1024, 2048, 4096>>
Bit(v, i) == (v \div P2[i + 1]) % 2 = 1                 \* bit i of v, i in 0..11

\* POSIX permission value (12 bit) -> os.FileMode permission bits
OsOfUnix(p) == {i \in 0..8 : Bit(p, i)}
               \cup (IF Bit(p, 11) THEN {23} ELSE {})    \* setuid -> ModeSetuid
               \cup (IF Bit(p, 10) THEN {22} ELSE {})    \* setgid -> ModeSetgid
               \cup (IF Bit(p, 9)  THEN {20} ELSE {})    \* sticky -> ModeSticky
\* os.FileMode bits -> POSIX permission value; every other bit (type bits, unused bits) is dropped
\* (a FUNCTION of the bit set: TLC evaluates function arguments once; operator arguments are
\*  substituted lazily and re-evaluated at every reference)
UnixOfOsF[bits \in SUBSET (0..31)] ==
      (IF 0 \in bits THEN 1 ELSE 0)  + (IF 1 \in bits THEN 2 ELSE 0)   + (IF 2 \in bits THEN 4 ELSE 0)
    + (IF 3 \in bits THEN 8 ELSE 0)  + (IF 4 \in bits THEN 16 ELSE 0)  + (IF 5 \in bits THEN 32 ELSE 0)
    + (IF 6 \in bits THEN 64 ELSE 0) + (IF 7 \in bits THEN 128 ELSE 0) + (IF 8 \in bits THEN 256 ELSE 0)
    + (IF 20 \in bits THEN 512 ELSE 0)                                   \* ModeSticky -> sticky
    + (IF 22 \in bits THEN 1024 ELSE 0)                                  \* ModeSetgid -> setgid
    + (IF 23 \in bits THEN 2048 ELSE 0)                                  \* ModeSetuid -> setuid
UnixOfOs(bits) == UnixOfOsF[bits]
PermOsBits == (0..8) \cup {20, 22, 23}
TypeBits(t) == IF t \in {"Directory", "HAMTShard"} THEN {31} ELSE IF t = "Symlink" THEN {27} ELSE {}

(* ---------------------------------------------------------------- time *)
ZeroTimeMag == <<63232, 30609, 14, 0>>                   \* 62135596800 in base-2^16 limbs
IsZeroTime(t) == t.neg /\ t.mag = ZeroTimeMag /\ t.ns = 0
ZeroTime == [neg |-> TRUE, mag |-> ZeroTimeMag, ns |-> 0]

\* what the accessors must return for a stored permission value / a given instant
ModeOf(ty, pm) == IF pm = 0 THEN {} ELSE OsOfUnix(pm) \cup TypeBits(ty)
TimeOf(t)      == IF IsZeroTime(t) THEN ZeroTime ELSE t
WireOf(t)      == [present |-> ~IsZeroTime(t), nanos |-> ~IsZeroTime(t) /\ t.ns > 0]

(* ---------------------------------------------------------------- state *)
VARIABLES typ,
          perm, ext,      \* the two parts of the stored mode field
          modeSet,        \* wire: the field is present
          mtime,          \* ZeroTime = unset
          dlen, blocks,   \* inline data length, child block sizes
          fsize           \* the Filesize field as maintained by the mutators
vars == <<typ, perm, ext, modeSet, mtime, dlen, blocks, fsize>>

Init == /\ typ \in Types
        /\ perm = 0 /\ ext = 0 /\ modeSet = FALSE /\ mtime = ZeroTime
        /\ dlen = 0 /\ blocks = <<>> /\ fsize = 0          \* NewFSNode: Filesize initialised to 0

Meta == <<perm, ext, modeSet, mtime>>
Size == <<dlen, blocks, fsize>>

\* SetMode(os.FileMode): only the permission bits count
SetModeOs(bits) == /\ perm' = UnixOfOs(bits)
                   /\ modeSet' = (UnixOfOs(bits) # 0 \/ ext # 0)
                   /\ UNCHANGED <<typ, ext, mtime, dlen, blocks, fsize>>
\* SetModeFromUnixPermissions(p), p a 12-bit value
SetModeUnix(p) == /\ perm' = p
                  /\ modeSet' = (p # 0 \/ ext # 0)
                  /\ UNCHANGED <<typ, ext, mtime, dlen, blocks, fsize>>
\* SetExtendedMode(e): the low 20 bits of e are stored, the permission value is preserved
SetExt(e) == /\ ext' = e.lo
             /\ modeSet' = (e.lo # 0 \/ perm # 0)
             /\ UNCHANGED <<typ, perm, mtime, dlen, blocks, fsize>>
SetModTime(t) == /\ mtime' = IF IsZeroTime(t) THEN ZeroTime ELSE t
                 /\ UNCHANGED <<typ, perm, ext, modeSet, dlen, blocks, fsize>>
\* GetBytes then FSNodeFromBytes: nothing changes
RoundTrip == UNCHANGED vars

SetData(n) == /\ dlen' = n /\ fsize' = (fsize - dlen) + n
              /\ UNCHANGED <<typ, perm, ext, modeSet, mtime, blocks>>
AddBlockSize(s) == /\ Len(blocks) < MaxBlocks
                   /\ blocks' = Append(blocks, s) /\ fsize' = fsize + s
                   /\ UNCHANGED <<typ, perm, ext, modeSet, mtime, dlen>>
RemoveBlockSize(i) == /\ i \in 1..Len(blocks)
                      /\ blocks' = [j \in 1..(Len(blocks) - 1) |-> IF j < i THEN blocks[j] ELSE blocks[j + 1]]
                      /\ fsize' = fsize - blocks[i]
                      /\ UNCHANGED <<typ, perm, ext, modeSet, mtime, dlen>>
RemoveAllBlockSizes == /\ blocks' = <<>> /\ fsize' = dlen
                       /\ UNCHANGED <<typ, perm, ext, modeSet, mtime, dlen>>

(* ---------------------------------------------------------------- entry points *)
\* name -> node type produced, harness package that can reach it, and the rule for the PRESENCE of the mode field
\* right after the entry point (what is READ BACK never depends on the entry point):
\*   "setter": the value goes through FSNode.SetMode            -> field present iff permission value # 0
\*   "ctor"  : stat-taking constructor, documented "pass mode = 0 to omit the field"
\*                                                              -> field present iff the mode ARGUMENT # 0
\*             (a type-only os.FileMode such as ModeDir|0 stores a field of value 0; Mode() still reads 0)
E(ty, pk, ru) == [typ |-> ty, pkg |-> pk, rule |-> ru]
EntryTab == [ FilePBDataWithStat    |-> E("File",      "unixfs", "ctor"),
              FolderPBDataWithStat  |-> E("Directory", "unixfs", "ctor"),
              EmptyDirNodeWithStat  |-> E("Directory", "unixfs", "ctor"),
              HAMTShardDataWithStat |-> E("HAMTShard", "unixfs", "ctor"),
              \* plain constructor, FSNodeFromBytes, then SetMode + SetModTime on the parsed node
              WrapDataSetters       |-> E("Raw",       "unixfs", "setter"),
              SymlinkDataSetters    |-> E("Symlink",   "unixfs", "setter"),
              FilePBDataSetters     |-> E("File",      "unixfs", "setter"),
              FolderPBDataSetters   |-> E("Directory", "unixfs", "setter"),
              HAMTShardDataSetters  |-> E("HAMTShard", "unixfs", "setter"),
              NewFSNodeMetadata     |-> E("Metadata",  "unixfs", "setter"),
              \* the paths that call them (harness in package ipld/unixfs/io)
              HamtShardSetStat      |-> E("HAMTShard", "io", "ctor"),      \* hamt.NewShard; SetStat; Node()
              UioBasicWithStat      |-> E("Directory", "io", "ctor"),      \* NewBasicDirectory(WithStat); GetNode
              UioHAMTWithStat       |-> E("HAMTShard", "io", "ctor"),      \* NewHAMTDirectory(WithStat); GetNode
              UioBasicToHAMT        |-> E("HAMTShard", "io", "ctor"),      \* NewDirectory(WithStat), grown until it is sharded
              UioHAMTToBasic        |-> E("Directory", "io", "ctor"),      \* ... and shrunk until it is basic again
              UioReloadHAMT         |-> E("HAMTShard", "io", "ctor"),      \* sharded node reloaded (NewDirectoryFromNode), changed, GetNode
              UioReloadBasic        |-> E("Directory", "io", "ctor"),      \* basic node reloaded, changed, GetNode
              ImporterOneChunk      |-> E("File",      "io", "setter"),    \* balanced.Layout with FileMode/FileModTime, 1 chunk
              ImporterManyChunks    |-> E("File",      "io", "setter") ]   \* ... several chunks (the root carries the metadata)
EntryNames == DOMAIN EntryTab

\* the metadata model after entry point en was given (bits, t): that of NewFSNode(type); SetMode(bits); SetModTime(t)
AfterEntry(en, bits, t) == [typ |-> EntryTab[en].typ, perm |-> UnixOfOs(bits), ext |-> 0, mtime |-> TimeOf(t),
                            modeSet |-> IF EntryTab[en].rule = "ctor" THEN bits # {} ELSE UnixOfOs(bits) # 0]
\* a node made through an entry point (fresh: no data, no blocks) is a further INITIAL state of the mutator state
\* machine (it leaves out the type-only argument of a "ctor" entry: UnsetRule is about the setters)
InitEntry == \E en \in EntryNames, p \in PermVals, j \in JunkBits, t \in TimeVals :
                LET s == AfterEntry(en, OsOfUnix(p) \cup j, t) IN
                /\ (p # 0 \/ j = {}) /\ s.typ \in Types
                /\ typ = s.typ /\ perm = s.perm /\ ext = s.ext /\ mtime = s.mtime /\ modeSet = s.modeSet
                /\ dlen = 0 /\ blocks = <<>> /\ fsize = 0

Next == \/ \E p \in PermVals, j \in JunkBits : SetModeOs(OsOfUnix(p) \cup j)
        \/ \E p \in PermVals : SetModeUnix(p)
        \/ \E e \in ExtVals : SetExt(e)
        \/ \E t \in TimeVals : SetModTime(t)
        \/ RoundTrip
        \/ \E n \in DataLens : SetData(n)
        \/ \E s \in BlockSizes : AddBlockSize(s)
        \/ \E i \in 1..MaxBlocks : RemoveBlockSize(i)
        \/ RemoveAllBlockSizes
Spec == (Init \/ InitEntry) /\ [][Next]_vars

(* ---------------------------------------------------------------- observables (what the accessors must return) *)
ModeObs     == ModeOf(typ, perm)
ExtObs      == ext
ModTimeObs  == mtime                                  \* ZeroTime: ModTime().IsZero()
MtimeWire   == WireOf(mtime)
SumBlocks   == LET S[k \in 0..Len(blocks)] == IF k = 0 THEN 0 ELSE S[k - 1] + blocks[k] IN S[Len(blocks)]
Content     == dlen + SumBlocks
FileSizeObs == IF typ \in {"File", "Raw"} THEN fsize ELSE IF typ = "Symlink" THEN dlen ELSE 0
DataSizeErr == typ \in {"Directory", "HAMTShard", "Metadata"}    \* DataSize(bytes) refuses these

(* ---------------------------------------------------------------- the property *)
TypeOK == /\ typ \in AllTypes /\ perm \in 0..4095 /\ ext \in 0..1048575 /\ modeSet \in BOOLEAN
          /\ dlen \in Nat /\ fsize \in Nat
\* reading the mode back gives the permission bits that were stored, the node's type bit, nothing else
ModeReadBack == /\ UnixOfOs(ModeObs) = perm
                /\ ModeObs \ PermOsBits = (IF perm = 0 THEN {} ELSE TypeBits(typ))
                /\ (perm = 0 => ModeObs = {})
UnsetRule    == modeSet = (perm # 0 \/ ext # 0)
\* whatever the entry point, what is read back is what the setters would have stored
EntryAgnostic == \A en \in EntryNames, p \in PermVals, j \in JunkBits, t \in TimeVals :
                   LET s == AfterEntry(en, OsOfUnix(p) \cup j, t) IN
                   /\ UnixOfOs(ModeOf(s.typ, s.perm)) = p /\ s.mtime = TimeOf(t) /\ s.ext = 0
                   /\ ((p # 0 \/ j = {}) => s.modeSet = (p # 0))
FileSizeIsContent == /\ (typ \in {"File", "Raw"} => FileSizeObs = Content)
                     /\ (typ = "Symlink" => FileSizeObs = dlen)
\* the two conversions are inverse on the 12-bit permission values (checked once, all 4096)
ASSUME \A p \in 0..4095 : UnixOfOs(OsOfUnix(p)) = p
ASSUME \A p \in 0..4095 : OsOfUnix(p) \subseteq PermOsBits
=============================================================================
