SPECIFICATION GSpec
CONSTANTS Types <- AllTypes
          PermVals <- GPerms
          JunkBits <- GJunk
          ExtVals <- GExt
          TimeVals <- GTimes
          DataLens = {0, 5}
          BlockSizes = {0, 7}
          MaxBlocks = 2
          V = 1
          D1 = 2
          D2 = 3
          CaseTypes = {1, 2, 3, 4, 5, 6}
          HistTypesMeta = {"Directory", "File", "Symlink"}
          HistTypesSize = {"File", "Raw", "Symlink", "Directory"}
          CtorSalts = {@SALT@}
          CtorRows = 16
INVARIANTS Emit GProps
