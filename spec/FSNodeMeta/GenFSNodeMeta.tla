---------------------------- MODULE GenFSNodeMeta ----------------------------
(* Phase G for C18.  Four families of behaviours (one TLC run):

   "ctor": EVERY entry point that takes (mode, mtime) -- the stat-taking constructors, the plain
           constructors followed by the setters, and the hamt / uio directory / importer paths that call
           them (EntryTab of FSNodeMeta) -- crossed with EVERY mtime class (zero, epoch, sub-second,
           whole second, negative, negative sub-second, far past/future) and, by rotation, a class of
           extra non-permission os.FileMode bits (none / ModeDir / many) and a block of permission
           values next to the fixed boundary values.  Each line carries what must be read back from
           the produced node: the metadata model of NewFSNode(type); SetMode; SetModTime (AfterEntry),
           and again after SetExtendedMode on the parsed node and another wire round trip.

   "case": EVERY 12-bit permission value (64 lines x 64 values per node type) combined with an
           extended-bits pattern, a call order (mode then ext / ext then mode), an entry point
           (SetMode with an os.FileMode carrying extra non-permission bits, or
           SetModeFromUnixPermissions) and an mtime class -- chosen by rotation, V variants per
           (line, type).  Each line carries, per permission value, the os.FileMode bits Mode()
           must return and whether the mode field must be present on the wire.
   "meta": every sequence of D1 metadata mutators (state machine of FSNodeMeta), observables after each step.
   "size": every sequence of D2 size mutators, observables after each step.  *)
EXTENDS FSNodeMeta
CONSTANTS V, D1, D2,
          CaseTypes, HistTypesMeta, HistTypesSize,
          CtorSalts,   \* rotation offsets of the "ctor" family (quick: one, chosen by the runner's seed)
          CtorRows     \* rotated permission values per "ctor" line (next to the fixed boundary values)
VARIABLES fam, case, hist
gvars == <<vars, fam, case, hist>>

\* ascending sequence of the elements of a bit set (function: argument evaluated once)
AllBitSeq == [i \in 1..32 |-> i - 1]
SortedF[S \in SUBSET (0..31)] == SelectSeq(AllBitSeq, LAMBDA b : b \in S)
Sorted(S) == SortedF[S]

(* ---- class tables (sequences, for the rotation) *)
TypeSeq  == <<"Raw", "Directory", "File", "Metadata", "Symlink", "HAMTShard">>
ExtSeq   == << [lo |-> 0, hi |-> FALSE], [lo |-> 1, hi |-> FALSE], [lo |-> 1048575, hi |-> TRUE],
               [lo |-> 524288, hi |-> FALSE], [lo |-> 0, hi |-> TRUE] >>
OrderSeq == <<"me", "em">>
\* entry point and the extra os.FileMode bits passed along with the permission bits
EntrySeq == << [via |-> "os", junk |-> <<>>], [via |-> "unix", junk |-> <<>>], [via |-> "os", junk |-> <<31>>],
               [via |-> "os", junk |-> <<26, 27>>], [via |-> "os", junk |-> <<9, 10, 11, 19, 21, 24>>] >>
L(n) == <<n % 65536, (n \div 65536) % 65536, 0, 0>>
TimeSeq  == << ZeroTime,
               [neg |-> FALSE, mag |-> L(0), ns |-> 0], [neg |-> FALSE, mag |-> L(0), ns |-> 1],
               [neg |-> FALSE, mag |-> L(1), ns |-> 999999999], [neg |-> FALSE, mag |-> L(2147483647), ns |-> 0],
               [neg |-> FALSE, mag |-> <<0, 32768, 0, 0>>, ns |-> 500000000], [neg |-> FALSE, mag |-> <<0, 0, 8, 0>>, ns |-> 0],
               [neg |-> FALSE, mag |-> <<0, 0, 0, 64>>, ns |-> 123456789],
               [neg |-> TRUE, mag |-> L(1), ns |-> 0], [neg |-> TRUE, mag |-> L(1), ns |-> 1],
               [neg |-> TRUE, mag |-> L(1), ns |-> 999999999], [neg |-> TRUE, mag |-> <<0, 0, 8, 0>>, ns |-> 0],
               [neg |-> TRUE, mag |-> ZeroTimeMag, ns |-> 1], [neg |-> TRUE, mag |-> <<63233, 30609, 14, 0>>, ns |-> 0],
               [neg |-> TRUE, mag |-> <<0, 0, 0, 64>>, ns |-> 999999999] >>
Pick(seq, i) == seq[(i % Len(seq)) + 1]
MtObs(t) == TimeOf(t)
MtWire(t) == WireOf(t)

(* ---- entry points x mtime classes x mode classes *)
EntrySeqAll == << "FilePBDataWithStat", "FolderPBDataWithStat", "EmptyDirNodeWithStat", "HAMTShardDataWithStat",
                  "WrapDataSetters", "SymlinkDataSetters", "FilePBDataSetters", "FolderPBDataSetters",
                  "HAMTShardDataSetters", "NewFSNodeMetadata",
                  "HamtShardSetStat", "UioBasicWithStat", "UioHAMTWithStat", "UioBasicToHAMT", "UioHAMTToBasic",
                  "UioReloadHAMT", "UioReloadBasic", "ImporterOneChunk", "ImporterManyChunks" >>
ASSUME {EntrySeqAll[i] : i \in 1..Len(EntrySeqAll)} = EntryNames          \* the alphabet is the whole table
CtorJunkSeq == << {}, {31}, {9, 10, 11, 19, 21, 24, 26, 27} >>
FixedPerms  == <<0, 1, 420, 511, 512, 1024, 2048, 4095>>
MkCtor(ei, ti, salt) ==
  LET en    == EntrySeqAll[ei]
      tab   == EntryTab[en]
      tm    == TimeSeq[ti]
      jk0   == Pick(CtorJunkSeq, ei + ti + salt)
      e     == Pick(ExtSeq, ei + 2 * ti + salt)
      blk   == (7 * ei + 11 * ti + 13 * salt) % (4096 \div CtorRows)
      perms == FixedPerms \o [i \in 1..CtorRows |-> CtorRows * blk + i - 1]
      row(p) == LET \* a type-only argument (permission 0 + other bits) only where the presence rule is crisp
                    jk == IF p = 0 /\ tab.pkg # "unixfs" THEN {} ELSE jk0
                    s  == AfterEntry(en, OsOfUnix(p) \cup jk, tm)
                IN  [p |-> p, osin |-> Sorted(OsOfUnix(p) \cup jk),        \* the os.FileMode handed to the entry point
                     bits |-> Sorted(ModeOf(s.typ, s.perm)),               \* Mode() of the produced node
                     present0 |-> s.modeSet,                               \* mode field on the wire as produced
                     present |-> (s.perm # 0 \/ e.lo # 0)]                 \* ... after SetExtendedMode(e) on the parsed node
  IN [k |-> "ctor", entry |-> en, pkg |-> tab.pkg, typ |-> tab.typ, ext |-> e, t |-> tm,
      expExt |-> e.lo, expMt |-> TimeOf(tm), expMtWire |-> WireOf(tm),
      ps |-> [i \in 1..Len(perms) |-> row(perms[i])]]

MkCase(base, ti, v) ==
  LET t   == TypeSeq[ti]
      e   == Pick(ExtSeq, base + v)
      ord == Pick(OrderSeq, (base \div 2) + ti + v)
      en  == Pick(EntrySeq, base + 2 * ti + 3 * v)
      tm  == Pick(TimeSeq, 6 * base + ti + 5 * v)
      row(p) == [p |-> p,
                 bits |-> Sorted(IF p = 0 THEN {} ELSE OsOfUnix(p) \cup TypeBits(t)),
                 osin |-> Sorted(OsOfUnix(p)),                      \* the permission bits handed to SetMode
                 present |-> (p # 0 \/ e.lo # 0)]
  IN [k |-> "case", typ |-> t, ext |-> e, order |-> ord, via |-> en.via, junk |-> en.junk, t |-> tm,
      expExt |-> e.lo, expMt |-> MtObs(tm), expMtWire |-> MtWire(tm),
      ps |-> [i \in 1..64 |-> row(64 * base + i - 1)]]

(* ---- observables after a step of the state machine *)
Obs == [mode |-> Sorted(ModeObs), ext |-> ExtObs, modeSet |-> modeSet, mt |-> ModTimeObs, mtWire |-> MtimeWire,
        fsize |-> FileSizeObs, dsErr |-> DataSizeErr, nblocks |-> Len(blocks), dlen |-> dlen]

NoCase == [k |-> "none"]
GInit == \/ /\ fam = "case" /\ hist = <<>>
            /\ \E base \in 0..63, ti \in CaseTypes, v \in 0..(V - 1) : case = MkCase(base, ti, v)
            /\ typ = "Raw" /\ perm = 0 /\ ext = 0 /\ modeSet = FALSE /\ mtime = ZeroTime
            /\ dlen = 0 /\ blocks = <<>> /\ fsize = 0
         \/ /\ fam = "ctor" /\ hist = <<>>
            /\ \E ei \in 1..Len(EntrySeqAll), ti \in 1..Len(TimeSeq), salt \in CtorSalts : case = MkCtor(ei, ti, salt)
            /\ typ = "Raw" /\ perm = 0 /\ ext = 0 /\ modeSet = FALSE /\ mtime = ZeroTime
            /\ dlen = 0 /\ blocks = <<>> /\ fsize = 0
         \/ /\ fam = "meta" /\ case = NoCase /\ hist = <<>> /\ Init /\ typ \in HistTypesMeta
         \/ /\ fam = "size" /\ case = NoCase /\ hist = <<>> /\ Init /\ typ \in HistTypesSize

Step(r) == hist' = Append(hist, r @@ [obs |-> Obs'])
MetaNext == \/ \E p \in PermVals, j \in JunkBits :
                  SetModeOs(OsOfUnix(p) \cup j) /\ Step([op |-> "SetMode", bits |-> Sorted(OsOfUnix(p) \cup j)])
            \/ \E p \in PermVals : SetModeUnix(p) /\ Step([op |-> "SetModeUnix", p |-> p])
            \/ \E e \in ExtVals : SetExt(e) /\ Step([op |-> "SetExt", e |-> e])
            \/ \E t \in TimeVals : SetModTime(t) /\ Step([op |-> "SetModTime", t |-> t])
            \/ RoundTrip /\ Step([op |-> "RoundTrip"])
SizeNext == \/ \E n \in DataLens : SetData(n) /\ Step([op |-> "SetData", n |-> n])
            \/ \E s \in BlockSizes : AddBlockSize(s) /\ Step([op |-> "AddBlockSize", s |-> s])
            \/ \E i \in 1..MaxBlocks : RemoveBlockSize(i) /\ Step([op |-> "RemoveBlockSize", i |-> i])
            \/ RemoveAllBlockSizes /\ Step([op |-> "RemoveAllBlockSizes"])
            \/ RoundTrip /\ Step([op |-> "RoundTrip"])
GNext == /\ UNCHANGED <<fam, case>>
         /\ \/ fam = "meta" /\ Len(hist) < D1 /\ MetaNext
            \/ fam = "size" /\ Len(hist) < D2 /\ SizeNext
GSpec == GInit /\ [][GNext]_gvars

Emit == /\ fam \in {"case", "ctor"} => PrintT(<<"BEHAVIOUR", ToJson(case)>>)
        /\ (fam = "meta" /\ Len(hist) = D1) => PrintT(<<"BEHAVIOUR", ToJson([k |-> "meta", typ |-> typ, steps |-> hist])>>)
        /\ (fam = "size" /\ Len(hist) = D2) => PrintT(<<"BEHAVIOUR", ToJson([k |-> "size", typ |-> typ, steps |-> hist])>>)
GProps == fam \notin {"case", "ctor"} => (TypeOK /\ ModeReadBack /\ UnsetRule /\ FileSizeIsContent)

GPerms == {0, 420, 512, 4095}
GJunk  == {{}, {31, 27}}
GExt   == {[lo |-> 0, hi |-> FALSE], [lo |-> 1, hi |-> TRUE], [lo |-> 1048575, hi |-> FALSE]}
GTimes == {ZeroTime, [neg |-> FALSE, mag |-> L(0), ns |-> 0], [neg |-> TRUE, mag |-> L(1), ns |-> 999999999],
           [neg |-> FALSE, mag |-> <<0, 0, 8, 0>>, ns |-> 1]}
=============================================================================
