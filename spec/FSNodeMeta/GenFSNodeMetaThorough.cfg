SPECIFICATION GSpec
CONSTANTS Types <- AllTypes
          PermVals <- GPerms
          JunkBits <- GJunk
          ExtVals <- GExt
          TimeVals <- GTimes
          DataLens = {0, 5}
          BlockSizes = {0, 7}
          MaxBlocks = 2
          V = 6
          D1 = 3
          D2 = 4
          CaseTypes = {1, 2, 3, 4, 5, 6}
          HistTypesMeta = {"Directory", "File", "Symlink"}
          HistTypesSize = {"File", "Raw", "Symlink", "Directory"}
          CtorSalts = @SALTS8@
          CtorRows = 16
INVARIANTS Emit GProps
