SPECIFICATION Spec
CONSTANTS Types <- AllTypes
          PermVals <- MCPerms
          JunkBits <- MCJunk
          ExtVals <- MCExt
          TimeVals <- MCTimes
          DataLens = {0, 5}
          BlockSizes = {7}
          MaxBlocks = 1
INVARIANTS TypeOK ModeReadBack UnsetRule FileSizeIsContent
