---------------------------- MODULE MCFSNodeMeta ----------------------------
(* Phase M: the mutator state machine over a class set; invariants = the property. *)
EXTENDS FSNodeMeta
MCPerms  == {0, 420, 512, 2048, 4095}
MCJunk   == {{}, {31, 27, 26}, {9, 10, 11}}
MCExt    == {[lo |-> 0, hi |-> FALSE], [lo |-> 1048575, hi |-> TRUE]}
MCTimes  == {ZeroTime, [neg |-> TRUE, mag |-> <<1, 0, 0, 0>>, ns |-> 999999999]}
\* whatever the entry point (constructor, setters, directory / importer path), the same metadata is read back
ASSUME EntryAgnostic
=============================================================================
