---------------------------- MODULE MCFSNodeMeta ----------------------------
(* Phase M: the mutator state machine over a class set; invariants = the property. *)
EXTENDS FSNodeMeta
MCPerms  == {0, 1, 420, 511, 512, 1024, 2048, 4095}
MCJunk   == {{}, {31}, {27, 26}, {9, 10, 11}}
MCExt    == {[lo |-> 0, hi |-> FALSE], [lo |-> 1, hi |-> TRUE], [lo |-> 1048575, hi |-> FALSE]}
MCTimes  == {ZeroTime, [neg |-> FALSE, mag |-> <<0, 0, 0, 0>>, ns |-> 0], [neg |-> TRUE, mag |-> <<1, 0, 0, 0>>, ns |-> 999999999]}
=============================================================================
