----------------------------- MODULE FilestorePath -----------------------------
(* C41 -- filestore references stay inside the filestore root.

   A path is a sequence of COMPONENT tokens below the filesystem root "/" (the harness maps "/"
   to a scratch directory).  The filestore root is  Root == Top \o <<"base","root">>.
   FileManager.Put(path) must accept the reference iff the path lies inside the root BY
   COMPONENTS:   Inside(p) == Root is a component-wise prefix of Clean(p)
   and must store it relative to the root, so that it resolves (Join(root, stored), as Get does)
   to Clean(p), a path inside the root.

   Clean is lexical (filepath.Clean for rooted paths): "" and "." vanish, ".." removes the
   previous component (or nothing at "/").

   The AS-BUILT containment test of the pinned code (deviation Dev_C41_StringPrefix) is
   strings.HasPrefix(rawPathString, rootString): modelled on the character strings, where a
   token is a sequence of abstract characters ("rootX" = "root" followed by "X", ".." = "." "."),
   followed by filepath.Rel(root, path), which happily produces "../..." for a path outside.  *)
EXTENDS Naturals, Sequences, FiniteSets, TLC, Json

CONSTANTS Devs,     \* enabled as-built deviations (MC: {} or {"Dev_C41_StringPrefix"})
          Alphabet, \* component tokens a generated path may use below Top
          MaxLen    \* longest generated component sequence below Top

Top  == <<"t1", "t2", "t3", "t4", "t5">>      \* deep enough that MaxLen ".." never climb above "/"
Root == Top \o <<"base", "root">>
RootForms == {"clean", "slash"}               \* root configured as ".../root" or ".../root/"

(* ---- lexical path algebra --------------------------------------------------------- *)
RECURSIVE CleanAcc(_, _)
CleanAcc(acc, p) ==
  IF p = <<>> THEN acc
  ELSE LET c == Head(p) IN
       CleanAcc(IF c = "" \/ c = "." THEN acc
                ELSE IF c = ".." THEN (IF acc = <<>> THEN acc ELSE SubSeq(acc, 1, Len(acc) - 1))
                ELSE Append(acc, c),
                Tail(p))
Clean(p) == CleanAcc(<<>>, p)

IsPrefix(a, b) == Len(a) <= Len(b) /\ SubSeq(b, 1, Len(a)) = a
Inside(p)       == IsPrefix(Root, Clean(p))
StrictlyInside(p) == Inside(p) /\ Len(Clean(p)) > Len(Root)
RelOf(p)        == SubSeq(Clean(p), Len(Root) + 1, Len(Clean(p)))     \* for Inside(p)
Resolve(rel)    == Clean(Root \o rel)                                 \* what Get opens

(* ---- the ideal Put ---------------------------------------------------------------- *)
\* abs = FALSE: the same components written as a relative path (no leading "/"): never inside.
\* "yes": a canonically written path strictly inside the root must be accepted.
\* "any": the property only bounds what may be accepted; a path that lies inside but is written
\*        with "."/".."/"//" detours, or that cleans to the root itself, may be accepted or refused
\*        -- if accepted, what is stored must resolve to Clean(p) (canonically: RelOf(p)).
IdealAccept(a, p) == IF ~a \/ ~Inside(p) THEN "no"
                     ELSE IF StrictlyInside(p) /\ Clean(p) = p THEN "yes" ELSE "any"
IdealRels(p) == IF StrictlyInside(p) THEN {RelOf(p)} ELSE {<<>>, <<".">>}    \* for Inside(p)
Ideal(a, p) == [accept |-> IdealAccept(a, p),
                rels   |-> IF a /\ Inside(p) THEN IdealRels(p) ELSE {}]
\* a stored relative path is right when Get (Join(root, stored), lexically cleaned) opens Clean(p)
StoredOK(p, s) == Resolve(s) = Clean(p)

(* ---- the as-built Put (pinned commit) --------------------------------------------- *)
Chars(t) == CASE t = "root"  -> <<"R">>
              [] t = "rootX" -> <<"R", "X">>
              [] t = ".."    -> <<".", ".">>
              [] t = "."     -> <<".">>
              [] t = "..x"   -> <<".", ".", "x">>
              [] t = ""      -> <<>>
              [] OTHER       -> <<t>>
RECURSIVE Str(_)
Str(p) == IF p = <<>> THEN <<>> ELSE <<"/">> \o Chars(Head(p)) \o Str(Tail(p))     \* "/a/b/c"
RootStr(form) == IF form = "slash" THEN Str(Root) \o <<"/">> ELSE Str(Root)
PathStr(a, p) == IF a \/ p = <<>> THEN Str(p) ELSE Tail(Str(p))

RECURSIVE Common(_, _)
Common(a, b) == IF a = <<>> \/ b = <<>> \/ Head(a) # Head(b) THEN 0 ELSE 1 + Common(Tail(a), Tail(b))
\* filepath.Rel(root, p) for two rooted paths
RelSeq(p) == LET t == Clean(p)
                 k == Common(Root, t)
                 r == [i \in 1..(Len(Root) - k) |-> ".."] \o SubSeq(t, k + 1, Len(t))
             IN IF r = <<>> THEN <<".">> ELSE r
AsBuiltAccept(f, a, p) == IsPrefix(RootStr(f), PathStr(a, p))
AsBuilt(f, a, p) == [accept |-> IF AsBuiltAccept(f, a, p) THEN "yes" ELSE "no",
                     rel    |-> IF AsBuiltAccept(f, a, p) THEN RelSeq(p) ELSE <<>>]
\* the deviation explains an outcome only where the ideal refuses
DevApplies(f, a, p) == IdealAccept(a, p) = "no" /\ AsBuiltAccept(f, a, p)

(* ---- state machine: one Put (the FileManager keeps no path state between Puts) ------ *)
VARIABLES done, form, abs, path,
          accepted, stored,     \* outcome of Put(path)
          dev                   \* deviations used
vars == <<done, form, abs, path, accepted, stored, dev>>

Below    == UNION {[1..n -> Alphabet] : n \in 0..MaxLen}
AbsPaths == {Top \o s : s \in Below} \cup {<<"elsewhere", "f">>, <<"base", "root", "f">>, <<"f">>}
RelPaths == {Root \o <<"f">>, Top \o <<"base", "rootX", "f">>, <<"base", "root", "f">>, <<"f">>}
Cases    == {[form |-> f, abs |-> TRUE, path |-> p] : f \in RootForms, p \in AbsPaths}
      \cup {[form |-> f, abs |-> FALSE, path |-> p] : f \in RootForms, p \in RelPaths}

\* Cand: the candidate stored values considered (MC: the canonical ones and an un-cleaned variant;
\* trace validation: the value the real code stored)
Put(f, a, p, Cand) ==
  /\ form' = f /\ abs' = a /\ path' = p
  /\ \/ /\ IdealAccept(a, p) \in {"yes", "any"}
        /\ accepted' = TRUE /\ stored' \in {s \in Cand : StoredOK(p, s)} /\ dev' = dev
     \/ /\ IdealAccept(a, p) \in {"no", "any"}
        /\ accepted' = FALSE /\ stored' = <<>> /\ dev' = dev
     \/ /\ "Dev_C41_StringPrefix" \in Devs /\ DevApplies(f, a, p)
        /\ accepted' = TRUE /\ stored' = RelSeq(p) /\ dev' = dev \cup {"Dev_C41_StringPrefix"}

Init == /\ done = FALSE /\ form = "clean" /\ abs = TRUE /\ path = Root \o <<"f">>
        /\ accepted = TRUE /\ stored = <<"f">> /\ dev = {}
MCCand(p) == IF Inside(p) THEN IdealRels(p) \cup {RelOf(p) \o <<".">>, <<"o", "..">> \o RelOf(p), <<"..">> \o RelOf(p)} ELSE {}
Next == ~done /\ done' = TRUE /\ \E c \in Cases : Put(c.form, c.abs, c.path, MCCand(c.path))
Spec == Init /\ [][Next]_vars

(* ---- the property ------------------------------------------------------------------ *)
\* an accepted reference is to a path inside the root (by components) ...
AcceptedInside == accepted => abs /\ Inside(path)
\* ... and what is stored resolves, the way Get resolves it, to that very path inside the root
StoredResolvesInside == accepted => /\ IsPrefix(Root, Resolve(stored))
                                    /\ Resolve(stored) = Clean(path)
\* canonical paths strictly inside are never refused (a repair must not over-reject, e.g. a file named "..x")
InsideAccepted == (abs /\ StrictlyInside(path) /\ Clean(path) = path) => accepted
=============================================================================
