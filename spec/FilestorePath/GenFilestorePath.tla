--------------------------- MODULE GenFilestorePath ---------------------------
(* Phase G (class-product enumeration): one case per (root form, abs, component sequence); the
   expected outcome is computed here -- the ideal one and, where the pinned code's string-prefix
   test differs, the as-built alternative with the name of the deviation.  The harness replays
   every case on FileManager.Put / PutMany (+ Get) with real directories and files. *)
EXTENDS FilestorePath

Loc(p) == IF StrictlyInside(p) THEN "in" ELSE IF Inside(p) THEN "root" ELSE "out"
CaseRec(f, a, p) == [form |-> f, abs |-> a, path |-> p, clean |-> Clean(p), loc |-> Loc(p),
                     ideal |-> Ideal(a, p), asbuilt |-> AsBuilt(f, a, p),
                     dev |-> IF DevApplies(f, a, p) THEN "Dev_C41_StringPrefix" ELSE ""]

GInit == /\ \E c \in Cases : form = c.form /\ abs = c.abs /\ path = c.path
         /\ done = TRUE /\ accepted = FALSE /\ stored = <<>> /\ dev = {}
GSpec == GInit /\ [][UNCHANGED vars]_vars
Emit == PrintT(<<"BEHAVIOUR", ToJson(CaseRec(form, abs, path))>>)
=============================================================================
