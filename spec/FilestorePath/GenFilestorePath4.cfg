SPECIFICATION GSpec
CONSTANTS Devs = {}
          Alphabet = {"base", "root", "rootX", "..", ".", "..x", "o", "f", ""}
          MaxLen = 4
INVARIANTS Emit
