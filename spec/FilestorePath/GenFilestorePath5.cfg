SPECIFICATION GSpec
CONSTANTS Devs = {}
          Alphabet = {"base", "root", "rootX", "..", ".", "..x", "o", "f", ""}
          MaxLen = 5
INVARIANTS Emit
