SPECIFICATION Spec
CONSTANTS Devs = {"Dev_C41_StringPrefix"}
          Alphabet = {"base", "root", "rootX", "..", ".", "..x", "o", "f", ""}
          MaxLen = 4
INVARIANTS AcceptedInside StoredResolvesInside InsideAccepted
