SPECIFICATION TSpec
CONSTANTS Devs = @DEVS@
          Alphabet = {}
          MaxLen = 0
INVARIANTS TAcceptedInside TStoredResolvesInside InsideAccepted DevReport
CONSTRAINT TraceConstraint
POSTCONDITION TracePost
CHECK_DEADLOCK FALSE
