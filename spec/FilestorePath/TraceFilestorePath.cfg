SPECIFICATION TSpec
CONSTANTS Devs = @DEVS@
          Alphabet = {}
          MaxLen = 0
INVARIANTS AcceptedInside StoredResolvesInside InsideAccepted DevReport
CONSTRAINT TraceConstraint
POSTCONDITION TracePost
CHECK_DEADLOCK FALSE
