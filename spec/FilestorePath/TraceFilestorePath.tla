-------------------------- MODULE TraceFilestorePath --------------------------
(* Phase T: recorded Put(+Get) calls of the real FileManager on random component sequences
   (longer than the enumerated ones, PutMany and Filestore.Put included) must each be a Put step
   of FilestorePath; outcomes only the string-prefix test explains need Dev_C41_StringPrefix. *)
EXTENDS FilestorePath, Integers

Trace == ndJsonDeserialize("trace.ndjson")
VARIABLE l
tvars == <<vars, l>>
ASSUME TLCSet(1, 0)

Ev == Trace[l]
IsEvent(e) == l <= Len(Trace) /\ Trace[l].ev = e /\ l' = l + 1

TInit == l = 1 /\ Init
TPut == /\ IsEvent("Put") /\ Ev.detail = ""
        /\ Put(Ev.form, Ev.abs, Ev.path, {Ev.stored})
        /\ accepted' = Ev.accepted /\ stored' = Ev.stored
        \* an accepted reference to a file strictly inside the root can be read back
        /\ (Ev.accepted /\ Ev.abs /\ StrictlyInside(Ev.path)) => Ev.got = "ok"
        /\ UNCHANGED done
TNext == TPut
TSpec == TInit /\ [][TNext]_tvars

\* the property, evaluated on every recorded outcome except those only the open deviation explains
ViaDev == accepted /\ DevApplies(form, abs, path)
TAcceptedInside       == ViaDev \/ AcceptedInside
TStoredResolvesInside == ViaDev \/ StoredResolvesInside
DevReport == l <= Len(Trace) \/ \A d \in dev : PrintT(<<"DEV_USED", d>>)
TraceConstraint == TLCSet(1, IF l - 1 > TLCGet(1) THEN l - 1 ELSE TLCGet(1))
TracePost == PrintT(<<"TRACE_HWM", TLCGet(1)>>)
=============================================================================
