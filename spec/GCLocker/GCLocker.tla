------------------------------ MODULE GCLocker ------------------------------
(* X01 -- the blockstore GC locker (boxo/blockstore/blockstore.go: gclocker, unlocker).

     type gclocker struct { lk sync.RWMutex; gcreq int32 }
     GCLock:      gcreq++ ; lk.Lock() ; gcreq-- ; return &unlocker{lk.Unlock}
     PinLock:     lk.RLock() ; return &unlocker{lk.RUnlock}
     GCRequested: gcreq > 0
     Unlock:      u.unlock() ; u.unlock = nil          (a second Unlock calls a nil func: panic)

   What a user relies on (interface documentation + the put...pin / GC protocol of its users):
     * a GC section never overlaps a pin section, at most one GC section, pin sections overlap freely;
     * GCRequested is TRUE exactly while some GCLock call is between "called" and "has the lock":
       a waiting GC is visible to the pinners it waits for, and the flag is not left behind;
     * an Unlocker releases its own section once; using it again never releases somebody else's;
     * a waiting GC is not starved by a stream of new pinners (writer preference of sync.RWMutex),
       pinners are not starved by GCs, and pinners that only yield when GCRequested() says so
       (long "add" sessions) do let the GC in.

   sync.RWMutex (go1.25) is modelled at the grain of its atomic operations, because the
   preference/starvation properties are properties of that algorithm:
     w (internal writer mutex) = wown;  readerCount = rcnt - (ann ? 2^30 : 0);
     readerWait = rwait;  writerSem / readerSem = token counters wsem / rsem.
   Every client call is   Call (pc idle->x_call), internal atomic steps, Ret.                     *)
EXTENDS Integers, FiniteSets, TLC

CONSTANTS GCs,         \* goroutines that run   GCLock ... Unlock
          Pins,        \* goroutines that run   PinLock ... Unlock
          Coop,        \* subset of Pins: never leave their section unless GCRequested() told them to
          WriterPref,  \* TRUE = sync.RWMutex as built; FALSE = control: a lock that admits readers while a writer waits
          ReqFirst,    \* TRUE = gcreq raised before lk.Lock() (as built); FALSE = control: request never visible while waiting
          SingleUse,   \* TRUE = Unlock clears u.unlock (as built); FALSE = control: the unlock function stays armed
          Misuse       \* TRUE = a spent Unlocker may be unlocked once more (client misuse)

Procs == GCs \cup Pins
None  == "none"

VARIABLES pc,      \* control state of every goroutine
          ul,      \* state of the Unlocker a goroutine got last: "none" | "live" | "spent" | "dead" (re-used once)
          seen,    \* last GCRequested() answer a pinner got inside its section
          gcreq,   \* gclocker.gcreq
          wown,    \* holder of RWMutex.w
          ann,     \* readerCount < 0 : a writer announced itself
          rcnt,    \* readerCount modulo 2^30 : readers counted (admitted or asleep)
          rsnap,   \* r of the announcing writer (local to the holder of w)
          rwait,   \* readerWait
          wsem, rsem,   \* semaphore tokens
          fatal    \* "sync: (R)Unlock of unlocked RWMutex" -- process dies

lockvars == <<gcreq, wown, ann, rcnt, rsnap, rwait, wsem, rsem, fatal>>
vars == <<pc, ul, seen, lockvars>>

PcG == {"g_call", "g_lockw", "g_ann", "g_cnt", "g_sleep", "g_got", "g_ret", "gc", "gu_rel", "gu_w", "gu_ret"}
PcP == {"p_call", "p_sleep", "p_ret", "pin", "pu_dec", "pu_slow", "pu_ret"}

TypeOK == /\ pc \in [Procs -> {"idle"} \cup PcG \cup PcP]
          /\ \A p \in GCs : pc[p] \in {"idle"} \cup PcG
          /\ \A p \in Pins : pc[p] \in {"idle"} \cup PcP
          /\ ul \in [Procs -> {"none", "live", "spent", "dead"}]
          /\ seen \in [Pins -> BOOLEAN]
          /\ gcreq \in 0..Cardinality(GCs)
          /\ wown \in GCs \cup {None}
          /\ ann \in BOOLEAN /\ fatal \in BOOLEAN
          /\ rcnt \in 0..Cardinality(Pins) /\ rsnap \in 0..Cardinality(Pins)
          /\ rwait \in (0 - Cardinality(Pins))..Cardinality(Pins)
          /\ wsem \in 0..1 /\ rsem \in 0..Cardinality(Pins)

Init == /\ pc = [p \in Procs |-> "idle"] /\ ul = [p \in Procs |-> "none"]
        /\ seen = [p \in Pins |-> FALSE]
        /\ gcreq = 0 /\ wown = None /\ ann = FALSE /\ rcnt = 0 /\ rsnap = 0 /\ rwait = 0
        /\ wsem = 0 /\ rsem = 0 /\ fatal = FALSE

Goto(p, s) == pc' = [pc EXCEPT ![p] = s]

\* ------------------------------------------------------------ GCLock
GCall(p) == /\ ~fatal /\ p \in GCs /\ pc[p] = "idle" /\ Goto(p, "g_call")
            /\ ul' = [ul EXCEPT ![p] = "none"]              \* the previous Unlocker is dropped
            /\ UNCHANGED <<seen, lockvars>>
\* atomic.AddInt32(&bs.gcreq, 1)
GInc(p) == /\ ~fatal /\ pc[p] = "g_call" /\ Goto(p, "g_lockw")
           /\ gcreq' = IF ReqFirst THEN gcreq + 1 ELSE gcreq
           /\ UNCHANGED <<ul, seen, wown, ann, rcnt, rsnap, rwait, wsem, rsem, fatal>>
\* rw.w.Lock()
GLockW(p) == /\ ~fatal /\ pc[p] = "g_lockw" /\ wown = None /\ wown' = p /\ Goto(p, "g_ann")
             /\ UNCHANGED <<ul, seen, gcreq, ann, rcnt, rsnap, rwait, wsem, rsem, fatal>>
\* r := rw.readerCount.Add(-rwmutexMaxReaders) + rwmutexMaxReaders
GAnnounce(p) == /\ ~fatal /\ pc[p] = "g_ann" /\ (WriterPref \/ rcnt = 0)
                /\ ann' = TRUE /\ rsnap' = rcnt /\ Goto(p, "g_cnt")
                /\ UNCHANGED <<ul, seen, gcreq, wown, rcnt, rwait, wsem, rsem, fatal>>
\* if r != 0 && rw.readerWait.Add(r) != 0 { sleep on writerSem }
GCount(p) == /\ ~fatal /\ pc[p] = "g_cnt"
             /\ IF rsnap = 0 THEN Goto(p, "g_got") /\ rwait' = rwait
                ELSE /\ rwait' = rwait + rsnap
                     /\ Goto(p, IF rwait + rsnap # 0 THEN "g_sleep" ELSE "g_got")
             /\ UNCHANGED <<ul, seen, gcreq, wown, ann, rcnt, rsnap, wsem, rsem, fatal>>
GWake(p) == /\ ~fatal /\ pc[p] = "g_sleep" /\ wsem > 0 /\ wsem' = wsem - 1 /\ Goto(p, "g_got")
            /\ UNCHANGED <<ul, seen, gcreq, wown, ann, rcnt, rsnap, rwait, rsem, fatal>>
\* atomic.AddInt32(&bs.gcreq, -1)
GDec(p) == /\ ~fatal /\ pc[p] = "g_got" /\ Goto(p, "g_ret")
           /\ gcreq' = IF ReqFirst THEN gcreq - 1 ELSE gcreq
           /\ UNCHANGED <<ul, seen, wown, ann, rcnt, rsnap, rwait, wsem, rsem, fatal>>
GRet(p) == /\ ~fatal /\ pc[p] = "g_ret" /\ Goto(p, "gc") /\ ul' = [ul EXCEPT ![p] = "live"]
           /\ UNCHANGED <<seen, lockvars>>

\* ------------------------------------------------------------ Unlock of a GC section
GUCall(p) == /\ ~fatal /\ pc[p] = "gc" /\ ul[p] = "live" /\ Goto(p, "gu_rel")
             /\ UNCHANGED <<ul, seen, lockvars>>
\* r := rw.readerCount.Add(rwmutexMaxReaders); r >= max => fatal; release r readerSem tokens
GURel(p) == /\ ~fatal /\ pc[p] = "gu_rel"
            /\ IF ~ann THEN fatal' = TRUE /\ UNCHANGED <<pc, ann, rsem>>
               ELSE /\ ann' = FALSE /\ rsem' = rsem + rcnt /\ Goto(p, "gu_w") /\ fatal' = fatal
            /\ UNCHANGED <<ul, seen, gcreq, wown, rcnt, rsnap, rwait, wsem>>
\* rw.w.Unlock()
GUW(p) == /\ ~fatal /\ pc[p] = "gu_w" /\ wown' = None /\ Goto(p, "gu_ret")
          /\ UNCHANGED <<ul, seen, gcreq, ann, rcnt, rsnap, rwait, wsem, rsem, fatal>>
\* u.unlock = nil ; return
GURet(p) == /\ ~fatal /\ pc[p] = "gu_ret" /\ Goto(p, "idle")
            /\ ul' = [ul EXCEPT ![p] = IF ul[p] = "dead" THEN "dead" ELSE "spent"]
            /\ UNCHANGED <<seen, lockvars>>

\* ------------------------------------------------------------ PinLock
PCall(q) == /\ ~fatal /\ q \in Pins /\ pc[q] = "idle" /\ Goto(q, "p_call")
            /\ ul' = [ul EXCEPT ![q] = "none"]
            /\ UNCHANGED <<seen, lockvars>>
\* if rw.readerCount.Add(1) < 0 { sleep on readerSem }
PInc(q) == /\ ~fatal /\ pc[q] = "p_call" /\ rcnt' = rcnt + 1
           /\ Goto(q, IF ann THEN "p_sleep" ELSE "p_ret")
           /\ UNCHANGED <<ul, seen, gcreq, wown, ann, rsnap, rwait, wsem, rsem, fatal>>
PWake(q) == /\ ~fatal /\ pc[q] = "p_sleep" /\ rsem > 0 /\ rsem' = rsem - 1 /\ Goto(q, "p_ret")
            /\ UNCHANGED <<ul, seen, gcreq, wown, ann, rcnt, rsnap, rwait, wsem, fatal>>
PRet(q) == /\ ~fatal /\ pc[q] = "p_ret" /\ Goto(q, "pin") /\ ul' = [ul EXCEPT ![q] = "live"]
           /\ seen' = [seen EXCEPT ![q] = FALSE]
           /\ UNCHANGED lockvars

\* GCRequested() asked from inside a pin section (the intended use: "should I yield?")
Poll(q) == /\ ~fatal /\ q \in Pins /\ pc[q] = "pin" /\ seen' = [seen EXCEPT ![q] = (gcreq > 0)]
           /\ UNCHANGED <<pc, ul, lockvars>>

\* ------------------------------------------------------------ Unlock of a pin section
PUCall(q) == /\ ~fatal /\ pc[q] = "pin" /\ ul[q] = "live" /\ (q \in Coop => seen[q])
             /\ Goto(q, "pu_dec") /\ UNCHANGED <<ul, seen, lockvars>>
\* if r := rw.readerCount.Add(-1); r < 0 { rUnlockSlow(r) }   (r+1 == 0 or -max => fatal)
PUDec(q) == /\ ~fatal /\ pc[q] = "pu_dec"
            /\ IF rcnt = 0 THEN fatal' = TRUE /\ UNCHANGED <<pc, rcnt>>
               ELSE rcnt' = rcnt - 1 /\ Goto(q, IF ann THEN "pu_slow" ELSE "pu_ret") /\ fatal' = fatal
            /\ UNCHANGED <<ul, seen, gcreq, wown, ann, rsnap, rwait, wsem, rsem>>
\* if rw.readerWait.Add(-1) == 0 { release writerSem }
PUSlow(q) == /\ ~fatal /\ pc[q] = "pu_slow" /\ rwait' = rwait - 1
             /\ wsem' = IF rwait - 1 = 0 THEN wsem + 1 ELSE wsem
             /\ Goto(q, "pu_ret")
             /\ UNCHANGED <<ul, seen, gcreq, wown, ann, rcnt, rsnap, rsem, fatal>>
PURet(q) == /\ ~fatal /\ pc[q] = "pu_ret" /\ Goto(q, "idle")
            /\ ul' = [ul EXCEPT ![q] = IF ul[q] = "dead" THEN "dead" ELSE "spent"]
            /\ UNCHANGED <<seen, lockvars>>

\* ------------------------------------------------------------ misuse: Unlock on a spent Unlocker
\* as built: u.unlock is nil -> the call panics before touching the lock (recoverable)
\* control  : the armed function runs again on a lock the caller no longer holds
Again(p) == /\ ~fatal /\ Misuse /\ pc[p] = "idle" /\ ul[p] = "spent"
            /\ ul' = [ul EXCEPT ![p] = "dead"]
            /\ IF SingleUse THEN UNCHANGED pc
               ELSE Goto(p, IF p \in GCs THEN "gu_rel" ELSE "pu_dec")
            /\ UNCHANGED <<seen, lockvars>>

\* ------------------------------------------------------------ next-state relation
CallStep(p) == GCall(p) \/ PCall(p) \/ GUCall(p) \/ PUCall(p) \/ Again(p)
RetStep(p)  == GRet(p) \/ GURet(p) \/ PRet(p) \/ PURet(p)
\* internal steps that are always enabled once reached
Auto(p) == GInc(p) \/ GAnnounce(p) \/ GCount(p) \/ GDec(p) \/ GURel(p) \/ GUW(p)
           \/ PInc(p) \/ PUDec(p) \/ PUSlow(p)
\* internal steps that wait for a resource
Wait(p) == GLockW(p) \/ GWake(p) \/ PWake(p)
Internal(p) == Auto(p) \/ Wait(p) \/ RetStep(p)

Next == \E p \in Procs : GCall(p) \/ GInc(p) \/ GLockW(p) \/ GAnnounce(p) \/ GCount(p) \/ GWake(p)
                         \/ GDec(p) \/ GRet(p) \/ GUCall(p) \/ GURel(p) \/ GUW(p) \/ GURet(p)
                         \/ PCall(p) \/ PInc(p) \/ PWake(p) \/ PRet(p) \/ Poll(p)
                         \/ PUCall(p) \/ PUDec(p) \/ PUSlow(p) \/ PURet(p) \/ Again(p)

Spec == Init /\ [][Next]_vars

\* Fairness: goroutines run; sections end (a Coop pinner's only when it saw the request);
\* the writer mutex and the runtime semaphores are starvation free (Go: starvation mode / FIFO).
Fairness == /\ \A p \in Procs : WF_vars(Auto(p) \/ RetStep(p))
            /\ \A p \in GCs : SF_vars(GLockW(p)) /\ SF_vars(GWake(p)) /\ WF_vars(GUCall(p))
            /\ \A q \in Pins : SF_vars(PWake(q)) /\ WF_vars(PUCall(q)) /\ WF_vars(Poll(q))
FairSpec == Spec /\ Fairness

\* ------------------------------------------------------------ properties
\* a section, as the RWMutex sees it: from the grant to the release step
GCHold  == {p \in GCs : pc[p] \in {"g_got", "g_ret", "gc", "gu_rel"}}
PinHold == {q \in Pins : pc[q] \in {"p_ret", "pin", "pu_dec"}}
\* a section, as the client sees it: from the return of the lock call to the call of Unlock
GCSec   == {p \in GCs : pc[p] = "gc"}
PinSec  == {q \in Pins : pc[q] = "pin"}
InGCLock == {p \in GCs : pc[p] \in {"g_call", "g_lockw", "g_ann", "g_cnt", "g_sleep", "g_got", "g_ret"}}

MutualExclusion == GCHold = {} \/ PinHold = {}
AtMostOneGC     == Cardinality(GCHold) <= 1
\* pinners are only ever kept out by a GC (requested, waiting, or in its section), never by each other
PinBlockedOnlyByGC == \A q \in Pins : pc[q] = "p_sleep" /\ rsem = 0 =>
                         \E p \in GCs : pc[p] \in {"g_cnt", "g_sleep", "g_got", "g_ret", "gc", "gu_rel"}
\* GCRequested accounting: raised for exactly the GCLock calls that have not got the lock yet
ReqExact == gcreq = Cardinality({p \in GCs : pc[p] \in {"g_lockw", "g_ann", "g_cnt", "g_sleep", "g_got"}})
\* a GC that waits (for the writer mutex or for readers), or that keeps new pinners out, is visible
WaitingVisible == (\E p \in GCs : pc[p] \in {"g_lockw", "g_ann", "g_cnt", "g_sleep"}) => gcreq > 0
BlockingVisible == (ann /\ GCHold = {}) => gcreq > 0
\* ... and the flag is not left behind
ReqNotStuck == gcreq > 0 => InGCLock # {}
ReqFalseInQuietSection == \A p \in GCSec : InGCLock = {} => gcreq = 0
NoFatal == ~fatal
\* when every call has returned and every section is closed the locker is as new
IdleClean == (\A p \in Procs : pc[p] = "idle") =>
                gcreq = 0 /\ ~ann /\ rcnt = 0 /\ rwait = 0 /\ wown = None /\ wsem = 0 /\ rsem = 0
\* bookkeeping of the RWMutex model itself
Counted == {q \in Pins : pc[q] \in {"p_sleep", "p_ret", "pin", "pu_dec"}}
CountersSane == /\ rcnt = Cardinality(Counted)
                /\ wown # None <=> \E p \in GCs : pc[p] \in {"g_ann", "g_cnt", "g_sleep", "g_got", "g_ret", "gc", "gu_rel", "gu_w"}
                /\ ann <=> \E p \in GCs : pc[p] \in {"g_cnt", "g_sleep", "g_got", "g_ret", "gc", "gu_rel"}
                /\ rsem <= Cardinality({q \in Pins : pc[q] = "p_sleep"})
UnlockerLive == \A p \in Procs : (ul[p] = "live") <=> pc[p] \in {"gc", "gu_rel", "gu_w", "gu_ret", "pin", "pu_dec", "pu_slow", "pu_ret"}

\* action property: re-using a spent Unlocker changes nothing of the lock
SpentUnlockInert == [][\A p \in Procs : (ul[p] = "spent" /\ ul'[p] = "dead") => UNCHANGED <<pc, lockvars>>]_vars
\* action property: sections are only entered through a grant and left through the owner's Unlock
SectionsByOwner == [][\A p \in Procs : /\ (pc[p] # "gc" /\ pc'[p] = "gc") => pc[p] = "g_ret"
                                       /\ (pc[p] # "pin" /\ pc'[p] = "pin") => pc[p] = "p_ret"
                                       /\ (pc[p] \in {"gc", "pin"} /\ pc'[p] # pc[p]) => pc'[p] \in {"gu_rel", "pu_dec"}]_vars

\* liveness (FairSpec)
GCNotStarved  == \A p \in GCs : (pc[p] = "g_call") ~> (pc[p] = "gc")
PinNotStarved == \A q \in Pins : (pc[q] = "p_call") ~> (pc[q] = "pin")
UnlockReturns == \A p \in Procs : (pc[p] \in {"gu_rel", "pu_dec"}) ~> (pc[p] = "idle")
=============================================================================
