---------------------------- MODULE GenGCLocker ----------------------------
(* Phase G: call-level schedules of the GC locker.  The driver issues one client call (or one
   misuse) at a time and lets the goroutines run until nothing can move (run to quiescence);
   the behaviour carries, after every call, the projection of the quiescent state the
   specification predicts: who returned, who is blocked, gcreq, and the RWMutex words.
   GC goroutines are interchangeable (which of two waiting writers wins rw.w is the runtime's
   choice and shows in no projection), so GC operations carry no identity.                    *)
EXTENDS GCLocker, Sequences, Json
CONSTANTS D,     \* client operations per behaviour
          E      \* emit at this length (E = D for BFS)
VARIABLES hist, pend
gvars == <<vars, hist, pend>>

CanStep(p) == \/ pc[p] \in {"g_call", "g_cnt", "g_got", "g_ret", "gu_rel", "gu_w", "gu_ret",
                            "p_call", "p_ret", "pu_dec", "pu_slow", "pu_ret"}
              \/ pc[p] = "g_ann" /\ (WriterPref \/ rcnt = 0)
              \/ pc[p] = "g_lockw" /\ wown = None
              \/ pc[p] = "g_sleep" /\ wsem > 0
              \/ pc[p] = "p_sleep" /\ rsem > 0
Quiet == \A p \in Procs : ~CanStep(p)

PinState(q) == IF pc[q] = "p_sleep" THEN "blocked" ELSE pc[q]      \* idle | pin | blocked
Obs == [gcreq |-> gcreq, req |-> gcreq > 0, ann |-> ann, rcnt |-> rcnt, rwait |-> rwait,
        wlocked |-> wown # None,
        wwait |-> Cardinality({p \in GCs : pc[p] = "g_lockw"}),
        gcin |-> Cardinality(GCSec),
        gcblocked |-> Cardinality({p \in GCs : pc[p] \in {"g_lockw", "g_sleep"}}),
        pins |-> [q \in Pins |-> PinState(q)]]

GInit == Init /\ hist = <<>> /\ pend = FALSE

Op(name, who, res) == /\ hist' = Append(hist, [op |-> name, p |-> who, res |-> res, o |-> <<>>])
                      /\ pend' = TRUE
Client == \/ \E p \in GCs : \/ GCall(p) /\ Op("GCLock", "", "")
                            \/ GUCall(p) /\ Op("GCUnlock", "", "")
                            \/ Again(p) /\ Op("GCAgain", "", "panic")
          \/ \E q \in Pins : \/ PCall(q) /\ Op("PinLock", q, "")
                             \/ PUCall(q) /\ Op("PinUnlock", q, "")
                             \/ Again(q) /\ Op("PinAgain", q, "panic")

GNext == IF ~Quiet THEN (\E p \in Procs : Internal(p)) /\ UNCHANGED <<hist, pend>>
         ELSE IF pend THEN /\ hist' = [hist EXCEPT ![Len(hist)].o = Obs]
                           /\ pend' = FALSE /\ UNCHANGED vars
         ELSE Len(hist) < D /\ Client
GSpec == GInit /\ [][GNext]_gvars

Done == Len(hist) = E /\ ~pend /\ Quiet
Emit == ~Done \/ PrintT(<<"BEHAVIOUR", ToJson([steps |-> hist])>>)

\* -simulate: print and restart
Flush == /\ Done /\ PrintT(<<"BEHAVIOUR", ToJson([steps |-> hist])>>)
         /\ hist' = <<>> /\ pend' = FALSE
         /\ pc' = [p \in Procs |-> "idle"] /\ ul' = [p \in Procs |-> "none"]
         /\ seen' = [p \in Pins |-> FALSE]
         /\ gcreq' = 0 /\ wown' = None /\ ann' = FALSE /\ rcnt' = 0 /\ rsnap' = 0 /\ rwait' = 0
         /\ wsem' = 0 /\ rsem' = 0 /\ fatal' = FALSE
GNextSim == IF Done THEN Flush ELSE GNext
GSpecSim == GInit /\ [][GNextSim]_gvars

\* the predicted quiescent states satisfy the properties (checked while generating)
QuietOK == (Quiet /\ ~pend) => /\ wsem = 0 /\ rsem = 0
                               /\ MutualExclusion /\ ReqExact /\ NoFatal
=============================================================================
