SPECIFICATION GSpec
CONSTANTS GCs = {"g1", "g2"}
          Pins = {"p1", "p2"}
          Coop = {}
          WriterPref = TRUE
          ReqFirst = TRUE
          SingleUse = TRUE
          Misuse = TRUE
          D = 7
          E = 7
INVARIANTS Emit QuietOK
