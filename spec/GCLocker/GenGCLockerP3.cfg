SPECIFICATION GSpec
CONSTANTS GCs = {"g1", "g2"}
          Pins = {"p1", "p2", "p3"}
          Coop = {}
          WriterPref = TRUE
          ReqFirst = TRUE
          SingleUse = TRUE
          Misuse = TRUE
          D = 6
          E = 6
INVARIANTS Emit QuietOK
