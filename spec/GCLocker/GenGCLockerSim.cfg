SPECIFICATION GSpecSim
CONSTANTS GCs = {"g1", "g2", "g3"}
          Pins = {"p1", "p2", "p3"}
          Coop = {}
          WriterPref = TRUE
          ReqFirst = TRUE
          SingleUse = TRUE
          Misuse = TRUE
          D = 24
          E = 24
INVARIANTS QuietOK
