SPECIFICATION Spec
CONSTANTS GCs = {"g1"}
          Pins = {"p1", "p2"}
          Coop = {}
          WriterPref = TRUE
          ReqFirst = TRUE
          SingleUse = FALSE
          Misuse = TRUE
INVARIANTS MutualExclusion
CHECK_DEADLOCK FALSE
