SPECIFICATION FairSpec
CONSTANTS GCs = {"g1"}
          Pins = {"p1", "p2"}
          Coop = {}
          WriterPref = FALSE
          ReqFirst = TRUE
          SingleUse = TRUE
          Misuse = FALSE
INVARIANTS MutualExclusion
PROPERTIES GCNotStarved
CHECK_DEADLOCK FALSE
