SPECIFICATION Spec
CONSTANTS GCs = {"g1", "g2"}
          Pins = {"p1", "p2"}
          Coop = {"p1", "p2"}
          WriterPref = TRUE
          ReqFirst = FALSE
          SingleUse = TRUE
          Misuse = FALSE
INVARIANTS WaitingVisible
CHECK_DEADLOCK FALSE
