SPECIFICATION Spec
CONSTANTS GCs = {"g1", "g2", "g3"}
          Pins = {"p1", "p2"}
          Coop = {"p2"}
          WriterPref = TRUE
          ReqFirst = TRUE
          SingleUse = TRUE
          Misuse = TRUE
INVARIANTS TypeOK MutualExclusion AtMostOneGC PinBlockedOnlyByGC ReqExact WaitingVisible BlockingVisible
           ReqNotStuck ReqFalseInQuietSection NoFatal IdleClean CountersSane UnlockerLive
PROPERTIES SpentUnlockInert SectionsByOwner
CHECK_DEADLOCK FALSE
