SPECIFICATION FairSpec
CONSTANTS GCs = {"g1", "g2"}
          Pins = {"p1", "p2"}
          Coop = {"p1", "p2"}
          WriterPref = TRUE
          ReqFirst = TRUE
          SingleUse = TRUE
          Misuse = FALSE
INVARIANTS MutualExclusion
PROPERTIES GCNotStarved PinNotStarved UnlockReturns
CHECK_DEADLOCK FALSE
