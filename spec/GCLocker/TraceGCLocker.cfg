SPECIFICATION TSpec
CONSTANTS GCs = {"g1", "g2", "g3"}
          Pins = {"p1", "p2", "p3", "p4"}
          Coop = {}
          WriterPref = TRUE
          ReqFirst = TRUE
          SingleUse = TRUE
          Misuse = TRUE
INVARIANTS MutualExclusion AtMostOneGC NoFatal
CONSTRAINT TraceConstraint
POSTCONDITION TracePost
CHECK_DEADLOCK FALSE
