--------------------------- MODULE TraceGCLocker ---------------------------
(* Phase T: free-running goroutines on the real gclocker log  Call  before and  Ret  after every
   client call (order = order under the log mutex, so a call's atomic steps lie between its two
   events).  The log must be a behaviour of GCLocker: the internal steps of the pending calls are
   silent steps taken anywhere between the events.  Ret of a lock call also carries what the
   goroutine saw inside its section (x = number of goroutines inside the opposite kind of
   section, counted by the harness with atomics): must be 0.  Req = GCRequested() from inside a
   pin section; Again = Unlock on a spent Unlocker (one event, result must be "panic").        *)
EXTENDS GCLocker, Sequences, Json

Trace == ndJsonDeserialize("trace.ndjson")
VARIABLES l, polled
tvars == <<vars, l, polled>>
ASSUME TLCSet(1, 0)

Ev == Trace[l]
IsEvent(e) == l <= Len(Trace) /\ Trace[l].ev = e /\ l' = l + 1

TInit == Init /\ l = 1 /\ polled = [q \in Pins |-> "no"]

TReset == /\ IsEvent("Reset")
          /\ pc' = [p \in Procs |-> "idle"] /\ ul' = [p \in Procs |-> "none"]
          /\ seen' = [p \in Pins |-> FALSE]
          /\ gcreq' = 0 /\ wown' = None /\ ann' = FALSE /\ rcnt' = 0 /\ rsnap' = 0 /\ rwait' = 0
          /\ wsem' = 0 /\ rsem' = 0 /\ fatal' = FALSE
          /\ polled' = [q \in Pins |-> "no"]

TCall == /\ IsEvent("Call") /\ Ev.p \in Procs
         /\ \/ Ev.op = "GCLock" /\ GCall(Ev.p) /\ UNCHANGED polled
            \/ Ev.op = "PinLock" /\ PCall(Ev.p) /\ UNCHANGED polled
            \/ Ev.op = "Unlock" /\ (GUCall(Ev.p) \/ PUCall(Ev.p)) /\ UNCHANGED polled
            \/ /\ Ev.op = "Req" /\ Ev.p \in Pins /\ pc[Ev.p] = "pin" /\ polled[Ev.p] = "no"
               /\ polled' = [polled EXCEPT ![Ev.p] = "called"] /\ UNCHANGED vars

TRet == /\ IsEvent("Ret") /\ Ev.p \in Procs
        /\ \/ Ev.op = "GCLock" /\ Ev.x = 0 /\ GRet(Ev.p) /\ UNCHANGED polled
           \/ Ev.op = "PinLock" /\ Ev.x = 0 /\ PRet(Ev.p) /\ UNCHANGED polled
           \/ Ev.op = "Unlock" /\ (GURet(Ev.p) \/ PURet(Ev.p)) /\ UNCHANGED polled
           \/ /\ Ev.op = "Req" /\ Ev.p \in Pins /\ polled[Ev.p] = "done" /\ Ev.r = seen[Ev.p]
              /\ polled' = [polled EXCEPT ![Ev.p] = "no"] /\ UNCHANGED vars

TAgain == IsEvent("Again") /\ Ev.p \in Procs /\ Ev.res = "panic" /\ Again(Ev.p) /\ UNCHANGED polled

TPoll == /\ l <= Len(Trace)
         /\ \E q \in Pins : polled[q] = "called" /\ Poll(q) /\ polled' = [polled EXCEPT ![q] = "done"]
         /\ UNCHANGED l
TSilent == /\ l <= Len(Trace)
           /\ \E p \in Procs : Auto(p) \/ Wait(p)
           /\ UNCHANGED <<l, polled>>

TNext == TReset \/ TCall \/ TRet \/ TAgain \/ TPoll \/ TSilent
TSpec == TInit /\ [][TNext]_tvars

TraceConstraint == TLCSet(1, IF l - 1 > TLCGet(1) THEN l - 1 ELSE TLCGet(1))
TracePost == PrintT(<<"TRACE_HWM", TLCGet(1)>>)
=============================================================================
