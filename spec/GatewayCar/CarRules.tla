------------------------------ MODULE CarRules --------------------------------
(* C31 -- Trustless gateway responses are verifiable and sufficient.

   PART 1 (declarative, written from the trustless-gateway specification / IPIP-402 and the
   UnixFS data model, independent of the Go code): for a UnixFS DAG, a content path, a
   dag-scope, an entity-bytes range and a duplicates policy, which blocks does a client NEED in order
   to verify the path traversal (PathBlocks) and the requested scope (ScopeBlocks)?

   PART 2 (operational, the as-built algorithm of gateway/backend_blocks.go GetCAR +
   walkGatewaySimpleSelector at the grain of "one block load through the CAR-exporting
   NodeGetter"): the ordered list of block loads (path resolver, terminal load, scope walk
   = ExploreAll DFS / unixfsnode file reader Seek+Copy / HAMT preload) and the CAR writer
   (de-duplicating unless dups=y).

   The invariants relate the produced CAR to PART 1.  TLC checks PART 2 against PART 1 on a
   family of small trees (phase M), emits PART 1's expected sets for replay through the real
   HTTP handler (phase G, GenGatewayCar) and validates recorded responses of the real
   handler on large random trees block by block (phase T, TraceGatewayCar).

   A DAG is a function  node id -> [k, sz, raw, l]:
     k   "leaf"  a block without links holding file bytes (raw block or dag-pb UnixFS file)
         "file"  dag-pb UnixFS file node with child links (root or inner node)
         "dir"   dag-pb UnixFS basic directory
         "shard" dag-pb UnixFS HAMT shard (root shard of a directory or an inner shard)
     sz  number of file bytes below the node (leaf/file), 0 otherwise
     raw leaf is a raw-codec block (only used by the harness to build the real block)
     l   sequence of links [nm, sub, slot, to]: nm = entry name (directories, HAMT value
         links), sub = TRUE for a HAMT link to a child shard, slot = HAMT slot (or -1).      *)
EXTENDS Integers, Sequences, FiniteSets, TLC, Json

Max(a, b) == IF a >= b THEN a ELSE b
Min(a, b) == IF a <= b THEN a ELSE b
Ids(s) == {s[i].n : i \in DOMAIN s}

(* ======================= PART 1: what a verifying client needs ======================= *)
Kids(d, n)    == {d[n].l[i].to : i \in DOMAIN d[n].l}
SubKids(d, n) == {d[n].l[i].to : i \in {j \in DOMAIN d[n].l : d[n].l[j].sub}}

RECURSIVE Grow(_, _, _)
Grow(d, front, seen) ==
  IF front = {} THEN seen
  ELSE LET nxt == (UNION {Kids(d, n) : n \in front}) \ seen IN Grow(d, nxt, seen \cup nxt)
Below(d, n) == Grow(d, {n}, {n})                  \* every block of the DAG rooted at n

RECURSIVE GrowS(_, _, _)
GrowS(d, front, seen) ==
  IF front = {} THEN seen
  ELSE LET nxt == (UNION {SubKids(d, n) : n \in front}) \ seen IN GrowS(d, nxt, seen \cup nxt)
\* all blocks that make up ONE directory entity: the node itself for a basic directory, every
\* shard of the trie for a HAMT directory
ShardTree(d, n) == GrowS(d, {n}, {n})

IsDir(d, n) == d[n].k \in {"dir", "shard"}
ValIdx(d, h, nm) == {i \in DOMAIN d[h].l : ~d[h].l[i].sub /\ d[h].l[i].nm = nm}
\* the block(s) of directory n that hold the entry called nm
Holders(d, n, nm) == {h \in ShardTree(d, n) : ValIdx(d, h, nm) # {}}
HasEntry(d, n, nm) == IsDir(d, n) /\ Holders(d, n, nm) # {}
Holder(d, n, nm) == CHOOSE h \in Holders(d, n, nm) : TRUE
Target(d, n, nm) == LET h == Holder(d, n, nm) IN d[h].l[CHOOSE i \in ValIdx(d, h, nm) : TRUE].to
\* to verify the lookup of nm in directory n a client has to read the shards between the
\* directory root and the shard holding the entry (just n itself for a basic directory)
Chain(d, n, nm) == {x \in ShardTree(d, n) : Holder(d, n, nm) \in ShardTree(d, x)}

RECURSIVE Walk(_, _, _, _)
Walk(d, cur, p, acc) ==
  IF p = <<>> THEN [ok |-> TRUE, term |-> cur, blocks |-> acc \cup {cur}]
  ELSE LET st == IF IsDir(d, cur) THEN ShardTree(d, cur) ELSE {}
           hs == {h \in st : ValIdx(d, h, Head(p)) # {}}
       IN IF hs = {} THEN [ok |-> FALSE, term |-> cur, blocks |-> acc \cup {cur}]
          ELSE LET h == CHOOSE x \in hs : TRUE
                   t == d[h].l[CHOOSE i \in ValIdx(d, h, Head(p)) : TRUE].to
               IN Walk(d, t, Tail(p), acc \cup {x \in st : h \in ShardTree(d, x)})   \* = Chain(d, cur, Head(p))
Resolve(d, r, p) == Walk(d, r, p, {})
Terminal(d, r, p)   == Resolve(d, r, p).term
PathBlocks(d, r, p) == Resolve(d, r, p).blocks     \* includes the terminal block

\* entity-bytes=from:to resolved against a file of `size` bytes (IPIP-402: negative values
\* count from the end, "*" = end of file, a range partially outside is cut to the file,
\* a range entirely outside selects no bytes)
NoRange == [has |-> FALSE, from |-> 0, star |-> TRUE, to |-> 0]
Lo(rng, size) == IF ~rng.has THEN 0 ELSE IF rng.from >= 0 THEN rng.from ELSE Max(size + rng.from, 0)
Hi(rng, size) == IF ~rng.has \/ rng.star THEN size - 1
                 ELSE IF rng.to >= 0 THEN Min(rng.to, size - 1) ELSE size + rng.to

RECURSIVE StartOf(_, _, _)                          \* byte offset of child i inside file node n
StartOf(d, n, i) == IF i = 1 THEN 0 ELSE StartOf(d, n, i - 1) + d[d[n].l[i - 1].to].sz
Hit(d, n, base, i, lo, hi) ==                       \* child i holds at least one byte of [lo,hi]
  LET s == base + StartOf(d, n, i)
      z == d[d[n].l[i].to].sz
  IN z > 0 /\ s <= hi /\ s + z - 1 >= lo
\* the leaves holding a byte of [lo,hi] and all file nodes above them
RECURSIVE FileBlocks(_, _, _, _, _)
FileBlocks(d, n, base, lo, hi) ==
  {n} \cup UNION {FileBlocks(d, d[n].l[i].to, base + StartOf(d, n, i), lo, hi) :
                    i \in {j \in DOMAIN d[n].l : Hit(d, n, base, j, lo, hi)}}

ScopeBlocks(d, t, scope, rng) ==
  CASE scope = "block"  -> {t}
    [] scope = "all"    -> Below(d, t)
    [] scope = "entity" ->
         IF d[t].k = "file"
         THEN LET lo == Lo(rng, d[t].sz)
                  hi == Hi(rng, d[t].sz)
              IN IF lo > hi THEN {t} ELSE FileBlocks(d, t, 0, lo, hi)
         ELSE ShardTree(d, t)      \* directory node / all HAMT shards / single-block file

Need(d, r, q) == LET res == Resolve(d, r, q.path) IN res.blocks \cup ScopeBlocks(d, res.term, q.scope, q.rng)

(* ============== PART 2: the as-built traversal (order of block loads) =============== *)
\* shards loaded by unixfsnode's HAMT lookup below `cur` until the holder of the entry
RECURSIVE ChainSeq(_, _, _)
ChainSeq(d, cur, h) ==
  IF cur = h THEN <<>>
  ELSE LET c == CHOOSE x \in SubKids(d, cur) : h \in ShardTree(d, x) IN <<c>> \o ChainSeq(d, c, h)
\* path/resolver ResolveToLastNode: loads every block up to the PARENT of the last segment
\* (the link to the terminal is returned, not loaded); the caller then loads the terminal.
RECURSIVE PathSeq(_, _, _)
PathSeq(d, cur, p) ==
  IF p = <<>> THEN <<>>
  ELSE LET h == Holder(d, cur, Head(p))
           t == Target(d, cur, Head(p))
       IN ChainSeq(d, cur, h) \o <<t>> \o PathSeq(d, t, Tail(p))

RECURSIVE Dfs(_, _)
RECURSIVE DfsKids(_, _, _)
Dfs(d, n) == <<n>> \o DfsKids(d, n, 1)
DfsKids(d, n, i) == IF i > Len(d[n].l) THEN <<>> ELSE Dfs(d, d[n].l[i].to) \o DfsKids(d, n, i + 1)

\* unixfs-preload of a HAMT directory: length() walks the links in order and loads child shards
RECURSIVE ShardSeq(_, _, _)
ShardSeq(d, n, i) ==
  IF i > Len(d[n].l) THEN <<>>
  ELSE (IF d[n].l[i].sub THEN <<d[n].l[i].to>> \o ShardSeq(d, d[n].l[i].to, 1) ELSE <<>>)
       \o ShardSeq(d, n, i + 1)

\* unixfsnode shardNodeReader: Seek(from) then read cnt bytes; children that end at or before
\* the offset are skipped without being loaded, the others are loaded lazily when read.
RECURSIVE FileSeq(_, _, _, _, _, _)
FileSeq(d, n, base, lo, hi, i) ==
  IF i > Len(d[n].l) THEN <<>>
  ELSE LET c == d[n].l[i].to
           s == base + StartOf(d, n, i)
       IN (IF Hit(d, n, base, i, lo, hi)
           THEN <<c>> \o (IF d[c].k = "file" THEN FileSeq(d, c, s, lo, hi, 1) ELSE <<>>)
           ELSE <<>>) \o FileSeq(d, n, base, lo, hi, i + 1)

\* walkGatewaySimpleSelector's arithmetic for dag-scope=entity on a multi-block file
CodeLo(rng, size) == IF rng.from < 0 THEN Max(size + rng.from, 0) ELSE rng.from
CodeHi(rng, size) == IF rng.star THEN size - 1 ELSE IF rng.to < 0 THEN size + rng.to ELSE rng.to
ScopeSeq(d, t, scope, rng) ==
  CASE scope = "block"  -> <<>>
    [] scope = "all"    -> DfsKids(d, t, 1)
    [] scope = "entity" ->
         IF d[t].k = "shard" THEN ShardSeq(d, t, 1)
         ELSE IF d[t].k = "file"
              THEN LET r  == IF rng.has THEN rng ELSE [NoRange EXCEPT !.has = TRUE]
                       lo == CodeLo(r, d[t].sz)
                       hi == CodeHi(r, d[t].sz)
                   IN IF 1 + hi - lo <= 0 THEN <<>> ELSE FileSeq(d, t, 0, lo, hi, 1)
              ELSE <<>>
LoadSeq(d, r, q) == <<r>> \o PathSeq(d, r, q.path) \o ScopeSeq(d, Terminal(d, r, q.path), q.scope, q.rng)

(* ======================= the family of small trees (M and G) ======================== *)
CONSTANTS KA, KB, KC,     \* entry kinds allowed for the names "a", "b", "c" of the root directory
          RK, SK          \* kinds ("dir" / "hamt") allowed for the root directory and the sub-directory
W == 8                     \* HAMT fan-out
NameSeq == <<"a", "b", "c">>
\* abstract HAMT hash: slot sequence per name (the harness picks real names with these murmur3 bits)
Hash == [a |-> <<0, 1, 2>>, b |-> <<0, 1, 3>>, c |-> <<0, 2, 0>>]

Lk(nm, sub, slot, to) == [nm |-> nm, sub |-> sub, slot |-> slot, to |-> to]
LeafN(sz, raw) == [k |-> "leaf", sz |-> sz, raw |-> raw, l |-> <<>>]
FileN(sz, kids) == [k |-> "file", sz |-> sz, raw |-> FALSE,
                    l |-> [i \in 1..Len(kids) |-> Lk("", FALSE, -1, kids[i])]]
\* fixed arena of file shapes (a block is identified by its id: same id = same CID)
FileArena ==
     1 :> LeafN(0, FALSE)            \* f0   empty dag-pb file
  @@ 2 :> LeafN(3, FALSE)            \* f1   single dag-pb block
  @@ 3 :> LeafN(2, TRUE)             \* raw1 single raw block
  @@ 4 :> FileN(5, <<5, 6, 7>>)      \* f3   three chunks 2+2+1
  @@ 5 :> LeafN(2, TRUE) @@ 6 :> LeafN(2, FALSE) @@ 7 :> LeafN(1, TRUE)
  @@ 8 :> FileN(6, <<9, 12>>)        \* f12  two levels, shares chunk 7 with f3
  @@ 9 :> FileN(3, <<10, 11>>) @@ 10 :> LeafN(2, TRUE) @@ 11 :> LeafN(1, TRUE)
  @@ 12 :> FileN(3, <<13, 7>>) @@ 13 :> LeafN(2, FALSE)
  @@ 14 :> FileN(5, <<5, 5, 7>>)     \* frep repeated chunk
  @@ 15 :> LeafN(1, FALSE)           \* f1x
KindId(k, subRoot) == CASE k = "f0" -> 1 [] k = "f1" -> 2 [] k = "raw1" -> 3 [] k = "f3" -> 4
                        [] k = "f12" -> 8 [] k = "frep" -> 14 [] k = "f1x" -> 15 [] k = "sub" -> subRoot

IsPrefix(p, s) == Len(p) <= Len(s) /\ \A i \in DOMAIN p : p[i] = s[i]
Present(ent) == {nm \in DOMAIN ent : ent[nm] # 0}
PrefId(base, p) == IF p = <<>> THEN base ELSE IF Len(p) = 1 THEN base + 1 + p[1]
                   ELSE base + 1 + W + W * p[1] + p[2]
Prefixes == {SubSeq(Hash[nm], 1, k) : nm \in DOMAIN Hash, k \in 0..2}
Under(ent, p) == {nm \in Present(ent) : IsPrefix(p, Hash[nm])}
SeqOfSlots(ent, base, p) ==       \* links of the shard with prefix p, in slot order
  LET f[s \in 0..W] ==
        IF s = W THEN <<>>
        ELSE LET u == Under(ent, p \o <<s>>) IN
             (IF u = {} THEN <<>>
              ELSE IF Cardinality(u) = 1
                   THEN LET nm == CHOOSE x \in u : TRUE IN <<Lk(nm, FALSE, s, ent[nm])>>
                   ELSE <<Lk("", TRUE, s, PrefId(base, p \o <<s>>))>>) \o f[s + 1]
  IN f[0]
\* canonical insertion-only HAMT: a child shard exists iff >= 2 names share the prefix
MkHamt(ent, base) ==
  LET ps == {<<>>} \cup {p \in Prefixes : Cardinality(Under(ent, p)) >= 2}
  IN [n \in {PrefId(base, p) : p \in ps} |->
        LET p == CHOOSE x \in ps : PrefId(base, x) = n
        IN [k |-> "shard", sz |-> 0, raw |-> FALSE, l |-> SeqOfSlots(ent, base, p)]]
MkDir(ent, id) ==
  LET f[i \in 1..4] == IF i = 4 THEN <<>>
                       ELSE (IF ent[NameSeq[i]] # 0 THEN <<Lk(NameSeq[i], FALSE, -1, ent[NameSeq[i]])>> ELSE <<>>) \o f[i + 1]
  IN id :> [k |-> "dir", sz |-> 0, raw |-> FALSE, l |-> f[1]]
MkDirKind(kind, ent, id) == IF kind = "hamt" THEN MkHamt(ent, id) ELSE MkDir(ent, id)

SubId == 100
RootId == 200
TreeParams == {tp \in [rk : RK, sk : SK \cup {"dir"}, a : KA, b : KB, c : KC] :
                 IF tp.a = "sub" THEN tp.sk \in SK ELSE tp.sk = "dir"}
EntId(k) == IF k = "none" THEN 0 ELSE KindId(k, SubId)
MkDag(tp) ==
  LET sub  == MkDirKind(tp.sk, [a |-> 4, b |-> 15, c |-> 8], SubId)
      rt   == MkDirKind(tp.rk, [a |-> EntId(tp.a), b |-> EntId(tp.b), c |-> EntId(tp.c)], RootId)
      full == rt @@ sub @@ FileArena
      live == Below(full, RootId)
  IN [n \in live |-> full[n]]
Rng(f, star, t) == [has |-> TRUE, from |-> f, star |-> star, to |-> t]
RangesFor(S) == {NoRange, Rng(0, TRUE, 0), Rng(0, FALSE, 0), Rng(1, FALSE, 1), Rng(-1, TRUE, 0),
                 Rng(-2, FALSE, -1), Rng(0, FALSE, S), Rng(S, TRUE, 0), Rng(S + 1, TRUE, 0),
                 Rng(1, FALSE, -1)}
\* duplicates policy of a request (IPIP-412): "y" = duplicates explicitly requested, "n" = explicitly
\* refused, "unspec" = nothing stated (HTTP: no dups / car-dups parameter at all; API: the zero value of
\* CarParams.Duplicates).  Duplicate blocks may appear ONLY for "y".
Policies == {"y", "n", "unspec"}
\* how the request reaches GetCAR: "http" = through gateway.NewHandler (Accept / URL parameters),
\* "api" = a direct call of the trustless backend interface IPFSBackend.GetCAR(path, CarParams)
Vias == {"http", "api"}
\* PART 2: the policy GetCAR sees (the HTTP handler turns "unspec" into "n"; an API caller passes it as is)
\* and what the CAR writer does with it (DuplicateBlocksPolicy.Bool(): only "y" keeps repeated blocks)
Seen(q)       == IF q.via = "http" /\ q.dups = "unspec" THEN "n" ELSE q.dups
WriterKeeps(q) == Seen(q) = "y"
Shapes(S) == {[scope |-> "entity", rng |-> rg] : rg \in RangesFor(S)}
             \cup {[scope |-> sc, rng |-> NoRange] : sc \in {"block", "all"}}
ReqsFor(d, r, p) ==
  LET S == d[Terminal(d, r, p)].sz IN
  {[path |-> p, scope |-> s.scope, rng |-> s.rng, dups |-> du, via |-> v] : s \in Shapes(S), du \in Policies, v \in Vias}

\* all paths of the tree that resolve: <<>>, <<x>>, <<x,y>>
AllPaths(d, r) == {<<>>} \cup {<<x>> : x \in {"a", "b", "c"}} \cup {<<x, y>> : x, y \in {"a", "b", "c"}}
=============================================================================
