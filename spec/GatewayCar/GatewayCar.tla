------------------------------ MODULE GatewayCar ------------------------------
(* C31 -- state machine and invariants; the block-set rules (PART 1: what a verifying client
   needs, PART 2: the as-built order of block loads) and the family of small trees are in
   module CarRules. *)
EXTENDS CarRules

(* ================================== state machine =================================== *)
VARIABLES dag, root,   \* the served DAG and the CID (node id) the content path starts at
          req,         \* [path, scope, rng, dups \in Policies, via \in Vias]
          term, need,  \* Terminal / Need of the current request (PART 1)
          todo,        \* PART 2: block loads still to come
          car, carRoot,\* the CAR: sequence of [n |-> node id (0 = not a block of the DAG), ok |-> bytes hash to the CID]
          phase,       \* "idle" | "stream" | "done"
          rawResp      \* last ?format=raw response [want, got, ok]
vars == <<dag, root, req, term, need, todo, car, carRoot, phase, rawResp>>

NoReq == [path |-> <<>>, scope |-> "block", rng |-> NoRange, dups |-> "n", via |-> "http"]
NoRaw == [want |-> 0, got |-> 0, ok |-> TRUE]

\* plan = the block loads the server is going to perform (PART 2); unused by the trace spec
RequestWith(d, r, q, plan) ==
  /\ phase \in {"idle", "done"}
  /\ LET res == Resolve(d, r, q.path) IN
       /\ res.ok
       /\ term' = res.term
       /\ need' = res.blocks \cup ScopeBlocks(d, res.term, q.scope, q.rng)
  /\ todo' = plan
  /\ dag' = d /\ root' = r /\ req' = q
  /\ car' = <<>> /\ carRoot' = 0 /\ phase' = "stream"
  /\ UNCHANGED rawResp
Request(d, r, q) == RequestWith(d, r, q, LoadSeq(d, r, q))

\* one block goes through nodeGetterToCarExporer -> storage.WritableCar.Put
Load ==
  /\ phase = "stream" /\ todo # <<>>
  /\ LET n == Head(todo) IN
       car' = IF ~WriterKeeps(req) /\ n \in Ids(car) THEN car      \* AllowDuplicatePuts(false): dropped
              ELSE Append(car, [n |-> n, ok |-> TRUE])
  /\ todo' = Tail(todo)
  /\ UNCHANGED <<dag, root, req, term, need, carRoot, phase, rawResp>>

Finish ==
  /\ phase = "stream" /\ todo = <<>>
  /\ phase' = "done" /\ carRoot' = term       \* header root = pathMetadata.LastSegment.RootCid()
  /\ UNCHANGED <<dag, root, req, term, need, todo, car, rawResp>>

\* ?format=raw : BlocksBackend.GetBlock returns the block of the resolved last segment
RawBlock(d, r, p) ==
  /\ phase \in {"idle", "done"} /\ Resolve(d, r, p).ok
  /\ rawResp' = [want |-> Terminal(d, r, p), got |-> Terminal(d, r, p), ok |-> TRUE]
  /\ dag' = d /\ root' = r
  /\ UNCHANGED <<req, term, need, todo, car, carRoot, phase>>

\* observation actions used by the trace specification (what the real handler sent)
ObservedBlock(n, ok) ==
  /\ phase = "stream"
  /\ car' = Append(car, [n |-> n, ok |-> ok])
  /\ UNCHANGED <<dag, root, req, term, need, todo, carRoot, phase, rawResp>>
ObservedEnd(r) ==
  /\ phase = "stream"
  /\ phase' = "done" /\ carRoot' = r
  /\ UNCHANGED <<dag, root, req, term, need, todo, car, rawResp>>
ObservedRaw(at, p, got, ok) ==
  /\ phase \in {"idle", "done"} /\ at \in DOMAIN dag /\ Resolve(dag, at, p).ok
  /\ rawResp' = [want |-> Terminal(dag, at, p), got |-> got, ok |-> ok]
  /\ UNCHANGED <<dag, root, req, term, need, todo, car, carRoot, phase>>

(* ==================================== the property ================================== *)
AllBlocksVerify     == \A i \in DOMAIN car : car[i].ok
OnlyFromDag         == \A i \in DOMAIN car : car[i].n \in DOMAIN dag
\* for EVERY policy other than an explicit "y" -- also the unspecified one, through either entry point
DupsOnlyIfRequested == req.dups # "y" => Cardinality(Ids(car)) = Len(car)      \* no block twice
RootIsTerminal      == phase = "done" => carRoot = term
Sufficient          == phase = "done" => need \subseteq Ids(car)
RawExact            == rawResp.ok /\ rawResp.got = rawResp.want
\* not part of C31 (which asks for sufficiency): the as-built algorithm is also minimal
ModelMinimal        == phase = "done" => Ids(car) \subseteq need
\* sanity of the DAG encoding: a file node's size is the sum of its children's sizes
RECURSIVE SumSz(_, _, _)
SumSz(d, n, i) == IF i = 0 THEN 0 ELSE SumSz(d, n, i - 1) + d[d[n].l[i].to].sz
DagWellFormed == phase = "idle" => \A n \in DOMAIN dag :
                   /\ dag[n].k \in {"leaf", "file", "dir", "shard"}
                   /\ Kids(dag, n) \subseteq DOMAIN dag
                   /\ dag[n].k = "file" => dag[n].sz = SumSz(dag, n, Len(dag[n].l))

Init == /\ \E tp \in TreeParams : dag = MkDag(tp)
        /\ root = RootId
        /\ req = NoReq /\ term = 0 /\ need = {} /\ todo = <<>> /\ car = <<>> /\ carRoot = 0
        /\ phase = "idle" /\ rawResp = NoRaw
Next == \/ /\ phase = "idle" /\ rawResp = NoRaw        \* one request per behaviour is enough for M
           /\ \E p \in {x \in AllPaths(dag, root) : Resolve(dag, root, x).ok} :
                \/ \E q \in ReqsFor(dag, root, p) : Request(dag, root, q)
                \/ RawBlock(dag, root, p)
        \/ Load
        \/ Finish
Spec == Init /\ [][Next]_vars

TypeOK == /\ phase \in {"idle", "stream", "done"}
          /\ req.dups \in Policies /\ req.via \in Vias
          /\ need \subseteq DOMAIN dag
          /\ \A i \in DOMAIN car : car[i].n \in Nat /\ car[i].ok \in BOOLEAN
=============================================================================
