SPECIFICATION GSpec
CONSTANTS KA = {"none", "f3", "sub"}
          KB = {"none", "f0", "f12", "f3"}
          KC = {"raw1", "frep", "f12"}
          RK = {"dir", "hamt"}
          SK = {"dir", "hamt"}
INVARIANTS Emit
