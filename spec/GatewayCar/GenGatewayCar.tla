--------------------------- MODULE GenGatewayCar ---------------------------
(* Phase G: class-product enumeration.  One behaviour per (small tree, content path): the DAG,
   the terminal, the blocks needed for the path, the expected raw-block answer, and for every
   request (dag-scope x entity-bytes x dups) the set of blocks PART 1 of GatewayCar requires
   (`need`) plus the CAR PART 2 predicts (`order`, informational).  The harness builds the real
   DAG, sends the requests through gateway.NewHandler and compares. *)
EXTENDS CarRules

VARIABLES tp, path
gvars == <<tp, path>>

\* CAR writer applied to a load sequence
RECURSIVE Dedup(_, _, _)
Dedup(s, i, acc) == IF i > Len(s) THEN acc
                    ELSE Dedup(s, i + 1, IF \E j \in DOMAIN acc : acc[j] = s[i] THEN acc ELSE Append(acc, s[i]))

ReqOut(d, res, pseq, q) ==
  LET ord == pseq \o ScopeSeq(d, res.term, q.scope, q.rng)
  IN [scope |-> q.scope, has |-> q.rng.has, from |-> q.rng.from, star |-> q.rng.star, to |-> q.rng.to,
      dups |-> q.dups, lo |-> Lo(q.rng, d[res.term].sz), hi |-> Hi(q.rng, d[res.term].sz),
      need |-> res.blocks \cup ScopeBlocks(d, res.term, q.scope, q.rng),
      order |-> IF q.dups THEN ord ELSE Dedup(ord, 1, <<>>)]

Behaviour ==
  LET d == MkDag(tp)
      res == Resolve(d, RootId, path)
      pseq == <<RootId>> \o PathSeq(d, RootId, path)
  IN [tp |-> tp, hash |-> Hash, dag |-> d, root |-> RootId, path |-> path, term |-> res.term,
      pathBlocks |-> res.blocks, size |-> d[res.term].sz,
      reqs |-> {ReqOut(d, res, pseq, [path |-> path, scope |-> x.scope, rng |-> x.rng, dups |-> x.dups]) :
                  x \in ReqsFor(d, RootId, path)}]

\* two levels so that TLC's workers share the work: initial states = trees, successors = paths
GInit == tp \in TreeParams /\ path = <<"?">>
GNext == /\ path = <<"?">>
         /\ path' \in {x \in AllPaths(0, 0) : Resolve(MkDag(tp), RootId, x).ok}
         /\ UNCHANGED tp
GSpec == GInit /\ [][GNext]_gvars
Emit == path = <<"?">> \/ PrintT(<<"BEHAVIOUR", ToJson(Behaviour)>>)
=============================================================================
