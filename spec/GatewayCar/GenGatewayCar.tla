--------------------------- MODULE GenGatewayCar ---------------------------
(* Phase G: class-product enumeration.  One behaviour per (small tree, content path): the DAG,
   the terminal, the blocks needed for the path, the expected raw-block answer, and for every
   request (dag-scope x entity-bytes x duplicates policy y|n|unspecified x entry point HTTP handler |
   direct BlocksBackend.GetCAR call) the set of blocks PART 1 of GatewayCar requires
   (`need`) plus the CAR PART 2 predicts (`order`, informational).  The harness builds the real
   DAG, sends the requests through gateway.NewHandler and compares. *)
EXTENDS CarRules

VARIABLES tp, path
gvars == <<tp, path>>

\* CAR writer applied to a load sequence
RECURSIVE Dedup(_, _, _)
Dedup(s, i, acc) == IF i > Len(s) THEN acc
                    ELSE Dedup(s, i + 1, IF \E j \in DOMAIN acc : acc[j] = s[i] THEN acc ELSE Append(acc, s[i]))

\* what depends only on (dag-scope, entity-bytes): computed once per shape, shared by the
\* duplicates-policy x entry-point variants
ShapeOut(d, res, pseq, s) ==
  [scope |-> s.scope, has |-> s.rng.has, from |-> s.rng.from, star |-> s.rng.star, to |-> s.rng.to,
   lo |-> Lo(s.rng, d[res.term].sz), hi |-> Hi(s.rng, d[res.term].sz),
   need |-> res.blocks \cup ScopeBlocks(d, res.term, s.scope, s.rng),
   loads |-> pseq \o ScopeSeq(d, res.term, s.scope, s.rng)]
ReqOut(so, q) ==
  [scope |-> so.scope, has |-> so.has, from |-> so.from, star |-> so.star, to |-> so.to,
   dups |-> q.dups, via |-> q.via, lo |-> so.lo, hi |-> so.hi, need |-> so.need,
   order |-> IF WriterKeeps(q) THEN so.loads ELSE Dedup(so.loads, 1, <<>>)]

Behaviour ==
  LET d == MkDag(tp)
      res == Resolve(d, RootId, path)
      pseq == <<RootId>> \o PathSeq(d, RootId, path)
      S == d[res.term].sz
      outs == TLCEval([s \in Shapes(S) |-> ShapeOut(d, res, pseq, s)])
  IN [tp |-> tp, hash |-> Hash, dag |-> d, root |-> RootId, path |-> path, term |-> res.term,
      pathBlocks |-> res.blocks, size |-> S,
      reqs |-> {ReqOut(outs[[scope |-> x.scope, rng |-> x.rng]], x) : x \in ReqsFor(d, RootId, path)}]

\* two levels so that TLC's workers share the work: initial states = trees, successors = paths
GInit == tp \in TreeParams /\ path = <<"?">>
GNext == /\ path = <<"?">>
         /\ path' \in {x \in AllPaths(0, 0) : Resolve(MkDag(tp), RootId, x).ok}
         /\ UNCHANGED tp
GSpec == GInit /\ [][GNext]_gvars
Emit == path = <<"?">> \/ PrintT(<<"BEHAVIOUR", ToJson(Behaviour)>>)
=============================================================================
