SPECIFICATION GSpec
CONSTANTS KA = {"f3", "sub"}
          KB = {"f12"}
          KC = {"frep", "raw1"}
          RK = {"dir", "hamt"}
          SK = {"dir", "hamt"}
INVARIANTS Emit
