SPECIFICATION GSpec
CONSTANTS KA = {"f3", "sub"}
          KB = {"none", "f12"}
          KC = {"frep", "raw1"}
INVARIANTS Emit
