SPECIFICATION Spec
CONSTANTS KA = {"sub"}
          KB = {"none", "f12"}
          KC = {"frep"}
          RK = {"dir", "hamt"}
          SK = {"dir", "hamt"}
INVARIANTS TypeOK DagWellFormed AllBlocksVerify OnlyFromDag DupsOnlyIfRequested RootIsTerminal Sufficient RawExact ModelMinimal
CHECK_DEADLOCK FALSE
