SPECIFICATION Spec
CONSTANTS KA = {"f3", "sub"}
          KB = {"none", "f12"}
          KC = {"frep"}
INVARIANTS TypeOK DagWellFormed AllBlocksVerify OnlyFromDag DupsOnlyIfRequested RootIsTerminal Sufficient RawExact ModelMinimal
CHECK_DEADLOCK FALSE
