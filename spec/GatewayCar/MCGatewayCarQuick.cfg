SPECIFICATION Spec
CONSTANTS KA = {"sub"}
          KB = {"f12"}
          KC = {"frep"}
INVARIANTS TypeOK DagWellFormed AllBlocksVerify OnlyFromDag DupsOnlyIfRequested RootIsTerminal Sufficient RawExact ModelMinimal
CHECK_DEADLOCK FALSE
