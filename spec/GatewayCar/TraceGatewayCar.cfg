SPECIFICATION TSpec
CONSTANTS KA = {"none"}
          KB = {"none"}
          KC = {"raw1"}
          RK = {"dir"}
          SK = {"dir"}
INVARIANTS DagWellFormed AllBlocksVerify OnlyFromDag DupsOnlyIfRequested RootIsTerminal Sufficient RawExact
CONSTRAINT TraceConstraint
POSTCONDITION TracePost
CHECK_DEADLOCK FALSE
