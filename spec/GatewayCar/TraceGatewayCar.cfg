SPECIFICATION TSpec
CONSTANTS KA = {"none"}
          KB = {"none"}
          KC = {"raw1"}
INVARIANTS DagWellFormed AllBlocksVerify OnlyFromDag DupsOnlyIfRequested RootIsTerminal Sufficient RawExact
CONSTRAINT TraceConstraint
POSTCONDITION TracePost
CHECK_DEADLOCK FALSE
