--------------------------- MODULE TraceGatewayCar ---------------------------
(* Phase T: responses of the real gateway handler on large random UnixFS trees (built with the
   real importer and HAMT code), logged block by block, must be behaviours of GatewayCar in
   which every invariant of the property holds:
     Dag   the projected DAG (node id = CID) and the id of the root the content paths start at
     Req   one CAR request: node the content path starts at, path, dag-scope, entity-bytes, duplicates
           policy ("y" | "n" | "unspec"), via ("http" handler | "api" = direct BlocksBackend.GetCAR call)
     Block one block of the CAR body, in stream order: node id (0 = not a block of the DAG),
           hashOK = the bytes hash to the CID
     End   CAR header root, HTTP status, result of the independent offline re-read
     Raw   one raw-block request (below a path or for a bare CID): node whose CID the body hashes to
   The expected sets come from CarRules (PART 1) evaluated on the logged DAG; the order of the
   blocks is not constrained (C31 does not state one). *)
EXTENDS GatewayCar

Trace == ndJsonDeserialize("trace.ndjson")
VARIABLE l
tvars == <<vars, l>>
ASSUME TLCSet(1, 0)

Ev == Trace[l]
IsEvent(e) == l <= Len(Trace) /\ Trace[l].ev = e /\ l' = l + 1

TInit == /\ l = 1 /\ dag = <<>> /\ root = 0
         /\ req = NoReq /\ term = 0 /\ need = {} /\ todo = <<>> /\ car = <<>> /\ carRoot = 0
         /\ phase = "idle" /\ rawResp = NoRaw

TDag == /\ IsEvent("Dag") /\ phase \in {"idle", "done"}
        /\ dag' = Ev.dag /\ root' = Ev.root
        /\ req' = NoReq /\ term' = 0 /\ need' = {} /\ todo' = <<>> /\ car' = <<>> /\ carRoot' = 0
        /\ phase' = "idle" /\ rawResp' = NoRaw
TReq == /\ IsEvent("Req")
        /\ Ev.at \in DOMAIN dag
        /\ RequestWith(dag, Ev.at,
                       [path |-> Ev.path, scope |-> Ev.scope, dups |-> Ev.dups, via |-> Ev.via,
                        rng |-> [has |-> Ev.has, from |-> Ev.from, star |-> Ev.star, to |-> Ev.to]],
                       <<>>)
TBlock == IsEvent("Block") /\ ObservedBlock(Ev.n, Ev.hashOK)
TEnd == /\ IsEvent("End") /\ Ev.status = 200 /\ Ev.offlineOK
        /\ ObservedEnd(Ev.root)
TRaw == /\ IsEvent("Raw") /\ Ev.status = 200
        /\ ObservedRaw(Ev.at, Ev.path, Ev.n, Ev.hashOK)

TNext == TDag \/ TReq \/ TBlock \/ TEnd \/ TRaw
TSpec == TInit /\ [][TNext]_tvars

TraceConstraint == TLCSet(1, IF l - 1 > TLCGet(1) THEN l - 1 ELSE TLCGet(1))
TracePost == PrintT(<<"TRACE_HWM", TLCGet(1)>>)
=============================================================================
