----------------------------- MODULE CondRules -----------------------------
(* X05 -- gateway conditional requests and caching headers (constants-only rules module).

   One request q against the gateway (path-gateway / trustless-gateway specs, IPIP-412/523/524,
   boxo CHANGELOG and doc comments):
     q = [conv, deser,                 gateway Config: AllowCodecConversion, DeserializedResponses
          ns, name, addr, kind, ver,   /ipfs/<cid> ("direct") | /ipfs/<site.ver>/<kind> ("sub")
                                       /ipns/<name>/<kind> ("sub", name resolves to site.ver)
                                       | /ipns/<name> ("direct", only for ipns-record)
          slash,                       trailing slash on the URL path
          fmtq, acc, accp,             ?format=, Accept class, Accept car parameters
          fname, dl,                   ?filename= , ?download=true
          meth, inm, ims,              GET|HEAD, If-None-Match form, If-Modified-Since class
          scope, bytes, order, dups, cver]   CAR URL parameters ("" = absent)
   Content kinds: UnixFS file / file with UnixFS-1.5 mtime / raw block / directory with and without
   index.html / dag-cbor / dag-json / cbor / json blocks.  Content identity Cid(kind, ver): the site
   has two versions; kinds in Unchanged keep their CID across versions.

   Response r = [st, clean, loc, et, cc, lm, roots, ct, cdt, cdn, cl, body, rep]
     et    ETag  [k, w, c, f, x]: k none|cid|fmt|dir|dag|car|rec|recbare, w weak, c content id,
           f format suffix, x CAR key (path identity + effective parameters)
     cc    Cache-Control class: imm | ttl | dirweek | dirttl | none
     lm    Last-Modified class: none | mtime | nslm | now
     clean (errors / redirects) no ETag and no Cache-Control on the response
     rep   identity of the representation (what bytes the 200 carries)

   Ideal(q)        : the documented behaviour, stated declaratively.
   AsBuilt(q, D)   : Ideal with the exact as-built response of each *named deviation* in D under its
                     precise condition; AsBuilt(q, {}) = Ideal(q). *)
EXTENDS Integers, Sequences, FiniteSets, TLC

Kinds      == {"file", "filem", "raw", "diri", "dirn", "dcbor", "djson", "cbor", "json"}
UnixKinds  == {"file", "filem", "raw", "diri", "dirn"}
DirKinds   == {"diri", "dirn"}
DagKinds   == {"dcbor", "djson"}
CodecKinds == {"dcbor", "djson", "cbor", "json"}
Codec(k)   == CASE k \in {"file", "filem", "diri", "dirn"} -> "dag-pb"
                [] k = "dcbor" -> "dag-cbor"
                [] k = "djson" -> "dag-json"
                [] OTHER -> k                          \* raw, cbor, json
Unchanged  == {"raw", "dirn", "djson"}
Cid(k, v)  == IF k \in Unchanged THEN k ELSE k \o "." \o ToString(v)
Site(v)    == "P." \o ToString(v)

KnownFmt   == {"raw", "car", "tar", "json", "cbor", "dag-json", "dag-cbor", "ipns-record"}
TtlKnown(n) == n \in {"ttl", "lm", "key"}

DevHead    == "Dev_X05_HeadDagIndex500"
DevIndex   == "Dev_X05_IndexEtagOnExplicitFormat"
DevErr     == "Dev_X05_ErrorKeepsValidators"
DevRec     == "Dev_X05_IpnsRecordEtagUnquoted"
AllDevs    == {DevHead, DevIndex, DevErr, DevRec}

BaseQ == [fam |-> "H", conv |-> TRUE, deser |-> TRUE, ns |-> "ipns", name |-> "ttl", addr |-> "sub", kind |-> "file",
          ver |-> 1, slash |-> FALSE, fmtq |-> "", acc |-> "", accp |-> "", fname |-> "", dl |-> FALSE, meth |-> "GET",
          inm |-> "", ims |-> "", scope |-> "", bytes |-> "", order |-> "", dups |-> "", cver |-> ""]

---------------------------------------------------------------------------
(* R1  format selection (IPIP-523): a known ?format= wins over Accept; an unknown ?format= value is
   as if absent; Accept selects by its first gateway-specific media type; Accept parameters are used
   only when Accept names the selected format. *)
Fmt(q) == IF q.fmtq \in KnownFmt THEN q.fmtq
          ELSE IF q.acc \in KnownFmt \cup {"vndx"} THEN q.acc ELSE ""
AccApplies(q) == q.acc = "car" /\ Fmt(q) = "car"
AccOrder(q) == IF ~AccApplies(q) THEN "" ELSE CASE q.accp = "ounk" -> "unk" [] q.accp = "odfsdn" -> "dfs" [] OTHER -> ""
AccDups(q)  == IF ~AccApplies(q) THEN "" ELSE CASE q.accp = "dy" -> "y" [] q.accp = "odfsdn" -> "n" [] OTHER -> ""
AccVer(q)   == IF AccApplies(q) /\ q.accp = "v2" THEN "2" ELSE ""
HtmlWanted(q) == q.acc = "html" /\ ~q.dl

(* R3  resolution *)
T(q)      == Cid(q.kind, q.ver)
Roots(q)  == IF q.addr = "direct" THEN <<T(q)>> ELSE <<Site(q.ver), T(q)>>
PathId(q) == IF q.addr = "direct" THEN T(q) ELSE Site(q.ver) \o "/" \o q.kind
UrlId(q)  == IF q.ns = "ipfs" THEN "ipfs:" \o PathId(q)
             ELSE "ipns:" \o q.name \o (IF q.addr = "sub" THEN "/" \o q.kind ELSE "")

(* R2  a gateway without deserialized responses only answers verifiable requests *)
Trustless(q) == LET f == Fmt(q) IN
  IF q.ns = "ipns" THEN f = "ipns-record" /\ q.name = "key" /\ q.addr = "direct"
  ELSE f = "car" \/ (f = "raw" /\ q.addr = "direct")

---------------------------------------------------------------------------
(* ETags (R5) *)
NoEt        == [k |-> "none", w |-> FALSE, c |-> "", f |-> "", x |-> ""]
EtCid(c)    == [k |-> "cid", w |-> FALSE, c |-> c, f |-> "", x |-> ""]
EtFmt(c, f) == [k |-> "fmt", w |-> (f = "x-tar"), c |-> c, f |-> f, x |-> ""]
EtDir(c)    == [k |-> "dir", w |-> FALSE, c |-> c, f |-> "", x |-> ""]
EtDag(c)    == [k |-> "dag", w |-> FALSE, c |-> c, f |-> "", x |-> ""]
EtCar(c, x) == [k |-> "car", w |-> TRUE, c |-> c, f |-> "car", x |-> x]
EtRec       == [k |-> "rec", w |-> FALSE, c |-> "", f |-> "", x |-> ""]
EtRecBare   == [k |-> "recbare", w |-> FALSE, c |-> "", f |-> "", x |-> ""]
Opaque(e)   == [k |-> e.k, c |-> e.c, f |-> e.f, x |-> e.x]       \* weak comparison ignores W/

(* Cache-Control (R6) and Last-Modified (R7) *)
CCContent(q) == IF q.ns = "ipfs" THEN "imm" ELSE IF TtlKnown(q.name) THEN "ttl" ELSE "none"
CCDir(q)     == IF q.ns = "ipns" /\ TtlKnown(q.name) THEN "dirttl" ELSE IF q.ns = "ipfs" THEN "dirweek" ELSE "none"
NsLm(q)      == IF q.ns = "ipfs" THEN "none" ELSE IF q.name = "lm" THEN "nslm" ELSE "now"

(* responses *)
Err(st) == [st |-> st, clean |-> TRUE, loc |-> FALSE, et |-> NoEt, cc |-> "none", lm |-> "none", roots |-> <<>>,
            ct |-> "err", cdt |-> "na", cdn |-> "", cl |-> FALSE, body |-> "err", rep |-> "", v |-> "none"]
Redirect == [Err(301) EXCEPT !.loc = TRUE]
HasCL(q) == Fmt(q) # "" /\ q.fmtq # Fmt(q)             \* format negotiated through Accept only
\* v names the variant of the representation; rep = v : identity
Ok(q, et, cc, lm, ct, cdt, cdn, v, id) ==
  [st |-> 200, clean |-> TRUE, loc |-> FALSE, et |-> et, cc |-> cc, lm |-> lm, roots |-> Roots(q), ct |-> ct,
   cdt |-> cdt, cdn |-> cdn, cl |-> HasCL(q), body |-> IF q.meth = "HEAD" THEN "na" ELSE "full",
   rep |-> v \o ":" \o id, v |-> v]
NotModified(et, cc) ==
  [st |-> 304, clean |-> TRUE, loc |-> FALSE, et |-> et, cc |-> cc, lm |-> "none", roots |-> <<>>, ct |-> "none",
   cdt |-> "na", cdn |-> "", cl |-> FALSE, body |-> "empty", rep |-> "", v |-> "none"]

---------------------------------------------------------------------------
(* R4/R11  the unconditional response of each format *)
ExtType(fn) == IF fn = "x.txt" THEN "txt" ELSE "png"
BytesCT(q)  == IF q.fname # "" THEN ExtType(q.fname) ELSE IF q.kind = "diri" THEN "html" ELSE "sniff"
BytesCdt(q) == IF q.fname = "" THEN "none" ELSE IF q.dl THEN "attachment" ELSE "inline"
BytesCdn(q) == IF q.fname = "" THEN "" ELSE "fname"

\* plain bytes of a UnixFS file / raw block / a directory's index.html (ETag = CID of the file or DIRECTORY)
Bytes(q) == Ok(q, EtCid(T(q)), CCContent(q), IF q.kind = "filem" THEN "mtime" ELSE NsLm(q),
               BytesCT(q), BytesCdt(q), BytesCdn(q), "bytes", T(q))
DirListing(q) == Ok(q, EtDir(T(q)), CCDir(q), "none", "html", "none", "", "dirlist", T(q) \o ":" \o UrlId(q))
DagHtml(q)    == Ok(q, EtDag(T(q)), "none", "none", "html", "none", "", "daghtml", T(q) \o ":" \o UrlId(q))

CodecExt(rct) == IF rct \in {"json", "dag-json"} THEN "json" ELSE "cbor"
\* block served under content type rct (as-is: variant "codec", converted: "conv")
CodecResp(q, rct, variant) ==
  Ok(q, EtFmt(T(q), rct), CCContent(q), NsLm(q), rct,
     IF q.dl THEN "attachment" ELSE IF CodecExt(rct) = "json" THEN "inline" ELSE "attachment",
     IF q.fname # "" THEN "fname" ELSE "cid." \o CodecExt(rct),
     variant, T(q) \o ":" \o rct)

\* default format and the plain json / cbor formats (which leave UnixFS content alone)
Defaults(q, f) ==
  LET k == q.kind IN
  IF k \in {"file", "filem", "raw"} THEN Bytes(q)
  ELSE IF k \in DirKinds THEN
       IF ~q.slash THEN Redirect ELSE IF k = "diri" THEN Bytes(q) ELSE DirListing(q)
  ELSE \* codec kinds
       IF f = "" THEN
          IF k \in DagKinds /\ HtmlWanted(q) THEN (IF q.slash THEN DagHtml(q) ELSE Redirect)
          ELSE CodecResp(q, Codec(k), "codec")
       ELSE IF (f = "json" /\ Codec(k) \in {"json", "dag-json"}) \/ (f = "cbor" /\ Codec(k) \in {"cbor", "dag-cbor"})
            THEN CodecResp(q, f, "codec")
            ELSE Err(400)

\* explicit dag-json / dag-cbor (IPIP-524): as-is when the codec matches, converted only if allowed
DagFmt(q, f) == IF Codec(q.kind) = f THEN CodecResp(q, f, "codec")
                ELSE IF q.conv THEN CodecResp(q, f, "conv") ELSE Err(406)

RawBlock(q) == Ok(q, EtFmt(T(q), "raw"), CCContent(q), NsLm(q), "raw", "attachment",
                  IF q.fname # "" THEN "fname" ELSE "cid.bin", "block", T(q))
Tar(q) == IF q.kind \in UnixKinds
          THEN Ok(q, EtFmt(T(q), "x-tar"), CCContent(q), NsLm(q), "tar", "attachment",
                  IF q.fname # "" THEN "fname" ELSE "cid.tar", "tar", T(q))
          ELSE Err(500)

\* CAR (IPIP-402/412): URL parameters override Accept parameters; defaults scope=all order=dfs dups=n
CarScope(q) == IF q.scope \in {"", "all"} THEN "all" ELSE q.scope
CarOrder(q) == IF q.order # "" THEN q.order ELSE IF AccOrder(q) # "" THEN AccOrder(q) ELSE "dfs"
CarDups(q)  == IF q.dups # "" THEN q.dups ELSE IF AccDups(q) # "" THEN AccDups(q) ELSE "n"
CarVer(q)   == IF q.cver # "" THEN q.cver ELSE AccVer(q)
CarRange(q) == IF q.bytes \in {"", "0:*"} THEN "" ELSE q.bytes
CarBad(q)   == \/ q.scope = "bogus" \/ q.bytes = "bogus" \/ CarOrder(q) = "bogus" \/ CarDups(q) = "bogus"
               \/ CarVer(q) \notin {"", "1"}
CarKey(q)   == PathId(q) \o "|" \o CarScope(q) \o "|" \o CarOrder(q) \o "|" \o CarDups(q) \o "|" \o CarRange(q)
Car(q) == IF CarBad(q) THEN Err(400)
          ELSE Ok(q, EtCar(Roots(q)[1], CarKey(q)), CCContent(q), "none",
                  "car:" \o CarOrder(q) \o ":" \o CarDups(q), "attachment",
                  IF q.fname # "" THEN "fname" ELSE "car", "car", CarKey(q))

\* signed IPNS record (trustless): own validator, max-age from the record's TTL
Record(q) == IF q.ns # "ipns" \/ q.addr # "direct" \/ q.name # "key" THEN Err(400)
             ELSE [Ok(q, EtRec, "ttl", "none", "rec", "attachment", IF q.fname # "" THEN "fname" ELSE "rec", "rec", "record")
                   EXCEPT !.roots = <<>>]

\* the response to q if it carried no conditional headers
Uncond(q) ==
  LET f == Fmt(q) IN
  IF ~q.deser /\ ~Trustless(q) THEN Err(406)
  ELSE CASE f = "ipns-record"            -> Record(q)
         [] f = "car"                    -> Car(q)
         [] f \in {"", "json", "cbor"}   -> Defaults(q, f)
         [] f = "raw"                    -> RawBlock(q)
         [] f = "tar"                    -> Tar(q)
         [] f \in {"dag-json", "dag-cbor"} -> DagFmt(q, f)
         [] OTHER                        -> Err(400)          \* unsupported vendor type in Accept

---------------------------------------------------------------------------
(* R8  conditional requests.  The If-None-Match header denotes "*" or a set of opaque tags (weak
   comparison).  Forms: cur/curw/list carry the ETag of the unconditional response, cid/rawf/dir/dag the
   plain-CID, raw-block, DirIndex and DagIndex tags of the resolved CID, cardflt the CAR tag of the same
   path with default parameters, listno/bare no usable tag. *)
InmTags(q, u) ==
  CASE q.inm \in {"cur", "curw", "list"} -> {Opaque(u.et)}
    [] q.inm = "cid"  -> {Opaque(EtCid(T(q)))}
    [] q.inm = "rawf" -> {Opaque(EtFmt(T(q), "raw"))}
    [] q.inm = "dir"  -> {Opaque(EtDir(T(q)))}
    [] q.inm = "dag"  -> {Opaque(EtDag(T(q)))}
    [] q.inm = "cardflt" -> {Opaque(EtCar(Roots(q)[1], PathId(q) \o "|all|dfs|n|"))}
    [] OTHER -> {}

\* Validators the gateway may confirm without I/O, in the order it tries them.  A web request (default
\* format) for UnixFS or plain json/cbor content is compared with the file, dir-listing and dag-index tags of
\* the resolved CID (documented boxo optimisation: the CID decides which one a client can hold).  For
\* dag-json / dag-cbor content BOTH the block and its HTML index exist at the same URL, selected by Accept,
\* so only the validator of the representation selected for THIS request counts.  Plain json/cbor formats may
\* still produce a directory listing; every other format has exactly one validator: the one its 200 carries.
OwnEt(q) == IF q.kind \in CodecKinds THEN EtFmt(T(q), Codec(q.kind)) ELSE EtCid(T(q))
Candidates(q, u) ==
  LET f == Fmt(q) IN
  CASE f = "" /\ q.kind \notin DagKinds -> <<OwnEt(q), EtDir(T(q)), EtDag(T(q))>>
    [] f \in {"json", "cbor"}           -> <<u.et, EtDir(T(q))>>
    [] OTHER                            -> <<u.et>>
CCOf(q, e) == IF e.k = "dir" THEN CCDir(q) ELSE IF e.k \in {"dag", "rec", "recbare"} THEN "none" ELSE CCContent(q)

FirstMatch(cands, tags) ==
  LET idx == {i \in DOMAIN cands : Opaque(cands[i]) \in tags} IN
  IF idx = {} THEN 0 ELSE CHOOSE i \in idx : \A j \in idx : i <= j

\* If-Modified-Since is ignored when If-None-Match is present (RFC 9110, 13.2.2) and is evaluated only for the
\* byte-addressable responses (files, raw blocks, blocks served as-is), not for streamed archives and
\* converted / generated documents
ImsHits(q, u) == /\ q.inm = "" /\ u.lm # "none" /\ u.v \in {"bytes", "block", "codec"}
                 /\ (q.ims = "newer" \/ (q.ims = "equal" /\ u.lm \in {"mtime", "nslm"}))

\* the response to q when its If-None-Match denotes `tags` (or "*" if star)
Respond(q, tags, star, cands) ==
  LET u == Uncond(q) IN
  IF u.st # 200 THEN u
  ELSE IF star THEN NotModified(cands[1], CCOf(q, cands[1]))
  ELSE LET m == FirstMatch(cands, tags) IN
       IF m # 0 THEN NotModified(cands[m], CCOf(q, cands[m]))
       ELSE IF ImsHits(q, u) THEN NotModified(u.et, u.cc)
       ELSE u
IdealT(q, tags, star) == Respond(q, tags, star, Candidates(q, Uncond(q)))
Ideal(q) == IdealT(q, InmTags(q, Uncond(q)), q.inm = "star")

---------------------------------------------------------------------------
(* As-built alternatives of the named deviations *)
Dirty(r) == [r EXCEPT !.clean = FALSE]

\* the tag getEtag() derives from the CID and the requested format alone
NominalEt(q) == LET f == Fmt(q) IN
  IF f = "" THEN OwnEt(q) ELSE EtFmt(T(q), IF f = "tar" THEN "x-tar" ELSE f)

AsBuiltT(q, tags, star, D) ==
  LET u  == Uncond(q)
      f  == Fmt(q)
      \* DevIndex: before anything else every non-CAR, non-record request is compared with the nominal tag of the
      \* format, the DirIndex and the DagIndex tag of the resolved CID (even if the format cannot be produced)
      cs == <<NominalEt(q), EtDir(T(q)), EtDag(T(q))>>
      m  == IF star THEN 1 ELSE FirstMatch(cs, tags)
      r  == Respond(q, tags, star, Candidates(q, u)) IN
  \* DevRec: the ipns-record ETag is emitted without quotes, so no If-None-Match value can ever match it
  IF DevRec \in D /\ u.st = 200 /\ u.et.k = "rec"
  THEN IF star THEN NotModified(EtRecBare, "none") ELSE [u EXCEPT !.et = EtRecBare]
  ELSE IF DevIndex \in D /\ (q.deser \/ Trustless(q)) /\ f \notin {"car", "ipns-record"} /\ m # 0
  THEN NotModified(cs[m], CCOf(q, cs[m]))
  \* DevErr: the 400 / 406 of the codec renderer and its trailing-slash redirect keep ETag + Cache-Control
  ELSE IF DevErr \in D /\ q.deser /\ f \in {"", "json", "cbor"} /\ q.kind \in CodecKinds /\ u.st \in {400, 301}
  THEN Dirty(u)
  ELSE IF DevErr \in D /\ q.deser /\ f \in {"dag-json", "dag-cbor"} /\ u.st = 406 THEN Dirty(u)
  \* DevHead: HEAD of the dag-index HTML page dies in the template's block decoder (recovered panic)
  ELSE IF DevHead \in D /\ q.meth = "HEAD" /\ r.st = 200 /\ r.et.k = "dag" THEN Dirty(Err(500))
  ELSE r
AsBuilt(q, D) == AsBuiltT(q, InmTags(q, Uncond(q)), q.inm = "star", D)

Fired(q, D) == {d \in D : AsBuilt(q, D) # AsBuilt(q, D \ {d})}

---------------------------------------------------------------------------
(* Properties of a response function R (instantiated with Ideal, and with AsBuilt for non-vacuity) *)
WeakEq(a, b) == Opaque(a) = Opaque(b)
UncondReq(q) == [q EXCEPT !.inm = "", !.ims = ""]
GetReq(q)    == [q EXCEPT !.meth = "GET"]
StripBody(r) == [r EXCEPT !.body = "na"]

\* errors and redirects carry no representation validators
ErrorsClean(q, r) == (r.st >= 400 \/ r.st = 301) => (r.clean /\ r.et = NoEt /\ r.cc = "none")
\* /ipfs/ content is immutable unless generated; /ipns/ is never immutable and follows the TTL
CachePolicy(q, r) == r.st = 200 =>
  /\ (r.cc = "imm") <=> (q.ns = "ipfs" /\ r.et.k \notin {"dir", "dag"})
  /\ q.ns = "ipns" => r.cc \in (IF TtlKnown(q.name) THEN {"ttl", "dirttl", "none"} ELSE {"none"})
  /\ (r.cc = "none" /\ q.ns = "ipns" /\ TtlKnown(q.name)) => r.et.k = "dag"
  /\ r.et.k = "dir" => r.cc \in {"dirweek", "dirttl", "none"}
\* entity tags are quoted (k = recbare is the unquoted form) and weak exactly for tar / car
EtagShape(q, r) == r.st \in {200, 304} =>
  /\ r.et.k \notin {"none", "recbare"}
  /\ r.et.w <=> (r.et.k = "car" \/ (r.et.k = "fmt" /\ r.et.f = "x-tar"))
\* a 304 confirms only a validator the client sent; for explicit formats that is the 200's own validator,
\* and a 304 repeats the Cache-Control its 200 sends for that validator
NotModifiedSound(q, r, u) == r.st = 304 =>
  /\ u.st = 200
  /\ \/ q.inm = "star" \/ Opaque(r.et) \in InmTags(q, u)
     \/ (q.inm = "" /\ q.ims # "" /\ r.et = u.et)
  /\ (q.inm = "" /\ q.ims # "") \/ \E i \in DOMAIN Candidates(q, u) : r.et = Candidates(q, u)[i]
  /\ (Fmt(q) \notin {"", "json", "cbor"} \/ (Fmt(q) = "" /\ q.kind \in DagKinds)) => WeakEq(r.et, u.et)
  /\ WeakEq(r.et, u.et) => (r.et = u.et /\ (r.cc = u.cc \/ u.et.k = "rec"))
  /\ r.lm = "none" /\ r.body = "empty"
\* presenting the current validator (strong, weak or in a list) or "*" never transfers the body again
NotModifiedComplete(q, r, u) == (u.st = 200 /\ q.inm \in {"cur", "curw", "list", "star"}) => r.st = 304
\* HEAD is GET without the body
HeadMirrors(q, r, rget) == q.meth = "HEAD" => StripBody(r) = StripBody(rget)
=============================================================================
