---------------------------- MODULE GatewayCond ----------------------------
(* X05 -- the gateway as seen by an HTTP cache (browser, CDN) that revalidates.

   State: the IPNS publication state (which site version each name resolves to) and the client's
   cache: stored responses keyed by URL only (the gateway sends no Vary header; formats negotiated
   through Accept share one URL, which is why the ETag must identify the representation).
   Actions, one per public interaction:
     Publish(n)      the owner of name n publishes the other site version
     Fetch(n,k,a)    unconditional GET /ipns/<n>/<k> with Accept class a; a 200 is stored
     Reval(n,k,a)    conditional GET carrying If-None-Match with EVERY validator stored for that URL;
                     on 304 the client re-uses the stored response(s) whose validator the 304 echoes
   Resp is the response function: IdealT (the property holds) or AsBuiltT with deviations (control).
   Invariants:
     CacheCoherent   after a 304 the re-used stored response is the representation a fresh 200 would
                     carry now (same CID after re-publication, same format for this Accept)
     Selects         a 304 always selects at least one stored response
     NoNeedlessBody  if the client already stores the current representation, the body is not sent again
     StoreFunctional one URL never has two different representations under weakly-equal validators *)
EXTENDS CondRules
CONSTANTS Names, SKinds, SAcc, MaxSteps, MDevs
VARIABLES pub, cache, last, steps
vars == <<pub, cache, last, steps>>

Req(n, k, a) == [BaseQ EXCEPT !.name = n, !.kind = k, !.acc = a, !.ver = pub[n],
                              !.slash = k \in DirKinds \cup DagKinds]   \* one URL per (n, k)
Resp(q, tags, star) == IF MDevs = {} THEN IdealT(q, tags, star) ELSE AsBuiltT(q, tags, star, MDevs)
\* the gateway instance (origin) and everything that is part of the URL (Accept and its parameters are not)
Key(q) == <<q.conv, q.deser, UrlId(q), q.slash, q.fmtq, q.fname, q.dl, q.scope, q.bytes, q.order, q.dups, q.cver>>
Stored(key) == {e \in cache : e.key = key}
Entry(q, r)  == [key |-> Key(q), et |-> r.et, rep |-> r.rep]
NoLast == [op |-> "none", q |-> BaseQ, tags |-> {}, r |-> Err(0), sel |-> {}, cur |-> "", had |-> FALSE]

Init == /\ pub = [n \in Names |-> 1]
        /\ cache = {}
        /\ last = NoLast
        /\ steps = 0

Publish(n) == /\ steps < MaxSteps
              /\ pub' = [pub EXCEPT ![n] = 3 - pub[n]]
              /\ last' = [NoLast EXCEPT !.op = "Publish", !.q = [BaseQ EXCEPT !.name = n, !.ver = 3 - pub[n]]]
              /\ steps' = steps + 1
              /\ UNCHANGED cache

\* one request of the client: q resolves through the current publication; a GET 200 with a validator is stored
Request(op, q, tags, star) ==
  /\ steps < MaxSteps
  /\ q.ns = "ipns" => (q.name \in DOMAIN pub /\ q.ver = pub[q.name])
  /\ \E r \in {Resp(q, tags, star)} :                            \* bound once (TLC re-evaluates LETs in actions)
     /\ cache' = IF r.st = 200 /\ q.meth = "GET" /\ r.et.k # "none" THEN cache \cup {Entry(q, r)} ELSE cache
     /\ last' = [op |-> op, q |-> q, tags |-> tags, r |-> r,
                 sel |-> IF r.st = 304 THEN {e \in Stored(Key(q)) : WeakEq(e.et, r.et)} ELSE {},
                 cur |-> Uncond(q).rep,
                 had |-> \E e \in Stored(Key(q)) : e.rep = Uncond(q).rep]
  /\ steps' = steps + 1
  /\ UNCHANGED pub

Fetch(n, k, a) == Request("Fetch", Req(n, k, a), {}, FALSE)
Reval(n, k, a) == /\ Stored(Key(Req(n, k, a))) # {}
                  /\ Request("Reval", Req(n, k, a), {Opaque(e.et) : e \in Stored(Key(Req(n, k, a)))}, FALSE)

Next == \/ \E n \in Names : Publish(n)
        \/ \E n \in Names, k \in SKinds, a \in SAcc : Fetch(n, k, a)
        \/ \E n \in Names, k \in SKinds, a \in SAcc : Reval(n, k, a)
Spec == Init /\ [][Next]_vars

CacheCoherent   == last.r.st = 304 => \A e \in last.sel : e.rep = last.cur
Selects         == last.r.st = 304 => last.sel # {}
NoNeedlessBody  == (last.op = "Reval" /\ last.had /\ Uncond(last.q).st = 200) => last.r.st = 304
StoreFunctional == \A e1, e2 \in cache : (e1.key = e2.key /\ WeakEq(e1.et, e2.et)) => e1.rep = e2.rep
=============================================================================
