---------------------------- MODULE GatewayCond ----------------------------
(* X05 -- the gateway as seen by an HTTP cache (browser, CDN) that revalidates.

   State: the IPNS publication state (which site version each name resolves to) and the client's
   cache: stored responses keyed by URL only (the gateway sends no Vary header; formats negotiated
   through Accept share one URL, which is why the ETag must identify the representation).
   Actions, one per public interaction:
     Publish(n)      the owner of name n publishes the other site version
     Fetch(n,k,a)    unconditional GET /ipns/<n>/<k> with Accept class a; a 200 is stored
     Reval(n,k,a)    conditional GET carrying If-None-Match with EVERY validator stored for that URL;
                     on 304 the client re-uses the stored response(s) whose validator the 304 echoes
   Resp is the response function: IdealT (the property holds) or AsBuiltT with deviations (control).
   Invariants:
     CacheCoherent   after a 304 the re-used stored response is the representation a fresh 200 would
                     carry now (same CID after re-publication, same format for this Accept)
     Selects         a 304 always selects at least one stored response
     NoNeedlessBody  if the client already stores the current representation, the body is not sent again
     StoreFunctional one URL never has two different representations under weakly-equal validators *)
EXTENDS CondRules
CONSTANTS Names, SKinds, SAcc, MaxSteps, MDevs
VARIABLES pub, cache, last, steps
vars == <<pub, cache, last, steps>>

Req(n, k, a) == [BaseQ EXCEPT !.name = n, !.kind = k, !.acc = a, !.ver = pub[n],
                              !.slash = k \in DirKinds \cup DagKinds]   \* one URL per (n, k)
Resp(q, tags) == IF MDevs = {} THEN IdealT(q, tags, FALSE) ELSE AsBuiltT(q, tags, FALSE, MDevs)
Stored(n, k) == {e \in cache : e.key = <<n, k>>}
Entry(q, r)  == [key |-> <<q.name, q.kind>>, et |-> r.et, rep |-> r.rep]
NoLast == [op |-> "none", q |-> BaseQ, tags |-> {}, r |-> Err(0), sel |-> {}, cur |-> "", had |-> FALSE]

Init == /\ pub = [n \in Names |-> 1]
        /\ cache = {}
        /\ last = NoLast
        /\ steps = 0

Publish(n) == /\ steps < MaxSteps
              /\ pub' = [pub EXCEPT ![n] = 3 - pub[n]]
              /\ last' = [NoLast EXCEPT !.op = "Publish", !.q = [BaseQ EXCEPT !.name = n, !.ver = 3 - pub[n]]]
              /\ steps' = steps + 1
              /\ UNCHANGED cache

Fetch(n, k, a) ==
  /\ steps < MaxSteps
  /\ \E q \in {Req(n, k, a)} : \E r \in {Resp(q, {})} :       \* bound once (TLC re-evaluates LETs in actions)
     /\ cache' = IF r.st = 200 THEN cache \cup {Entry(q, r)} ELSE cache
     /\ last' = [NoLast EXCEPT !.op = "Fetch", !.q = q, !.r = r, !.cur = Uncond(q).rep]
  /\ steps' = steps + 1
  /\ UNCHANGED pub

Reval(n, k, a) ==
  /\ steps < MaxSteps
  /\ Stored(n, k) # {}
  /\ \E q \in {Req(n, k, a)} : \E tags \in {{Opaque(e.et) : e \in Stored(n, k)}} : \E r \in {Resp(q, tags)} :
     /\ cache' = IF r.st = 200 THEN cache \cup {Entry(q, r)} ELSE cache
     /\ last' = [op |-> "Reval", q |-> q, tags |-> tags, r |-> r,
                 sel |-> IF r.st = 304 THEN {e \in Stored(n, k) : WeakEq(e.et, r.et)} ELSE {},
                 cur |-> Uncond(q).rep,
                 had |-> \E e \in Stored(n, k) : e.rep = Uncond(q).rep]
  /\ steps' = steps + 1
  /\ UNCHANGED pub

Next == \/ \E n \in Names : Publish(n)
        \/ \E n \in Names, k \in SKinds, a \in SAcc : Fetch(n, k, a)
        \/ \E n \in Names, k \in SKinds, a \in SAcc : Reval(n, k, a)
Spec == Init /\ [][Next]_vars

CacheCoherent   == last.r.st = 304 => \A e \in last.sel : e.rep = last.cur
Selects         == last.r.st = 304 => last.sel # {}
NoNeedlessBody  == (last.op = "Reval" /\ last.had /\ Uncond(last.q).st = 200) => last.r.st = 304
StoreFunctional == \A e1, e2 \in cache : (e1.key = e2.key /\ WeakEq(e1.et, e2.et)) => e1.rep = e2.rep
=============================================================================
