--------------------------- MODULE GenGatewayCond ---------------------------
(* Phase M and the phase-G generator of the request class product in one pass.  The case is chosen in
   two steps (family + location/content first, then the request details) so that TLC enumerates it in
   parallel and lazily.  For every case the responses are computed once, the property invariants are
   checked on the ideal response (and shown to be sensitive: they fail on the as-built response wherever
   a named deviation matters), and one BEHAVIOUR line is printed with the ideal response and, where the
   open deviations Devs change it, the as-built alternative with the deviations that matter.

   Families:  N negotiation (?format x Accept x content x config x HEAD/trailing slash)
              C If-None-Match forms          D ?filename / ?download (Content-Type/-Disposition)
              I If-Modified-Since            P CAR parameters (URL and Accept) and their validators
              R signed IPNS records *)
EXTENDS CondRules, Json
CONSTANTS Devs, Tier, Fams
VARIABLES pc, p, q
gvars == <<pc, p, q>>

Thorough == Tier = "thorough"
TT == <<TRUE, TRUE>>
IpfsD == <<"ipfs", "", "direct">>
IpfsS == <<"ipfs", "", "sub">>
Ipns(n) == <<"ipns", n, "sub">>
P1(fam, cfgs, locs, kinds) ==
  {[fam |-> fam, conv |-> c[1], deser |-> c[2], ns |-> l[1], name |-> l[2], addr |-> l[3], kind |-> k] :
      c \in cfgs, l \in locs, k \in kinds}
P1Space ==
  (IF "N" \in Fams THEN P1("N", IF Thorough THEN {TT, <<FALSE, TRUE>>, <<TRUE, FALSE>>, <<FALSE, FALSE>>} ELSE {TT, <<FALSE, TRUE>>, <<TRUE, FALSE>>},
                           {IpfsD, IpfsS, Ipns("ttl")}, Kinds) ELSE {})
  \cup (IF "C" \in Fams THEN P1("C", {TT}, {IpfsD, Ipns("ttl"), Ipns("nottl")}, Kinds) ELSE {})
  \cup (IF "D" \in Fams THEN P1("D", {TT}, {IpfsD, IpfsS}, Kinds) ELSE {})
  \cup (IF "I" \in Fams THEN P1("I", {TT}, {IpfsD, Ipns("lm"), Ipns("ttl")}, {"file", "filem", "raw", "dcbor"}) ELSE {})
  \cup (IF "P" \in Fams THEN P1("P", {TT}, IF Thorough THEN {IpfsS, Ipns("ttl")} ELSE {IpfsS},
                                IF Thorough THEN {"file", "dcbor"} ELSE {"file"}) ELSE {})
  \cup (IF "R" \in Fams THEN P1("R", {TT, <<TRUE, FALSE>>}, {<<"ipns", "key", "direct">>, <<"ipns", "key", "sub">>,
                                     <<"ipns", "ttl", "direct">>, IpfsD}, {"file"}) ELSE {})

From(x) == [BaseQ EXCEPT !.fam = x.fam, !.conv = x.conv, !.deser = x.deser, !.ns = x.ns, !.name = x.name,
                         !.addr = x.addr, !.kind = x.kind]
\* the URL needs a trailing slash to be answered with 200 (directories, dag-index HTML)
NeedSlash(r) == \/ r.kind \in DirKinds /\ Fmt(r) \in {"", "json", "cbor"}
                \/ r.kind \in DagKinds /\ Fmt(r) = "" /\ HtmlWanted(r)
Canon(r) == [r EXCEPT !.slash = NeedSlash(r)]

FmtQs == {"", "raw", "car", "tar", "json", "cbor", "dag-json", "dag-cbor", "bogus"}
Accs  == {"", "raw", "car", "tar", "json", "cbor", "dag-json", "dag-cbor", "html", "any", "vndx"}
Sels  == {<<"", "">>, <<"", "html">>, <<"raw", "">>, <<"tar", "">>, <<"json", "">>, <<"cbor", "">>, <<"dag-json", "">>,
          <<"dag-cbor", "">>, <<"car", "">>, <<"", "raw">>, <<"", "car">>, <<"dag-json", "html">>}
InmForms == {"cur", "curw", "list", "listno", "star", "bare", "cid", "rawf", "dir", "dag"}
\* not claimed: If-None-Match: * where the gateway answers before it knows which representation it would send
\* (generated HTML, and the plain json/cbor formats on UnixFS content)
StarUnclaimed(r) == /\ r.inm = "star" /\ Fmt(r) \in {"", "json", "cbor"}
                    /\ (Uncond(r).et.k \in {"dir", "dag"} \/ (Fmt(r) # "" /\ r.kind \notin CodecKinds))

P2Space(x) ==
  LET b == From(x) IN
  CASE x.fam = "N" ->
         {r \in {[b EXCEPT !.fmtq = f, !.acc = a, !.meth = m, !.slash = s] :
                    f \in FmtQs, a \in Accs, m \in {"GET", "HEAD"}, s \in BOOLEAN} :
            /\ r.meth = "HEAD" => (Thorough \/ r.acc \in {"", "html"})
            /\ r.slash => NeedSlash(r)}
    [] x.fam = "C" ->
         {r \in {Canon([b EXCEPT !.fmtq = s[1], !.acc = s[2], !.meth = m, !.inm = i]) :
                    s \in Sels, m \in {"GET", "HEAD"}, i \in InmForms} :
            Uncond(r).st = 200 /\ ~StarUnclaimed(r)}
    [] x.fam = "D" ->
         {Canon([b EXCEPT !.fmtq = f, !.acc = a, !.fname = n, !.dl = d]) :
             f \in {"", "raw", "car", "tar", "dag-json", "dag-cbor", "json"}, a \in {"", "html"},
             n \in {"", "x.txt", "e.png"}, d \in BOOLEAN}
    [] x.fam = "I" ->
         {Canon([b EXCEPT !.fmtq = f, !.ims = t, !.inm = i, !.meth = m]) :
             f \in {"", "raw"}, t \in {"older", "equal", "newer", "junk"}, i \in {"", "listno", "cur"},
             m \in {"GET", "HEAD"}}
    [] x.fam = "P" ->
         {r \in {[b EXCEPT !.fmtq = s[1], !.acc = s[2], !.accp = ap, !.scope = sc, !.bytes = by, !.order = o,
                           !.dups = d, !.cver = v, !.inm = i] :
                    s \in {<<"car", "">>, <<"", "car">>, <<"car", "car">>},
                    ap \in {"", "ounk", "dy", "odfsdn", "v2"},
                    sc \in {"", "entity"} \cup (IF Thorough THEN {"all", "block", "bogus"} ELSE {}),
                    by \in {"", "0:*", "0:1"} \cup (IF Thorough THEN {"1:*", "bogus"} ELSE {}),
                    o \in {"", "dfs", "unk"} \cup (IF Thorough THEN {"bogus"} ELSE {}),
                    d \in {"", "y", "n"} \cup (IF Thorough THEN {"bogus"} ELSE {}),
                    v \in {"", "1", "2"}, i \in {"", "cur", "cardflt"}} :
            /\ r.accp # "" => r.acc = "car"
            /\ r.cver # "" => (r.scope = "" /\ r.bytes = "" /\ r.order = "" /\ r.dups = "" /\ r.accp = "")
            /\ r.inm = "cur" => Uncond(r).st = 200}
    [] x.fam = "R" ->
         {r \in {[b EXCEPT !.fmtq = s[1], !.acc = s[2], !.fname = n, !.meth = m, !.inm = i] :
                    s \in {<<"ipns-record", "">>, <<"", "ipns-record">>}, n \in {"", "x.txt"},
                    m \in {"GET", "HEAD"}, i \in {"", "cur", "curw", "list", "listno", "star", "bare"}} :
            r.inm \in {"cur", "curw", "list"} => Uncond(r).st = 200}

Null == [fam |-> "-"]
GInit == pc = 0 /\ p = Null /\ q = Null
Pick1 == pc = 0 /\ p' \in P1Space /\ pc' = 1 /\ q' = q
Pick2 == pc = 1 /\ q' \in P2Space(p) /\ pc' = 2 /\ p' = p
GNext == Pick1 \/ Pick2
GSpec == GInit /\ [][GNext]_gvars

---------------------------------------------------------------------------
RECURSIVE SeqOf(_)
SeqOf(S) == IF S = {} THEN <<>> ELSE LET x == CHOOSE x \in S : TRUE IN <<x>> \o SeqOf(S \ {x})
Fail(what) == PrintT(<<"FAILED", what, q>>) /\ FALSE

Holds(r, rget, u) == /\ ErrorsClean(q, r) /\ CachePolicy(q, r) /\ EtagShape(q, r)
                     /\ NotModifiedSound(q, r, u) /\ NotModifiedComplete(q, r, u) /\ HeadMirrors(q, r, rget)
StripCL(r) == [r EXCEPT !.cl = FALSE]
\* ?format= decides, whatever Accept says (Accept parameters count only when it names the same format)
FormatParamWins == (q.fmtq \in KnownFmt /\ ~(q.acc = "car" /\ q.fmtq = "car")) =>
                      StripCL(Ideal(q)) = StripCL(Ideal([q EXCEPT !.acc = "", !.accp = ""]))
\* the ETag identifies the representation: two 200s of the same content whose validators compare weakly equal
\* carry the same representation (formats get different validators), checked against every format selector
EtagInjective ==
  LET u == Uncond(q) IN
  (q.fam = "N" /\ q.meth = "GET" /\ q.acc \in {"", "html"} /\ u.st = 200) =>
     \A f \in FmtQs, a \in {"", "html", "any"}, s \in BOOLEAN :
        LET u2 == Uncond([q EXCEPT !.fmtq = f, !.acc = a, !.slash = s]) IN
        (u2.st = 200 /\ WeakEq(u.et, u2.et)) => u.rep = u2.rep

Checks ==
  pc # 2 \/
  LET id  == Ideal(q)
      u   == Uncond(q)
      all == AsBuilt(q, AllDevs)
      ab  == IF Devs = {} THEN id ELSE IF Devs = AllDevs THEN all ELSE AsBuilt(q, Devs)
      fa  == IF all = id THEN {} ELSE Fired(q, AllDevs)
      fd  == IF ab = id THEN {} ELSE Fired(q, Devs)
  IN /\ Holds(id, Ideal(GetReq(q)), u) \/ Fail("IdealHolds")
     /\ AsBuilt(q, {}) = id \/ Fail("NoDevsIsIdeal")
     /\ (all # id => fa # {}) \/ Fail("DiffIsAttributed")
     /\ (fa # {} => ~Holds(all, AsBuilt(GetReq(q), AllDevs), u)) \/ Fail("DevsDetected")
     /\ FormatParamWins \/ Fail("FormatParamWins")
     /\ EtagInjective \/ Fail("EtagInjective")
     /\ PrintT(<<"BEHAVIOUR", ToJson(
           IF ab = id THEN [q |-> q, ideal |-> id]
           ELSE [q |-> q, ideal |-> id, alt |-> ab, devs |-> SeqOf(fd)])>>)
=============================================================================
