------------------------- MODULE GenHistGatewayCond -------------------------
(* Phase M of the client-cache state machine and the generator of its histories in one pass: hist
   records every step with the request, the validators the client sent, the response the spec dictates
   and, where the open deviations Devs change it, the as-built alternative.  Every behaviour of exactly
   MaxSteps steps is printed once (the invariants of GatewayCond are checked on all of them). *)
EXTENDS GatewayCond, Json
CONSTANT Devs
VARIABLE hist
hvars == <<vars, hist>>

RECURSIVE SeqOf(_)
SeqOf(S) == IF S = {} THEN <<>> ELSE LET x == CHOOSE x \in S : TRUE IN <<x>> \o SeqOf(S \ {x})

Step == IF last.op = "Publish" THEN [op |-> "Publish", name |-> last.q.name, ver |-> last.q.ver]
        ELSE LET ab == IF Devs = {} THEN last.r ELSE AsBuiltT(last.q, last.tags, FALSE, Devs) IN
             IF ab = last.r THEN [op |-> last.op, q |-> last.q, tags |-> SeqOf(last.tags), r |-> last.r]
             ELSE [op |-> last.op, q |-> last.q, tags |-> SeqOf(last.tags), r |-> last.r, alt |-> ab,
                   devs |-> SeqOf({d \in Devs : ab # AsBuiltT(last.q, last.tags, FALSE, Devs \ {d})})]
HInit == Init /\ hist = <<>>
HNext == Next /\ hist' = Append(hist, Step')
HSpec == HInit /\ [][HNext]_hvars
Emit == Len(hist) # MaxSteps \/ PrintT(<<"BEHAVIOUR", ToJson(hist)>>)
=============================================================================
