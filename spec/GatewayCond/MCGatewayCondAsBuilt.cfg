SPECIFICATION Spec
CONSTANTS Names = {"ttl"}
          SKinds = {"dirn", "dcbor"}
          SAcc = {"", "html", "raw"}
          MaxSteps = 3
          MDevs = {"Dev_X05_IndexEtagOnExplicitFormat"}
INVARIANTS CacheCoherent
CHECK_DEADLOCK FALSE
