SPECIFICATION Spec
CONSTANTS Names = {"ttl"}
          SKinds = {"file", "raw", "dirn", "dcbor"}
          SAcc = {"", "html", "raw", "dag-json", "car"}
          MaxSteps = 4
          MDevs = {}
INVARIANTS CacheCoherent Selects NoNeedlessBody StoreFunctional
CHECK_DEADLOCK FALSE
