SPECIFICATION TSpec
CONSTANTS Names = {"ttl", "nottl", "lm", "key"}
          SKinds = {}
          SAcc = {}
          MaxSteps = 100000000
          MDevs = @DEVS@
INVARIANTS DevReport TCacheCoherent StoreFunctional
CONSTRAINT TraceConstraint
POSTCONDITION TracePost
CHECK_DEADLOCK FALSE
