-------------------------- MODULE TraceGatewayCond --------------------------
(* Phase T: a recorded session of a client against the real gateway (random requests over the whole
   alphabet of CondRules, both site versions, several names, re-publications, conditional headers built
   from the validators the client really stored) is a behaviour of GatewayCond: every Publish / Req event
   is the module's action with the logged arguments, the logged projection of the real response must be the
   response the action dictates (IdealT; with open findings MDevs the as-built response of exactly those
   deviations, reported via DEV_USED), the name must resolve to the published version, and the opaque CAR
   validator suffixes must stay in bijection with the spec's CAR keys over the whole session (carmap). *)
EXTENDS GatewayCond, Json

Trace == ndJsonDeserialize("trace.ndjson")
VARIABLES l, dev, carmap
tvars == <<vars, l, dev, carmap>>
ASSUME TLCSet(1, 0)

Ev == Trace[l]
ToSet(s) == {s[i] : i \in 1..Len(s)}
IsEvent(e) == l <= Len(Trace) /\ Ev.ev = e /\ l' = l + 1

\* a validator the client sent, in the spec's terms (CAR suffixes are opaque: translated through carmap)
TagOf(t) == IF t.k = "car"
            THEN [k |-> "car", c |-> t.c, f |-> "car", x |-> IF t.x \in DOMAIN carmap THEN carmap[t.x] ELSE "?"]
            ELSE [k |-> t.k, c |-> t.c, f |-> t.f, x |-> ""]

EtMatches(oe, re) == /\ oe.k = re.k /\ oe.w = re.w /\ oe.c = re.c
                     /\ re.k # "car" => oe.f = re.f
Matches(o, r) ==
  /\ o.st = r.st
  /\ (r.st >= 400 \/ r.st = 301) => o.clean = r.clean
  /\ r.st \in {200, 304} => (EtMatches(o.et, r.et) /\ o.cc = r.cc /\ o.lm = r.lm)
  /\ r.st = 200 => (/\ o.roots = r.roots /\ r.ct \in ToSet(o.cts) /\ o.cdt = r.cdt /\ o.cdn = r.cdn
                     /\ o.cl = (IF r.cl THEN "ok" ELSE "none"))
  /\ o.body = r.body
  /\ o.xp

\* the suffix of a CAR validator stands for exactly one CAR key, and each key has one suffix
CarOk(o, r) == (r.st \in {200, 304} /\ r.et.k = "car") =>
                  /\ o.et.x \in DOMAIN carmap => carmap[o.et.x] = r.et.x
                  /\ \A s \in DOMAIN carmap : carmap[s] = r.et.x => s = o.et.x
CarNext(o, r) == IF r.st \in {200, 304} /\ r.et.k = "car" /\ o.et.x \notin DOMAIN carmap
                 THEN carmap @@ (o.et.x :> r.et.x) ELSE carmap

TInit == Init /\ l = 1 /\ dev = {} /\ carmap = <<>>

TPublish == /\ IsEvent("Publish")
            /\ Publish(Ev.name)
            /\ pub'[Ev.name] = Ev.ver
            /\ UNCHANGED <<dev, carmap>>

TReq == /\ IsEvent("Req")
        /\ \E tags \in {{TagOf(t) : t \in ToSet(Ev.tags)}} :
           /\ Request("Req", Ev.q, tags, Ev.star)
           /\ Matches(Ev.o, last'.r)
           /\ CarOk(Ev.o, last'.r)
           /\ carmap' = CarNext(Ev.o, last'.r)
           /\ dev' = dev \cup {d \in MDevs : last'.r # AsBuiltT(Ev.q, tags, Ev.star, MDevs \ {d})}

\* a new client session: fresh name system and an empty client cache (the CAR suffix bijection spans sessions)
TReset == /\ IsEvent("Reset")
          /\ pub' = [n \in Names |-> 1] /\ cache' = {} /\ last' = NoLast /\ steps' = 0
          /\ UNCHANGED <<dev, carmap>>

TNext == TPublish \/ TReq \/ TReset
TSpec == TInit /\ [][TNext]_tvars

\* a 304 never makes the client re-use a stored response that is not the current representation
\* (with the index-validator deviation open this is exactly what fails, so it is only claimed without it)
TCacheCoherent == DevIndex \in MDevs \/ CacheCoherent
DevReport == l <= Len(Trace) \/ \A d \in dev : PrintT(<<"DEV_USED", d>>)
TraceConstraint == TLCSet(1, IF l - 1 > TLCGet(1) THEN l - 1 ELSE TLCGet(1))
TracePost == PrintT(<<"TRACE_HWM", TLCGet(1)>>)
=============================================================================
