----------------------------- MODULE GatewayHost -----------------------------
(* C32, part B -- subdomain and DNSLink addressing preserve content identity
   (gateway/hostname.go NewHostnameHandler, toSubdomainURL, toDNSLabel, knownSubdomainDetails).

   One request against one public-gateway configuration.
     cfg = [wild, sub, inl, gwnodl, paths, nodl]
            wild   : the gateway is configured as "*.gw.test" (request host foo.gw.test), else "gw.test"
            sub    : UseSubdomains          inl : InlineDNSLink       gwnodl : PublicGateway.NoDNSLink
            paths  : "both" = {/ipfs,/ipns} | "ipfs" = {/ipfs}        nodl   : Config.NoDNSLink
     req = [hf, xfh, form, https, ns, id, segs, q, recs, gwrec]
            hf     : host form  "gw" (Host = gateway, path /ns/id/segs) | "sub" (Host = id.ns.gateway, path
                     /segs) | "other" (Host = id, a foreign FQDN, path /segs)
            xfh    : the logical host arrives in X-Forwarded-Host (reverse proxy), Host is internal
            https  : X-Forwarded-Proto: https
            form   : textual form of the (logical) host in Host / X-Forwarded-Host.  All forms name the same
                     host (RFC 9110 4.2.3 / RFC 3986 6.2.2.1: host is case-insensitive; RFC 1034 3.1: a name
                     may be written with the root label's trailing dot; the port is not part of the name):
                     "plain" gw.test | "port" gw.test:8080 | "port80" gw.test:80 | "upper" GW.TEST (for a
                     subdomain host the <ns>.<gateway> part, for a foreign host all of it) | "dot" gw.test.
                     | "dotport" gw.test.:8080
            gwrec  : the gateway's own host name (GwName) has a DNSLink record
            id     : content identifier term (below)   segs : remainder path segments ("" last = trailing /)
            q      : raw query string                  recs : names that have a DNSLink record
   Identifier terms [k, v, codec, base, mh, name]
            k = "cid" : CID version v (0|1), codec "pb"|"raw"|"key" (libp2p-key), multibase "b58"|"b32"|"b36",
                        multihash class mh: "s1" sha2-256, "id" 36-byte identity (ed25519 key), "s512" sha2-512
            k = "p58" : peer ID as bare base58 multihash (mh = "id"; for sha2-256 it is the CIDv0 text)
            k = "dns" : any other text, name = its characters (FQDN, inlined FQDN, garbage)
   Outcome  [t, code, https, pre, ns, id, segs, q, ctx]
            t = "status" : error/404 page with status `code`
            t = "redir"  : 301 to  scheme://text(id).ns.<gateway host>/segs?q
            t = "next"   : the wrapped handler is called with path pre+segs, pre = "nsid" (/ns/text(id)),
                           "dnslink" (/ipns/<name>, name = id.name), "gwdns" (/ipns/<name>/ns/text(id): the
                           whole request path below the DNSLink site of the gateway's own host, name = the
                           `name` field) or "none" (path untouched); ctx = which gateway context.
                           <name> is a DNS name: the port is never part of it.
            t = "foreign": (only as built) 301 to a host outside the gateway, see Dev_C32_OpenRedirect.

   Route(cfg, req, D) is the decision structure of the code with one gate per named deviation (D = {}
   is the ideal); the property is stated independently as invariants over (cfg, req, Route(..)). *)
EXTENDS LabelCodec, FiniteSets, TLC

CONSTANT LabelMax

DevOpenRedirect == "Dev_C32_OpenRedirect"
DevXFH          == "Dev_C32_ForwardedHostRedirectLoop"
DevHostForm     == "Dev_C32_HostFormNotCanonical"
AllDevs         == {DevOpenRedirect, DevXFH, DevHostForm}

Forms        == {"plain", "port", "port80", "upper", "dot", "dotport"}
NonCanon(f)  == f \in {"upper", "dot", "dotport"}      \* same host, but not the byte string of the configuration
GwName(cfg)  == IF cfg.wild THEN <<"f","o","o",".","g","w",".","t","e","s","t">> ELSE <<"g","w",".","t","e","s","t">>

---------------------------------------------------------------------------
(* identifier terms *)
Cid(v, codec, base, mh) == [k |-> "cid", v |-> v, codec |-> codec, base |-> base, mh |-> mh, name |-> <<>>]
P58(mh)   == [k |-> "p58", v |-> 0, codec |-> "key", base |-> "b58", mh |-> mh, name |-> <<>>]
Dns(name) == [k |-> "dns", v |-> 0, codec |-> "", base |-> "", mh |-> "", name |-> name]
NoId      == [k |-> "none", v |-> 0, codec |-> "", base |-> "", mh |-> "", name |-> <<>>]

\* does the text of a CID with this multibase and multihash fit a DNS label (<= 63 characters)?
\* (a table of facts about multiformats; the harness asserts it against the real encodings at start-up)
Fits(base, mh)  == mh = "s1" \/ (mh = "id" /\ base \in {"b36", "b58"})
TextFits(id)    == IF id.k = "cid" /\ id.v = 1 THEN Fits(id.base, id.mh) ELSE TRUE
IsCid(id)       == id.k = "cid"                                   \* cid.Decode succeeds
PeerDecodable(id) == id.k = "p58" \/ (id.k = "cid" /\ (id.v = 0 \/ id.codec = "key"))   \* peer.Decode succeeds
CodecOf(id)     == IF id.v = 0 THEN "pb" ELSE id.codec

SubNS      == {"ipfs", "ipns"}          \* ("p2p", "ipld" legacy aliases are not modelled)
PeerNS(ns) == ns = "ipns"
Handled(cfg, ns) == ns \in (IF cfg.paths = "both" THEN {"ipfs", "ipns"} ELSE {"ipfs"})

Specials == {"?", "#", "@"}             \* characters with a meaning in a URL authority
HasSpecial(n) == \E i \in DOMAIN n : n[i] \in Specials
HostSafe(n)   == ~HasSpecial(n) /\ ~HasChar(n, " ")
FirstSpecial(n) == CHOOSE i \in DOMAIN n : n[i] \in Specials /\ \A j \in 1..(i - 1) : n[j] \notin Specials

HasRec(n, recs) == n \in recs
Inlined(n)      == ~HasDot(n) /\ HasHyphen(n)      \* "looks like an inlined DNSLink name"

---------------------------------------------------------------------------
(* outcomes *)
Out(t, code, https, pre, ns, id, segs, q, ctx) ==
  [t |-> t, code |-> code, https |-> https, pre |-> pre, ns |-> ns, id |-> id, segs |-> segs, q |-> q, ctx |-> ctx,
   name |-> <<>>]
\* the whole request path /ns/id/segs served below the DNSLink site `name` (the gateway's own host name)
GwDns(cfg, req) == [Out("next", 200, FALSE, "gwdns", req.ns, req.id, req.segs, req.q, "dnslink") EXCEPT !.name = GwName(cfg)]
Status(code)  == Out("status", code, FALSE, "none", "", NoId, <<>>, "", "")
Norm(segs)    == IF segs = <<"">> THEN <<>> ELSE segs
SubSegs(segs) == IF segs = <<>> THEN <<"">> ELSE segs           \* the request path of "/" is one empty segment
Redirect(req, ns, id) == Out("redir", 301, req.https, "nsid", ns, id, Norm(req.segs), req.q, "")
NextNsId(req, ns, id, segs, ctx) == Out("next", 200, FALSE, "nsid", ns, id, segs, req.q, ctx)

---------------------------------------------------------------------------
(* toSubdomainURL: [t |-> "none" | "err" | "redir" | "foreign", id |-> label, bare |-> foreign host is bare] *)
TS(t, id) == [t |-> t, id |-> id, bare |-> FALSE]

\* canonical DNS label of a CID in namespace ns
CanonCid(ns, id) ==
  LET codec == IF PeerNS(ns) THEN "key" ELSE CodecOf(id)
      base  == IF PeerNS(ns) THEN "b36" ELSE "b32"
  IN IF Fits(base, id.mh) THEN TS("redir", Cid(1, codec, base, id.mh))
     ELSE IF Fits("b36", id.mh) THEN TS("redir", Cid(1, codec, "b36", id.mh))
     ELSE TS("err", NoId)

ToSub(ns, id0, req, inl, D) ==
  IF ns \notin SubNS THEN TS("none", NoId)
  ELSE
  LET id1 == IF PeerNS(ns) /\ PeerDecodable(id0) THEN Cid(1, "key", "b32", id0.mh) ELSE id0   \* peer.ToCid
  IN
  IF IsCid(id1) THEN CanonCid(ns, id1)
  ELSE IF id1.k # "dns" THEN TS("none", NoId)          \* bare peer ID under /ipfs/: left to the path handler
  ELSE
  LET n0 == id1.name
      n1 == IF ns = "ipns" /\ Inlined(n0) /\ HasRec(Uninline(n0), req.recs) THEN Uninline(n0) ELSE n0
      tls == (inl \/ req.https) /\ ns = "ipns" /\ HasDot(n1)
      n2 == IF tls /\ HasRec(n1, req.recs) THEN InlineLabel(n1, LabelMax) ELSE n1
  IN
  IF ~tls /\ ns = "ipfs" THEN TS("none", NoId)        \* not a CID under /ipfs/: left to the path handler
  ELSE IF n2 = TooLong THEN TS("err", NoId)
  ELSE IF n2 = <<>> THEN TS("none", NoId)
  ELSE IF HasChar(n2, " ") THEN TS("err", NoId)      \* url.Parse: invalid character in host name
  ELSE IF HasSpecial(n2) THEN
       IF DevOpenRedirect \notin D THEN TS("err", NoId)     \* ideal: not a host name, 400
       ELSE \* as built: the text is pasted into "http://<id>.<ns>.<gateway>/" and parsed as a URL
            LET i == FirstSpecial(n2) IN
            IF n2[i] = "@" THEN [t |-> "foreign", id |-> Dns(SubSeq(n2, i + 1, Len(n2))), bare |-> FALSE]
            ELSE [t |-> "foreign", id |-> Dns(SubSeq(n2, 1, i - 1)), bare |-> TRUE]
  ELSE TS("redir", Dns(n2))

FromSub(s, req, ns, fallthrough) ==
  CASE s.t = "err"     -> Status(400)
    [] s.t = "redir"   -> Redirect(req, ns, s.id)
    [] s.t = "foreign" -> Out("foreign", 301, req.https, IF s.bare THEN "bare" ELSE "nsid", ns, s.id, Norm(req.segs), req.q, "")
    [] OTHER           -> fallthrough

---------------------------------------------------------------------------
Route(cfg, req, D) ==
  CASE DevHostForm \in D /\ NonCanon(req.form) /\ req.hf # "other" ->
         \* as built: the host text is looked up byte-wise (exact map / case-sensitive wildcard regexp, only a
         \* port is stripped), so GW.TEST / gw.test. is neither a known gateway nor a subdomain of one and
         \* the request falls through to the wildcard-DNSLink / plain branch
         IF req.hf = "gw" /\ ~cfg.nodl /\ req.gwrec
         THEN GwDns(cfg, req)             \* also for /ipfs/<cid>/..: other content than the path names
         ELSE IF req.hf = "gw" THEN NextNsId(req, req.ns, req.id, req.segs, "plain")
         ELSE Out("next", 200, FALSE, "none", "", NoId, SubSegs(req.segs), req.q, "plain")
    [] req.hf = "gw" ->
         \* isKnownHostname(host): path gateway
         IF Handled(cfg, req.ns) THEN
            LET plain == NextNsId(req, req.ns, req.id, req.segs, "gw") IN
            IF cfg.sub THEN FromSub(ToSub(req.ns, req.id, req, cfg.inl, D), req, req.ns, plain) ELSE plain
         \* not one of the gateway's paths: the host is served as a DNSLink site if it has a record
         ELSE IF ~cfg.gwnodl /\ req.gwrec THEN GwDns(cfg, req)
         ELSE Status(404)
    [] req.hf = "sub" ->
         IF req.ns \notin SubNS THEN
            \* knownSubdomainDetails: not a subdomain of a known gateway; no DNSLink for the whole host
            Out("next", 200, FALSE, "none", "", NoId, SubSegs(req.segs), req.q, "plain")
         ELSE IF ~(cfg.sub /\ Handled(cfg, req.ns)) THEN Status(404)
         ELSE
         LET served == NextNsId(req, req.ns, req.id, SubSegs(req.segs), "sub") IN
         IF IsCid(req.id) THEN
            \* toDNSLabel(rootID, rootCID)
            LET label == IF TextFits(req.id) THEN req.id
                         ELSE IF Fits("b36", req.id.mh) THEN Cid(1, CodecOf(req.id), "b36", req.id.mh)
                         ELSE NoId
                \* as built the test is strings.HasPrefix(r.Host, label): behind a proxy r.Host is the
                \* internal host, never the label
                hostHasLabel == label = req.id /\ ~(req.xfh /\ DevXFH \in D)
            IN IF label = NoId THEN Status(400)
               ELSE IF ~hostHasLabel THEN FromSub(ToSub(req.ns, label, req, cfg.inl, D), req, req.ns, served)
               ELSE IF PeerNS(req.ns) /\ CodecOf(req.id) # "key"
                    THEN FromSub(ToSub(req.ns, req.id, req, cfg.inl, D), req, req.ns, served)
               ELSE served
         ELSE IF req.id.k = "dns" /\ req.ns = "ipns" /\ Inlined(req.id.name) THEN
            LET fq == Uninline(req.id.name) IN
            IF HasRec(fq, req.recs) \/ ~HasRec(req.id.name, req.recs)
            THEN NextNsId(req, "ipns", Dns(fq), SubSegs(req.segs), "sub")
            ELSE served
         ELSE served
    [] OTHER ->
         \* unknown host: wildcard DNSLink
         IF ~cfg.nodl /\ HasRec(req.id.name, req.recs)
         THEN Out("next", 200, FALSE, "dnslink", "ipns", req.id, SubSegs(req.segs), req.q, "dnslink")
         ELSE Out("next", 200, FALSE, "none", "", NoId, SubSegs(req.segs), req.q, "plain")

\* the request a client makes when it follows a redirect of this gateway
FollowReq(req, o) == [req EXCEPT !.hf = "sub", !.ns = o.ns, !.id = o.id, !.segs = o.segs]
Follow(cfg, req, o, D) == IF o.t = "redir" THEN Route(cfg, FollowReq(req, o), D) ELSE Status(0)
Full(cfg, req, D) == LET o == Route(cfg, req, D) IN <<o, Follow(cfg, req, o, D)>>
Fired(cfg, req, D) == {d \in D : Full(cfg, req, D) # Full(cfg, req, D \ {d})}

---------------------------------------------------------------------------
(* The property. *)
\* what a (namespace, identifier) pair names: the multihash, or the DNSLink name it resolves through
Ident(ns, id, recs) ==
  IF id.k \in {"cid", "p58"} THEN [ns |-> ns, mh |-> id.mh, name |-> <<>>]
  ELSE IF ns = "ipns" /\ Inlined(id.name)
       THEN LET fq == Uninline(id.name) IN
            [ns |-> ns, mh |-> "", name |-> IF HasRec(fq, recs) \/ ~HasRec(id.name, recs) THEN fq ELSE id.name]
  ELSE [ns |-> ns, mh |-> "", name |-> id.name]

LabelOK(id) == IF id.k = "dns" THEN (~HasDot(id.name) => Len(id.name) <= LabelMax) /\ HostSafe(id.name)
               ELSE TextFits(id)

IdentityPreserved(cfg, req, o) ==
  /\ o.t \in {"redir", "next"} /\ o.pre = "nsid" => Ident(o.ns, o.id, req.recs) = Ident(req.ns, req.id, req.recs)
  /\ o.t = "next" /\ o.pre = "dnslink" => req.hf = "other" /\ o.id = req.id
  \* only a path the gateway does not serve itself is content of the gateway host's own DNSLink site, and
  \* the site is named by the host NAME (whatever its textual form, never with the port)
  /\ o.t = "next" /\ o.pre = "gwdns" => /\ req.hf = "gw" /\ ~Handled(cfg, req.ns)
                                        /\ o.name = GwName(cfg) /\ o.ns = req.ns /\ o.id = req.id
  \* a host that addresses content (<id>.<ns>.<gateway>) is never passed on without its content root
  /\ o.t = "next" /\ o.pre = "none" => req.hf = "other" \/ (req.hf = "sub" /\ req.ns \notin SubNS)
  /\ o.t \notin {"foreign"}
RestPreserved(req, o) ==
  o.t \in {"redir", "next"} => Norm(o.segs) = Norm(req.segs) /\ o.q = req.q
LabelFits(o) == o.t = "redir" => LabelOK(o.id)
\* a DNSLink name with a record is put into a single label whenever TLS (or InlineDNSLink) asks for it
InlinedForTLS(cfg, req, o) ==
  o.t = "redir" /\ o.id.k = "dns" /\ (cfg.inl \/ req.https) /\ HasRec(Ident(o.ns, o.id, req.recs).name, req.recs)
     => ~HasDot(o.id.name)
\* following the redirect once reaches the wrapped handler with the same content, remainder and query
FollowReaches(cfg, req, o, f) ==
  o.t = "redir" => /\ f.t = "next" /\ f.pre = "nsid"
                   /\ Ident(f.ns, f.id, req.recs) = Ident(req.ns, req.id, req.recs)
                   /\ Norm(f.segs) = Norm(req.segs) /\ f.q = req.q
\* the same host in another textual form (port, case, trailing dot) addresses the same content: the whole
\* routing (identity, remainder, query, and the routing of the followed redirect) is that of the plain form
PlainReq(req) == [req EXCEPT !.form = "plain"]
FormIndependent(cfg, req, D) == Full(cfg, req, D) = Full(cfg, PlainReq(req), D)
PropertyOf(cfg, req, o, f) ==
  /\ IdentityPreserved(cfg, req, o) /\ RestPreserved(req, o) /\ LabelFits(o)
  /\ InlinedForTLS(cfg, req, o) /\ FollowReaches(cfg, req, o, f)
Property(cfg, req, D) == LET o == Route(cfg, req, D) IN PropertyOf(cfg, req, o, Follow(cfg, req, o, D))
=============================================================================
