--------------------------- MODULE GenGatewayHost ---------------------------
(* Class-product enumeration for GatewayHost: phase M (the property invariants on every case, D = {})
   and phase G generator (one printed case per request x configuration with the expected outcome, the
   expected outcome of following a redirect once, and -- where the open deviations Devs change it --
   the as-built alternative). *)
EXTENDS GatewayHost, Json
CONSTANTS Devs,      \* open deviations (as-built alternative printed for them)
          Lite,      \* reduced block "rest": UseSubdomains on, port and wildcard host vary together
          Rich,      \* thorough tier: block "ids" also varies port and wildcard gateway host
          Blocks     \* subset of {"ids", "rest", "forms"}:
                     \* "ids"  : every identifier x namespace x host form x relevant configuration
                     \* "rest" : representative identifiers x remainders x queries x port x wildcard host
                     \* "forms": representative identifiers x EVERY branch of the handler (known gateway with /
                     \*           without own DNSLink record x path inside / outside Paths x NoDNSLink, subdomain,
                     \*           wildcard gateway, foreign DNSLink site) x every textual host form x X-Forwarded-Host

RECURSIVE Rep(_, _)
Rep(c, k) == IF k = 0 THEN <<>> ELSE <<c>> \o Rep(c, k - 1)

\* DNS names (character sequences)
N1 == <<"m","y",".","v","-","l","o","n","g",".","e","x">>          \* my.v-long.ex
N2 == <<"a",".","b">>
N3 == Rep("a", 58) \o <<".","b","-","c",".","d">>                  \* inlines to 65 characters
N4 == Rep("a", 56) \o <<".","b","-","c",".","d">>                  \* inlines to exactly 63
N5 == <<"x","n","-","-","9","a",".","e","x">>                      \* punycode-style label xn--9a.ex
L2 == <<"m","y","-","s","i","t","e">>                              \* dot-less name with a hyphen
G1 == <<"n","o","t","a","c","i","d">>
G2 == <<"e","v","i","l",".","t","e","s","t","?","x">>
G3 == <<"u","@","e","v","i","l",".","t","e","s","t">>
G4 == <<"e","v","i","l",".","t","e","s","t","#","x">>
G5 == <<"a"," ","b",".","t","e","s","t">>
Dotted   == {N1, N2, N3, N4, N5}
InlinedN == {Inline(N1), Inline(N5), L2}
Garbage  == {G1, G2, G3, G4, G5}

\* identifier together with the DNSLink records that exist around it
IdRecs ==
       {[id |-> Cid(0, "pb", "b58", "s1"), recs |-> {}]}
  \cup {[id |-> Cid(1, c, b, m), recs |-> {}] : c \in {"pb", "raw", "key"}, b \in {"b58", "b32", "b36"}, m \in {"s1", "id", "s512"}}
  \cup {[id |-> P58("id"), recs |-> {}]}
  \cup UNION {{[id |-> Dns(n), recs |-> r] : r \in SUBSET {n, Inline(n)}} : n \in Dotted}
  \cup UNION {{[id |-> Dns(n), recs |-> r] : r \in SUBSET {n, Uninline(n)}} : n \in InlinedN}
  \cup {[id |-> Dns(n), recs |-> r] : n \in Garbage, r \in {{}}}
FormIds == {ir \in IdRecs : \/ ir.id \in {Cid(0, "pb", "b58", "s1"), Cid(1, "raw", "b32", "s1"), Cid(1, "key", "b36", "id")}
                            \/ ir.id \in {Dns(N1), Dns(Inline(N1))} /\ ir.recs = {N1}
                            \/ ir.id = Dns(N2)}
FormIdsLite == {ir \in FormIds : ir.id \in {Cid(0, "pb", "b58", "s1"), Cid(1, "raw", "b32", "s1"), Dns(N1)}}
RestIds == {ir \in IdRecs : \/ ir.id \in {Cid(0, "pb", "b58", "s1"), Cid(1, "raw", "b32", "s1"), Cid(1, "key", "b32", "id"), P58("id")}
                            \/ ir.id \in {Dns(N1), Dns(Inline(N1)), Dns(G2)} /\ ir.recs = {N1}
                            \/ ir.id = Dns(G2)}

SegsAll == {<<>>, <<"">>, <<"a", "b c">>, <<"d?e", "">>}
QAll    == {"", "q=1", "a=b%20c&d=%2F"}

VARIABLES pc, Block, cfg, req
vars == <<pc, Block, cfg, req>>
Cfg0 == [wild |-> FALSE, sub |-> FALSE, inl |-> FALSE, gwnodl |-> FALSE, paths |-> "both", nodl |-> FALSE]
Req0 == [hf |-> "gw", xfh |-> FALSE, form |-> "plain", https |-> FALSE, ns |-> "ipfs", id |-> NoId, segs |-> <<>>, q |-> "", recs |-> {},
         gwrec |-> FALSE]
Init == pc = 0 /\ Block \in Blocks /\ cfg = Cfg0 /\ req = Req0

HostFormOK(hf, id) == CASE hf = "gw"  -> TRUE
                        [] hf = "sub" -> id.k # "dns" \/ HostSafe(id.name)
                        [] OTHER      -> id.k = "dns" /\ HasDot(id.name) /\ HostSafe(id.name)

IdsOf(b) == CASE b = "ids" -> IdRecs [] b = "rest" -> RestIds [] OTHER -> IF Rich THEN FormIds ELSE FormIdsLite
Pick1 == /\ pc = 0 /\ pc' = 1 /\ cfg' = cfg /\ Block' = Block
         /\ \E ir \in IdsOf(Block), hf \in {"gw", "sub", "other"},
               ns \in (IF Block = "rest" THEN {"ipfs", "ipns"} ELSE {"ipfs", "ipns", "foo"}) :
              /\ HostFormOK(hf, ir.id)
              /\ hf = "other" => ns = "ipfs"                    \* the namespace is not part of that request
              /\ Block = "forms" /\ hf = "sub" => ns # "foo"
              /\ req' = [req EXCEPT !.hf = hf, !.ns = ns, !.id = ir.id, !.recs = ir.recs]
Pick2 == /\ pc = 1 /\ pc' = 2 /\ Block' = Block
         /\ Block # "forms"
         /\ \E https \in BOOLEAN, xfh \in BOOLEAN, sub \in BOOLEAN, inl \in BOOLEAN,
               paths \in (IF Block = "ids" THEN {"both", "ipfs"} ELSE {"both"}), nodl \in BOOLEAN,
               segs \in (IF Block = "ids" THEN {<<"a", "b c">>} ELSE SegsAll),
               q \in (IF Block = "ids" THEN {"q=1"} ELSE QAll),
               form \in (IF Block = "ids" /\ ~Rich THEN {"plain"} ELSE {"plain", "port"}),
               wild \in (IF Block = "ids" /\ ~Rich THEN {FALSE} ELSE BOOLEAN),
               gwrec \in BOOLEAN, gwnodl \in BOOLEAN :
              \* only the configuration fields the host form can depend on are varied
              /\ req.hf = "other" => sub /\ inl /\ paths = "both" /\ ~xfh
              /\ req.hf # "other" => ~nodl
              /\ Block = "rest" => ~xfh
              /\ Block = "rest" /\ Lite => sub /\ (form = "port" <=> wild)
              \* the gateway host's own DNSLink record matters where the path is outside the gateway's Paths
              /\ gwrec => req.hf = "gw" /\ Block = "ids" /\ ~Handled([paths |-> paths], req.ns) /\ ~inl
              /\ gwnodl => gwrec
              /\ req' = [req EXCEPT !.https = https, !.xfh = xfh, !.segs = segs, !.q = q, !.form = form, !.gwrec = gwrec]
              /\ cfg' = [cfg EXCEPT !.sub = sub, !.inl = inl, !.paths = paths, !.nodl = nodl, !.wild = wild, !.gwnodl = gwnodl]
\* block "forms": the textual host form crossed with every branch of the handler
Pick2F == /\ pc = 1 /\ pc' = 2 /\ Block' = Block
          /\ Block = "forms"
          /\ \E form \in Forms, xfh \in BOOLEAN, sub \in BOOLEAN, wild \in BOOLEAN, paths \in {"both", "ipfs"},
                gwrec \in BOOLEAN, gwnodl \in BOOLEAN, nodl \in BOOLEAN, https \in BOOLEAN :
              /\ req.hf = "other" => sub /\ paths = "both" /\ ~wild /\ ~gwrec
              /\ req.hf = "sub" => sub /\ ~gwrec /\ (paths = "ipfs" => req.ns = "ipns")
              /\ req.hf = "gw" /\ paths = "ipfs" => req.ns = "ipns"        \* (/ipfs with Paths={/ipfs} = with both)
              /\ req.hf # "other" /\ ~gwrec => ~nodl                        \* Config.NoDNSLink: foreign hosts; as built also
              /\ gwnodl => gwrec                                            \*   GW.TEST-style hosts with a record
              /\ nodl /\ req.hf # "other" => NonCanon(form) \/ form = "plain"
              /\ https => Rich \/ (form \in {"port", "upper"} /\ ~xfh)
              /\ req' = [req EXCEPT !.https = https, !.xfh = xfh, !.segs = <<"a", "b c">>, !.q = "q=1", !.form = form, !.gwrec = gwrec]
              /\ cfg' = [cfg EXCEPT !.sub = sub, !.inl = FALSE, !.paths = paths, !.nodl = nodl, !.wild = wild, !.gwnodl = gwnodl]
Next == Pick1 \/ Pick2 \/ Pick2F
Spec == Init /\ [][Next]_vars
Chosen == pc = 2

\* ---- phase M and phase G in one pass: every routing of a case is computed once.
\*  PropertyHolds    : the property holds for the ideal routing (D = {})
\*  DiffIsAttributed : every difference of the as-built routing is attributed to a named deviation
\*  FormIndependent  : the ideal routing does not depend on the textual form of the host
\*  DevsDetected     : wherever a deviation matters, the as-built outcome violates the property
\*                     (so the property invariants are not vacuous)
Fail(what) == PrintT(<<"FAILED", what, cfg, req>>) /\ FALSE
RECURSIVE SeqOf(_)
SeqOf(S) == IF S = {} THEN <<>> ELSE LET e == CHOOSE e \in S : TRUE IN <<e>> \o SeqOf(S \ {e})
ReqJ == [req EXCEPT !.recs = SeqOf(req.recs)]
Checks ==
  ~Chosen \/
  LET id  == Full(cfg, req, {})
      all == Full(cfg, req, AllDevs)
      ab  == IF Devs = AllDevs THEN all ELSE IF Devs = {} THEN id ELSE Full(cfg, req, Devs)
      fa  == IF all = id THEN {} ELSE {d \in AllDevs : all # Full(cfg, req, AllDevs \ {d})}
      fd  == IF ab = id THEN {} ELSE IF Devs = AllDevs THEN fa ELSE {d \in Devs : ab # Full(cfg, req, Devs \ {d})}
  IN /\ PropertyOf(cfg, req, id[1], id[2]) \/ Fail("PropertyHolds")
     /\ (req.form = "plain" \/ id = Full(cfg, PlainReq(req), {})) \/ Fail("FormIndependent")
     /\ (all # id => fa # {}) \/ Fail("DiffIsAttributed")
     /\ (fa # {} => ~PropertyOf(cfg, req, all[1], all[2]) \/ all # Full(cfg, PlainReq(req), AllDevs)) \/ Fail("DevsDetected")
     /\ PrintT(<<"BEHAVIOUR", ToJson(
           IF ab = id THEN [cfg |-> cfg, req |-> ReqJ, out |-> id[1], follow |-> id[2]]
           ELSE [cfg |-> cfg, req |-> ReqJ, out |-> id[1], follow |-> id[2],
                 alt |-> ab[1], altfollow |-> ab[2], devs |-> SeqOf(fd)])>>)
=============================================================================
