----------------------------- MODULE LabelCodec -----------------------------
(* C32, part A -- the DNSLink label codec of the subdomain gateway on character sequences
   (gateway/hostname.go InlineDNSLink / UninlineDNSLink, specs.ipfs.tech subdomain-gateway):
     inline   : "-" -> "--", "." -> "-"          my.v-long.example.com -> my-v--long-example-com
     uninline : "--" -> "-", "-" -> "."  (left to right)
   A name is a sequence of one-character strings. *)
EXTENDS Integers, Sequences

RECURSIVE Inline(_)
Inline(s) == IF s = <<>> THEN <<>>
             ELSE (CASE Head(s) = "-" -> <<"-", "-">>
                     [] Head(s) = "." -> <<"-">>
                     [] OTHER         -> <<Head(s)>>) \o Inline(Tail(s))

RECURSIVE Uninline(_)
Uninline(s) == IF s = <<>> THEN <<>>
               ELSE IF Head(s) # "-" THEN <<Head(s)>> \o Uninline(Tail(s))
               ELSE IF Len(s) >= 2 /\ s[2] = "-" THEN <<"-">> \o Uninline(SubSeq(s, 3, Len(s)))
               ELSE <<".">> \o Uninline(Tail(s))

HasChar(s, c) == \E i \in DOMAIN s : s[i] = c
HasDot(s)     == HasChar(s, ".")
HasHyphen(s)  == HasChar(s, "-")

\* RFC 952/1123 host name (LDH rule): non-empty labels of letters, digits and inner hyphens
ValidDNSName(s) ==
  /\ s # <<>>
  /\ \A i \in DOMAIN s :
       /\ s[i] = "." => i > 1 /\ i < Len(s) /\ s[i + 1] # "."
       /\ s[i] = "-" => i > 1 /\ i < Len(s) /\ s[i - 1] # "." /\ s[i + 1] # "."

\* the label the gateway may put into a URL: the inlined name, or "too long"
TooLong == <<"!">>
InlineLabel(s, max) == IF Len(Inline(s)) > max THEN TooLong ELSE Inline(s)
=============================================================================
