\* ready-to-run exhaustive configuration (module GenGatewayHost.tla, ideal routing only);
\* checks/C32.py instantiates GenGatewayHost.cfg.in with the tier's constants and the open deviations.
SPECIFICATION Spec
CONSTANTS LabelMax = 63
          Devs = {}
          Blocks = {"ids", "rest", "forms"}
          Lite = FALSE
          Rich = TRUE
INVARIANTS Checks
CHECK_DEADLOCK FALSE
