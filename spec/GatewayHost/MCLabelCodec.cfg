\* ready-to-run exhaustive configuration of the label codec (module MCLabelCodec.tla)
SPECIFICATION Spec
CONSTANTS Alphabet = {"a", "b", "1", "-", "."}
          MaxLen = 8
          GenLen = 0
          LabelMax = 63
INVARIANTS RoundTrip SingleLabel LenBound PaddedRoundTrip
CHECK_DEADLOCK FALSE
