---------------------------- MODULE MCLabelCodec ----------------------------
(* Exhaustive check of the codec on every name up to MaxLen characters over Alphabet (phase M), and
   generator of the codec cases replayed into the real InlineDNSLink / UninlineDNSLink (phase G):
   every sequence up to GenLen characters, valid DNS name or not, plus names padded to the label limit. *)
EXTENDS LabelCodec, TLC, Json
CONSTANTS Alphabet, MaxLen, GenLen, LabelMax

VARIABLE x
Init == x = <<>>
Next == Len(x) < MaxLen /\ \E c \in Alphabet : x' = Append(x, c)
Spec == Init /\ [][Next]_x

\* the property (C32): inlined labels decode back to the original FQDN for every valid DNS name ...
RoundTrip   == ValidDNSName(x) => Uninline(Inline(x)) = x
\* ... the label is a single DNS label, and distinguishable from a plain FQDN
SingleLabel == ~HasDot(Inline(x))
LenBound    == Len(Inline(x)) <= 2 * Len(x)

RECURSIVE Rep(_, _)
Rep(c, k) == IF k = 0 THEN <<>> ELSE <<c>> \o Rep(c, k - 1)
\* names whose inlined form has length LabelMax-1 .. LabelMax+2 (x is the short tail)
Padded(k) == Rep("a", k) \o <<".">> \o x
Row(n) == [name |-> n, label |-> InlineLabel(n, LabelMax), back |-> Uninline(n),
           rt |-> IF InlineLabel(n, LabelMax) = TooLong THEN <<>> ELSE Uninline(Inline(n)), valid |-> ValidDNSName(n)]
Emit == \/ Len(x) > GenLen
        \/ /\ PrintT(<<"BEHAVIOUR", ToJson(Row(x))>>)
           /\ \/ Len(x) # 3
              \/ \A k \in (LabelMax - Len(Inline(x)) - 3)..(LabelMax - Len(Inline(x)) + 1) :
                    PrintT(<<"BEHAVIOUR", ToJson(Row(Padded(k)))>>)
PaddedRoundTrip == Len(x) = 3 /\ ValidDNSName(x) =>
   \A k \in (LabelMax - 8)..(LabelMax + 1) : Uninline(Inline(Padded(k))) = Padded(k)
=============================================================================
