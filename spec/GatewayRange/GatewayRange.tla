---------------------------- MODULE GatewayRange ----------------------------
(* C30 -- the gateway serves exactly the requested file bytes.

   One request against one UnixFS file of `size` units:
     q = [size, specs, ifr, inm, meth]
       specs : sequence of byte-range-specs of the Range header (<<>> = no Range header)
                 [k |-> "fl", a, b]   first-last      "a-b"
                 [k |-> "fo", a]      first-open      "a-"
                 [k |-> "sx", a]      suffix          "-a"
                 [k |-> "bad"]        syntactically invalid element
       ifr   : If-Range    in {"absent","match","mismatch"}   (strong ETag = the file's CID)
       inm   : If-None-Match in {"absent","match","mismatch"}
       meth  : "GET" | "HEAD"
   Response r = [st, crk, crs, cre, cl, boff, blen]
       crk   : Content-Range kind "none" | "range" (bytes crs-(cre-1)/size) | "star" (bytes */size)
       cl    : Content-Length, -1 = not constrained (error pages)
       body  : file[boff .. boff+blen), blen = -1 = not constrained (error pages)
   All intervals are half-open [lo,hi) so that the model is invariant under scaling the unit
   (the harness replays every abstract case with units of 1 .. 3*chunk+7 real bytes).

   Ideal(q)      : RFC 7233/7232 + the gateway's documented rules, stated declaratively.
   AsBuilt(q, D) : the code's pipeline (parseRangeWithoutLength -> backend seek ->
                   checkPreconditions -> parseRange -> CopyN) with one gate per *named deviation*;
                   AsBuilt(q, {}) = Ideal(q) is checked for every q (theorem PipelineIsIdeal). *)
EXTENDS Integers, Sequences, FiniteSets, TLC

Min(a, b) == IF a < b THEN a ELSE b
Max(a, b) == IF a > b THEN a ELSE b

DevMulti   == "Dev_C30_MultiRangeBodyOffset"
DevSuffix  == "Dev_C30_LongSuffix500"
DevIfRange == "Dev_C30_IfRangeBodyOffset"
DevZero    == "Dev_C30_ZeroSuffix206"
DevHead    == "Dev_C30_HeadSkipsValidation"
AllDevs    == {DevMulti, DevSuffix, DevIfRange, DevZero, DevHead}

---------------------------------------------------------------------------
(* responses *)
Resp(st, crk, crs, cre, cl, boff, blen) ==
  [st |-> st, crk |-> crk, crs |-> crs, cre |-> cre, cl |-> cl, boff |-> boff, blen |-> blen]
RErr(st)      == Resp(st, "none", 0, 0, -1, 0, -1)
R304          == Resp(304, "none", 0, 0, -1, 0, 0)
R416(size)    == Resp(416, "star", 0, 0, -1, 0, -1)
BodyLen(q, n) == IF q.meth = "HEAD" THEN 0 ELSE n
Whole(q)      == Resp(200, "none", 0, 0, q.size, 0, BodyLen(q, q.size))
Partial(q, lo, hi) == Resp(206, "range", lo, hi, hi - lo, IF q.meth = "HEAD" THEN 0 ELSE lo, BodyLen(q, hi - lo))

---------------------------------------------------------------------------
(* Ideal: RFC 7233 section 2.1 / 3.1 / 3.2 / 4.1 / 4.4, RFC 7232 section 6, and the gateway rules
   "only the first (satisfiable) range is served", "an empty file ignores Range",
   "ranges whose total length exceeds the file are ignored", "an invalid Range is a 400". *)
Malformed(s)       == s.k = "bad" \/ (s.k = "fl" /\ s.b < s.a)
Satisfiable(s, sz) == CASE s.k \in {"fl", "fo"} -> s.a < sz
                        [] s.k = "sx"           -> s.a > 0 /\ sz > 0
                        [] OTHER                -> FALSE
Lo(s, sz) == IF s.k = "sx" THEN Max(sz - s.a, 0) ELSE s.a
Hi(s, sz) == IF s.k = "fl" THEN Min(s.b + 1, sz) ELSE sz

RECURSIVE SumLen(_, _)
SumLen(ss, sz) == IF ss = <<>> THEN 0 ELSE (Hi(Head(ss), sz) - Lo(Head(ss), sz)) + SumLen(Tail(ss), sz)

Ideal(q) ==
  IF q.inm = "match" THEN R304
  ELSE IF \E i \in DOMAIN q.specs : Malformed(q.specs[i]) THEN RErr(400)
  ELSE LET eff == IF q.ifr = "mismatch" THEN <<>> ELSE q.specs
           sat == SelectSeq(eff, LAMBDA s : Satisfiable(s, q.size))
       IN IF eff = <<>> \/ q.size = 0 THEN Whole(q)
          ELSE IF sat = <<>> THEN R416(q.size)
          ELSE IF SumLen(sat, q.size) > q.size THEN Whole(q)
          ELSE Partial(q, Lo(sat[1], q.size), Hi(sat[1], q.size))

---------------------------------------------------------------------------
(* AsBuilt: the pipeline of the code, with gates. *)

\* gateway/handler_defaults.go parseRangeWithoutLength: error cases
PWLInvalid(s) == s.k = "bad" \/ (s.k = "fl" /\ s.a > s.b)

\* gateway/serve_http_content.go parseRange: fold over the specs, in order.
\* acc = [rs (sequence of <<start,length>>), no (noOverlap), err]
RECURSIVE ParseRange(_, _, _, _)
ParseRange(ss, sz, acc, D) ==
  IF ss = <<>> \/ acc.err THEN acc
  ELSE LET s == Head(ss) IN
    ParseRange(Tail(ss), sz,
      CASE s.k = "bad" -> [acc EXCEPT !.err = TRUE]
        [] s.k = "sx"  -> LET i == Min(s.a, sz) IN
                            IF i = 0 /\ DevZero \notin D
                            THEN [acc EXCEPT !.no = TRUE]                     \* ideal: unsatisfiable
                            ELSE [acc EXCEPT !.rs = Append(@, <<sz - i, i>>)]  \* as built: zero-length range
        [] s.a >= sz   -> [acc EXCEPT !.no = TRUE]                            \* before `end` is looked at
        [] s.k = "fo"  -> [acc EXCEPT !.rs = Append(@, <<s.a, sz - s.a>>)]
        [] s.b < s.a   -> [acc EXCEPT !.err = TRUE]
        [] OTHER       -> [acc EXCEPT !.rs = Append(@, <<s.a, Min(s.b, sz - 1) - s.a + 1>>)],
      D)

RECURSIVE SumPairs(_)
SumPairs(rs) == IF rs = <<>> THEN 0 ELSE Head(rs)[2] + SumPairs(Tail(rs))

\* backend seek (seekToRangeStart) for the first listed spec; -1 = error
SeekPos(s, sz) == CASE s.k = "sx" -> IF s.a > sz THEN -1 ELSE IF s.a = 0 THEN 0 ELSE sz - s.a
                    [] OTHER      -> Min(s.a, sz)      \* dagReader/bytes.Reader: past EOF reads nothing

AsBuiltR(q, D) ==
  IF q.inm = "match" THEN R304                                         \* handler.handleIfNoneMatch
  ELSE
  LET get      == q.meth = "GET"
      validate == get \/ DevHead \notin D                              \* serveDefaults: GET only, as built
  IN
  IF validate /\ \E i \in DOMAIN q.specs : PWLInvalid(q.specs[i]) THEN RErr(400)
  ELSE
  LET seek == IF get /\ q.specs # <<>> THEN SeekPos(q.specs[1], q.size) ELSE 0   \* BlocksBackend.Get
  IN
  IF seek = -1 /\ DevSuffix \in D THEN RErr(500)
  ELSE
  LET ignored == q.ifr = "mismatch" /\ q.specs # <<>>                  \* checkPreconditions / checkIfRange
      eff     == IF ignored THEN <<>> ELSE q.specs
      pr      == ParseRange(eff, q.size, [rs |-> <<>>, no |-> FALSE, err |-> FALSE], D)
  IN
  IF pr.err THEN RErr(416)                                             \* http.Error, no Content-Range
  ELSE IF pr.no /\ pr.rs = <<>> /\ q.size > 0 THEN R416(q.size)
  ELSE
  LET rs    == IF (pr.no /\ pr.rs = <<>>) \/ SumPairs(pr.rs) > q.size THEN <<>> ELSE pr.rs
      start == IF rs = <<>> THEN 0 ELSE rs[1][1]
      send  == IF rs = <<>> THEN q.size ELSE rs[1][2]
      \* where the reader stands when CopyN starts
      asbuiltpos == IF ignored THEN DevIfRange \in D
                    ELSE Len(q.specs) >= 2 /\ DevMulti \in D
      pos   == IF asbuiltpos THEN Max(seek, 0) ELSE start
      blen  == IF get THEN Max(0, Min(send, q.size - pos)) ELSE 0
      boff  == IF blen > 0 THEN pos ELSE 0        \* only meaningful for a non-empty body
  IN IF rs = <<>> THEN Resp(200, "none", 0, 0, q.size, boff, blen)
     ELSE Resp(206, "range", start, start + send, send, boff, blen)

\* deviations that matter for q (removing it alone changes the response)
Fired(q, D) == {d \in D : AsBuiltR(q, D) # AsBuiltR(q, D \ {d})}
AsBuilt(q, D) == [r |-> AsBuiltR(q, D), f |-> Fired(q, D)]

---------------------------------------------------------------------------
(* The property, as predicates over (q, r). *)
Overlaps(s, sz) == Satisfiable(s, sz)

Consistent(q, r) ==
  /\ r.st \in {200, 206, 304, 400, 416}
  /\ r.st = 206 =>
       /\ r.crk = "range" /\ 0 <= r.crs /\ r.crs < r.cre /\ r.cre <= q.size
       /\ r.cl = r.cre - r.crs
       /\ q.meth = "GET" => r.boff = r.crs /\ r.blen = r.cl
       /\ q.ifr # "mismatch"
       /\ \E i \in DOMAIN q.specs : /\ Overlaps(q.specs[i], q.size)
                                   /\ r.crs = Lo(q.specs[i], q.size) /\ r.cre = Hi(q.specs[i], q.size)
                                   /\ \A j \in 1..(i - 1) : ~Overlaps(q.specs[j], q.size)
  /\ r.st = 200 =>
       /\ r.crk = "none" /\ r.cl = q.size
       /\ q.meth = "GET" => r.boff = 0 /\ r.blen = q.size
  /\ q.meth = "HEAD" /\ r.blen # -1 => r.blen = 0
  /\ r.st = 416 =>
       /\ r.crk = "star" /\ q.size > 0 /\ q.specs # <<>>
       /\ \A i \in DOMAIN q.specs : ~Overlaps(q.specs[i], q.size)
  /\ r.st = 304 <=> q.inm = "match"
  /\ r.st = 400 <=> (q.inm # "match" /\ \E i \in DOMAIN q.specs : Malformed(q.specs[i]))
  \* 416 is mandatory exactly when a usable Range matches nothing of a non-empty file
  /\ (/\ q.inm # "match" /\ q.ifr # "mismatch" /\ q.specs # <<>> /\ q.size > 0
      /\ \A i \in DOMAIN q.specs : ~Malformed(q.specs[i]) /\ ~Overlaps(q.specs[i], q.size))
     => r.st = 416

HeadMirrorsGet(q) ==
  LET g == Ideal([q EXCEPT !.meth = "GET"])  h == Ideal([q EXCEPT !.meth = "HEAD"])
  IN h.st = g.st /\ h.crk = g.crk /\ h.crs = g.crs /\ h.cre = g.cre /\ h.cl = g.cl

---------------------------------------------------------------------------
(* Class-product enumeration (phase M and the generator). *)
CONSTANTS MaxSize,      \* abstract sizes 0..MaxSize
          MaxSpecs,     \* up to MaxSpecs range specs per request
          Cond2         \* conditionals crossed with 2-spec requests: "all" | "lite"

SpecsFor(sz) ==
  LET B == 0..(sz + 2) IN
       {[k |-> "fl", a |-> a, b |-> b] : a \in B, b \in B}
  \cup {[k |-> "fo", a |-> a, b |-> 0] : a \in B}
  \cup {[k |-> "sx", a |-> a, b |-> 0] : a \in B}
  \cup {[k |-> "bad", a |-> 0, b |-> 0]}

Conds == {"absent", "match", "mismatch"}
Meths == {"GET", "HEAD"}

Dummy == [k |-> "bad", a |-> 0, b |-> 0]

\* The case is spread over several variables and chosen in two steps, so that TLC enumerates the
\* product lazily and in parallel (one huge set of request records takes minutes to normalise).
VARIABLES pc, sz, n, s1, s2, ifr, inm, meth
vars == <<pc, sz, n, s1, s2, ifr, inm, meth>>
q == [size |-> sz, specs |-> IF n = 0 THEN <<>> ELSE IF n = 1 THEN <<s1>> ELSE <<s1, s2>>,
      ifr |-> ifr, inm |-> inm, meth |-> meth]

Init == pc = 0 /\ sz = 0 /\ n = 0 /\ s1 = Dummy /\ s2 = Dummy /\ ifr = "absent" /\ inm = "absent" /\ meth = "GET"
Pick1 == /\ pc = 0 /\ pc' = 1
         /\ sz' \in 0..MaxSize
         /\ n' \in 0..MaxSpecs
         /\ s1' \in (IF n' >= 1 THEN SpecsFor(sz') ELSE {Dummy})
         /\ UNCHANGED <<s2, ifr, inm, meth>>
Pick2 == /\ pc = 1 /\ pc' = 2
         /\ s2' \in (IF n >= 2 THEN SpecsFor(sz) ELSE {Dummy})
         /\ ifr' \in (IF n < 2 \/ Cond2 = "all" THEN Conds ELSE {"absent", "mismatch"})
         /\ inm' \in (IF n < 2 \/ Cond2 = "all" THEN Conds ELSE {"absent"})
         /\ meth' \in Meths
         /\ UNCHANGED <<sz, n, s1>>
Next == Pick1 \/ Pick2
Spec == Init /\ [][Next]_vars
Chosen == pc = 2

IdealConsistent   == Chosen => Consistent(q, Ideal(q))
IdealHeadMirror   == Chosen => HeadMirrorsGet(q)
PipelineIsIdeal   == Chosen => AsBuiltR(q, {}) = Ideal(q)
\* every difference between the code as built and the ideal is attributed to a named deviation
DiffIsAttributed  == Chosen => (AsBuiltR(q, AllDevs) # Ideal(q) => Fired(q, AllDevs) # {})
=============================================================================
