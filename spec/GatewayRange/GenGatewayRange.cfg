\* ready-to-run instance of GenGatewayRange.cfg.in (quick tier, no open deviations);
\* checks/C30.py instantiates the template with the tier's constants and the open deviations.
SPECIFICATION Spec
CONSTANTS MaxSize = 3
          MaxSpecs = 2
          Cond2 = "lite"
          Devs = {}
INVARIANTS Checks
CHECK_DEADLOCK FALSE
