--------------------------- MODULE GenGatewayRange ---------------------------
(* Phase M and phase G in one pass over the class product of GatewayRange: for every request the
   responses are computed once, the property invariants are checked, and one case is printed with
   the ideal response and, where the open deviations Devs change it, the as-built alternative with
   the deviations that matter.  Responses are printed as tuples
   <<st, crk, crs, cre, cl, boff, blen>> in abstract units (half-open).
     IdealConsistent  : Consistent(q, Ideal(q))
     IdealHeadMirror  : HEAD has the status and headers of GET
     PipelineIsIdeal  : the model of the code's pipeline with all gates closed is the ideal
     DiffIsAttributed : every difference of the as-built pipeline is attributed to a named deviation
     DevsDetected     : wherever a deviation matters the as-built response violates Consistent
                        (the property is sensitive to every occurrence; not vacuous) *)
EXTENDS GatewayRange, Json
CONSTANT Devs

Tup(r) == <<r.st, r.crk, r.crs, r.cre, r.cl, r.boff, r.blen>>
RECURSIVE SeqOf(_)
SeqOf(S) == IF S = {} THEN <<>> ELSE LET x == CHOOSE x \in S : TRUE IN <<x>> \o SeqOf(S \ {x})
Fail(what) == PrintT(<<"FAILED", what, q>>) /\ FALSE

Checks ==
  ~Chosen \/
  LET id  == Ideal(q)
      all == AsBuiltR(q, AllDevs)
      ab  == IF Devs = AllDevs THEN all ELSE IF Devs = {} THEN id ELSE AsBuiltR(q, Devs)
      fa  == IF all = id THEN {} ELSE {d \in AllDevs : all # AsBuiltR(q, AllDevs \ {d})}
      fd  == IF ab = id THEN {} ELSE IF Devs = AllDevs THEN fa ELSE {d \in Devs : ab # AsBuiltR(q, Devs \ {d})}
  IN /\ Consistent(q, id) \/ Fail("IdealConsistent")
     /\ (q.meth = "HEAD" => HeadMirrorsGet(q)) \/ Fail("IdealHeadMirror")
     /\ AsBuiltR(q, {}) = id \/ Fail("PipelineIsIdeal")
     /\ (all # id => fa # {}) \/ Fail("DiffIsAttributed")
     /\ (fa # {} => ~Consistent(q, all)) \/ Fail("DevsDetected")
     /\ PrintT(<<"BEHAVIOUR", ToJson(
           IF ab = id THEN [q |-> q, ideal |-> Tup(id)]
           ELSE [q |-> q, ideal |-> Tup(id), alt |-> Tup(ab), devs |-> SeqOf(fd)])>>)
=============================================================================
