--------------------------- MODULE GenGatewayRange ---------------------------
(* Phase G generator: one printed case per request of ReqSpace with the ideal response and, where the
   open deviations Devs change it, the as-built alternative with the deviations that matter.
   Responses are tuples <<st, crk, crs, cre, cl, boff, blen>> in abstract units (half-open). *)
EXTENDS GatewayRange, Json
CONSTANT Devs

Tup(r) == <<r.st, r.crk, r.crs, r.cre, r.cl, r.boff, r.blen>>
RECURSIVE SeqOf(_)
SeqOf(S) == IF S = {} THEN <<>> ELSE LET x == CHOOSE x \in S : TRUE IN <<x>> \o SeqOf(S \ {x})

Case == LET id == Ideal(q)  ab == AsBuiltR(q, Devs) IN
        IF ab = id THEN [q |-> q, ideal |-> Tup(id)]
        ELSE [q |-> q, ideal |-> Tup(id), alt |-> Tup(ab), devs |-> SeqOf(Fired(q, Devs))]
Emit == ~Chosen \/ PrintT(<<"BEHAVIOUR", ToJson(Case)>>)
=============================================================================
