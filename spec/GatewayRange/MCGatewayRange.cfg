SPECIFICATION Spec
CONSTANTS MaxSize = 4
          MaxSpecs = 2
          Cond2 = "all"
INVARIANTS IdealConsistent IdealHeadMirror PipelineIsIdeal DiffIsAttributed
CHECK_DEADLOCK FALSE
