SPECIFICATION TSpec
CONSTANTS MaxSize = 0
          MaxSpecs = 0
          Cond2 = "all"
          Devs = @DEVS@
INVARIANTS DevReport
CONSTRAINT TraceConstraint
POSTCONDITION TracePost
CHECK_DEADLOCK FALSE
