-------------------------- MODULE TraceGatewayRange --------------------------
(* Phase T: every recorded request/response of the real gateway (random files, Range headers rendered
   from a grammar; the harness logs the *structured* request it rendered and a projection of the
   response) must be what Ideal dictates; with open findings enabled (Devs), the as-built response of
   exactly those deviations is accepted as well and the deviations that mattered are reported. *)
EXTENDS GatewayRange, Json

CONSTANT Devs
Trace == ndJsonDeserialize("trace.ndjson")
VARIABLES l, dev
tvars == <<vars, l, dev>>
ASSUME TLCSet(1, 0)

Ev == Trace[l]
ReqOf(e) == [size |-> e.size, specs |-> e.specs, ifr |-> e.ifr, inm |-> e.inm, meth |-> e.meth]
ToSet(s) == {s[i] : i \in 1..Len(s)}

\* logged projection e matches the expected response x
Matches(e, x) ==
  /\ e.st = x.st
  /\ e.crk = x.crk
  /\ x.crk = "range" => e.crs = x.crs /\ e.cre = x.cre
  /\ x.cl >= 0 => e.cl = x.cl
  /\ x.blen >= 0 => /\ e.blen = x.blen
                    /\ x.blen > 0 => x.boff \in ToSet(e.bat)

TInit == Init /\ l = 1 /\ dev = {}
TReq == /\ l <= Len(Trace) /\ Ev.ev = "Req" /\ l' = l + 1
        /\ LET rq == ReqOf(Ev) IN
           \/ Matches(Ev, Ideal(rq)) /\ dev' = dev
           \/ /\ Devs # {}
              /\ ~Matches(Ev, Ideal(rq))
              /\ Matches(Ev, AsBuiltR(rq, Devs))
              /\ dev' = dev \cup Fired(rq, Devs)
        /\ UNCHANGED vars
TSpec == TInit /\ [][TReq]_tvars

\* the property itself, evaluated on the logged responses that were accepted as ideal
DevReport == l <= Len(Trace) \/ \A d \in dev : PrintT(<<"DEV_USED", d>>)
TraceConstraint == TLCSet(1, IF l - 1 > TLCGet(1) THEN l - 1 ELSE TLCGet(1))
TracePost == PrintT(<<"TRACE_HWM", TLCGet(1)>>)
=============================================================================
