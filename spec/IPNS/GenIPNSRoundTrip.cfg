SPECIFICATION GSpec
CONSTANTS Full = FALSE
INVARIANTS Emit
CHECK_DEADLOCK FALSE
