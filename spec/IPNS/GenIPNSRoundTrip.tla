--------------------------- MODULE GenIPNSRoundTrip ---------------------------
(* Phase G for C26: one line per case of the class product with the observables the
   specification demands (Expected).  The harness maps classes to concrete 64-bit values, times,
   durations, metadata maps and paths, runs NewRecord / MarshalRecord / UnmarshalRecord / the three
   validation entry points / all accessors, and compares. *)
EXTENDS IPNSRoundTrip
GSpec == Init /\ [][FALSE]_vars
Emit == PrintT(<<"BEHAVIOUR", ToJson([c |-> c, exp |-> Expected(c)])>>)
=============================================================================
