SPECIFICATION GSpec
CONSTANTS Full = TRUE
INVARIANTS Emit
CHECK_DEADLOCK FALSE
