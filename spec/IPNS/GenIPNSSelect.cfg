SPECIFICATION GSpec
CONSTANTS S = 2
          E = 2
          V = 2
          MaxN = 4
          N = 4
          ByteOrders = {"aligned"}
INVARIANTS Emit
CHECK_DEADLOCK FALSE
