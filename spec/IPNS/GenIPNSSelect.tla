----------------------------- MODULE GenIPNSSelect -----------------------------
(* Phase G for C27: every multiset of at most N abstract records (as a list sorted by record
   index), printed with the record the specification says must be selected.  The harness builds
   real records (byte order inside a (v2, seq, eol) class arranged to follow var), feeds EVERY
   permutation of the list to Validator.Select / selectRecord and compares the selected BYTES with
   those of `best`. *)
EXTENDS IPNSSelect
CONSTANT N

GInit == recs = <<>> /\ bo = "aligned" /\ i = 1 /\ j = 2 /\ pc = "gen"
GNext == /\ Len(recs) < N
         /\ \E x \in Recs : /\ (IF Len(recs) = 0 THEN TRUE ELSE Idx(x) >= Idx(recs[Len(recs)]))
                            /\ recs' = Append(recs, x)
         /\ UNCHANGED <<bo, i, j, pc>>
GSpec == GInit /\ [][GNext]_vars

\* -simulate: one random multiset of exactly N records per N+1 steps (long lists, thorough tier)
Tup(x) == <<IF x.v2 THEN 1 ELSE 0, x.seq, x.eol, x.var>>
Emit == Len(recs) = 0 \/
        PrintT(<<"BEHAVIOUR", ToJson([ms |-> [k \in 1..Len(recs) |-> Tup(recs[k])],
                                       best |-> Tup(Best(ToSet(recs)))])>>)
Flush == /\ Len(recs) = N
         /\ PrintT(<<"BEHAVIOUR", ToJson([ms |-> [k \in 1..Len(recs) |-> Tup(recs[k])],
                                          best |-> Tup(Best(ToSet(recs)))])>>)
         /\ recs' = <<>> /\ UNCHANGED <<bo, i, j, pc>>
GNextSim == IF Len(recs) = N THEN Flush ELSE GNext
GSpecSim == GInit /\ [][GNextSim]_vars
=============================================================================
