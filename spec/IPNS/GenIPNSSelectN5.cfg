SPECIFICATION GSpec
CONSTANTS S = 2
          E = 2
          V = 2
          MaxN = 5
          N = 5
          ByteOrders = {"aligned"}
INVARIANTS Emit
CHECK_DEADLOCK FALSE
