SPECIFICATION GSpecSim
CONSTANTS S = 2
          E = 2
          V = 2
          MaxN = 8
          N = 8
          ByteOrders = {"aligned"}
CHECK_DEADLOCK FALSE
