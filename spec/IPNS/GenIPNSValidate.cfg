SPECIFICATION GSpec
CONSTANTS Keys = {1, 2}
          Datas = {1, 2}
          Zero = {2}
          D = 1
          GAttrs = {"ok", "expired", "negttl"}
          GDiag = FALSE
INVARIANTS Emit ExpIsVerdict
CHECK_DEADLOCK FALSE
