---------------------------- MODULE GenIPNSValidate ----------------------------
(* Phase G for C25: every sequence of at most D adversary steps applied to a library-made record
   (key 1; names 1 and 2 are both checked), printed with the final symbolic record and the verdict
   the specification demands for every name and API:
   exp[n][class][devs] (see Exp).  The harness accepts the ideal verdict (devs = {}); a verdict that
   equals the one for a non-empty set of named deviations is reported under exactly those names.
   acc = the document every accessor must report.  *)
EXTENDS IPNSValidate
CONSTANTS D,        \* number of adversary steps
          GAttrs,   \* attributes of document 1 to enumerate (subset of Attrs)
          GDiag     \* TRUE: only the creations with embed = v1compat (quick tier, D = 2)
VARIABLE hist
gvars == <<vars, hist>>

IntOps ==
  {[op |-> "TamperData", f |-> "data", v |-> MUT], [op |-> "DropData", f |-> "data", v |-> NONE],
   [op |-> "TamperSig", f |-> "sig2", v |-> JUNK], [op |-> "DropSig", f |-> "sig2", v |-> NONE],
   [op |-> "TamperKey", f |-> "pk", v |-> JUNK], [op |-> "DropKey", f |-> "pk", v |-> NONE],
   [op |-> "EmptyValue", f |-> "val", v |-> EMPTY]}
  \cup {[op |-> "SwapData", f |-> "data", v |-> d] : d \in Datas}
  \cup {[op |-> "SwapSig", f |-> "sig2", v |-> s] : s \in Sigs}
  \cup {[op |-> "ExtendSig", f |-> "sig2", v |-> s] : s \in SigExts}
  \cup {[op |-> "SwapKey", f |-> "pk", v |-> k] : k \in Keys}
  \cup {[op |-> "TamperLegacy", f |-> f, v |-> JUNK] : f \in LegacyF}
  \cup {[op |-> "DropLegacy", f |-> f, v |-> NONE] : f \in LegacyF}
  \cup {[op |-> "SwapLegacy", f |-> f, v |-> d] : f \in LegacyF, d \in Datas}
StrOps ==
  {[op |-> "SetVty", f |-> "vty", s |-> v] : v \in {"none", "eol", "junk"}}
  \cup {[op |-> "SetSig1", f |-> "sig1", s |-> v] : v \in {"none", "empty", "some"}}
ReKinds == {"unknown", "dupJunkFirst", "reorder", "nonminimal", "padToLimit"}

H(op, f, v, s) == [op |-> op, f |-> f, v |-> v, s |-> s]

GInit == \E d \in Datas, v1, emb \in BOOLEAN, a \in GAttrs :
            /\ GDiag => (emb = v1)
            /\ r = Fresh(1, d, v1, emb) /\ attr = a
            /\ hist = <<[op |-> "Create", f |-> "", v |-> d, s |-> "", v1 |-> v1, emb |-> emb]>>

GNext == /\ Len(hist) < D + 1
         /\ \/ \E o \in IntOps : Set(o.f, o.v) /\ hist' = Append(hist, H(o.op, o.f, o.v, ""))
            \/ \E o \in StrOps : Set(o.f, o.s) /\ hist' = Append(hist, H(o.op, o.f, 0, o.s))
            \/ Pad /\ hist' = Append(hist, H("Pad", "big", 0, ""))
            \/ \E k \in ReKinds : ReEncode /\ hist' = Append(hist, H("ReEncode", "", 0, k))
GSpec == GInit /\ [][GNext]_gvars

\* exp[n][c][j] = <<Validate(rec, key n), ValidateWithName / Validator{nil}, Validator{KeyBook}>> demanded for name n,
\* key class ClassSeq[c], with the deviations DSeq[j] switched on (j = 1: the ideal, j = 4: as built)
ClassSeq == <<[inl |-> TRUE, lax |-> FALSE], [inl |-> FALSE, lax |-> FALSE], [inl |-> FALSE, lax |-> TRUE]>>
DSeq == <<{}, {DevStray}, {DevTrail}, AllDevs>>
V3(n, cls, DD) == LET co == Core(r, n, cls, DD) IN      \* = <<Verdict "key", Verdict "name", Verdict "book">>
                  <<co, KeyAvail(r, n, "name", cls) /\ co, KeyAvail(r, n, "book", cls) /\ co>>
Exp == [n \in Keys |-> [c \in 1..3 |-> [j \in 1..4 |-> V3(n, ClassSeq[c], DSeq[j])]]]
\* V3 is Verdict spelled out once per API (checked by TLC on every printed state)
ExpIsVerdict == \A n \in Keys : \A c \in 1..3 : \A j \in 1..4 :
                  Exp[n][c][j] = <<Verdict(r, n, "key", ClassSeq[c], DSeq[j]), Verdict(r, n, "name", ClassSeq[c], DSeq[j]),
                                   Verdict(r, n, "book", ClassSeq[c], DSeq[j])>>
Emit == PrintT(<<"BEHAVIOUR", ToJson([attr |-> attr, steps |-> hist, r |-> r, exp |-> Exp, acc |-> Acc(r)])>>)
=============================================================================
