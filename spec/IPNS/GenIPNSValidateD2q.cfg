SPECIFICATION GSpec
CONSTANTS Keys = {1, 2}
          Datas = {1, 2}
          Zero = {2}
          D = 2
          GAttrs = {"ok"}
          GDiag = TRUE
INVARIANTS Emit
CHECK_DEADLOCK FALSE
