---------------------------- MODULE IPNSRoundTrip ----------------------------
(* C26 -- IPNS records round-trip through creation, encoding and validation.

   Input-quantified property over a class product.  A case fixes
     kt   key type                    ed25519 | secp256k1 (public key inlined in the name) | ecdsa | rsa
     seq  sequence number class       0, 1, 2^32, 2^63-1, 2^63, 2^64-1          (whole uint64 range)
     eol  expiry class                soon (now+90 s) | hourNanos (now+1 h, odd nanoseconds) |
                                      zoned (the same in a +05:30 zone) | y9999 (9999-12-31T23:59:59.999999999Z)
     ttl  TTL class                   0 | 1ns | 1h | max (2^63-1 ns)
     md   metadata class              see MdTable
     v1   WithV1Compatibility         TRUE | FALSE
     emb  WithPublicKey               default | yes | no
     val  value path class            ipfsV1 | ipfsV0sub | ipns
   The pipeline NewRecord -> MarshalRecord -> UnmarshalRecord -> validation -> accessors is modelled
   stage by stage with the representation changes the code performs (uint64 <-> int64 casts for the
   DAG-CBOR integers, the TTL floor, the embed-key default), and the property is stated as
   invariants of the final stage.  Expected(c) is what the harness compares the real code with.     *)
EXTENDS Naturals, Sequences, FiniteSets, TLC, Json

CONSTANT Full      \* TRUE: full product of the scalar classes; FALSE: a covering diagonal (quick tier)

KeyTypes == {"ed25519", "secp256k1", "ecdsa", "rsa"}
Inlined(kt) == kt \in {"ed25519", "secp256k1"}        \* peer ID = identity multihash of the key
SeqC == {"0", "1", "2^32", "2^63-1", "2^63", "2^64-1"}
EolC == {"soon", "hourNanos", "zoned", "y9999"}
TtlC == {"0", "1ns", "1h", "max"}
ValC == {"ipfsV1", "ipfsV0sub", "ipns"}
EmbC == {"default", "yes", "no"}

\* metadata classes: entries as <<key, kind>> (kind of the DAG-CBOR scalar the accessor must report)
\* or the set of errors NewRecord may return (map iteration order is unspecified)
Reserved == {"Value", "Validity", "ValidityType", "Sequence", "TTL"}
MdOK == [none   |-> {},
         string |-> {<<"_s", "string">>},
         bytes  |-> {<<"_b", "bytes">>},
         int64  |-> {<<"_i", "int">>},
         int    |-> {<<"_n", "int">>},
         negint |-> {<<"_min", "int">>},
         bool   |-> {<<"_t", "bool">>, <<"_f", "bool">>},
         all    |-> {<<"_s", "string">>, <<"_b", "bytes">>, <<"_i", "int">>, <<"_n", "int">>, <<"_t", "bool">>,
                     <<"a", "string">>, <<"Sequenc", "int">>, <<"ZZZZZZZZZZZZZ", "bytes">>}]
MdBad == [resValue |-> {"ErrMetadataConflict"}, resValidity |-> {"ErrMetadataConflict"},
          resValidityType |-> {"ErrMetadataConflict"}, resSequence |-> {"ErrMetadataConflict"},
          resTTL |-> {"ErrMetadataConflict"}, emptyKey |-> {"ErrMetadataEmptyKey"},
          float |-> {"ErrMetadataUnsupportedType"}, uint64 |-> {"ErrMetadataUnsupportedType"},
          struct |-> {"ErrMetadataUnsupportedType"}, nil |-> {"ErrInvalidRecord"},
          goodAndBad |-> {"ErrMetadataConflict"},
          twoBad |-> {"ErrMetadataEmptyKey", "ErrMetadataUnsupportedType"}]
MdC == DOMAIN MdOK \cup DOMAIN MdBad

Diagonal == {<<"0", "soon", "0">>, <<"0", "y9999", "max">>, <<"1", "hourNanos", "1ns">>, <<"1", "zoned", "1h">>,
             <<"2^32", "zoned", "max">>, <<"2^32", "soon", "1ns">>, <<"2^63-1", "y9999", "1h">>, <<"2^63-1", "hourNanos", "0">>,
             <<"2^63", "hourNanos", "max">>, <<"2^63", "y9999", "0">>, <<"2^64-1", "soon", "1h">>, <<"2^64-1", "zoned", "1ns">>}
Scalars == IF Full THEN SeqC \X EolC \X TtlC ELSE Diagonal
\* full product for acceptable metadata; the reject rules do not depend on the other inputs, so the
\* rejected classes are crossed with key type and v1 only
CaseSpace == [kt : KeyTypes, sc : Scalars, md : DOMAIN MdOK, v1 : BOOLEAN, emb : EmbC, val : ValC]
             \cup [kt : KeyTypes, sc : {<<"1", "hourNanos", "1h">>}, md : DOMAIN MdBad, v1 : BOOLEAN, emb : {"default"}, val : {"ipfsV1"}]

(* ------------------------------------------------ representation changes made by the code *)
\* createNode: basicnode.NewInt(int64(seq)) -- the uint64 is reinterpreted as int64 (two's complement)
I64OfU64 == [c \in SeqC |-> CASE c = "2^63" -> "min" [] c = "2^64-1" -> "-1" [] OTHER -> c]
\* Sequence(): uint64(value) -- and back
U64OfI64(i) == CASE i = "min" -> "2^63" [] i = "-1" -> "2^64-1" [] OTHER -> i
\* DAG-CBOR major type of the encoded integer (negative values use major type 1)
CborMajor(i) == IF i \in {"min", "-1"} THEN 1 ELSE 0

VARIABLES c,      \* the case (inputs)
          stage,  \* "input" -> "created" | "rejected" -> "wire" -> "parsed" -> "validated"
          rec     \* the record as the code holds it at this stage
vars == <<c, stage, rec>>

NoRec == [none |-> TRUE]
Init == c \in CaseSpace /\ stage = "input" /\ rec = NoRec

EmbedKey(x) == IF x.emb = "default" THEN ~Inlined(x.kt) ELSE x.emb = "yes"   \* needToEmbedPublicKey

\* NewRecord: metadata is checked first, then the CBOR document is built and signed
CreateReject == /\ stage = "input" /\ c.md \in DOMAIN MdBad
                /\ stage' = "rejected" /\ UNCHANGED <<c, rec>>
CreateOK == /\ stage = "input" /\ c.md \in DOMAIN MdOK
            /\ rec' = [data   |-> [seq |-> I64OfU64[c.sc[1]], eol |-> c.sc[2], ttl |-> c.sc[3], val |-> c.val, md |-> MdOK[c.md]],
                       sig2   |-> <<c.kt, "data">>,                       \* signature over exactly this document
                       legacy |-> IF c.v1 THEN [seq |-> c.sc[1], eol |-> c.sc[2], ttl |-> c.sc[3], val |-> c.val] ELSE NoRec,
                       pk     |-> IF EmbedKey(c) THEN c.kt ELSE "none"]
            /\ stage' = "created" /\ UNCHANGED c
Marshal   == stage = "created" /\ stage' = "wire" /\ UNCHANGED <<c, rec>>      \* proto.Marshal: every set field is written
Unmarshal == stage = "wire" /\ stage' = "parsed" /\ UNCHANGED <<c, rec>>       \* proto.Unmarshal + dagcbor.Decode: identity
\* step 5 of the verification on a library-made record: legacy fields against the decoded document
LegacyMatches(x) == IF x.legacy = NoRec THEN TRUE
                    ELSE /\ x.legacy.seq = U64OfI64(x.data.seq)      \* entry.GetSequence() != uint64(ndInt)
                         /\ x.legacy.eol = x.data.eol /\ x.legacy.ttl = x.data.ttl /\ x.legacy.val = x.data.val
Validate  == stage = "parsed" /\ LegacyMatches(rec) /\ stage' = "validated" /\ UNCHANGED <<c, rec>>
Next == CreateReject \/ CreateOK \/ Marshal \/ Unmarshal \/ Validate
Spec == Init /\ [][Next]_vars

(* ------------------------------------------------ what the caller must observe *)
KeyKnown(x, api) == EmbedKey(x) \/ Inlined(x.kt) \/ api = "book"
Expected(x) ==
  IF x.md \in DOMAIN MdBad
  THEN [create |-> "reject", errors |-> MdBad[x.md]]
  ELSE [create |-> "ok",
        hasPk  |-> EmbedKey(x),              \* Record.PubKey(): embedded key equal to the signer's, else ErrPublicKeyNotFound
        legacy |-> x.v1,                     \* the six legacy protobuf fields are present iff v1-compatible
        vKey   |-> TRUE,                     \* Validate(rec, public key)
        vName  |-> KeyKnown(x, "name"),      \* ValidateWithName(rec, name)
        vBook  |-> TRUE,                     \* Validator{KeyBook with the key}.Validate(routing key, bytes)
        seq |-> x.sc[1], eol |-> x.sc[2], ttl |-> x.sc[3], val |-> x.val,    \* accessors return the inputs
        cborSeqMajor |-> CborMajor(I64OfU64[x.sc[1]]),
        md  |-> MdOK[x.md]]

(* ------------------------------------------------ invariants *)
TypeOK == c \in CaseSpace /\ stage \in {"input", "created", "rejected", "wire", "parsed", "validated"}
\* invalid metadata never produces a record; valid input always reaches "validated" (checked with RoundTripCompletes)
RejectIffBadMetadata == (stage = "rejected") => c.md \in DOMAIN MdBad
\* accessors after the round trip return the inputs
AccessorsIdentity == stage \in {"parsed", "validated"} =>
                       /\ U64OfI64(rec.data.seq) = c.sc[1] /\ rec.data.eol = c.sc[2] /\ rec.data.ttl = c.sc[3]
                       /\ rec.data.val = c.val /\ rec.data.md = MdOK[c.md]
\* the int64 reinterpretation loses nothing: distinct sequence classes stay distinct
CastInjective == \A a, b \in SeqC : I64OfU64[a] = I64OfU64[b] => a = b
\* every parsed library record passes step 5
ParsedValidates == stage = "parsed" => LegacyMatches(rec)
\* liveness as a reachability invariant of the end states: the pipeline never stops early
NoEarlyStop == stage \in {"created", "wire", "parsed"} => ENABLED Next
=============================================================================
