---------------------------- MODULE IPNSRoundTrip ----------------------------
(* C26 -- IPNS records round-trip through creation, encoding and validation.

   Input-quantified property over a class product.  A case fixes
     kt   key type                    ed25519 | secp256k1 (public key inlined in the name) | ecdsa | rsa
     seq  sequence number class       0, 1, 2^32, 2^63-1, 2^63, 2^64-1          (whole uint64 range)
     eol  expiry class                soon (now+90 s) | hourNanos (now+1 h, odd nanoseconds) |
                                      zoned (the same in a +05:30 zone) | y9999 (9999-12-31T23:59:59.999999999Z)
     ttl  TTL class                   0 | 1ns | 1h | max (2^63-1 ns)
     md   metadata class              see MdTable
     v1   WithV1Compatibility         TRUE | FALSE
     emb  WithPublicKey               default | yes | no
     val  value path class            ipfsV1 | ipfsV0sub | ipns
     sz   size of the encoded record  small (natural size, far below the limit) | max-1 | max | max+1 | max+1k
                                      relative to the documented limit MaxRecordSize = 10 KiB
     pad  what is padded to reach sz  none | mdString | mdBytes (one metadata entry "_pad") | value (a long path
                                      segment, plus a "_pad" string of < 24 bytes for the last few bytes)
   The pipeline NewRecord -> MarshalRecord -> UnmarshalRecord -> validation -> accessors is modelled
   stage by stage with the representation changes the code performs (uint64 <-> int64 casts for the
   DAG-CBOR integers, the TTL floor, the embed-key default), and the property is stated as
   invariants of the final stage.  Expected(c) is what the harness compares the real code with.     *)
EXTENDS Integers, Sequences, FiniteSets, TLC, Json

CONSTANT Full      \* TRUE: full product of the scalar classes; FALSE: a covering diagonal (quick tier)

KeyTypes == {"ed25519", "secp256k1", "ecdsa", "rsa"}
Inlined(kt) == kt \in {"ed25519", "secp256k1"}        \* peer ID = identity multihash of the key
SeqC == {"0", "1", "2^32", "2^63-1", "2^63", "2^64-1"}
EolC == {"soon", "hourNanos", "zoned", "y9999"}
TtlC == {"0", "1ns", "1h", "max"}
ValC == {"ipfsV1", "ipfsV0sub", "ipns"}
EmbC == {"default", "yes", "no"}

(* ------------------------------------------------ record size limit
   https://specs.ipfs.tech/ipns/ipns-record/#record-size-limit : a serialized record of at most 10 KiB MUST be
   supported, larger ones are refused (ErrRecordSize).  The limit is INCLUSIVE and is the same number at every
   entry point that looks at the size: Validate (size of the message held in memory), UnmarshalRecord and
   Validator.Validate (length of the bytes received).  NewRecord and MarshalRecord do not look at the size.   *)
MaxRecordSize == 10240
WithinLimit(n) == n <= MaxRecordSize
SzBoundary == {"max-1", "max", "max+1", "max+1k"}
SzC  == {"small"} \cup SzBoundary
PadC == {"none", "mdString", "mdBytes", "value"}
NaturalLen == 1024       \* representative of "whatever the unpadded inputs give" (the harness checks < MaxRecordSize - 1)
WireLen(sz) == CASE sz = "small" -> NaturalLen [] sz = "max-1" -> MaxRecordSize - 1 [] sz = "max" -> MaxRecordSize
                 [] sz = "max+1" -> MaxRecordSize + 1 [] sz = "max+1k" -> MaxRecordSize + 1024
\* the metadata entry the padding adds (kind as reported by the accessor)
PadEntry(pad) == CASE pad = "none" -> {} [] pad = "mdBytes" -> {<<"_pad", "bytes">>} [] OTHER -> {<<"_pad", "string">>}

\* metadata classes: entries as <<key, kind>> (kind of the DAG-CBOR scalar the accessor must report)
\* or the set of errors NewRecord may return (map iteration order is unspecified)
Reserved == {"Value", "Validity", "ValidityType", "Sequence", "TTL"}
MdOK == [none   |-> {},
         string |-> {<<"_s", "string">>},
         bytes  |-> {<<"_b", "bytes">>},
         int64  |-> {<<"_i", "int">>},
         int    |-> {<<"_n", "int">>},
         negint |-> {<<"_min", "int">>},
         bool   |-> {<<"_t", "bool">>, <<"_f", "bool">>},
         all    |-> {<<"_s", "string">>, <<"_b", "bytes">>, <<"_i", "int">>, <<"_n", "int">>, <<"_t", "bool">>,
                     <<"a", "string">>, <<"Sequenc", "int">>, <<"ZZZZZZZZZZZZZ", "bytes">>}]
MdBad == [resValue |-> {"ErrMetadataConflict"}, resValidity |-> {"ErrMetadataConflict"},
          resValidityType |-> {"ErrMetadataConflict"}, resSequence |-> {"ErrMetadataConflict"},
          resTTL |-> {"ErrMetadataConflict"}, emptyKey |-> {"ErrMetadataEmptyKey"},
          float |-> {"ErrMetadataUnsupportedType"}, uint64 |-> {"ErrMetadataUnsupportedType"},
          struct |-> {"ErrMetadataUnsupportedType"}, nil |-> {"ErrInvalidRecord"},
          goodAndBad |-> {"ErrMetadataConflict"},
          twoBad |-> {"ErrMetadataEmptyKey", "ErrMetadataUnsupportedType"}]
MdC == DOMAIN MdOK \cup DOMAIN MdBad

Diagonal == {<<"0", "soon", "0">>, <<"0", "y9999", "max">>, <<"1", "hourNanos", "1ns">>, <<"1", "zoned", "1h">>,
             <<"2^32", "zoned", "max">>, <<"2^32", "soon", "1ns">>, <<"2^63-1", "y9999", "1h">>, <<"2^63-1", "hourNanos", "0">>,
             <<"2^63", "hourNanos", "max">>, <<"2^63", "y9999", "0">>, <<"2^64-1", "soon", "1h">>, <<"2^64-1", "zoned", "1ns">>}
Scalars == IF Full THEN SeqC \X EolC \X TtlC ELSE Diagonal
\* full product for acceptable metadata; the reject rules do not depend on the other inputs, so the
\* rejected classes are crossed with key type and v1 only
\* size boundary family: the size rule does not depend on the scalar values (they only move the natural size, and the
\* padding compensates), so the boundary sizes are crossed with everything that changes the LAYOUT of the message
\* (key type = signature/key sizes, legacy mirrors, embedded key, other metadata, where the padding sits) and two triples
CaseSpace == [kt : KeyTypes, sc : Scalars, md : DOMAIN MdOK, v1 : BOOLEAN, emb : EmbC, val : ValC, sz : {"small"}, pad : {"none"}]
             \cup [kt : KeyTypes, sc : {<<"1", "hourNanos", "1h">>}, md : DOMAIN MdBad, v1 : BOOLEAN, emb : {"default"}, val : {"ipfsV1"},
                   sz : {"small"}, pad : {"none"}]
             \cup [kt : KeyTypes, sc : {<<"1", "hourNanos", "1h">>, <<"2^64-1", "y9999", "max">>}, md : {"none", "all"}, v1 : BOOLEAN,
                   emb : EmbC, val : {"ipfsV1"}, sz : SzBoundary, pad : PadC \ {"none"}]
MdEntries(x) == MdOK[x.md] \cup PadEntry(x.pad)

(* ------------------------------------------------ representation changes made by the code *)
\* createNode: basicnode.NewInt(int64(seq)) -- the uint64 is reinterpreted as int64 (two's complement)
I64OfU64 == [c \in SeqC |-> CASE c = "2^63" -> "min" [] c = "2^64-1" -> "-1" [] OTHER -> c]
\* Sequence(): uint64(value) -- and back
U64OfI64(i) == CASE i = "min" -> "2^63" [] i = "-1" -> "2^64-1" [] OTHER -> i
\* DAG-CBOR major type of the encoded integer (negative values use major type 1)
CborMajor(i) == IF i \in {"min", "-1"} THEN 1 ELSE 0

VARIABLES c,      \* the case (inputs)
          stage,  \* "input" -> "created" | "rejected" -> "memchecked" -> "wire" -> "parsed" | "refused" -> "validated"
          rec     \* the record as the code holds it at this stage
vars == <<c, stage, rec>>

NoRec == [none |-> TRUE]
Init == c \in CaseSpace /\ stage = "input" /\ rec = NoRec

EmbedKey(x) == IF x.emb = "default" THEN ~Inlined(x.kt) ELSE x.emb = "yes"   \* needToEmbedPublicKey

\* NewRecord: metadata is checked first, then the CBOR document is built and signed
CreateReject == /\ stage = "input" /\ c.md \in DOMAIN MdBad
                /\ stage' = "rejected" /\ UNCHANGED <<c, rec>>
CreateOK == /\ stage = "input" /\ c.md \in DOMAIN MdOK
            /\ rec' = [data   |-> [seq |-> I64OfU64[c.sc[1]], eol |-> c.sc[2], ttl |-> c.sc[3], val |-> c.val, md |-> MdEntries(c)],
                       len    |-> WireLen(c.sz),                          \* proto.Size of the message = length of its encoding
                       memv   |-> "none",                                 \* verdict of Validate on the record as created
                       sig2   |-> <<c.kt, "data">>,                       \* signature over exactly this document
                       legacy |-> IF c.v1 THEN [seq |-> c.sc[1], eol |-> c.sc[2], ttl |-> c.sc[3], val |-> c.val] ELSE NoRec,
                       pk     |-> IF EmbedKey(c) THEN c.kt ELSE "none"]
            /\ stage' = "created" /\ UNCHANGED c
\* verification step 1 on the record the creator holds in memory (before it ever touches the wire)
SizeVerdict(n) == IF WithinLimit(n) THEN "ok" ELSE "ErrRecordSize"
ValidateCreated == stage = "created" /\ rec' = [rec EXCEPT !.memv = SizeVerdict(rec.len)] /\ stage' = "memchecked" /\ UNCHANGED c
Marshal   == stage = "memchecked" /\ stage' = "wire" /\ UNCHANGED <<c, rec>>   \* proto.Marshal: every set field is written, any size
\* UnmarshalRecord: size guard on the received bytes, then proto.Unmarshal + dagcbor.Decode: identity
Unmarshal == stage = "wire" /\ WithinLimit(rec.len) /\ stage' = "parsed" /\ UNCHANGED <<c, rec>>
UnmarshalRefuse == stage = "wire" /\ ~WithinLimit(rec.len) /\ stage' = "refused" /\ UNCHANGED <<c, rec>>     \* ErrRecordSize
\* step 5 of the verification on a library-made record: legacy fields against the decoded document
LegacyMatches(x) == IF x.legacy = NoRec THEN TRUE
                    ELSE /\ x.legacy.seq = U64OfI64(x.data.seq)      \* entry.GetSequence() != uint64(ndInt)
                         /\ x.legacy.eol = x.data.eol /\ x.legacy.ttl = x.data.ttl /\ x.legacy.val = x.data.val
Validate  == stage = "parsed" /\ WithinLimit(rec.len) /\ LegacyMatches(rec) /\ stage' = "validated" /\ UNCHANGED <<c, rec>>
Next == CreateReject \/ CreateOK \/ ValidateCreated \/ Marshal \/ Unmarshal \/ UnmarshalRefuse \/ Validate
Spec == Init /\ [][Next]_vars

(* ------------------------------------------------ what the caller must observe *)
KeyKnown(x, api) == EmbedKey(x) \/ Inlined(x.kt) \/ api = "book"
Expected(x) ==
  IF x.md \in DOMAIN MdBad
  THEN [create |-> "reject", errors |-> MdBad[x.md]]
  ELSE LET within == WithinLimit(WireLen(x.sz)) IN
       [create |-> "ok",                     \* NewRecord does not limit the size
        target |-> IF x.sz = "small" THEN 0 ELSE WireLen(x.sz),   \* exact length of the encoding (0: natural, unpadded)
        within |-> within,                   \* FALSE: Validate, UnmarshalRecord and Validator.Validate all answer ErrRecordSize
        unmarshal |-> SizeVerdict(WireLen(x.sz)),
        hasPk  |-> EmbedKey(x),              \* Record.PubKey(): embedded key equal to the signer's, else ErrPublicKeyNotFound
        legacy |-> x.v1,                     \* the six legacy protobuf fields are present iff v1-compatible
        vKey   |-> within,                   \* Validate(rec, public key)
        vName  |-> KeyKnown(x, "name") /\ within,      \* ValidateWithName(rec, name)
        vBook  |-> within,                   \* Validator{KeyBook with the key}.Validate(routing key, bytes)
        seq |-> x.sc[1], eol |-> x.sc[2], ttl |-> x.sc[3], val |-> x.val,    \* accessors return the inputs
        cborSeqMajor |-> CborMajor(I64OfU64[x.sc[1]]),
        md  |-> MdEntries(x)]

(* ------------------------------------------------ invariants *)
TypeOK == c \in CaseSpace /\ stage \in {"input", "created", "rejected", "memchecked", "wire", "parsed", "refused", "validated"}
\* invalid metadata never produces a record; valid input always reaches "validated" (checked with RoundTripCompletes)
RejectIffBadMetadata == (stage = "rejected") => c.md \in DOMAIN MdBad
\* accessors after the round trip return the inputs
AccessorsIdentity == stage \in {"parsed", "validated"} =>
                       /\ U64OfI64(rec.data.seq) = c.sc[1] /\ rec.data.eol = c.sc[2] /\ rec.data.ttl = c.sc[3]
                       /\ rec.data.val = c.val /\ rec.data.md = MdEntries(c)
\* the int64 reinterpretation loses nothing: distinct sequence classes stay distinct
CastInjective == \A a, b \in SeqC : I64OfU64[a] = I64OfU64[b] => a = b
\* every parsed library record passes step 5
ParsedValidates == stage = "parsed" => LegacyMatches(rec)
\* liveness as a reachability invariant of the end states: the pipeline never stops early
NoEarlyStop == stage \in {"created", "memchecked", "wire", "parsed"} => ENABLED Next
\* the size limit is one inclusive number for every entry point:
\*  a record that validates in memory survives marshal/unmarshal and validates again (in particular at exactly MaxRecordSize),
\*  a record refused on the wire was already refused in memory, and only records over the limit are ever refused
SizeConsistent == /\ stage = "refused" => rec.memv = "ErrRecordSize" /\ rec.len > MaxRecordSize
                  /\ stage \in {"parsed", "validated"} => rec.memv = "ok" /\ rec.len <= MaxRecordSize
                  /\ stage \in {"memchecked", "wire"} => (rec.memv = "ok" <=> rec.len <= MaxRecordSize)
AtLimitSurvives == c.sz \in {"small", "max-1", "max"} => stage # "refused"
OverLimitRefused == c.sz \in {"max+1", "max+1k"} => stage \notin {"parsed", "validated"}
\* Expected agrees with the pipeline: the end stage of an accepted case is "validated" iff Expected says within
EndStageMatchesExpected == /\ stage = "validated" => Expected(c).within /\ Expected(c).vKey /\ Expected(c).unmarshal = "ok"
                           /\ stage = "refused" => ~Expected(c).within /\ ~Expected(c).vBook /\ Expected(c).unmarshal = "ErrRecordSize"
=============================================================================
