------------------------------ MODULE IPNSSelect ------------------------------
(* C27 -- IPNS record selection is order-independent and picks the best record.

   An abstract record is [v2, seq, eol, var]:  v2 = carries a signatureV2, seq / eol = sequence
   number and expiry (small naturals standing for uint64 / nanosecond instants), var = which of the
   byte-distinct records with this (v2, seq, eol) it is (they differ in TTL / value).  Two equal
   abstract records are byte-identical.

   Record BYTES are ordered by BytesRank: within one (v2, seq, eol) class by var; across classes the
   order is irrelevant for the property, so the model checks two extreme choices (bo = "aligned":
   the byte order agrees with the logical order, "anti": it is the reverse).

   Best(S)   -- the property: maximal by (has v2 signature, sequence, expiry), ties by record bytes.
   The implementation (validation.go selectRecord + record.go compare) is modelled step by step
   as the linear scan it is:  i := 1; for j := 2..n: if cmp(recs[i], recs[j]) < 0 then i := j.     *)
EXTENDS Integers, Sequences, FiniteSets, TLC, Json

CONSTANTS S,        \* sequence numbers 1..S
          E,        \* expiries 1..E
          V,        \* byte-distinct variants per (v2, seq, eol) class 1..V
          MaxN,     \* longest input list
          ByteOrders

Recs == [v2 : BOOLEAN, seq : 1..S, eol : 1..E, var : 1..V]
ClassIdx(x) == ((IF x.v2 THEN 1 ELSE 0) * S + (x.seq - 1)) * E + (x.eol - 1)
NClasses == 2 * S * E
Idx(x) == ClassIdx(x) * V + x.var                 \* 1 .. NClasses*V, a bijection Recs -> 1..|Recs|
RecOf(k) == CHOOSE x \in Recs : Idx(x) = k

VARIABLES recs,   \* the input list (Validator.Select: vals / recs in the order supplied)
          bo,     \* byte order across classes
          i, j,   \* loop variables of selectRecord (1-based)
          pc      \* "scan" | "done" | "error" (empty input)
vars == <<recs, bo, i, j, pc>>

BytesRank(x) == IF bo = "aligned" THEN ClassIdx(x) * V + x.var
                ELSE (NClasses - 1 - ClassIdx(x)) * V + x.var
Sign(n) == IF n > 0 THEN 1 ELSE IF n < 0 THEN -1 ELSE 0
BytesCmp(a, b) == Sign(BytesRank(a) - BytesRank(b))          \* bytes.Compare(vals[i], vals[j])

(* ------------------------------------------------------------------ the property *)
Better(a, b) ==
  \/ a.v2 /\ ~b.v2
  \/ a.v2 = b.v2 /\ \/ a.seq > b.seq
                    \/ a.seq = b.seq /\ \/ a.eol > b.eol
                                        \/ a.eol = b.eol /\ BytesRank(a) > BytesRank(b)
ToSet(s) == {s[k] : k \in 1..Len(s)}
Best(T) == CHOOSE x \in T : \A y \in T : y = x \/ Better(x, y)

(* ------------------------------------------------------------------ the implementation *)
\* record.go compare: +1 a newer, -1 a older, 0 not ordered
Compare(a, b) == IF a.v2 /\ ~b.v2 THEN 1
                 ELSE IF ~a.v2 /\ b.v2 THEN -1
                 ELSE IF a.seq > b.seq THEN 1
                 ELSE IF a.seq < b.seq THEN -1
                 ELSE IF a.eol > b.eol THEN 1        \* at.After(bt)
                 ELSE IF b.eol > a.eol THEN -1       \* bt.After(at)
                 ELSE 0
Cmp(a, b) == IF Compare(a, b) # 0 THEN Compare(a, b) ELSE BytesCmp(a, b)

Inputs == UNION {[1..n -> Recs] : n \in 0..MaxN}
Init == /\ recs \in Inputs /\ bo \in ByteOrders
        /\ i = 1 /\ j = 2
        /\ pc = IF Len(recs) = 0 THEN "error" ELSE IF Len(recs) = 1 THEN "done" ELSE "scan"
ScanStep == /\ pc = "scan"
            /\ i' = IF Cmp(recs[i], recs[j]) < 0 THEN j ELSE i
            /\ j' = j + 1
            /\ pc' = IF j + 1 > Len(recs) THEN "done" ELSE "scan"
            /\ UNCHANGED <<recs, bo>>
Next == ScanStep
Spec == Init /\ [][Next]_vars

\* the same scan as a function of the list (used to quantify over permutations)
RECURSIVE ScanFrom(_, _, _)
ScanFrom(s, ii, jj) == IF jj > Len(s) THEN ii
                       ELSE ScanFrom(s, IF Cmp(s[ii], s[jj]) < 0 THEN jj ELSE ii, jj + 1)
Select(s) == s[ScanFrom(s, 1, 2)]
Perms(n) == {p \in [1..n -> 1..n] : \A a, b \in 1..n : a # b => p[a] # p[b]}

(* ------------------------------------------------------------------ invariants *)
TypeOK == recs \in Inputs /\ i \in 1..(MaxN + 1) /\ j \in 2..(MaxN + 2) /\ pc \in {"scan", "done", "error"}
\* loop invariant: the candidate is the best of the prefix already scanned
PrefixBest == pc \in {"scan", "done"} => recs[i] = Best({recs[k] : k \in 1..(j - 1)})
\* the result is the best record of the input
SelectsBest == pc = "done" => recs[i] = Best(ToSet(recs)) /\ Select(recs) = recs[i]
\* the selected BYTES do not depend on the order in which the records are supplied
OrderIndependent == pc = "done" =>
                      \A p \in Perms(Len(recs)) : Select([k \in 1..Len(recs) |-> recs[p[k]]]) = recs[i]
\* Cmp is a strict total order on distinct byte strings (what makes the linear scan correct)
CmpTotal == \A a, b \in ToSet(recs) : (Cmp(a, b) = 0) = (a = b) /\ Cmp(a, b) = -Cmp(b, a)
BetterIsCmp == \A a, b \in ToSet(recs) : Better(a, b) = (Cmp(a, b) > 0)
=============================================================================
