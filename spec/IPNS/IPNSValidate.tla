----------------------------- MODULE IPNSValidate -----------------------------
(* C25 -- IPNS record validation is unforgeable and self-consistent.

   Symbolic (Dolev-Yao) model of one protobuf IpnsRecord *as parsed* (last occurrence of a field
   wins, unknown fields ignored) under an adversary who may change any single protobuf field,
   splice fields of other library-made records, re-encode, and pad.

   Symbols (small integers so that every field is comparable and JSON-friendly):
     key / name  k \in Keys                (the NAME of key k is k)
     document    d \in Datas               a DAG-CBOR `data` blob made and signed by the library;
                                           two different documents differ in Value, Validity,
                                           Sequence and TTL (harness obligation)
     signature   SigOf(k,d)  = 10*k+d      "the bytes key k produced when signing document d"
                 SigExt(k,d) = 50+10*k+d   those bytes followed by at least one more byte
     NONE  = 0   field absent (or present with zero length for data / sigV2 / pubKey)
     JUNK  = 100 any other bytes / number  (bit flips, truncation, foreign values ...)
     EMPTY = 101 legacy `value` present with length 0
     MUT   = 102 `data` changed in any way (may or may not still decode)

   Record fields:  data sig2 pk | val vdy seq ttl (legacy mirrors: NONE, JUNK, or d = "carries the
   value signed in document d") | vty \in {"none","eol","junk"} | sig1 \in {"none","empty","some"}
   | big (serialized size > MaxRecordSize).

   Key classes  cls = [inl, lax]:  inl = the public key is inlined in the name (Ed25519,
   secp256k1), lax = the signature decoder of that key type ignores trailing bytes (ECDSA).

   Verdict functions:
     MustReject*      -- the property text of C25, sentence 1 (necessary conditions for acceptance)
     Verdict(..., D)  -- the IPNS record-verification rules (specs.ipfs.tech/ipns/ipns-record
                         #record-verification) made strict enough to satisfy the property, as a
                         function of the set D of as-built deviations that are switched on:
                           Valid     = Verdict(.., {})        the ideal
                           CodeValid = Verdict(.., AllDevs)   ipns.Validate / ValidateWithName /
                                                              Validator.Validate as built
                         CodeErr spells CodeValid out in the order of the code.                   *)
EXTENDS Naturals, Sequences, FiniteSets, TLC, Json

CONSTANTS Keys,      \* e.g. {1,2}
          Datas,     \* e.g. {1,2}
          Zero       \* subset of Datas whose signed Sequence and TTL are 0 (= protobuf default)

NONE == 0  JUNK == 100  EMPTY == 101  MUT == 102
SigOf(k, d) == 10 * k + d
SigExt(k, d) == 50 + SigOf(k, d)
Sigs == {SigOf(k, d) : k \in Keys, d \in Datas}
SigExts == {SigExt(k, d) : k \in Keys, d \in Datas}
Attrs == {"ok", "expired", "negttl"}     \* what the library-signed document 1 looks like
Apis == {"key", "name", "book"}          \* Validate(rec,pk) / ValidateWithName, Validator{nil} / Validator{KeyBook}
Classes == {[inl |-> TRUE, lax |-> FALSE], [inl |-> FALSE, lax |-> FALSE], [inl |-> FALSE, lax |-> TRUE]}

\* Dev_C25_StrayLegacyField: neither a non-empty `value` nor `signatureV1` is present, so step 5 of
\*   the verification (legacy fields must equal the signed document) is skipped although a legacy
\*   field that IS present disagrees with the signed document.
\* Dev_C25_EcdsaSigTrailingBytes: libp2p's ECDSA Verify ignores bytes after the DER signature, so a
\*   changed signatureV2 (genuine signature + trailing bytes) still verifies.
DevStray == "Dev_C25_StrayLegacyField"
DevTrail == "Dev_C25_EcdsaSigTrailingBytes"
AllDevs == {DevStray, DevTrail}

VARIABLES r,      \* the record
          attr    \* attribute of document 1 (document 2.. are always fresh, non-negative TTL)
vars == <<r, attr>>

Expired(d) == d = 1 /\ attr = "expired"
NegTTL(d)  == d = 1 /\ attr = "negttl"

RecSpace == [data : {NONE, MUT} \cup Datas, sig2 : {NONE, JUNK} \cup Sigs \cup SigExts, pk : {NONE, JUNK} \cup Keys,
             val : {NONE, EMPTY, JUNK} \cup Datas, vdy : {NONE, JUNK} \cup Datas,
             seq : {NONE, JUNK} \cup Datas, ttl : {NONE, JUNK} \cup Datas,
             vty : {"none", "eol", "junk"}, sig1 : {"none", "empty", "some"}, big : BOOLEAN]

(* ------------------------------------------------------------------ the property (C25) *)
IsD(x) == x \in Datas
SigOK(x, k) == IsD(x.data) /\ x.sig2 = SigOf(k, x.data)     \* v2 signature by key k over exactly these bytes

\* a legacy field that is PRESENT and does not carry the signed value
LegacyDisagrees(x) ==
  /\ IsD(x.data)
  /\ \/ x.val # NONE /\ x.val # x.data
     \/ x.vdy # NONE /\ x.vdy # x.data
     \/ x.seq # NONE /\ x.seq # x.data
     \/ x.ttl # NONE /\ x.ttl # x.data
     \/ x.vty = "junk"

\* "any change to the signed data, the v2 signature, the embedded public key or the legacy fields
\*  so that they disagree with the signed data makes validation fail; ... not expired ... size"
MustRejectKey(x, k)  == ~SigOK(x, k) \/ Expired(x.data) \/ x.big \/ LegacyDisagrees(x)
MustRejectName(x, n) == MustRejectKey(x, n) \/ x.pk \notin {NONE, n}

(* ----------------------------------------------------------- IPNS record verification *)
\* what a verifier reads from an absent field is the protobuf default (0 / empty / EOL)
EqBytes(f, d) == f = d                                 \* signed Value and Validity are never empty
EqInt(f, d)   == f = d \/ (f = NONE /\ d \in Zero)
EqVty(f)      == f \in {"eol", "none"}                 \* the signed ValidityType is always 0
LegacyEq(x)   == /\ EqBytes(x.val, x.data) /\ EqBytes(x.vdy, x.data) /\ EqVty(x.vty)
                 /\ EqInt(x.seq, x.data) /\ EqInt(x.ttl, x.data)
\* step 5 of the IPNS spec: "if value or signatureV1 is present, the legacy fields must match data"
Trigger(x)    == x.sig1 = "some" \/ x.val \notin {NONE, EMPTY}

SigAcc(x, k, cls, D) == \/ SigOK(x, k)
                        \/ DevTrail \in D /\ cls.lax /\ IsD(x.data) /\ x.sig2 = SigExt(k, x.data)
LegacyAcc(x, D) == IF Trigger(x) THEN LegacyEq(x) ELSE (DevStray \in D \/ ~LegacyDisagrees(x))
Core(x, k, cls, D) == /\ ~x.big /\ SigAcc(x, k, cls, D) /\ LegacyAcc(x, D)
                      /\ ~Expired(x.data) /\ ~NegTTL(x.data)
\* where the verification key comes from: embedded key that hashes to the name, else the key
\* inlined in the name (cls.inl), else the KeyBook (api "book")
KeyAvail(x, n, api, cls) == x.pk = n \/ (x.pk = NONE /\ (cls.inl \/ api = "book"))
Verdict(x, n, api, cls, D) == IF api = "key" THEN Core(x, n, cls, D)
                              ELSE KeyAvail(x, n, api, cls) /\ Core(x, n, cls, D)
Valid(x, n, api, cls)     == Verdict(x, n, api, cls, {})
CodeValid(x, n, api, cls) == Verdict(x, n, api, cls, AllDevs)

\* the as-built rules in the order of the code (UnmarshalRecord, ExtractPublicKey, Validate);
\* only "ok"/not-ok is bound to the implementation, the classes document the algorithm
CodeErr(x, n, api, cls) ==
  IF x.big THEN "ErrRecordSize"                                       \* UnmarshalRecord / Validate (1)
  ELSE IF x.data = NONE THEN "ErrDataMissing"                         \* UnmarshalRecord
  ELSE IF api # "key" /\ x.pk = JUNK THEN "ErrInvalidPublicKey|Mismatch"   \* ExtractPublicKey
  ELSE IF api # "key" /\ x.pk \in Keys /\ x.pk # n THEN "ErrPublicKeyMismatch"
  ELSE IF api # "key" /\ x.pk = NONE /\ ~cls.inl /\ api # "book" THEN "ErrNoPublicKey"
  ELSE IF x.sig2 = NONE THEN "ErrSignature"                           \* Validate (2)
  ELSE IF ~IsD(x.data) THEN "ErrSignature|undecodable"                \* Validate (4),(6)
  ELSE IF ~(x.sig2 = SigOf(n, x.data) \/ (cls.lax /\ x.sig2 = SigExt(n, x.data))) THEN "ErrSignature"  \* pk.Verify
  ELSE IF (x.sig1 = "some" \/ x.val \notin {NONE, EMPTY}) /\ ~LegacyEq(x) THEN "mismatch"   \* Validate (5)
  ELSE IF Expired(x.data) THEN "ErrExpiredRecord"
  ELSE IF NegTTL(x.data) THEN "ErrInvalidRecord"
  ELSE "ok"

\* accessors (Value, Validity, ValidityType, Sequence, TTL, Metadata*) decode pb.data
Acc(x) == x.data

(* ------------------------------------------------------------------ actions *)
Fresh(k, d, v1, emb) ==
  [data |-> d, sig2 |-> SigOf(k, d), pk |-> IF emb THEN k ELSE NONE,
   val |-> IF v1 THEN d ELSE NONE, vdy |-> IF v1 THEN d ELSE NONE, seq |-> IF v1 THEN d ELSE NONE,
   ttl |-> IF v1 THEN d ELSE NONE, vty |-> IF v1 THEN "eol" ELSE "none",
   sig1 |-> IF v1 THEN "some" ELSE "none", big |-> FALSE]

Create(k, d, v1, emb, a) == r' = Fresh(k, d, v1, emb) /\ attr' = a      \* NewRecord(sk, ...opts)

Set(f, v) == r[f] # v /\ r' = [r EXCEPT ![f] = v] /\ UNCHANGED attr

TamperData      == Set("data", MUT)                         \* byte flip / truncation / CBOR re-encoding
DropData        == Set("data", NONE)
SwapData(d)     == Set("data", d)                           \* data of another library record
TamperSig       == Set("sig2", JUNK)
DropSig         == Set("sig2", NONE)
SwapSig(k, d)   == Set("sig2", SigOf(k, d))                 \* signature of another record / key
ExtendSig(k, d) == Set("sig2", SigExt(k, d))                \* genuine signature + trailing bytes
TamperKey       == Set("pk", JUNK)
DropKey         == Set("pk", NONE)
SwapKey(k)      == Set("pk", k)                             \* well-formed key of somebody (else)
LegacyF == {"val", "vdy", "seq", "ttl"}
TamperLegacy(f) == Set(f, JUNK)
DropLegacy(f)   == Set(f, NONE)
SwapLegacy(f, d) == Set(f, d)                               \* add / replace with the value of document d
EmptyValue      == Set("val", EMPTY)
SetVty(v)       == Set("vty", v)
SetSig1(v)      == Set("sig1", v)                           \* any non-empty bytes are "some": never verified
Pad             == Set("big", TRUE)                         \* unknown field / oversized sigV1 beyond the limit
\* re-encodings that do not change the parsed record: unknown fields, duplicate field whose LAST
\* occurrence is the original, field reordering, non-minimal varints, padding up to exactly the limit
ReEncode        == UNCHANGED vars

Tamper == \/ TamperData \/ DropData \/ \E d \in Datas : SwapData(d)
          \/ TamperSig \/ DropSig \/ \E k \in Keys, d \in Datas : SwapSig(k, d) \/ ExtendSig(k, d)
          \/ TamperKey \/ DropKey \/ \E k \in Keys : SwapKey(k)
          \/ \E f \in LegacyF : TamperLegacy(f) \/ DropLegacy(f) \/ \E d \in Datas : SwapLegacy(f, d)
          \/ EmptyValue \/ \E v \in {"none", "eol", "junk"} : SetVty(v)
          \/ \E v \in {"none", "empty", "some"} : SetSig1(v)
          \/ Pad

Init == \E k \in Keys, d \in Datas, v1, emb \in BOOLEAN, a \in Attrs :
           r = Fresh(k, d, v1, emb) /\ attr = a
Next == Tamper \/ ReEncode
Spec == Init /\ [][Next]_vars

(* ------------------------------------------------------------------ invariants *)
TypeOK == r \in RecSpace /\ attr \in Attrs
Cases == Keys \X Apis \X Classes
MustReject(x, c) == IF c[2] = "key" THEN MustRejectKey(x, c[1]) ELSE MustRejectName(x, c[1])
\* the ideal validator satisfies the property text
IdealSound == \A c \in Cases : Valid(r, c[1], c[2], c[3]) => ~MustReject(r, c)
\* the as-built rules violate it only where a named deviation is needed for the acceptance,
\* and each deviation is needed only under its stated condition
AcceptIffValid == \A c \in Cases : \A D \in SUBSET AllDevs :
                    Verdict(r, c[1], c[2], c[3], D) /\ MustReject(r, c) =>
                       \/ DevStray \in D /\ ~Trigger(r) /\ LegacyDisagrees(r)
                       \/ DevTrail \in D /\ c[3].lax /\ r.sig2 = SigExt(c[1], r.data)
\* deviations only ever add acceptances
DevMonotone == \A c \in Cases : \A D \in SUBSET AllDevs :
                    Valid(r, c[1], c[2], c[3]) => Verdict(r, c[1], c[2], c[3], D)
\* when step 5 runs it catches every disagreement (so the deviation is exactly "step 5 skipped")
TriggeredCompareComplete == Trigger(r) /\ LegacyEq(r) => ~LegacyDisagrees(r)
\* the code-order algorithm and the declarative as-built rules are the same function
CodeErrIsCodeValid == \A c \in Cases : (CodeErr(r, c[1], c[2], c[3]) = "ok") = CodeValid(r, c[1], c[2], c[3])
\* unforgeable (even as built): acceptance for name n needs a signature made by key n over the bytes in the record
Unforgeable == \A c \in Cases : CodeValid(r, c[1], c[2], c[3]) =>
                  \E d \in Datas : r.sig2 \in {SigOf(c[1], d), SigExt(c[1], d)} /\ r.data = d
\* accepted => every accessor reports the signed document
AccessorsReportSigned == \A c \in Cases : CodeValid(r, c[1], c[2], c[3]) => r.sig2 \in {SigOf(c[1], Acc(r)), SigExt(c[1], Acc(r))}
\* a record accepted for one name is never accepted for another
OneNameOnly == \A c1 \in Cases : CodeValid(r, c1[1], c1[2], c1[3]) =>
                  \A c2 \in Cases : c2[1] # c1[1] => ~CodeValid(r, c2[1], c2[2], c2[3])
=============================================================================
