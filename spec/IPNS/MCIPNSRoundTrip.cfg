SPECIFICATION Spec
CONSTANTS Full = FALSE
INVARIANTS TypeOK RejectIffBadMetadata AccessorsIdentity CastInjective ParsedValidates NoEarlyStop SizeConsistent AtLimitSurvives OverLimitRefused EndStageMatchesExpected
CHECK_DEADLOCK FALSE
