SPECIFICATION Spec
CONSTANTS Full = FALSE
INVARIANTS TypeOK RejectIffBadMetadata AccessorsIdentity CastInjective ParsedValidates NoEarlyStop
CHECK_DEADLOCK FALSE
