SPECIFICATION Spec
CONSTANTS Full = TRUE
INVARIANTS TypeOK RejectIffBadMetadata AccessorsIdentity CastInjective ParsedValidates NoEarlyStop SizeConsistent AtLimitSurvives OverLimitRefused EndStageMatchesExpected
CHECK_DEADLOCK FALSE
