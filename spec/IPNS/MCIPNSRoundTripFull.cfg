SPECIFICATION Spec
CONSTANTS Full = TRUE
INVARIANTS TypeOK RejectIffBadMetadata AccessorsIdentity CastInjective ParsedValidates NoEarlyStop
CHECK_DEADLOCK FALSE
