SPECIFICATION Spec
CONSTANTS S = 2
          E = 2
          V = 2
          MaxN = 4
          ByteOrders = {"aligned", "anti"}
INVARIANTS TypeOK PrefixBest SelectsBest OrderIndependent CmpTotal BetterIsCmp
CHECK_DEADLOCK FALSE
