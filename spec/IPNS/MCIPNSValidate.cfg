SPECIFICATION MSpec
CONSTANTS Keys = {1, 2}
          Datas = {1, 2}
          Zero = {2}
          MaxT = 2
INVARIANTS TypeOK IdealSound AcceptIffValid TriggeredCompareComplete CodeErrIsCodeValid Unforgeable AccessorsReportSigned FreshAccepted
CHECK_DEADLOCK FALSE
