---------------------------- MODULE MCIPNSValidate ----------------------------
(* Phase M for C25: every record reachable from a library-made record by at most MaxT single-field
   changes (MaxT = 11 reaches the whole record space: 1 658 880 states, about 7 min). *)
EXTENDS IPNSValidate
CONSTANT MaxT
VARIABLE n
mvars == <<vars, n>>
\* keys are interchangeable: library-made records of key 1 only (names 1 and 2 are both checked)
MInit == Init /\ r.sig2 \in {SigOf(1, d) : d \in Datas} /\ n = 0
MNext == n < MaxT /\ Tamper /\ n' = n + 1
MSpec == MInit /\ [][MNext]_mvars
\* library output is accepted exactly when it is fresh and has a non-negative TTL (ties to C26)
FreshAccepted == n = 0 => \A k \in Keys, d \in Datas, v1, emb \in BOOLEAN : \A cls \in Classes :
                    LET x == Fresh(k, d, v1, emb)
                        ok == ~Expired(d) /\ ~NegTTL(d) IN
                    /\ CodeValid(x, k, "key", cls) = ok /\ Valid(x, k, "key", cls) = ok
                    /\ CodeValid(x, k, "book", cls) = ok /\ Valid(x, k, "book", cls) = ok
                    /\ CodeValid(x, k, "name", cls) = ((emb \/ cls.inl) /\ ok)
                    /\ Valid(x, k, "name", cls) = ((emb \/ cls.inl) /\ ok)
                    /\ \A k2 \in Keys \ {k} : \A a \in Apis : ~CodeValid(x, k2, a, cls)
=============================================================================
