SPECIFICATION MSpec
CONSTANTS Keys = {1, 2}
          Datas = {1, 2}
          Zero = {2}
          MaxT = 3
INVARIANTS TypeOK IdealSound AcceptIffValid DevMonotone TriggeredCompareComplete CodeErrIsCodeValid Unforgeable AccessorsReportSigned OneNameOnly FreshAccepted
CHECK_DEADLOCK FALSE
