SPECIFICATION TSpec
CONSTANTS Keys = {1, 2}
          Datas = {1, 2}
          Zero = {2}
          Devs = @DEVS@
INVARIANTS TypeOK TriggeredCompareComplete CodeErrIsCodeValid Unforgeable DevReport
CONSTRAINT TraceConstraint
POSTCONDITION TracePost
CHECK_DEADLOCK FALSE
