--------------------------- MODULE TraceIPNSValidate ---------------------------
(* Phase T for C25: the harness mutates serialized library-made records at the wire level (every
   byte, truncations, duplicated / reordered / re-typed fields), projects each mutated byte string
   onto the symbolic record of IPNSValidate with its own protobuf wire parser, runs the real
   Validate / ValidateWithName / Validator.Validate for both names and logs one event per distinct
   (projection, verdicts) pair.  Every event must be explained by the specification:
     malformed protobuf            => rejected by every API
     otherwise                     => verdicts = Verdict(r, n, api, class, DD) with DD = {} (ideal) or,
                                      only for enabled named deviations, the smallest DD that explains them
     any acceptance                => accessors reported the signed document (accok).            *)
EXTENDS IPNSValidate, Integers

CONSTANT Devs
Trace == ndJsonDeserialize("trace.ndjson")
VARIABLES l, dev
tvars == <<vars, l, dev>>
ASSUME TLCSet(1, 0)

Ev == Trace[l]
Last == Trace[l - 1]      \* primed: the event just consumed (l' - 1 = l)
IsEvent(e) == l <= Len(Trace) /\ Trace[l].ev = e /\ l' = l + 1

Blank == Fresh(1, 1, FALSE, FALSE)
TInit == l = 1 /\ dev = {} /\ r = Blank /\ attr = "ok"

AsRec(x) == [data |-> x.data, sig2 |-> x.sig2, pk |-> x.pk, val |-> x.val, vdy |-> x.vdy, seq |-> x.seq,
             ttl |-> x.ttl, vty |-> x.vty, sig1 |-> x.sig1, big |-> x.big]
ApiIdx == <<"key", "name", "book">>
Cls(e) == [inl |-> e.inl, lax |-> e.lax]
\* the logged verdicts are those of a validator with exactly the deviations DD switched on
Matches(x, e, DD) == \A n \in Keys : \A a \in 1..3 : e.acc[n][a] = Verdict(x, n, ApiIdx[a], Cls(e), DD)
AnyAccept(e) == \E n \in Keys : \E a \in 1..3 : e.acc[n][a]

\* one logged check of a mutated record; the adversary step that led to it is unconstrained
\* (any byte string is reachable), so r' is simply the projected record
TCheckMalformed == /\ IsEvent("Check") /\ Ev.mal /\ ~AnyAccept(Ev)
                   /\ UNCHANGED <<r, attr, dev>>
\* DD = {} is the ideal; a non-empty DD must be enabled (open known findings) and minimal
TCheck(DD) == /\ DD \subseteq Devs
              /\ IsEvent("Check") /\ ~Ev.mal
              /\ r' = AsRec(Ev.r) /\ attr' = Ev.attr
              /\ r' \in RecSpace
              /\ (Matches(r, Last, DD) /\ \A D2 \in SUBSET DD : D2 # DD => ~Matches(r, Last, D2))'
              /\ (AnyAccept(Ev) => Ev.accok)
              /\ dev' = dev \cup DD

TNext == TCheckMalformed \/ \E DD \in SUBSET AllDevs : TCheck(DD)
TSpec == TInit /\ [][TNext]_tvars

DevReport == l <= Len(Trace) \/ \A d \in dev : PrintT(<<"DEV_USED", d>>)
TraceConstraint == TLCSet(1, IF l - 1 > TLCGet(1) THEN l - 1 ELSE TLCGet(1))
TracePost == PrintT(<<"TRACE_HWM", TLCGet(1)>>)
=============================================================================
