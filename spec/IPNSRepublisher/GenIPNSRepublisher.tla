------------------------- MODULE GenIPNSRepublisher -------------------------
(* Phase G: sequential histories over the public surface
       Pub(k, v, life, ttl)   IPNSPublisher.Publish with EOL = now + life and TTL ttl
       Round                  one direct call of republishEntries           (only while Run is not active)
       Corrupt(k)             the stored record of k is overwritten with an unparsable blob
       RFail(k) / KsBad(k)    toggle: routing put of k fails / keystore Get of k fails
       Start(iv)              Interval := iv; Run()
       Wait(d)                the (fake) clock advances by d; every round whose timer falls due runs to completion
       Stop                   the function returned by Run is called
   computed by the pure operators of IPNSRepublisher (PubResult, SeqRound, the timer rules) in FOUR worlds at
   once: the ideal one and one per subset of the sequentially visible deviations {ErrStop, TTLReset}.  After
   every step the history carries the ideal observation and, where they differ, the alternatives.          *)
EXTENDS IPNSRepublisher, Json

CONSTANTS E,                 \* behaviour length
          GLT,               \* set of <<life, ttl>> pairs a Pub may use      (defined in this module, see GLT_*)
          GWaits, GIvals,
          GFamily            \* "all" | "direct" | "run"
VARIABLES g, hist
gvars == <<vars, g, hist>>

DevSets == <<{}, {DErrStop}, {DTTL}, {DErrStop, DTTL}>>
NW == Len(DevSets)
W0 == [ds |-> [k \in Keys |-> NoRec], rt |-> [k \in Keys |-> NoRec]]

GLT_one == {<<3, 2>>}
GLT_small == {<<3, 2>>, <<50, 10>>}
GLT_full == {<<3, 2>>, <<3, 10>>, <<50, 2>>, <<50, 10>>, <<12, 10>>}

G0 == [w |-> [i \in 1..NW |-> W0], now |-> 0, rfail |-> {}, ksbad |-> {}, running |-> FALSE, stopped |-> FALSE,
       timer |-> 0, ival |-> 1]

\* compact JSON form of a record / a world
RJ(r) == IF r.kind = "rec" THEN <<r.val, r.seq, r.eol, r.ttl>> ELSE <<r.kind>>
WJ(w) == [ds |-> [i \in 1..Len(KeySeq) |-> RJ(w.ds[KeySeq[i]])], rt |-> [i \in 1..Len(KeySeq) |-> RJ(w.rt[KeySeq[i]])]]

PubW(w, k, v, e, t, rf) ==
    LET r == PubResult(w.ds[k], v, e, t)
    IN IF ~r.ok THEN [w |-> w, ok |-> FALSE]
       ELSE LET ds2 == [w.ds EXCEPT ![k] = r.rec]
            IN IF k \in rf THEN [w |-> [ds |-> ds2, rt |-> w.rt], ok |-> FALSE]
               ELSE [w |-> [ds |-> ds2, rt |-> [w.rt EXCEPT ![k] = Best(w.rt[k], r.rec)]], ok |-> TRUE]

\* keys on which Publish was called in a round, with its outcome
Pubs(outs) == SelectSeq(outs, LAMBDA o : o.out \in {"ok", "rfail"})
PubsJ(outs) == [j \in 1..Len(Pubs(outs)) |-> <<Pubs(outs)[j].k, Pubs(outs)[j].out = "ok">>]

RoundAll(gg, t, canc) == [i \in 1..NW |-> SeqRound(gg.w[i], t, gg.rfail, gg.ksbad, canc, DevSets[i])]

\* Wait: fire every due timer (the round runs in zero fake time), then stand at tEnd
RECURSIVE RunUntil(_, _, _)
RunUntil(gg, tEnd, fired) ==
    IF gg.running /\ ~gg.stopped /\ gg.timer <= tEnd
    THEN LET t == MaxI(gg.timer, gg.now)
             rs == RoundAll(gg, t, FALSE)
             err == RoundErr(rs[1].outs)
             g2 == [gg EXCEPT !.w = [i \in 1..NW |-> rs[i].w], !.now = t,
                              !.timer = AfterRound(AfterFire(t, gg.ival), t, err, gg.ival)]
         IN RunUntil(g2, tEnd, Append(fired, [t |-> t, pubs |-> [i \in 1..NW |-> PubsJ(rs[i].outs)]]))
    ELSE [g |-> [gg EXCEPT !.now = tEnd], fired |-> fired]

Obs(g2) == [w |-> WJ(g2.w[1]),
            alt |-> [i \in 2..NW |-> IF g2.w[i] = g2.w[1] THEN <<>> ELSE <<WJ(g2.w[i])>>]]

Step(op, g2, extra) == /\ g' = g2 /\ hist' = Append(hist, [op |-> op, x |-> extra, now |-> g2.now, obs |-> Obs(g2)])

OpPub(k, v, lt) ==
    LET rs == [i \in 1..NW |-> PubW(g.w[i], k, v, g.now + lt[1], lt[2], g.rfail)]
    IN Step("Pub", [g EXCEPT !.w = [i \in 1..NW |-> rs[i].w]],
            [k |-> k, v |-> v, life |-> lt[1], ttl |-> lt[2], ok |-> rs[1].ok])
OpRound ==
    /\ ~g.running
    /\ LET rs == RoundAll(g, g.now, FALSE)
       IN Step("Round", [g EXCEPT !.w = [i \in 1..NW |-> rs[i].w]],
               [err |-> RoundErr(rs[1].outs), pubs |-> [i \in 1..NW |-> PubsJ(rs[i].outs)]])
OpCorrupt(k) ==
    /\ IsRec(g.w[1].ds[k])
    /\ Step("Corrupt", [g EXCEPT !.w = [i \in 1..NW |-> [g.w[i] EXCEPT !.ds[k] = BadRec]]], [k |-> k])
OpRFail(k) == Step("RFail", [g EXCEPT !.rfail = IF k \in g.rfail THEN g.rfail \ {k} ELSE g.rfail \cup {k}],
                   [k |-> k, on |-> k \notin g.rfail])
OpKsBad(k) == /\ k # Self
              /\ Step("KsBad", [g EXCEPT !.ksbad = IF k \in g.ksbad THEN g.ksbad \ {k} ELSE g.ksbad \cup {k}],
                      [k |-> k, on |-> k \notin g.ksbad])
OpStart(iv) == /\ ~g.running
               /\ Step("Start", [g EXCEPT !.running = TRUE, !.ival = iv, !.timer = FirstTimer(g.now, iv)], [iv |-> iv])
OpWait(d) == LET r == RunUntil(g, g.now + d, <<>>) IN Step("Wait", r.g, [d |-> d, fired |-> r.fired])
OpStop == /\ g.running /\ ~g.stopped /\ Step("Stop", [g EXCEPT !.stopped = TRUE], [z |-> 0])

HasRec == \E k \in Keys : g.w[1].ds[k].kind # "none"
GOps == \/ \E k \in Keys, v \in Vals, lt \in GLT : OpPub(k, v, lt)
        \/ (GFamily # "run" /\ HasRec /\ OpRound)
        \/ \E k \in Keys : OpCorrupt(k) \/ (HasRec /\ (OpRFail(k) \/ OpKsBad(k)))
        \/ (GFamily # "direct" /\ ((\E iv \in GIvals : OpStart(iv)) \/ (g.running /\ OpStop)))
        \/ \E d \in GWaits : OpWait(d)

GInit == Init /\ g = G0 /\ hist = <<>>
GNext == Len(hist) < E /\ GOps /\ UNCHANGED vars
GSpec == GInit /\ [][GNext]_gvars

\* a behaviour is worth replaying only if the republisher did something in it
Rounds(h) == Cardinality({j \in 1..Len(h) : h[j].op = "Round" \/ (h[j].op = "Wait" /\ Len(h[j].x.fired) > 0)})
Emit == Len(hist) # E \/ Rounds(hist) = 0 \/ PrintT(<<"BEHAVIOUR", ToJson([keys |-> KeySeq, L |-> L, steps |-> hist])>>)

\* -simulate: random long histories; one op drawn per step
Draw(S) == RandomElement({c \in S : Len(hist) >= 0})
SimOp == \E c \in {Draw(1..20)} :
           CASE c <= 7  -> \E k \in {Draw(Keys)}, v \in {Draw(Vals)}, lt \in {Draw(GLT)} : OpPub(k, v, lt)
             [] c <= 9  -> IF g.running THEN \E d \in {Draw(GWaits)} : OpWait(d) ELSE OpRound
             [] c = 10  -> \E k \in {Draw(Keys)} : IF IsRec(g.w[1].ds[k]) THEN OpCorrupt(k) ELSE OpRFail(k)
             [] c = 11  -> \E k \in {Draw(Keys)} : OpRFail(k)
             [] c = 12  -> \E k \in {Draw(Keys)} : IF k = Self THEN OpRFail(k) ELSE OpKsBad(k)
             [] c = 13  -> IF g.running THEN (IF g.stopped THEN \E d \in {Draw(GWaits)} : OpWait(d) ELSE OpStop)
                           ELSE \E iv \in {Draw(GIvals)} : OpStart(iv)
             [] c = 14  -> IF g.running THEN \E d \in {Draw(GWaits)} : OpWait(d) ELSE \E iv \in {Draw(GIvals)} : OpStart(iv)
             [] OTHER   -> \E d \in {Draw(GWaits)} : OpWait(d)
Flush == /\ Len(hist) = E
         /\ (Rounds(hist) = 0 \/ PrintT(<<"BEHAVIOUR", ToJson([keys |-> KeySeq, L |-> L, steps |-> hist])>>))
         /\ hist' = <<>> /\ g' = G0
GNextSim == (IF Len(hist) = E THEN Flush ELSE SimOp) /\ UNCHANGED vars
GSpecSim == GInit /\ [][GNextSim]_gvars
=============================================================================
