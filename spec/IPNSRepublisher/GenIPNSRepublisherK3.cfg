SPECIFICATION GSpec
CONSTANTS Keys = {"k0", "k1", "k2"}
          Self = "k0"
          Vals = {"A"}
          Lives = {1}
          TTLs = {2, 10}
          DefTTL = 10
          L = 8
          Interval = 1
          Initial = 2
          FailRetry = 10
          MaxT = 1
          MaxSeq = 1
          MaxOps = 1
          MaxRounds = 1
          TrackW0 = FALSE
          UseRun = FALSE
          Timely = FALSE
          Devs = {}
          E = 4
          GLT <- GLT_one
          GWaits = {10}
          GIvals = {4}
          GFamily = "all"
INVARIANTS Emit
CHECK_DEADLOCK FALSE
