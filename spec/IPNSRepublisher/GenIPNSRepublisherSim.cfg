SPECIFICATION GSpecSim
CONSTANTS Keys = {"k0", "k1", "k2"}
          Self = "k0"
          Vals = {"A", "B"}
          Lives = {1}
          TTLs = {2, 10}
          DefTTL = 10
          L = 8
          Interval = 1
          Initial = 2
          FailRetry = 10
          MaxT = 1
          MaxSeq = 1
          MaxOps = 1
          MaxRounds = 1
          TrackW0 = FALSE
          UseRun = FALSE
          Timely = FALSE
          Devs = {}
          E = 12
          GLT <- GLT_full
          GWaits = {1, 2, 5, 10, 20}
          GIvals = {1, 4, 20}
          GFamily = "all"
CHECK_DEADLOCK FALSE
