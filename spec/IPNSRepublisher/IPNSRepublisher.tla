--------------------------- MODULE IPNSRepublisher ---------------------------
(* X03 -- the IPNS record republisher (namesys/republisher/repub.go) together with the IPNS
   publisher it drives (namesys/ipns_publisher.go).

   State: the local datastore  ds  (per key: no record / an unparsable blob / a record
   <<value, sequence, EOL, TTL>>), the routing system  rt  (per key the best record it was given:
   higher sequence wins, then later EOL), an integer clock, fault switches (routing put of a key
   fails, keystore Get of a key fails), and the republisher: its run loop (timer, cancel) and one
   round at the grain of its critical sections
        Pick    keystore Get + datastore Get of the next key (self first)      [unlocked]
        Commit  IPNSPublisher.updateRecord under the publisher mutex           [one ds write]
        Route   PublishIPNSRecord (routing put)
   User Publish calls (commit + routing put), corruption of a stored record, fault switches and
   clock ticks interleave freely with these steps.

   The module states the IDEAL behaviour; the constant Devs switches on named as-built
   deviations (used by the non-vacuity controls, by the generator's alternative worlds and by the
   trace specification):
     Dev_X03_ErrStop          the first failing key ends the round, later keys are not attempted
     Dev_X03_StaleRepublish   Commit re-publishes the VALUE read at Pick through Publish(), i.e. computes the
                 new record from the unlocked snapshot instead of the record current under the lock
     Dev_X03_TTLReset         the republished record carries the default TTL instead of the record's TTL      *)
EXTENDS Integers, Sequences, FiniteSets, TLC

CONSTANTS Keys, Self,          \* key ids, Self = the node's own key (always republished first)
          Vals, Lives, TTLs,   \* values, EOL offsets and TTLs a user may publish with
          DefTTL,              \* ipns.DefaultRecordTTL
          L,                   \* Republisher.RecordLifetime
          Interval, Initial, FailRetry,
          MaxT, MaxSeq, MaxOps, MaxRounds,
          TrackW0,             \* TRUE: remember the state a round started from (ghost, for SeqRoundMatches only)
          UseRun,              \* TRUE: rounds are started by Run's timer; FALSE: direct republishEntries calls
          Timely,              \* TRUE: the clock cannot pass a due timer / a round in progress (fake-clock semantics)
          Devs

VARIABLES ds, rt, now, rfail, ksbad, pending,
          pc, todo, cur, snap, crec, errs, attempted,
          running, cancelled, exited, timer, lastErr, nrounds,
          want, clean, dirty, nops, faulty, w0

rvars == <<pc, todo, cur, snap, crec, errs, attempted>>
svars == <<running, cancelled, exited, timer>>
vars == <<ds, rt, now, rfail, ksbad, pending, rvars, svars, lastErr, nrounds, want, clean, dirty, nops, faulty, w0>>

\* ---------------------------------------------------------------- records (pure operators)
DErrStop == "Dev_X03_ErrStop"
DStale == "Dev_X03_StaleRepublish"
DTTL == "Dev_X03_TTLReset"

NoRec == [kind |-> "none"]
BadRec == [kind |-> "bad"]
MkRec(v, s, e, t) == [kind |-> "rec", val |-> v, seq |-> s, eol |-> e, ttl |-> t]
IsRec(r) == r.kind = "rec"
MaxI(a, b) == IF a >= b THEN a ELSE b
MinI(a, b) == IF a <= b THEN a ELSE b

\* IPNSPublisher.updateRecord: publishing value v (EOL e, TTL t) over the stored record cur.
\* Documented rule: the first record has sequence 0; the sequence number grows by one iff the value changes.
PubResult(c, v, e, t) ==
    CASE c.kind = "bad"  -> [ok |-> FALSE, rec |-> c]
      [] c.kind = "none" -> [ok |-> TRUE, rec |-> MkRec(v, 0, e, t)]
      [] OTHER           -> [ok |-> TRUE, rec |-> MkRec(v, IF v = c.val THEN c.seq ELSE c.seq + 1, e, t)]

\* the routing system keeps the best record (ipns.Validator.Select: sequence, then EOL)
Best(a, b) == IF ~IsRec(a) THEN b
              ELSE IF b.seq > a.seq \/ (b.seq = a.seq /\ b.eol >= a.eol) THEN b ELSE a

\* THE PROPERTY, stated independently: a republish refreshes a record -- same value, same
\* sequence, same TTL, EOL = max(old EOL, now + RecordLifetime).
Refresh(c, t) == MkRec(c.val, c.seq, MaxI(c.eol, t + L), c.ttl)

\* what Commit does for the record c current under the publisher lock, the snapshot s read at
\* Pick, at time t, under deviation set D
CommitOut(c, s, t, D) ==
    IF ~IsRec(c) THEN [out |-> "err", rec |-> c]
    ELSE IF DStale \notin D /\ c # s THEN [out |-> "skip", rec |-> c]    \* changed concurrently: its publisher refreshed it
    ELSE LET src == IF DStale \in D THEN s ELSE c
             r == PubResult(c, src.val, MaxI(src.eol, t + L), IF DTTL \in D THEN DefTTL ELSE src.ttl)
         IN [out |-> "go", rec |-> r.rec]

\* ---------------------------------------------------------------- a whole round without interference (pure)
\* keys are named "k0" (self), "k1", ...; a round serves self first, then the keystore keys in List() order
Rank(k) == CHOOSE i \in 0..9 : k = "k" \o ToString(i)
KeySeq == [i \in 1..Cardinality(Keys) |-> CHOOSE k \in Keys : Cardinality({j \in Keys : Rank(j) < Rank(k)}) = i - 1]
ASSUME Rank(Self) = 0

\* one key, uninterrupted: w = [ds, rt]; result [w, out] with out in skip | bad | ok | rfail
KeyStep(w, k, t, rf, kb, canc, D) ==
    IF k \in kb \/ w.ds[k].kind = "bad" THEN [w |-> w, out |-> "bad"]
    ELSE IF w.ds[k].kind = "none" THEN [w |-> w, out |-> "skip"]
    ELSE LET o == CommitOut(w.ds[k], w.ds[k], t, D)
             ds2 == [w.ds EXCEPT ![k] = o.rec]
         IN IF k \in rf \/ canc THEN [w |-> [ds |-> ds2, rt |-> w.rt], out |-> "rfail"]
            ELSE [w |-> [ds |-> ds2, rt |-> [w.rt EXCEPT ![k] = Best(w.rt[k], o.rec)]], out |-> "ok"]
IsErr(out) == out \in {"bad", "rfail"}

RECURSIVE RoundFrom(_, _, _, _, _, _, _, _)
RoundFrom(w, i, t, rf, kb, canc, D, outs) ==
    IF i > Len(KeySeq) THEN [w |-> w, outs |-> outs]
    ELSE LET r == KeyStep(w, KeySeq[i], t, rf, kb, canc, D)
             o2 == Append(outs, [k |-> KeySeq[i], out |-> r.out])
         IN IF IsErr(r.out) /\ DErrStop \in D THEN [w |-> r.w, outs |-> o2]
            ELSE RoundFrom(r.w, i + 1, t, rf, kb, canc, D, o2)
SeqRound(w, t, rf, kb, canc, D) == RoundFrom(w, 1, t, rf, kb, canc, D, <<>>)
RoundErr(outs) == \E j \in 1..Len(outs) : IsErr(outs[j].out)

\* Run's timer: first round after min(InitialRebroadcastDelay, Interval); the timer is re-armed to
\* Interval when it fires; a failed round re-arms it to FailureRetryInterval if that is sooner
FirstTimer(t, iv) == t + MinI(Initial, iv)
AfterFire(t, iv) == t + iv
AfterRound(tm, t, err, iv) == IF err /\ FailRetry < iv THEN t + FailRetry ELSE tm

W0None == [ds |-> [k \in Keys |-> NoRec], rt |-> [k \in Keys |-> NoRec], now |-> 0, rfail |-> {}, ksbad |-> {}, canc |-> FALSE]
\* ---------------------------------------------------------------- initial state
Init == /\ ds = [k \in Keys |-> NoRec] /\ rt = [k \in Keys |-> NoRec] /\ now = 0
        /\ rfail = {} /\ ksbad = {} /\ pending = {}
        /\ pc = "idle" /\ todo = {} /\ cur = Self /\ snap = NoRec /\ crec = NoRec /\ errs = {} /\ attempted = {}
        /\ running = FALSE /\ cancelled = FALSE /\ exited = FALSE /\ timer = 0 /\ lastErr = FALSE /\ nrounds = 0
        /\ want = [k \in Keys |-> "none"] /\ clean = FALSE /\ dirty = FALSE /\ nops = 0 /\ faulty = {}
        /\ w0 = W0None

\* ---------------------------------------------------------------- the environment
UserOp == /\ nops < MaxOps /\ nops' = nops + 1 /\ clean' = FALSE /\ dirty' = TRUE

UserPub(k, v, life, t) ==
    /\ UserOp
    /\ LET r == PubResult(ds[k], v, now + life, t)
       IN IF r.ok /\ r.rec.seq <= MaxSeq
          THEN /\ ds' = [ds EXCEPT ![k] = r.rec] /\ pending' = pending \cup {[k |-> k, rec |-> r.rec]}
               /\ want' = [want EXCEPT ![k] = v]
          ELSE UNCHANGED <<ds, pending, want>>
    /\ UNCHANGED <<rt, now, rfail, ksbad, rvars, svars, lastErr, nrounds, faulty, w0>>

\* the routing put of a user Publish (outside the publisher lock, may be overtaken)
UserRoute(p) ==
    /\ p \in pending /\ pending' = pending \ {p} /\ clean' = FALSE /\ dirty' = TRUE
    /\ rt' = IF p.k \in rfail THEN rt ELSE [rt EXCEPT ![p.k] = Best(rt[p.k], p.rec)]
    /\ UNCHANGED <<ds, now, rfail, ksbad, rvars, svars, lastErr, nrounds, want, nops, faulty, w0>>

Corrupt(k) ==
    /\ UserOp /\ IsRec(ds[k]) /\ ds' = [ds EXCEPT ![k] = BadRec] /\ faulty' = faulty \cup {k}
    /\ UNCHANGED <<rt, now, rfail, ksbad, pending, rvars, svars, lastErr, nrounds, want, w0>>

ToggleRouteFail(k) ==
    /\ UserOp /\ rfail' = (IF k \in rfail THEN rfail \ {k} ELSE rfail \cup {k}) /\ faulty' = faulty \cup {k}
    /\ UNCHANGED <<ds, rt, now, ksbad, pending, rvars, svars, lastErr, nrounds, want, w0>>

ToggleKsBad(k) ==
    /\ UserOp /\ k # Self /\ ksbad' = (IF k \in ksbad THEN ksbad \ {k} ELSE ksbad \cup {k}) /\ faulty' = faulty \cup {k}
    /\ UNCHANGED <<ds, rt, now, rfail, pending, rvars, svars, lastErr, nrounds, want, w0>>

Tick == /\ now < MaxT /\ now' = now + 1
        /\ Timely => ~(running /\ ~exited /\ (now >= timer \/ pc # "idle"))
        /\ dirty' = (dirty \/ pc # "idle")
        /\ UNCHANGED <<ds, rt, rfail, ksbad, pending, rvars, svars, lastErr, nrounds, want, clean, nops, faulty, w0>>

\* ---------------------------------------------------------------- one round (republishEntries)
BeginRound == /\ pc = "idle" /\ pc' = "pick" /\ todo' = Keys /\ attempted' = {} /\ errs' = {}
              /\ dirty' = FALSE /\ clean' = FALSE
              /\ w0' = IF TrackW0 THEN [ds |-> ds, rt |-> rt, now |-> now, rfail |-> rfail, ksbad |-> ksbad, canc |-> cancelled] ELSE W0None
              /\ UNCHANGED <<cur, snap, crec>>

\* key k failed: report it; IDEAL: go on with the other keys
Fail(k) == /\ errs' = errs \cup {k} /\ pc' = "pick"
           /\ todo' = IF DErrStop \in Devs THEN {} ELSE todo \ {k}

Pick(k) ==
    /\ pc = "pick" /\ k \in todo /\ (Self \in todo => k = Self)
    /\ attempted' = attempted \cup {k}
    /\ IF k \in ksbad \/ ds[k].kind = "bad"
       THEN Fail(k) /\ UNCHANGED <<cur, snap>>
       ELSE IF ds[k].kind = "none"
       THEN todo' = todo \ {k} /\ UNCHANGED <<pc, cur, snap, errs>>           \* never published: skipped, no error
       ELSE pc' = "commit" /\ cur' = k /\ snap' = ds[k] /\ UNCHANGED <<todo, errs>>
    /\ UNCHANGED <<ds, rt, now, rfail, ksbad, pending, crec, svars, lastErr, nrounds, want, clean, dirty, nops, faulty, w0>>

Commit ==
    /\ pc = "commit"
    /\ LET o == CommitOut(ds[cur], snap, now, Devs)
       IN CASE o.out = "err"  -> Fail(cur) /\ UNCHANGED <<ds, crec>>
            [] o.out = "skip" -> todo' = todo \ {cur} /\ pc' = "pick" /\ UNCHANGED <<ds, crec, errs>>
            [] OTHER          -> /\ ds' = [ds EXCEPT ![cur] = o.rec] /\ crec' = o.rec /\ pc' = "route"
                                 /\ UNCHANGED <<todo, errs>>
    /\ UNCHANGED <<rt, now, rfail, ksbad, pending, cur, snap, attempted, svars, lastErr, nrounds, want, clean, dirty, nops, faulty, w0>>

\* a cancelled context makes every routing put fail (the routing system honours the context)
Route ==
    /\ pc = "route"
    /\ IF cur \in rfail \/ cancelled
       THEN Fail(cur) /\ UNCHANGED rt
       ELSE rt' = [rt EXCEPT ![cur] = Best(rt[cur], crec)] /\ todo' = todo \ {cur} /\ pc' = "pick" /\ UNCHANGED errs
    /\ UNCHANGED <<ds, now, rfail, ksbad, pending, cur, snap, crec, attempted, svars, lastErr, nrounds, want, clean, dirty, nops, faulty, w0>>

RoundEnd ==
    /\ pc = "pick" /\ todo = {} /\ pc' = "idle"
    /\ lastErr' = (errs # {}) /\ nrounds' = nrounds + 1
    /\ clean' = (errs = {} /\ ~dirty /\ pending = {})
    /\ timer' = IF running THEN AfterRound(timer, now, errs # {}, Interval) ELSE timer
    /\ w0' = W0None
    /\ UNCHANGED <<ds, rt, now, rfail, ksbad, pending, todo, cur, snap, crec, errs, attempted, running, cancelled, exited,
                   want, dirty, nops, faulty>>

\* ---------------------------------------------------------------- Run: timer loop and cancellation
Start == /\ UseRun /\ ~running /\ (Timely => now = 0) /\ running' = TRUE /\ timer' = FirstTimer(now, Interval)
         /\ UNCHANGED <<ds, rt, now, rfail, ksbad, pending, rvars, cancelled, exited, lastErr, nrounds, want, clean, dirty, nops, faulty, w0>>

TimerFire == /\ running /\ ~exited /\ now >= timer /\ timer' = AfterFire(now, Interval) /\ BeginRound
             /\ UNCHANGED <<ds, rt, now, rfail, ksbad, pending, running, cancelled, exited, lastErr, nrounds, want, nops, faulty>>

DirectRound == /\ ~UseRun /\ nrounds < MaxRounds /\ BeginRound
               /\ UNCHANGED <<ds, rt, now, rfail, ksbad, pending, svars, lastErr, nrounds, want, nops, faulty>>

Stop == /\ running /\ ~cancelled /\ cancelled' = TRUE /\ dirty' = (dirty \/ pc # "idle")
        /\ UNCHANGED <<ds, rt, now, rfail, ksbad, pending, rvars, running, exited, timer, lastErr, nrounds, want, clean, nops, faulty, w0>>

Exit == /\ running /\ cancelled /\ ~exited /\ pc = "idle" /\ exited' = TRUE
        /\ UNCHANGED <<ds, rt, now, rfail, ksbad, pending, rvars, running, cancelled, timer, lastErr, nrounds, want, clean, dirty, nops, faulty, w0>>

RepubStep == (\E k \in Keys : Pick(k)) \/ Commit \/ Route \/ RoundEnd
EnvStep == \/ \E k \in Keys, v \in Vals, life \in Lives, t \in TTLs : UserPub(k, v, life, t)
           \/ \E p \in pending : UserRoute(p)
           \/ \E k \in Keys : Corrupt(k) \/ ToggleRouteFail(k) \/ ToggleKsBad(k)
           \/ Tick
Next == RepubStep \/ EnvStep \/ Start \/ TimerFire \/ DirectRound \/ Stop \/ Exit

Spec == Init /\ [][Next]_vars
FairSpec == Spec /\ WF_vars(RepubStep) /\ WF_vars(TimerFire) /\ WF_vars(Exit)

\* ---------------------------------------------------------------- properties
RecOK(r) == r.kind \in {"none", "bad"} \/ (IsRec(r) /\ r.val \in Vals /\ r.seq \in 0..(MaxSeq + 2) /\ r.eol \in Nat /\ r.ttl \in TTLs)
TypeOK == /\ \A k \in Keys : RecOK(ds[k]) /\ RecOK(rt[k]) /\ rt[k].kind # "bad"
          /\ pc \in {"idle", "pick", "commit", "route"} /\ todo \subseteq Keys /\ errs \subseteq Keys /\ attempted \subseteq Keys
          /\ (pc \in {"commit", "route"} => cur \in todo /\ IsRec(snap))

\* P1  a republish only ever refreshes: value, sequence and TTL unchanged, EOL = max(old, now + lifetime)
RepubOnlyRefreshes ==
    [][(pc = "commit" /\ pc' # "commit") => (ds' = ds \/ (IsRec(ds[cur]) /\ ds' = [ds EXCEPT ![cur] = Refresh(ds[cur], now)]))]_vars

\* P2  sequence numbers never decrease, and a sequence number identifies one value
SeqMonotone ==
    [][\A k \in Keys : IsRec(ds[k]) /\ IsRec(ds'[k]) =>
           /\ ds'[k].seq >= ds[k].seq
           /\ (ds'[k].seq = ds[k].seq => ds'[k].val = ds[k].val)]_vars

\* P3  the stored record always carries the value of the latest successful user Publish
NewestWins == \A k \in Keys : IsRec(ds[k]) /\ want[k] # "none" => ds[k].val = want[k]

\* P4  the routing system never holds anything newer than / different from the local record
RoutingConsistent ==
    \A k \in Keys : IsRec(rt[k]) /\ IsRec(ds[k]) =>
        \/ rt[k].seq < ds[k].seq
        \/ (rt[k].seq = ds[k].seq /\ rt[k].val = ds[k].val)

\* P5  every key of the round is attempted, whatever happened to the keys before it
AllServed == (pc = "pick" /\ todo = {}) => attempted = Keys

\* P6  a round without error and without concurrent activity leaves routing = datastore for every published key
\*     (the routing system may keep a longer EOL that a user publish of the same value shortened locally)
Healed == clean => \A k \in Keys : IsRec(ds[k]) =>
              IsRec(rt[k]) /\ rt[k].seq = ds[k].seq /\ rt[k].val = ds[k].val /\ rt[k].eol >= ds[k].eol

\* P7  a round reports an error iff some key failed; an unparsable record is never touched
ErrorsReported == (pc = "idle" /\ nrounds > 0) => (lastErr <=> errs # {})
BadUntouched == [][\A k \in Keys : ds[k].kind = "bad" => ds'[k].kind = "bad"]_vars

\* P8  (Timely, running, L >= Interval, user lifetimes >= Interval) a key that never had a fault never
\*     expires in the routing system while the republisher runs -- whatever happens to other keys
NeverExpires == (running /\ ~cancelled) => \A k \in Keys \ faulty : IsRec(rt[k]) /\ pending = {} => rt[k].eol >= now

\* P9  liveness: rounds end, a due timer starts a round, Stop ends the loop
RoundTerminates == (pc # "idle") ~> (pc = "idle")
DueFires == (running /\ ~cancelled /\ now >= timer /\ pc = "idle") ~> (pc # "idle" \/ cancelled)
StopTerminates == cancelled ~> exited
\* after the loop exited nothing moves any more on the republisher's side
ExitedQuiet == [][exited => UNCHANGED <<rvars, timer, nrounds>>]_vars

\* P10 an undisturbed round of the step-wise model is exactly the pure SeqRound the generator replays
SeqRoundMatches ==
    (TrackW0 /\ pc = "pick" /\ todo = {} /\ ~dirty) =>
        LET r == SeqRound([ds |-> w0.ds, rt |-> w0.rt], w0.now, w0.rfail, w0.ksbad, w0.canc, Devs)
        IN r.w = [ds |-> ds, rt |-> rt] /\ (RoundErr(r.outs) <=> errs # {})

Bound == \A k \in Keys : IsRec(ds[k]) => ds[k].seq <= MaxSeq + 1
=============================================================================
