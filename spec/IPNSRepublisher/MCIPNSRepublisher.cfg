SPECIFICATION Spec
CONSTANTS Keys = {"k0", "k1"}
          Self = "k0"
          Vals = {"A", "B"}
          Lives = {1, 5}
          TTLs = {1, 3}
          DefTTL = 3
          L = 3
          Interval = 2
          Initial = 1
          FailRetry = 1
          MaxT = 1
          MaxSeq = 1
          MaxOps = 2
          MaxRounds = 1
          TrackW0 = FALSE
          UseRun = FALSE
          Timely = FALSE
          Devs = {}
INVARIANTS TypeOK NewestWins RoutingConsistent AllServed Healed ErrorsReported
PROPERTIES RepubOnlyRefreshes SeqMonotone BadUntouched
CHECK_DEADLOCK FALSE
