SPECIFICATION FairSpec
CONSTANTS Keys = {"k0", "k1"}
          Self = "k0"
          Vals = {"A"}
          Lives = {2, 4}
          TTLs = {3}
          DefTTL = 3
          L = 2
          Interval = 2
          Initial = 1
          FailRetry = 1
          MaxT = 4
          MaxSeq = 1
          MaxOps = 1
          MaxRounds = 0
          TrackW0 = FALSE
          UseRun = TRUE
          Timely = FALSE
          Devs = {}
INVARIANTS TypeOK
PROPERTIES RoundTerminates DueFires StopTerminates
CHECK_DEADLOCK FALSE
