SPECIFICATION Spec
CONSTANTS Keys = {"k0", "k1"}
          Self = "k0"
          Vals = {"A"}
          Lives = {2, 4}
          TTLs = {3}
          DefTTL = 3
          L = 2
          Interval = 2
          Initial = 1
          FailRetry = 1
          MaxT = 5
          MaxSeq = 1
          MaxOps = 3
          MaxRounds = 0
          TrackW0 = FALSE
          UseRun = TRUE
          Timely = TRUE
          Devs = {}
INVARIANTS TypeOK NewestWins RoutingConsistent AllServed Healed ErrorsReported NeverExpires
PROPERTIES RepubOnlyRefreshes SeqMonotone BadUntouched ExitedQuiet
CHECK_DEADLOCK FALSE
