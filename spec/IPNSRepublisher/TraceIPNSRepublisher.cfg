SPECIFICATION TSpec
CONSTANTS Keys = {"k0", "k1", "k2"}
          Self = "k0"
          Vals = {"A", "B", "C"}
          Lives = {1}
          TTLs = {2, 10}
          DefTTL = 10
          L = 8
          Interval = 1
          Initial = 2
          FailRetry = 10
          MaxT = 1
          MaxSeq = 100000
          MaxOps = 1
          MaxRounds = 1
          TrackW0 = FALSE
          UseRun = FALSE
          Timely = FALSE
          Devs = @DEVS@
INVARIANTS TNewestWins RoutingConsistent DevReport
PROPERTIES TSeqMonotone TNoRouteAfterCancel
CONSTRAINT TraceConstraint
POSTCONDITION TracePost
CHECK_DEADLOCK FALSE
