------------------------ MODULE TraceIPNSRepublisher ------------------------
(* Phase T: events recorded from the real Republisher + IPNSPublisher (real goroutines inside a synctest
   bubble: user Publish threads racing republishEntries rounds; gated and free-running schedules) must be a
   behaviour of IPNSRepublisher at the grain of the code's critical sections.  Logged at the linearization
   points, each under the harness world mutex together with the operation itself:
     RGet        the republisher's datastore Get of a key                      (= Pick)
     KsGet       keystore Get
     PGet / PPut the publisher's datastore Get / Put, both under IPNSPublisher.mu  (PPut of "rp" = Commit)
     RtPut       routing put                                                   (RtPut of "rp" = Route)
     RpRet       the republisher's Publish call returned;  URet  a user's Publish returned
     RoundStart / RoundRet, UCall (intent of a user Publish), UCorrupt, SetRFail, SetKsBad, Tick, Cancel, Reset.
   Silent: the publisher lock is released without a Put (stored record unparsable / changed since the
   republisher read it).  Deviations (only if listed in Devs, recorded in dev when an accepting path needs
   them): Dev_X03_ErrStop (RoundRet before every key was attempted), Dev_X03_StaleRepublish and Dev_X03_TTLReset
   (the record written by the republisher is the as-built CommitOut instead of Refresh).                  *)
EXTENDS IPNSRepublisher, Json

Trace == ndJsonDeserialize("trace.ndjson")
Users == {"u1", "u2"}
Who == Users \cup {"rp"}
VARIABLES l, lock, pubcur, ust, intent, infl, ksok, rpOut, dev
tvars == <<vars, l, lock, pubcur, ust, intent, infl, ksok, rpOut, dev>>
ASSUME TLCSet(1, 0)

Ev == Trace[l]
IsEvent(e) == l <= Len(Trace) /\ Trace[l].ev = e /\ l' = l + 1

\* projection of a logged record (JSON array: ["A",seq,eol,ttl] | ["none"] | ["bad"])
Rec(j) == IF Len(j) = 4 THEN MkRec(j[1], j[2], j[3], j[4]) ELSE [kind |-> j[1]]
NoI == [k |-> "none"]

unused == <<pending, running, exited, timer, lastErr, nrounds, clean, dirty, nops, faulty, w0, crec>>

TInit == /\ Init /\ l = 1 /\ lock = "" /\ pubcur = NoRec
         /\ ust = [u \in Users |-> "idle"] /\ intent = [u \in Users |-> NoI] /\ infl = [w \in Who |-> NoI]
         /\ ksok = "" /\ rpOut = "none" /\ dev = {}

TReset == /\ IsEvent("Reset") /\ pc = "idle" /\ lock = "" /\ \A u \in Users : ust[u] = "idle"
          /\ ds' = [k \in Keys |-> NoRec] /\ rt' = [k \in Keys |-> NoRec] /\ now' = 0 /\ rfail' = {} /\ ksbad' = {}
          /\ pc' = "idle" /\ todo' = {} /\ cur' = Self /\ snap' = NoRec /\ errs' = {} /\ attempted' = {}
          /\ cancelled' = FALSE /\ want' = [k \in Keys |-> "none"]
          /\ pubcur' = NoRec /\ infl' = [w \in Who |-> NoI] /\ ksok' = "" /\ rpOut' = "none"
          /\ UNCHANGED <<unused, lock, ust, intent, dev>>

keep == <<unused, dev>>

TTick == /\ IsEvent("Tick") /\ now' = now + Ev.d
         /\ UNCHANGED <<keep, ds, rt, rfail, ksbad, rvars, cancelled, want, lock, pubcur, ust, intent, infl, ksok, rpOut>>
TCancel == /\ IsEvent("Cancel") /\ cancelled' = TRUE
           /\ UNCHANGED <<keep, ds, rt, now, rfail, ksbad, rvars, want, lock, pubcur, ust, intent, infl, ksok, rpOut>>
TSetRFail == /\ IsEvent("SetRFail") /\ rfail' = (IF Ev.on THEN rfail \cup {Ev.k} ELSE rfail \ {Ev.k})
             /\ UNCHANGED <<keep, ds, rt, now, ksbad, rvars, cancelled, want, lock, pubcur, ust, intent, infl, ksok, rpOut>>
TSetKsBad == /\ IsEvent("SetKsBad") /\ ksbad' = (IF Ev.on THEN ksbad \cup {Ev.k} ELSE ksbad \ {Ev.k})
             /\ UNCHANGED <<keep, ds, rt, now, rfail, rvars, cancelled, want, lock, pubcur, ust, intent, infl, ksok, rpOut>>
TUCorrupt == /\ IsEvent("UCorrupt") /\ ds' = [ds EXCEPT ![Ev.k] = BadRec]
             /\ UNCHANGED <<keep, rt, now, rfail, ksbad, rvars, cancelled, want, lock, pubcur, ust, intent, infl, ksok, rpOut>>

\* ---- a user's Publish
TUCall == /\ IsEvent("UCall") /\ Ev.u \in Users /\ ust[Ev.u] = "idle"
          /\ ust' = [ust EXCEPT ![Ev.u] = "called"]
          /\ intent' = [intent EXCEPT ![Ev.u] = [k |-> Ev.k, v |-> Ev.v, e |-> now + Ev.life, t |-> Ev.ttl]]
          /\ UNCHANGED <<keep, ds, rt, now, rfail, ksbad, rvars, cancelled, want, lock, pubcur, infl, ksok, rpOut>>

\* ---- the publisher's critical section (IPNSPublisher.mu): Get ... Put
TPGetUser == /\ IsEvent("PGet") /\ Ev.who \in Users /\ lock = "" /\ ust[Ev.who] = "called"
             /\ intent[Ev.who].k = Ev.k /\ Rec(Ev.rec) = ds[Ev.k]
             /\ lock' = Ev.who /\ pubcur' = ds[Ev.k] /\ ust' = [ust EXCEPT ![Ev.who] = "locked"]
             /\ UNCHANGED <<keep, ds, rt, now, rfail, ksbad, rvars, cancelled, want, intent, infl, ksok, rpOut>>
TPGetRp == /\ IsEvent("PGet") /\ Ev.who = "rp" /\ lock = "" /\ pc = "commit" /\ cur = Ev.k /\ rpOut = "none"
           /\ Rec(Ev.rec) = ds[Ev.k]
           /\ lock' = "rp" /\ pubcur' = ds[Ev.k]
           /\ UNCHANGED <<keep, ds, rt, now, rfail, ksbad, rvars, cancelled, want, ust, intent, infl, ksok, rpOut>>

TPPutUser == /\ IsEvent("PPut") /\ Ev.who \in Users /\ lock = Ev.who /\ ust[Ev.who] = "locked"
             /\ LET i == intent[Ev.who]
                    r == PubResult(pubcur, i.v, i.e, i.t)
                IN /\ i.k = Ev.k /\ r.ok /\ Rec(Ev.rec) = r.rec
                   /\ ds' = [ds EXCEPT ![Ev.k] = r.rec] /\ want' = [want EXCEPT ![Ev.k] = i.v]
                   /\ infl' = [infl EXCEPT ![Ev.who] = [k |-> Ev.k, rec |-> r.rec]]
             /\ lock' = "" /\ ust' = [ust EXCEPT ![Ev.who] = "put"]
             /\ UNCHANGED <<keep, rt, now, rfail, ksbad, rvars, cancelled, pubcur, intent, ksok, rpOut>>

\* the record the republisher may write: IDEAL = Refresh of the record current under the lock; otherwise the
\* as-built CommitOut under the smallest set of enabled deviations that explains it
RpDevChoices(rec) == {D \in SUBSET (Devs \cap {DStale, DTTL}) :
                         LET o == CommitOut(pubcur, snap, now, D) IN o.out = "go" /\ o.rec = rec}
TPPutRp == /\ IsEvent("PPut") /\ Ev.who = "rp" /\ lock = "rp" /\ pc = "commit" /\ cur = Ev.k /\ IsRec(pubcur)
           /\ LET rec == Rec(Ev.rec)
              IN /\ IF rec = Refresh(pubcur, now) THEN dev' = dev
                    ELSE /\ RpDevChoices(rec) # {}
                         /\ dev' = dev \cup (CHOOSE D \in RpDevChoices(rec) : \A D2 \in RpDevChoices(rec) : Cardinality(D) <= Cardinality(D2))
                 /\ ds' = [ds EXCEPT ![Ev.k] = rec] /\ infl' = [infl EXCEPT !["rp"] = [k |-> Ev.k, rec |-> rec]]
           /\ lock' = "" /\ pc' = "route"
           /\ UNCHANGED <<unused, rt, now, rfail, ksbad, todo, cur, snap, errs, attempted, cancelled, want, pubcur, ust, intent, ksok, rpOut>>

\* silent: the lock is released without a Put
TAbortUser(u) == /\ lock = u /\ ust[u] = "locked" /\ pubcur.kind = "bad"
                 /\ lock' = "" /\ ust' = [ust EXCEPT ![u] = "aborted"]
                 /\ UNCHANGED <<keep, l, ds, rt, now, rfail, ksbad, rvars, cancelled, want, pubcur, intent, infl, ksok, rpOut>>
TAbortRp == /\ lock = "rp" /\ pc = "commit" /\ lock' = ""
            /\ \/ /\ pubcur.kind = "bad" /\ rpOut' = "fail"                       \* unparsable now: reported
                  /\ errs' = errs \cup {cur} /\ todo' = todo \ {cur} /\ pc' = "pick"
               \/ /\ IsRec(pubcur) /\ pubcur # snap /\ rpOut' = "skip"             \* changed concurrently: left alone
                  /\ todo' = todo \ {cur} /\ pc' = "pick" /\ UNCHANGED errs
            /\ UNCHANGED <<keep, l, ds, rt, now, rfail, ksbad, cur, snap, attempted, cancelled, want, pubcur, ust, intent, infl, ksok>>

\* ---- routing puts
TRtPutUser == /\ IsEvent("RtPut") /\ Ev.who \in Users /\ ust[Ev.who] = "put"
              /\ infl[Ev.who] = [k |-> Ev.k, rec |-> Rec(Ev.rec)] /\ Ev.ok = (Ev.k \notin rfail)
              /\ rt' = IF Ev.ok THEN [rt EXCEPT ![Ev.k] = Best(rt[Ev.k], Rec(Ev.rec))] ELSE rt
              /\ infl' = [infl EXCEPT ![Ev.who] = NoI] /\ ust' = [ust EXCEPT ![Ev.who] = IF Ev.ok THEN "ok" ELSE "failed"]
              /\ UNCHANGED <<keep, ds, now, rfail, ksbad, rvars, cancelled, want, lock, pubcur, intent, ksok, rpOut>>
TRtPutRp == /\ IsEvent("RtPut") /\ Ev.who = "rp" /\ pc = "route" /\ ~cancelled
            /\ infl["rp"] = [k |-> Ev.k, rec |-> Rec(Ev.rec)] /\ Ev.ok = (Ev.k \notin rfail)
            /\ rt' = IF Ev.ok THEN [rt EXCEPT ![Ev.k] = Best(rt[Ev.k], Rec(Ev.rec))] ELSE rt
            /\ infl' = [infl EXCEPT !["rp"] = NoI] /\ pc' = "pick" /\ todo' = todo \ {cur}
            /\ errs' = (IF Ev.ok THEN errs ELSE errs \cup {cur}) /\ rpOut' = (IF Ev.ok THEN "ok" ELSE "fail")
            /\ UNCHANGED <<keep, ds, now, rfail, ksbad, cur, snap, attempted, cancelled, want, lock, pubcur, ust, intent, ksok>>

\* ---- returns
TURet == /\ IsEvent("URet") /\ Ev.u \in Users /\ lock # Ev.u /\ ust[Ev.u] \in {"ok", "failed", "aborted"}
         /\ Ev.ok = (ust[Ev.u] = "ok")
         /\ ust' = [ust EXCEPT ![Ev.u] = "idle"] /\ intent' = [intent EXCEPT ![Ev.u] = NoI]
         /\ UNCHANGED <<keep, ds, rt, now, rfail, ksbad, rvars, cancelled, want, lock, pubcur, infl, ksok, rpOut>>
\* the republisher's Publish returned: resolved by abort / route, or (context cancelled) the routing put was dropped
TRpRet == /\ IsEvent("RpRet") /\ lock # "rp" /\ Ev.k = cur
          /\ \/ /\ pc = "pick" /\ rpOut \in {"ok", "fail", "skip"} /\ (Ev.ok => rpOut = "ok") /\ (rpOut = "ok" => Ev.ok)
                /\ UNCHANGED <<pc, todo, errs, infl>>
             \/ /\ pc = "route" /\ cancelled /\ ~Ev.ok /\ infl' = [infl EXCEPT !["rp"] = NoI]
                /\ errs' = errs \cup {cur} /\ todo' = todo \ {cur} /\ pc' = "pick"
          /\ rpOut' = "none"
          /\ UNCHANGED <<keep, ds, rt, now, rfail, ksbad, cur, snap, attempted, cancelled, want, lock, pubcur, ust, intent, ksok>>

\* ---- the round
TRoundStart == /\ IsEvent("RoundStart") /\ pc = "idle" /\ pc' = "pick" /\ todo' = Keys /\ errs' = {} /\ attempted' = {}
               /\ ksok' = "" /\ rpOut' = "none"
               /\ UNCHANGED <<keep, ds, rt, now, rfail, ksbad, cur, snap, cancelled, want, lock, pubcur, ust, intent, infl>>
TKsGet == /\ IsEvent("KsGet") /\ pc = "pick" /\ rpOut = "none" /\ Ev.k \in todo /\ Ev.k # Self /\ Self \notin todo
          /\ Ev.ok = (Ev.k \notin ksbad) /\ attempted' = attempted \cup {Ev.k}
          /\ IF Ev.ok THEN ksok' = Ev.k /\ UNCHANGED <<todo, errs>>
             ELSE ksok' = "" /\ errs' = errs \cup {Ev.k} /\ todo' = todo \ {Ev.k}
          /\ UNCHANGED <<keep, ds, rt, now, rfail, ksbad, pc, cur, snap, cancelled, want, lock, pubcur, ust, intent, infl, rpOut>>
TRGet == /\ IsEvent("RGet") /\ pc = "pick" /\ rpOut = "none" /\ Ev.k \in todo
         /\ IF Ev.k = Self THEN TRUE ELSE (Self \notin todo /\ ksok = Ev.k)
         /\ Rec(Ev.rec) = ds[Ev.k] /\ attempted' = attempted \cup {Ev.k} /\ ksok' = ""
         /\ CASE ds[Ev.k].kind = "none" -> todo' = todo \ {Ev.k} /\ UNCHANGED <<pc, cur, snap, errs>>
              [] ds[Ev.k].kind = "bad"  -> todo' = todo \ {Ev.k} /\ errs' = errs \cup {Ev.k} /\ UNCHANGED <<pc, cur, snap>>
              [] OTHER -> pc' = "commit" /\ cur' = Ev.k /\ snap' = ds[Ev.k] /\ UNCHANGED <<todo, errs>>
         /\ UNCHANGED <<keep, ds, rt, now, rfail, ksbad, cancelled, want, lock, pubcur, ust, intent, infl, rpOut>>
\* the round returns: every key attempted (IDEAL), or the context was cancelled, or -- deviation -- a key failed
TRoundRet == /\ IsEvent("RoundRet") /\ pc = "pick" /\ rpOut = "none" /\ lock # "rp"
             /\ \/ todo = {} /\ Ev.err = (errs # {}) /\ dev' = dev
                \/ todo # {} /\ cancelled /\ Ev.err /\ dev' = dev
                \/ todo # {} /\ ~cancelled /\ errs # {} /\ Ev.err /\ DErrStop \in Devs /\ dev' = dev \cup {DErrStop}
             /\ pc' = "idle" /\ todo' = {}
             /\ UNCHANGED <<unused, ds, rt, now, rfail, ksbad, cur, snap, errs, attempted, cancelled, want, lock, pubcur, ust, intent, infl, ksok, rpOut>>

TNext == \/ TReset \/ TTick \/ TCancel \/ TSetRFail \/ TSetKsBad \/ TUCorrupt \/ TUCall
         \/ TPGetUser \/ TPGetRp \/ TPPutUser \/ TPPutRp \/ (\E u \in Users : TAbortUser(u)) \/ TAbortRp
         \/ TRtPutUser \/ TRtPutRp \/ TURet \/ TRpRet \/ TRoundStart \/ TKsGet \/ TRGet \/ TRoundRet
TSpec == TInit /\ [][TNext]_tvars

\* the properties, relaxed exactly where an accepted deviation is known to break them
TNewestWins == NewestWins \/ DStale \in dev
TSeqMonotone == [][(\A k \in Keys : IsRec(ds[k]) /\ IsRec(ds'[k]) => ds'[k].seq >= ds[k].seq /\ (ds'[k].seq = ds[k].seq => ds'[k].val = ds[k].val))
                   \/ DStale \in dev']_tvars
TNoRouteAfterCancel == [][(cancelled /\ cancelled' /\ rt' # rt) => (l <= Len(Trace) /\ Trace[l].ev = "RtPut" /\ Trace[l].who # "rp")]_tvars

DevReport == l <= Len(Trace) \/ \A d \in dev : PrintT(<<"DEV_USED", d>>)
TraceConstraint == TLCSet(1, IF l - 1 > TLCGet(1) THEN l - 1 ELSE TLCGet(1))
TracePost == PrintT(<<"TRACE_HWM", TLCGet(1)>>)
=============================================================================
