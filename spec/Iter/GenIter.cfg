SPECIFICATION GSpec
CONSTANTS MaxDepth = 3
          MaxLen = 3
          Vals <- MCVals
          Limits <- LimitsQ
          MaxClose = 2
          DocAlpha <- DocsQ
          DocLen = 2
          DocDepth = 1
          SimLen = 0
          SimLimits <- LimitsQ
INVARIANTS Emit
CHECK_DEADLOCK FALSE
