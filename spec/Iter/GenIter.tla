------------------------------- MODULE GenIter -------------------------------
(* Phase G.
   GSpec (exhaustive): one case per (layer chain, source kind); for EVERY value sequence up to
   MaxLen (and, for the JSON source, a malformed value at the middle position) the canonical
   drive  Next* (until false) ; Next ; Close(level c) ; Close(top)  is computed with the
   operational semantics of Iter and checked against the list semantics on the spot
   (GListLaw: TLC fails if the two ever differ), then printed.
   Every step carries what the harness must compare:
     r, v     result of Next (1 | 0) and the value Val must then return (twice)
     caps     per level j < Depth: the largest number of elements level j may have handed
              out so far (ReadAhead: yielded by the Limit above + 1), -1 = unconstrained
     mincl    per level: Close calls that must have arrived
   Structured documents (src "jsond" / "jsondbad"): every document sequence up to DocLen over DocAlpha
   under every chain up to DocDepth; xs are the documents, v / den the values Decode demands.  The
   harness keeps every value it was handed and compares ALL of them again after every later step
   (Iter!OutStable: what has been yielded never changes).                                          *)
EXTENDS Iter
CONSTANTS SimLen, SimLimits   \* GSpecSim: sequences up to SimLen, limits from SimLimits
VARIABLES case, hist, phase

Caps(t, s) == [j \in 1..Depth(t) |->
                 IF t.layers[j].k = "limit" /\ t.layers[j].n > 0 THEN G(s, j).pulls + 1 ELSE -1]
MinCl(s) == [i \in 1..Len(s) |-> s[i].closes]

\* a Next step is printed as <<r, v, caps>> (r = 1 | 0), a Close step as <<lvl, mincl>>
RECURSIVE Drive(_, _, _, _)
Drive(t, s, extra, acc) ==
    LET r == NextAt(t, Depth(t), s)
        e == <<IF r.ok THEN 1 ELSE 0, IF r.ok THEN ValAt(t, Depth(t), r.s) ELSE 0, Caps(t, r.s)>>
    IN  IF ~ReadAheadAt(t, r.s) THEN Assert(FALSE, <<"model violates ReadAhead", t>>)
        ELSE IF r.ok THEN Drive(t, r.s, extra, Append(acc, e))
        ELSE IF extra > 0 THEN Drive(t, r.s, extra - 1, Append(acc, e))
        ELSE [steps |-> Append(acc, e), s |-> r.s]

CloseLevel(t) == IF Depth(t) = 0 THEN 0 ELSE 1 + (Len(t.xs) % Depth(t))
Run(t) ==
    LET d  == Drive(t, InitSt(t), 1, <<>>)
        c1 == CloseAt(t, CloseLevel(t), d.s)
        c2 == CloseAt(t, Depth(t), c1)
    IN  [xs |-> t.xs, bad |-> t.bad, den |-> Denote(t), n |-> d.steps,
         c |-> << <<CloseLevel(t), MinCl(c1)>>, <<Depth(t), MinCl(c2)>> >>]
Yielded(run) == LET ys == SelectSeq(run.n, LAMBDA e : e[1] = 1) IN [i \in 1..Len(ys) |-> ys[i][2]]
\* shape of a complete drive: trues, then false twice
Shape(run) == /\ Len(run.n) >= 2 /\ run.n[Len(run.n)][1] = 0 /\ run.n[Len(run.n) - 1][1] = 0
              /\ \A i \in 1..(Len(run.n) - 2) : run.n[i][1] = 1

\* the JSON sources differ from the slice only at level 0: they are combined with chains up to MaxDepth-1
Cases == { [src |-> "slice", layers |-> ls] : ls \in UNION {[1..d -> Layers] : d \in 0..MaxDepth} } \cup
         { [src |-> src, layers |-> ls] : src \in {"json", "jsonbad"},
                                          ls \in UNION {[1..d -> Layers] : d \in 0..(MaxDepth - 1)} } \cup
         { [src |-> src, layers |-> ls] : src \in {"jsond", "jsondbad"},
                                          ls \in UNION {[1..d -> Layers] : d \in 0..DocDepth} }
SrcOf(c) == CASE c.src = "slice" -> "slice" [] c.src \in {"json", "jsonbad"} -> "json" [] OTHER -> "jsond"
BadCase(c) == c.src \in {"jsonbad", "jsondbad"}
TermsOf(c) == { [src |-> SrcOf(c), xs |-> xs,
                 bad |-> IF BadCase(c) THEN (Len(xs) + 1) \div 2 ELSE 0, layers |-> c.layers] :
                xs \in IF SrcOf(c) = "jsond" THEN DocSeqs(DocLen) ELSE Seqs(MaxLen) }
Runs(c) == { Run(t) : t \in {u \in TermsOf(c) : BadCase(c) => u.bad > 0} }

GInit == case \in Cases /\ hist = <<>> /\ phase = "case" /\ term = [src |-> "slice", xs |-> <<>>, bad |-> 0, layers |-> <<>>]
         /\ st = InitSt(term) /\ out = <<>> /\ last = "none" /\ fin = FALSE /\ nAfter = 0 /\ nClose = 0
GNext == UNCHANGED <<vars, case, hist, phase>>
GSpec == GInit /\ [][GNext]_<<vars, case, hist, phase>>
\* the operational runs agree with the list semantics (else TLC stops: the model is inconsistent)
Emit == LET rs == Runs(case)
        IN  /\ \A run \in rs : Yielded(run) = run.den /\ Shape(run)
            /\ PrintT(<<"BEHAVIOUR", ToJson([src |-> SrcOf(case),
                                              layers |-> case.layers, runs |-> rs])>>)

(* ---- simulation: sequences up to 50 values, limits -1..60, random drives -------------------------
   Build draws a random term; then Next | Val | Close(j) in random order (Close rarely, so that
   most drives run for a while); Flush prints the history and starts over.                       *)
SimLens == {0, 1, 2, 3, 5, 8, 13, 21, 34, 50}
RandLayer(i) == LET k == RandomElement({"map", "filter", "limit"})
             IN  CASE k = "map"    -> [k |-> k, f |-> RandomElement(Maps), p |-> "", n |-> 0]
                   [] k = "filter" -> [k |-> k, f |-> "", p |-> RandomElement(Preds), n |-> 0]
                   [] k = "limit"  -> [k |-> k, f |-> "", p |-> "", n |-> RandomElement(SimLimits)]
\* a document with every field drawn independently (the full product alphabet), now and then null
RandDoc(i) == IF RandomElement(1..8) = 1 THEN NullDoc
              ELSE Obj(RandomElement(AFields(NumsS)), RandomElement(BFields(ArrsT)), RandomElement(MFields(MapsT)))
RandTerm(src, n, d) ==
    [src |-> src, xs |-> IF src = "jsond" THEN [i \in 1..n |-> RandDoc(i)] ELSE [i \in 1..n |-> RandomElement(1..6)],
     bad |-> IF src # "slice" /\ n > 0 /\ RandomElement(1..3) = 1 THEN RandomElement(1..n) ELSE 0,
     layers |-> [i \in 1..d |-> RandLayer(i)]]
Fresh == /\ st = InitSt(term) /\ out = <<>> /\ last = "none" /\ fin = FALSE /\ nAfter = 0 /\ nClose = 0
SInit == /\ case = 0 /\ hist = <<>> /\ phase = "build"
         /\ term = [src |-> "slice", xs |-> <<>>, bad |-> 0, layers |-> <<>>] /\ Fresh
Build == /\ phase = "build"
         \* one random draw (state-dependent sets: TLC would evaluate a constant RandomElement only once)
         /\ \E src \in {RandomElement({x \in {"slice", "json", "jsond"} : Len(hist) >= 0})},
               n \in {RandomElement({m \in SimLens : m <= SimLen /\ Len(hist) >= 0})},
               d \in {RandomElement({x \in 0..MaxDepth : Len(hist) >= 0})} :
               term' = RandTerm(src, n, d)
         /\ st' = InitSt(term') /\ phase' = "drive"
         /\ UNCHANGED <<out, last, fin, nAfter, nClose, case, hist>>
SNextCall == /\ phase = "drive" /\ DoNext
             /\ hist' = Append(hist, [op |-> "Next", r |-> (last' = "t"), v |-> IF last' = "t" THEN out'[Len(out')] ELSE 0,
                                      caps |-> Caps(term, st')])
             /\ UNCHANGED <<case, phase>>
SVal == /\ phase = "drive" /\ DoVal /\ hist # <<>> /\ hist[Len(hist)].op # "Val"
        /\ hist' = Append(hist, [op |-> "Val", v |-> ValNow]) /\ UNCHANGED <<case, phase>>
SClose == /\ phase = "drive" /\ nClose < 2
          /\ (nClose > 0 \/ (fin /\ nAfter >= 1) \/ RandomElement(1..12) = 1)
          /\ \E j \in 0..MaxDepth :
                /\ j <= Depth(term) /\ (Depth(term) > 0 => j > 0) /\ DoClose(j)
                /\ hist' = Append(hist, [op |-> "Close", lvl |-> j, mincl |-> MinCl(st')])
          /\ UNCHANGED <<case, phase>>
Flush == /\ phase = "drive" /\ nClose = 2
         /\ PrintT(<<"BEHAVIOUR", ToJson([src |-> term.src, xs |-> term.xs, bad |-> term.bad, layers |-> term.layers, steps |-> hist])>>)
         /\ hist' = <<>> /\ phase' = "build" /\ term' = [src |-> "slice", xs |-> <<>>, bad |-> 0, layers |-> <<>>]
         /\ st' = InitSt(term') /\ out' = <<>> /\ last' = "none" /\ fin' = FALSE /\ nAfter' = 0 /\ nClose' = 0
         /\ UNCHANGED case
SNext == Build \/ SNextCall \/ SVal \/ SClose \/ Flush
GSpecSim == SInit /\ [][SNext]_<<vars, case, hist, phase>>
SimInv == phase = "drive" => (ListLaw /\ ValLaw /\ ReadAhead /\ CloseReaches)
=============================================================================
