SPECIFICATION GSpec
CONSTANTS MaxDepth = 4
          MaxLen = 4
          Vals <- MCVals
          Limits <- LimitsT
          SimLen = 0
          SimLimits <- LimitsQ
INVARIANTS Emit
CHECK_DEADLOCK FALSE
