SPECIFICATION GSpec
CONSTANTS MaxDepth = 2
          MaxLen = 5
          Vals <- MCVals
          Limits <- LimitsL
          MaxClose = 2
          DocAlpha <- DocsQ
          DocLen = 3
          DocDepth = 0
          SimLen = 0
          SimLimits <- LimitsQ
INVARIANTS Emit
CHECK_DEADLOCK FALSE
