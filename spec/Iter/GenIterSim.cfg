SPECIFICATION GSpecSim
CONSTANTS MaxDepth = 4
          MaxLen = 50
          Vals <- MCVals
          Limits <- LimitsSim
          MaxClose = 2
          SimLen = 50
          SimLimits <- LimitsSim
INVARIANTS SimInv
CHECK_DEADLOCK FALSE
