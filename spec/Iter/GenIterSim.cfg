SPECIFICATION GSpecSim
CONSTANTS MaxDepth = 4
          MaxLen = 50
          Vals <- MCVals
          Limits <- LimitsSim
          MaxClose = 2
          DocAlpha <- DocsT
          DocLen = 50
          DocDepth = 4
          SimLen = 50
          SimLimits <- LimitsSim
INVARIANTS SimInv
CHECK_DEADLOCK FALSE
