-------------------------------- MODULE Iter --------------------------------
(* C43 -- the routing iterator combinators of routing/http/types/iter.

   A composition is a source (FromSlice | FromReaderJSON over the value sequence xs) wrapped by
   a chain of layers Map(f) | Filter(p) | Limit(n); level 0 is the source, level j the j-th layer,
   level Depth the outermost iterator.  Public calls on a level: Next, Val, Close.

   Two descriptions are given and TLC checks that they agree:
     * Denote(t): what the composition MEANS -- plain list operations (map, filter, take-prefix);
     * NextAt / ValAt / CloseAt: what the combinators DO, call by call, with the per-level
       counters nexts (Next calls received), pulls (Next calls answered true) and closes.
   ListLaw / ReadAhead / CloseReaches state the property over the second in terms of the first.

   JSON source: values are decoded one by one; `bad` = position of a malformed value (0 = none):
   it is yielded as an error result (ErrVal) and ends the iteration.

   Element values come in two sorts.  src "slice" | "json": plain numbers.  src "jsond": the
   stream consists of STRUCTURED DOCUMENTS (top-level null, or an object whose fields a (number),
   b (array), m (object with keys x, y) are each omitted | null | given) and the element the
   iterator must yield for a document is Decode(doc): the decoding of THAT document alone --
   an omitted or null field is the zero value whatever the documents before it contained.
   The decoder of the library merges a document into its target (DecodeInto); the source must
   therefore hand it a fresh zero target for every element.  Values already yielded never change
   afterwards (OutStable): `out` only grows.                                                      *)
EXTENDS Integers, Sequences, FiniteSets, TLC, Json

CONSTANTS MaxDepth, MaxLen, Vals, Limits,
          MaxClose,   \* Close calls explored per run (1 or 2)
          DocAlpha,   \* alphabet of structured JSON documents (src "jsond")
          DocLen,     \* "jsond" streams have up to DocLen documents ...
          DocDepth    \* ... under chains of up to DocDepth layers

ErrVal == 99
\* configuration values (cfg files cannot write sets of negative numbers portably)
MCVals   == {1, 2}          \* one odd, one even value: all the predicates can distinguish
LimitsS  == -1..2
LimitsQ  == -1..3
LimitsT  == -1..4
LimitsL  == -1..6
LimitsSim == -1..60
Maps   == {"inc", "dbl"}
Preds  == {"true", "false", "even"}
Layers == [k : {"map"}, f : Maps, p : {""}, n : {0}] \cup
          [k : {"filter"}, f : {""}, p : Preds, n : {0}] \cup
          [k : {"limit"}, f : {""}, p : {""}, n : Limits]
Fi(f, x) == IF f = "inc" THEN x + 1 ELSE 2 * x
Pi(p, x) == CASE p = "true" -> TRUE [] p = "false" -> FALSE [] p = "even" -> x % 2 = 0
Min2(a, b) == IF a < b THEN a ELSE b

(* ---- structured JSON documents and their values ---------------------------------------------
   value    [a : Int, b : Seq(Int), m : [x, y : Int]]     (m.k = 0: key k is not in the map)
   document NullDoc | Obj(fa, fb, fm), a field being [k : "absent" | "null" | "val", v : value of the field]
            (v is the zero value unless k = "val"; in a given object m.v, 0 = key not written)          *)
NoMap   == [x |-> 0, y |-> 0]
ZeroVal == [a |-> 0, b |-> <<>>, m |-> NoMap]
ErrDoc  == [a |-> ErrVal, b |-> <<>>, m |-> NoMap]
Fld(k, v) == [k |-> k, v |-> v]
AFields(nums) == {Fld("absent", 0), Fld("null", 0)} \cup {Fld("val", n) : n \in nums}
BFields(arrs) == {Fld("absent", <<>>), Fld("null", <<>>)} \cup {Fld("val", q) : q \in arrs}
MFields(maps) == {Fld("absent", NoMap), Fld("null", NoMap)} \cup {Fld("val", mp) : mp \in maps}
NullDoc == [null |-> TRUE, a |-> Fld("absent", 0), b |-> Fld("absent", <<>>), m |-> Fld("absent", NoMap)]
Obj(fa, fb, fm) == [null |-> FALSE, a |-> fa, b |-> fb, m |-> fm]
AllDocs(nums, arrs, maps) == {NullDoc} \cup {Obj(fa, fb, fm) : fa \in AFields(nums), fb \in BFields(arrs), fm \in MFields(maps)}
Present(d) == Cardinality({f \in {"a", "b", "m"} : d[f].k # "absent"})

\* THE RULE: the element of a document is read off that document alone
Decode(d) == IF d.null THEN ZeroVal
             ELSE [a |-> IF d.a.k = "val" THEN d.a.v ELSE 0,
                   b |-> IF d.b.k = "val" THEN d.b.v ELSE <<>>,
                   m |-> IF d.m.k = "val" THEN d.m.v ELSE NoMap]
\* what the library decoder does with a target that already holds prev (encoding/json Unmarshal rules):
\* null into a struct or a number: no effect; null into a slice or map: nil; an omitted field is not
\* touched; an array replaces the slice contents; an object is merged into an existing map
DecodeInto(prev, d) ==
    IF d.null THEN prev
    ELSE [a |-> IF d.a.k = "val" THEN d.a.v ELSE prev.a,
          b |-> CASE d.b.k = "val" -> d.b.v [] d.b.k = "null" -> <<>> [] OTHER -> prev.b,
          m |-> CASE d.m.k = "val" -> [key \in {"x", "y"} |-> IF d.m.v[key] # 0 THEN d.m.v[key] ELSE prev.m[key]]
                  [] d.m.k = "null" -> NoMap [] OTHER -> prev.m]
\* An alphabet D covers the class "the element depends on earlier documents" when it has a witness for every
\* way a retained target can leak: null document, omitted / null number, omitted array, omitted map, map key
\* not rewritten, and an array that fits into the storage of an earlier, different one (overwrites it in place)
Discriminating(D) ==
    /\ \A d \in D : DecodeInto(ZeroVal, d) = Decode(d)
    /\ \E p, d \in D : d.null /\ Decode(p) # ZeroVal
    /\ \E p, d \in D : ~d.null /\ d.a.k = "absent" /\ Decode(p).a # 0
    /\ \E p, d \in D : ~d.null /\ d.a.k = "null" /\ Decode(p).a # 0
    /\ \E p, d \in D : ~d.null /\ d.b.k = "absent" /\ Decode(p).b # <<>>
    /\ \E p, d \in D : ~d.null /\ d.m.k = "absent" /\ Decode(p).m # NoMap
    /\ \E p, d \in D : /\ ~p.null /\ ~d.null /\ p.m.k = "val" /\ d.m.k = "val"
                        /\ \E key \in {"x", "y"} : p.m.v[key] # 0 /\ d.m.v[key] = 0
    /\ \E p, d \in D : /\ ~p.null /\ ~d.null /\ p.b.k = "val" /\ d.b.k = "val"
                        /\ 0 < Len(d.b.v) /\ Len(d.b.v) <= Len(p.b.v) /\ SubSeq(p.b.v, 1, Len(d.b.v)) # d.b.v
    /\ \E p, d \in D : Present(p) = 3 /\ Present(d) = 3 /\ Decode(p) # Decode(d)
\* configuration alphabets
NumsS == {1, 2}
ArrsS == {<<>>, <<1>>, <<2, 1>>, <<1, 2, 2>>}
MapsS == {NoMap, [x |-> 1, y |-> 0], [x |-> 0, y |-> 2], [x |-> 2, y |-> 1]}
ArrsT == UNION {[1..n -> {1, 2}] : n \in 0..2} \cup {<<1, 2, 2>>}
MapsT == [x : 0..2, y : 0..2]
FullS == {Obj(Fld("val", 2), Fld("val", <<2, 1>>), Fld("val", [x |-> 2, y |-> 1])),
          Obj(Fld("val", 1), Fld("val", <<1>>), Fld("val", [x |-> 1, y |-> 0]))}
\* null, {}, every object with exactly one field written (null or given), two fully populated objects
DocsQ == {d \in AllDocs(NumsS, ArrsS, MapsS) : d.null \/ Present(d) <= 1} \cup FullS
DocsT == {d \in AllDocs(NumsS, ArrsT, MapsT) : d.null \/ Present(d) <= 1} \cup FullS
\* a smallest alphabet with all the witnesses (exhaustive interleavings in phase M)
DocsM == LET A0 == Fld("absent", 0)  B0 == Fld("absent", <<>>)  M0 == Fld("absent", NoMap)
         IN  {NullDoc, Obj(A0, B0, M0), Obj(Fld("null", 0), B0, M0), Obj(Fld("val", 1), B0, M0),
              Obj(A0, Fld("val", <<2, 1>>), M0), Obj(A0, Fld("val", <<1>>), M0),
              Obj(A0, B0, Fld("val", [x |-> 2, y |-> 1])), Obj(A0, B0, Fld("val", [x |-> 1, y |-> 0]))} \cup FullS
ASSUME Discriminating(DocAlpha)

IsDoc(t)  == t.src = "jsond"
IsJSON(t) == t.src \in {"json", "jsond"}
Err(t)    == IF IsDoc(t) THEN ErrDoc ELSE ErrVal
\* Map functions and Filter predicates act on the number of a plain element / on field a of a structured one
F(t, f, x) == IF IsDoc(t) THEN [x EXCEPT !.a = Fi(f, @)] ELSE Fi(f, x)
P(t, p, x) == Pi(p, IF IsDoc(t) THEN x.a ELSE x)
\* the i-th element of the source: the independent reading of the i-th value / document
Elem(t, i) == IF IsJSON(t) /\ i = t.bad THEN Err(t) ELSE IF IsDoc(t) THEN Decode(t.xs[i]) ELSE t.xs[i]

Depth(t) == Len(t.layers)

(* ---- list semantics ---------------------------------------------------------------- *)
Base(t) == [i \in 1..(IF IsJSON(t) /\ t.bad > 0 THEN t.bad ELSE Len(t.xs)) |-> Elem(t, i)]
Apply(t, ly, q) ==
    CASE ly.k = "map"    -> [i \in 1..Len(q) |-> F(t, ly.f, q[i])]
      [] ly.k = "filter" -> SelectSeq(q, LAMBDA v : P(t, ly.p, v))
      [] ly.k = "limit"  -> IF ly.n <= 0 THEN q ELSE SubSeq(q, 1, Min2(ly.n, Len(q)))   \* n <= 0 : no limit
RECURSIVE DenoteTo(_, _)
DenoteTo(t, j) == IF j = 0 THEN Base(t) ELSE Apply(t, t.layers[j], DenoteTo(t, j - 1))
Denote(t) == DenoteTo(t, Depth(t))

(* ---- operational semantics (per-level state) ------------------------------------------ *)
Lvl0 == [done |-> FALSE, count |-> 0, val |-> 0, nexts |-> 0, pulls |-> 0, closes |-> 0]
InitSt(t) == [j \in 1..(Depth(t) + 1) |-> Lvl0]          \* level j is stored at index j+1
G(s, j) == s[j + 1]
Upd(s, j, r) == [s EXCEPT ![j + 1] = r]
Res(ok, s) == [ok |-> ok, s |-> s]

RECURSIVE ValAt(_, _, _)
ValAt(t, j, s) == IF j = 0 THEN G(s, 0).val
                  ELSE IF t.layers[j].k = "limit" THEN ValAt(t, j - 1, s)      \* LimitIter.Val delegates
                  ELSE G(s, j).val

SrcNext(t, s) ==
    LET r == [G(s, 0) EXCEPT !.nexts = @ + 1]
    IN  IF t.src = "slice" THEN                                      \* SliceIter: i++ on every call
            IF r.nexts > Len(t.xs) THEN Res(FALSE, Upd(s, 0, r))
            ELSE Res(TRUE, Upd(s, 0, [r EXCEPT !.pulls = @ + 1, !.val = t.xs[r.nexts]]))
        ELSE                                                         \* JSONIter
            IF r.done THEN Res(FALSE, Upd(s, 0, r))
            ELSE IF r.pulls + 1 > Len(t.xs) THEN Res(FALSE, Upd(s, 0, [r EXCEPT !.done = TRUE]))     \* io.EOF
            ELSE IF r.pulls + 1 = t.bad THEN Res(TRUE, Upd(s, 0, [r EXCEPT !.pulls = @ + 1, !.val = Err(t), !.done = TRUE]))
            ELSE Res(TRUE, Upd(s, 0, [r EXCEPT !.pulls = @ + 1,                      \* `var val T` : a FRESH target per element
                                               !.val = IF IsDoc(t) THEN DecodeInto(ZeroVal, t.xs[r.pulls + 1]) ELSE t.xs[r.pulls + 1]]))

RECURSIVE NextAt(_, _, _), FilterLoop(_, _, _)
NextAt(t, j, s) ==
    IF j = 0 THEN SrcNext(t, s)
    ELSE LET ly == t.layers[j]
             r  == [G(s, j) EXCEPT !.nexts = @ + 1]
             s1 == Upd(s, j, r)
         IN  CASE ly.k = "map" ->
                    IF r.done THEN Res(FALSE, s1)
                    ELSE LET in == NextAt(t, j - 1, s1)
                         IN  IF ~in.ok THEN Res(FALSE, Upd(in.s, j, [r EXCEPT !.done = TRUE]))
                             ELSE Res(TRUE, Upd(in.s, j, [r EXCEPT !.val = F(t, ly.f, ValAt(t, j - 1, in.s)), !.pulls = @ + 1]))
               [] ly.k = "filter" -> FilterLoop(t, j, s1)
               [] ly.k = "limit" ->
                    IF ly.n > 0 /\ r.count >= ly.n THEN Res(FALSE, s1)          \* checked BEFORE touching the inner iterator
                    ELSE LET in == NextAt(t, j - 1, s1)
                         IN  IF ~in.ok THEN Res(FALSE, in.s)
                             ELSE Res(TRUE, Upd(in.s, j, [r EXCEPT !.count = @ + 1, !.pulls = @ + 1]))
FilterLoop(t, j, s) ==
    LET r == G(s, j)
    IN  IF r.done THEN Res(FALSE, s)
        ELSE LET in == NextAt(t, j - 1, s)
             IN  IF ~in.ok THEN Res(FALSE, Upd(in.s, j, [r EXCEPT !.done = TRUE]))
                 ELSE LET v == ValAt(t, j - 1, in.s)
                      IN  IF P(t, t.layers[j].p, v)
                              THEN Res(TRUE, Upd(in.s, j, [r EXCEPT !.val = v, !.pulls = @ + 1]))
                              ELSE FilterLoop(t, j, Upd(in.s, j, [r EXCEPT !.val = v]))

\* Close on level j cascades down to the source; the JSON source also stops iterating
CloseAt(t, j, s) ==
    [i \in 1..Len(s) |->
        IF i > j + 1 THEN s[i]
        ELSE IF i = 1 /\ IsJSON(t) THEN [s[i] EXCEPT !.closes = @ + 1, !.done = TRUE]
        ELSE [s[i] EXCEPT !.closes = @ + 1]]

(* ---- the state machine (one action per public call on the composition) ------------------ *)
VARIABLES term,    \* [src, xs, bad, layers]
          st,      \* per-level state
          out,     \* values yielded by the outermost iterator so far
          last,    \* result of the latest outer Next: "none" | "t" | "f"
          fin,     \* an outer Next has returned false
          nAfter,  \* outer Next calls made after that
          nClose   \* Close calls so far
vars == <<term, st, out, last, fin, nAfter, nClose>>

Seqs(n) == UNION {[1..m -> Vals] : m \in 0..n}
Terms == { [src |-> src, xs |-> xs, bad |-> bad, layers |-> ls] :
             src \in {"slice", "json"}, xs \in Seqs(MaxLen), bad \in 0..MaxLen,
             ls \in UNION {[1..d -> Layers] : d \in 0..MaxDepth} }
DocSeqs(n) == UNION {[1..m -> DocAlpha] : m \in 0..n}
DocTerms == { [src |-> "jsond", xs |-> xs, bad |-> bad, layers |-> ls] :
                xs \in DocSeqs(DocLen), bad \in 0..DocLen,
                ls \in UNION {[1..d -> Layers] : d \in 0..DocDepth} }
WellFormed(t) == t.bad <= Len(t.xs) /\ (t.src = "slice" => t.bad = 0)

Init == /\ term \in {t \in Terms \cup DocTerms : WellFormed(t)}
        /\ st = InitSt(term) /\ out = <<>> /\ last = "none" /\ fin = FALSE /\ nAfter = 0 /\ nClose = 0

DoNext == /\ nClose = 0 /\ (fin => nAfter < 1)
          /\ LET r == NextAt(term, Depth(term), st)
             IN  /\ st' = r.s
                 /\ last' = IF r.ok THEN "t" ELSE "f"
                 /\ out' = IF r.ok THEN Append(out, ValAt(term, Depth(term), r.s)) ELSE out
                 /\ fin' = (fin \/ ~r.ok)
          /\ nAfter' = IF fin THEN nAfter + 1 ELSE nAfter
          /\ UNCHANGED <<term, nClose>>
\* Val is a pure observation: it returns ValAt and changes nothing
DoVal == last = "t" /\ nClose = 0 /\ UNCHANGED vars
ValNow == ValAt(term, Depth(term), st)
DoClose(j) == /\ nClose < MaxClose /\ j \in 0..Depth(term)
              /\ st' = CloseAt(term, j, st) /\ nClose' = nClose + 1 /\ last' = "none"
              /\ UNCHANGED <<term, out, fin, nAfter>>

Next == DoNext \/ (\E j \in 0..MaxDepth : DoClose(j))
Spec == Init /\ [][Next]_vars

(* ---- the property ------------------------------------------------------------------------ *)
IsPrefix(a, b) == Len(a) <= Len(b) /\ \A i \in 1..Len(a) : a[i] = b[i]
\* yielded values = the list the composition denotes (a prefix while running, all of it at the end,
\* and nothing more after the end)
ListLaw == IsPrefix(out, Denote(term)) /\ (fin => out = Denote(term))
ValLaw  == last = "t" => (out # <<>> /\ ValNow = out[Len(out)])
\* the value the source currently holds is the independent reading of the element at ITS position, whatever came before
SrcLaw  == G(st, 0).pulls > 0 => G(st, 0).val = Elem(term, G(st, 0).pulls)
\* values already yielded never change: later calls only append to what has been handed out
OutStable == [][IsPrefix(out, out')]_vars
\* every level yields a prefix of what the sub-composition denotes
LevelLaw == \A j \in 0..Depth(term) : G(st, j).pulls <= Len(DenoteTo(term, j))
\* a limited iterator never pulls more than one element beyond what it yields from the iterator below
ReadAheadAt(t, s) == \A j \in 1..Depth(t) :
                        (t.layers[j].k = "limit" /\ t.layers[j].n > 0) =>
                            /\ G(s, j - 1).pulls <= G(s, j).pulls + 1
                            /\ G(s, j).pulls <= t.layers[j].n
ReadAhead == ReadAheadAt(term, st)
\* every Close of a composed iterator reaches every iterator below it, down to the source
CloseReaches == \A j \in 1..Depth(term) : G(st, j - 1).closes >= G(st, j).closes
ClosedOnce   == nClose > 0 => G(st, 0).closes >= 1
TypeOK == /\ Len(st) = Depth(term) + 1 /\ last \in {"none", "t", "f"} /\ nClose \in 0..2
          /\ Len(out) <= Len(term.xs)
=============================================================================
