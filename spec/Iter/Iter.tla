-------------------------------- MODULE Iter --------------------------------
(* C43 -- the routing iterator combinators of routing/http/types/iter.

   A composition is a source (FromSlice | FromReaderJSON over the value sequence xs) wrapped by
   a chain of layers Map(f) | Filter(p) | Limit(n); level 0 is the source, level j the j-th layer,
   level Depth the outermost iterator.  Public calls on a level: Next, Val, Close.

   Two descriptions are given and TLC checks that they agree:
     * Denote(t): what the composition MEANS -- plain list operations (map, filter, take-prefix);
     * NextAt / ValAt / CloseAt: what the combinators DO, call by call, with the per-level
       counters nexts (Next calls received), pulls (Next calls answered true) and closes.
   ListLaw / ReadAhead / CloseReaches state the property over the second in terms of the first.

   JSON source: values are decoded one by one; `bad` = position of a malformed value (0 = none):
   it is yielded as an error result (ErrVal) and ends the iteration.                              *)
EXTENDS Integers, Sequences, FiniteSets, TLC, Json

CONSTANTS MaxDepth, MaxLen, Vals, Limits,
          MaxClose    \* Close calls explored per run (1 or 2)

ErrVal == 99
\* configuration values (cfg files cannot write sets of negative numbers portably)
MCVals   == {1, 2}          \* one odd, one even value: all the predicates can distinguish
LimitsS  == -1..2
LimitsQ  == -1..3
LimitsT  == -1..4
LimitsL  == -1..6
LimitsSim == -1..60
Maps   == {"inc", "dbl"}
Preds  == {"true", "false", "even"}
Layers == [k : {"map"}, f : Maps, p : {""}, n : {0}] \cup
          [k : {"filter"}, f : {""}, p : Preds, n : {0}] \cup
          [k : {"limit"}, f : {""}, p : {""}, n : Limits]
F(f, x) == IF f = "inc" THEN x + 1 ELSE 2 * x
P(p, x) == CASE p = "true" -> TRUE [] p = "false" -> FALSE [] p = "even" -> x % 2 = 0
Min2(a, b) == IF a < b THEN a ELSE b

Depth(t) == Len(t.layers)

(* ---- list semantics ---------------------------------------------------------------- *)
Base(t) == IF t.src = "json" /\ t.bad > 0 THEN SubSeq(t.xs, 1, t.bad - 1) \o <<ErrVal>> ELSE t.xs
Apply(ly, q) ==
    CASE ly.k = "map"    -> [i \in 1..Len(q) |-> F(ly.f, q[i])]
      [] ly.k = "filter" -> SelectSeq(q, LAMBDA v : P(ly.p, v))
      [] ly.k = "limit"  -> IF ly.n <= 0 THEN q ELSE SubSeq(q, 1, Min2(ly.n, Len(q)))   \* n <= 0 : no limit
RECURSIVE DenoteTo(_, _)
DenoteTo(t, j) == IF j = 0 THEN Base(t) ELSE Apply(t.layers[j], DenoteTo(t, j - 1))
Denote(t) == DenoteTo(t, Depth(t))

(* ---- operational semantics (per-level state) ------------------------------------------ *)
Lvl0 == [done |-> FALSE, count |-> 0, val |-> 0, nexts |-> 0, pulls |-> 0, closes |-> 0]
InitSt(t) == [j \in 1..(Depth(t) + 1) |-> Lvl0]          \* level j is stored at index j+1
G(s, j) == s[j + 1]
Upd(s, j, r) == [s EXCEPT ![j + 1] = r]
Res(ok, s) == [ok |-> ok, s |-> s]

RECURSIVE ValAt(_, _, _)
ValAt(t, j, s) == IF j = 0 THEN G(s, 0).val
                  ELSE IF t.layers[j].k = "limit" THEN ValAt(t, j - 1, s)      \* LimitIter.Val delegates
                  ELSE G(s, j).val

SrcNext(t, s) ==
    LET r == [G(s, 0) EXCEPT !.nexts = @ + 1]
    IN  IF t.src = "slice" THEN                                      \* SliceIter: i++ on every call
            IF r.nexts > Len(t.xs) THEN Res(FALSE, Upd(s, 0, r))
            ELSE Res(TRUE, Upd(s, 0, [r EXCEPT !.pulls = @ + 1, !.val = t.xs[r.nexts]]))
        ELSE                                                         \* JSONIter
            IF r.done THEN Res(FALSE, Upd(s, 0, r))
            ELSE IF r.pulls + 1 > Len(t.xs) THEN Res(FALSE, Upd(s, 0, [r EXCEPT !.done = TRUE]))     \* io.EOF
            ELSE IF r.pulls + 1 = t.bad THEN Res(TRUE, Upd(s, 0, [r EXCEPT !.pulls = @ + 1, !.val = ErrVal, !.done = TRUE]))
            ELSE Res(TRUE, Upd(s, 0, [r EXCEPT !.pulls = @ + 1, !.val = t.xs[r.pulls + 1]]))

RECURSIVE NextAt(_, _, _), FilterLoop(_, _, _)
NextAt(t, j, s) ==
    IF j = 0 THEN SrcNext(t, s)
    ELSE LET ly == t.layers[j]
             r  == [G(s, j) EXCEPT !.nexts = @ + 1]
             s1 == Upd(s, j, r)
         IN  CASE ly.k = "map" ->
                    IF r.done THEN Res(FALSE, s1)
                    ELSE LET in == NextAt(t, j - 1, s1)
                         IN  IF ~in.ok THEN Res(FALSE, Upd(in.s, j, [r EXCEPT !.done = TRUE]))
                             ELSE Res(TRUE, Upd(in.s, j, [r EXCEPT !.val = F(ly.f, ValAt(t, j - 1, in.s)), !.pulls = @ + 1]))
               [] ly.k = "filter" -> FilterLoop(t, j, s1)
               [] ly.k = "limit" ->
                    IF ly.n > 0 /\ r.count >= ly.n THEN Res(FALSE, s1)          \* checked BEFORE touching the inner iterator
                    ELSE LET in == NextAt(t, j - 1, s1)
                         IN  IF ~in.ok THEN Res(FALSE, in.s)
                             ELSE Res(TRUE, Upd(in.s, j, [r EXCEPT !.count = @ + 1, !.pulls = @ + 1]))
FilterLoop(t, j, s) ==
    LET r == G(s, j)
    IN  IF r.done THEN Res(FALSE, s)
        ELSE LET in == NextAt(t, j - 1, s)
             IN  IF ~in.ok THEN Res(FALSE, Upd(in.s, j, [r EXCEPT !.done = TRUE]))
                 ELSE LET v == ValAt(t, j - 1, in.s)
                      IN  IF P(t.layers[j].p, v)
                              THEN Res(TRUE, Upd(in.s, j, [r EXCEPT !.val = v, !.pulls = @ + 1]))
                              ELSE FilterLoop(t, j, Upd(in.s, j, [r EXCEPT !.val = v]))

\* Close on level j cascades down to the source; the JSON source also stops iterating
CloseAt(t, j, s) ==
    [i \in 1..Len(s) |->
        IF i > j + 1 THEN s[i]
        ELSE IF i = 1 /\ t.src = "json" THEN [s[i] EXCEPT !.closes = @ + 1, !.done = TRUE]
        ELSE [s[i] EXCEPT !.closes = @ + 1]]

(* ---- the state machine (one action per public call on the composition) ------------------ *)
VARIABLES term,    \* [src, xs, bad, layers]
          st,      \* per-level state
          out,     \* values yielded by the outermost iterator so far
          last,    \* result of the latest outer Next: "none" | "t" | "f"
          fin,     \* an outer Next has returned false
          nAfter,  \* outer Next calls made after that
          nClose   \* Close calls so far
vars == <<term, st, out, last, fin, nAfter, nClose>>

Seqs(n) == UNION {[1..m -> Vals] : m \in 0..n}
Terms == { [src |-> src, xs |-> xs, bad |-> bad, layers |-> ls] :
             src \in {"slice", "json"}, xs \in Seqs(MaxLen), bad \in 0..MaxLen,
             ls \in UNION {[1..d -> Layers] : d \in 0..MaxDepth} }
WellFormed(t) == t.bad <= Len(t.xs) /\ (t.src = "slice" => t.bad = 0)

Init == /\ term \in {t \in Terms : WellFormed(t)}
        /\ st = InitSt(term) /\ out = <<>> /\ last = "none" /\ fin = FALSE /\ nAfter = 0 /\ nClose = 0

DoNext == /\ nClose = 0 /\ (fin => nAfter < 1)
          /\ LET r == NextAt(term, Depth(term), st)
             IN  /\ st' = r.s
                 /\ last' = IF r.ok THEN "t" ELSE "f"
                 /\ out' = IF r.ok THEN Append(out, ValAt(term, Depth(term), r.s)) ELSE out
                 /\ fin' = (fin \/ ~r.ok)
          /\ nAfter' = IF fin THEN nAfter + 1 ELSE nAfter
          /\ UNCHANGED <<term, nClose>>
\* Val is a pure observation: it returns ValAt and changes nothing
DoVal == last = "t" /\ nClose = 0 /\ UNCHANGED vars
ValNow == ValAt(term, Depth(term), st)
DoClose(j) == /\ nClose < MaxClose /\ j \in 0..Depth(term)
              /\ st' = CloseAt(term, j, st) /\ nClose' = nClose + 1 /\ last' = "none"
              /\ UNCHANGED <<term, out, fin, nAfter>>

Next == DoNext \/ (\E j \in 0..MaxDepth : DoClose(j))
Spec == Init /\ [][Next]_vars

(* ---- the property ------------------------------------------------------------------------ *)
IsPrefix(a, b) == Len(a) <= Len(b) /\ \A i \in 1..Len(a) : a[i] = b[i]
\* yielded values = the list the composition denotes (a prefix while running, all of it at the end,
\* and nothing more after the end)
ListLaw == IsPrefix(out, Denote(term)) /\ (fin => out = Denote(term))
ValLaw  == last = "t" => (out # <<>> /\ ValNow = out[Len(out)])
\* every level yields a prefix of what the sub-composition denotes
LevelLaw == \A j \in 0..Depth(term) : G(st, j).pulls <= Len(DenoteTo(term, j))
\* a limited iterator never pulls more than one element beyond what it yields from the iterator below
ReadAheadAt(t, s) == \A j \in 1..Depth(t) :
                        (t.layers[j].k = "limit" /\ t.layers[j].n > 0) =>
                            /\ G(s, j - 1).pulls <= G(s, j).pulls + 1
                            /\ G(s, j).pulls <= t.layers[j].n
ReadAhead == ReadAheadAt(term, st)
\* every Close of a composed iterator reaches every iterator below it, down to the source
CloseReaches == \A j \in 1..Depth(term) : G(st, j - 1).closes >= G(st, j).closes
ClosedOnce   == nClose > 0 => G(st, 0).closes >= 1
TypeOK == /\ Len(st) = Depth(term) + 1 /\ last \in {"none", "t", "f"} /\ nClose \in 0..2
          /\ Len(out) <= MaxLen
=============================================================================
