SPECIFICATION Spec
CONSTANTS MaxDepth = 2
          MaxLen = 2
          Vals <- MCVals
          Limits <- LimitsS
          MaxClose = 2
          DocAlpha <- DocsM
          DocLen = 2
          DocDepth = 0
INVARIANTS TypeOK ListLaw ValLaw SrcLaw LevelLaw ReadAhead CloseReaches ClosedOnce
PROPERTIES OutStable
CHECK_DEADLOCK FALSE
