SPECIFICATION Spec
CONSTANTS MaxDepth = 2
          MaxLen = 2
          Vals <- MCVals
          Limits <- LimitsS
          MaxClose = 2
INVARIANTS TypeOK ListLaw ValLaw LevelLaw ReadAhead CloseReaches ClosedOnce
CHECK_DEADLOCK FALSE
