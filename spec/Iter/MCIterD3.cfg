SPECIFICATION Spec
CONSTANTS MaxDepth = 3
          MaxLen = 3
          Vals <- MCVals
          Limits <- LimitsQ
          MaxClose = 1
          DocAlpha <- DocsM
          DocLen = 2
          DocDepth = 1
INVARIANTS TypeOK ListLaw ValLaw SrcLaw LevelLaw ReadAhead CloseReaches ClosedOnce
PROPERTIES OutStable
CHECK_DEADLOCK FALSE
