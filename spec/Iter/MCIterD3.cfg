SPECIFICATION Spec
CONSTANTS MaxDepth = 3
          MaxLen = 3
          Vals <- MCVals
          Limits <- LimitsQ
          MaxClose = 1
INVARIANTS TypeOK ListLaw ValLaw LevelLaw ReadAhead CloseReaches ClosedOnce
CHECK_DEADLOCK FALSE
