SPECIFICATION Spec
CONSTANTS MaxDepth = 3
          MaxLen = 3
          Vals <- MCVals
          Limits <- LimitsT
INVARIANTS TypeOK ListLaw ValLaw LevelLaw ReadAhead CloseReaches ClosedOnce
CHECK_DEADLOCK FALSE
