SPECIFICATION GSpec
CONSTANTS Normal = {"n1", "n2"}
          Escaping = {}
          Long = {"nL"}
          Empty = {"nE"}
          Keys = {1, 2}
          BadKeys = {7}
          EncodeOn = TRUE
          D = 3
          E = 3
INVARIANTS Emit ResultsAgree Refines Confined BadNeverStored
