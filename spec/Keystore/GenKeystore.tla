----------------------------- MODULE GenKeystore -----------------------------
(* Phase G: every mutator history (Put / Delete / Reopen) of Keystore to depth D, printed as JSON
   with, per step, the result class each implementation must report (fs, mem; fsok = the set of
   classes acceptable where a Put is refused for two reasons at once), the as-built
   alternative of an open deviation where one applies (memdev), and the map after the step.
   The harness runs the whole query battery (Has, Get on every name, List, listing of the
   keystore directory and of its parent) on both keystores after every step and compares it
   with that map, so the query actions need not be enumerated here.                          *)
EXTENDS Keystore
CONSTANTS D,  \* bound on behaviour length (BFS)
          E   \* emit when Len(hist) = E (E = D for BFS; E < D for -simulate)
VARIABLE hist
gvars == <<vars, hist>>

GInit == Init /\ hist = <<>>
\* as-built MemKeystore.Delete reports success for a missing key (Dev_C40_MemDeleteMissingOk)
MemDev(op, n) == IF op = "Delete" /\ n \notin Long /\ mem[n] = NoKey THEN "ok" ELSE ""
\* fs = the class in the order of the checks of the code, fsok = every class the spec lets the call report
Step(op, n, fsok) == hist' = Append(hist, [op |-> op, n |-> n, k |-> res'.k, fs |-> res'.fs, fsok |-> fsok, mem |-> res'.mem,
                                           memdev |-> MemDev(op, n), m |-> m'])

GNext == /\ Len(hist) < D
         /\ \/ \E n \in Names : \/ \E k \in PutKeys : PutR(n, k, CodeOrder(PutFs(n, k))) /\ Step("Put", n, PutFs(n, k))
                                \/ Delete(n) /\ Step("Delete", n, {res'.fs})
            \/ Reopen /\ Step("Reopen", "", {"ok"})
GSpec == GInit /\ [][GNext]_gvars

Flush == /\ Len(hist) = E
         /\ PrintT(<<"BEHAVIOUR", ToJson([steps |-> hist])>>)
         /\ hist' = <<>> /\ m' = M0 /\ disk' = Disk0 /\ mem' = M0 /\ res' = NoRes
GNextSim == IF Len(hist) = E THEN Flush ELSE GNext
GSpecSim == GInit /\ [][GNextSim]_gvars

Emit == Len(hist) # E \/ PrintT(<<"BEHAVIOUR", ToJson([steps |-> hist])>>)
=============================================================================
