SPECIFICATION GSpec
CONSTANTS Normal = {"n1", "n2"}
          Escaping = {}
          Long = {"nL"}
          Empty = {"nE"}
          Keys = {1, 2}
          BadKeys = {}
          EncodeOn = TRUE
          D = 4
          E = 4
INVARIANTS Emit ResultsAgree Refines Confined BadNeverStored
