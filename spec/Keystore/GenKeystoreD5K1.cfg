SPECIFICATION GSpec
CONSTANTS Normal = {"n1", "n2"}
          Escaping = {}
          Long = {"nL"}
          Empty = {"nE"}
          Keys = {1}
          BadKeys = {}
          EncodeOn = TRUE
          D = 5
          E = 5
INVARIANTS Emit ResultsAgree Refines Confined BadNeverStored
