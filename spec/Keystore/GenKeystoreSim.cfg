SPECIFICATION GSpecSim
CONSTANTS Normal = {"n1", "n2", "n3", "n4", "n5", "n6", "n7", "n8"}
          Escaping = {}
          Long = {"nL"}
          Empty = {"nE"}
          Keys = {1, 2}
          BadKeys = {7}
          EncodeOn = TRUE
          D = 100000
          E = 40
