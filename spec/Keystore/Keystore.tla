------------------------------- MODULE Keystore -------------------------------
(* C40 -- the key store as a confined name -> key map.

   Three layers, one action per public call of keystore/keystore.go (FSKeystore) and
   keystore/memkeystore.go (MemKeystore), both driven in lock-step:

     m     the PROPERTY: an abstract map Names -> Keys (0 = absent) that refuses to overwrite;
     disk  what FSKeystore does: a file system of paths  <<"in", n>>  (the file Encode(n) inside
           the keystore directory) and  <<"out", n>>  (the place OUTSIDE the directory the raw
           name n would resolve to if it were joined to the directory without encoding; every
           such place holds a decoy key that was never Put);
     mem   what MemKeystore does (a Go map).

   Every action computes the result CLASS of both implementations from disk / mem and the class
   the map m dictates (res.want); the invariants say they coincide, that nothing outside the
   directory changes or is read, and that disk restricted to the directory is exactly m.

   Names:  Normal  ordinary (any non-empty byte string whose encoded file name fits NAME_MAX;
                   Escaping \subseteq Normal are those whose RAW form leaves the directory:
                   "../x", "..", "/abs" ...)
           Long    non-empty names whose encoded file name exceeds NAME_MAX (the FS refuses;
                   the memory keystore is not driven with them: outside the property's range)
           Empty   the empty name (Put must refuse; other calls are outside the property).
   EncodeOn = TRUE is the code (base32 file names); FALSE is the non-vacuity control: with raw
   names as file names TLC must find Confined / ResultsAgree violated.

   Keys:   Keys     proper private keys (marshal / unmarshal faithfully);
           BadKeys  values of the key TYPE that are not keys: serialising them fails (a
                    ci.PrivKey whose Raw() errors).  A map cannot store them: Put refuses with
                    class "invalid" (= any error but exists / not-found) and -- like EVERY refused call -- changes nothing
                    (FailedCallChangesNothing).  The memory keystore keeps the Go value and
                    never serialises, so it is not driven with them ("skip").
   A Put that is refused for several reasons at once (bad key under a name already stored or
   an invalid name) may report any of them: PutRefusals.                                      *)
EXTENDS Naturals, Sequences, FiniteSets, TLC, Json

CONSTANTS Normal, Escaping, Long, Empty, Keys, BadKeys, EncodeOn

Names  == Normal \cup Long \cup Empty
NoKey  == 0
Decoy  == 99                     \* content of every out-of-directory decoy file (a valid key never Put)
ASSUME Keys \subseteq 1..98 /\ BadKeys \subseteq 1..98 /\ Keys \cap BadKeys = {} /\ Escaping \subseteq Normal
PutKeys == Keys \cup BadKeys  \* what a caller may hand to Put

VARIABLES m, disk, mem, res
vars == <<m, disk, mem, res>>

InP(n)  == <<"in", n>>
OutP(n) == <<"out", n>>
Paths   == {InP(n) : n \in Names} \cup {OutP(n) : n \in Names}
\* the path a call with name n touches
Target(n) == IF EncodeOn \/ n \notin Escaping THEN InP(n) ELSE OutP(n)

FsValid(n)  == n \notin Empty /\ n \notin Long      \* accepted by the file system keystore
NoRes == [op |-> "Init", n |-> "", k |-> NoKey, fs |-> "ok", mem |-> "ok", want |-> "ok",
          key |-> NoKey, mkey |-> NoKey, wkey |-> NoKey, list |-> {}, mlist |-> {}, wlist |-> {}]

M0    == [n \in Names |-> NoKey]
Disk0 == [p \in Paths |-> IF p[1] = "out" THEN Decoy ELSE NoKey]
Init == m = M0 /\ disk = Disk0 /\ mem = M0 /\ res = NoRes

MemClass(n, c) == IF n \in Long THEN "skip" ELSE c     \* memory keystore not driven with Long names

(* ---- Put: encode; marshal; O_CREATE|O_EXCL; write ----------------------------------------
   Refusals(n, k, present): every reason for which the call must be refused; the call succeeds
   iff there is none, otherwise it reports one of them and leaves everything as it was.
   PutR(n, k, rf) is the call reporting class rf on the file system keystore.                  *)
Refusals(n, k, present) == (IF ~FsValid(n) THEN {"invalid"} ELSE {}) \cup (IF k \in BadKeys THEN {"invalid"} ELSE {})
                           \cup (IF present THEN {"exists"} ELSE {})
ClassSet(refusals) == IF refusals = {} THEN {"ok"} ELSE refusals
\* the order of the checks in the code: name, key, exclusive create
CodeOrder(refusals) == IF "invalid" \in refusals THEN "invalid" ELSE IF "exists" \in refusals THEN "exists" ELSE "ok"
PutFs(n, k) == ClassSet(Refusals(n, k, FsValid(n) /\ disk[Target(n)] # NoKey))
PutR(n, k, rf) ==
  LET rm == IF n \in Empty THEN "invalid" ELSE IF mem[n] # NoKey THEN "exists" ELSE "ok"
      wc == ClassSet(Refusals(n, k, m[n] # NoKey))          \* what the map allows the call to report
      rw == IF rf \in wc THEN rf ELSE CodeOrder(wc)
      memDriven == n \notin Long /\ k \notin BadKeys
  IN /\ rf \in PutFs(n, k)
     /\ disk' = IF rf = "ok" THEN [disk EXCEPT ![Target(n)] = k] ELSE disk
     /\ mem'  = IF memDriven /\ rm = "ok" THEN [mem EXCEPT ![n] = k] ELSE mem
     /\ m'    = IF rw = "ok" THEN [m EXCEPT ![n] = k] ELSE m
     /\ res'  = [NoRes EXCEPT !.op = "Put", !.n = n, !.k = k, !.fs = rf, !.mem = IF memDriven THEN rm ELSE "skip", !.want = rw]
Put(n, k) == \E rf \in PutFs(n, k) : PutR(n, k, rf)

(* ---- Get: encode; ReadFile; unmarshal ---------------------------------------------------- *)
Get(n) ==
  LET rf == IF ~FsValid(n) THEN "invalid" ELSE IF disk[Target(n)] = NoKey THEN "nf" ELSE "ok"
      rm == IF mem[n] = NoKey THEN "nf" ELSE "ok"
      rw == IF ~FsValid(n) THEN "invalid" ELSE IF m[n] = NoKey THEN "nf" ELSE "ok"
  IN /\ n \notin Empty
     /\ UNCHANGED <<m, disk, mem>>
     /\ res' = [NoRes EXCEPT !.op = "Get", !.n = n, !.fs = rf, !.mem = MemClass(n, rm), !.want = rw,
                             !.key = IF rf = "ok" THEN disk[Target(n)] ELSE NoKey,
                             !.mkey = IF n \notin Long /\ rm = "ok" THEN mem[n] ELSE NoKey,
                             !.wkey = IF rw = "ok" THEN m[n] ELSE NoKey]

(* ---- Has: encode; Stat ------------------------------------------------------------------- *)
Has(n) ==
  LET rf == IF ~FsValid(n) THEN "invalid" ELSE IF disk[Target(n)] = NoKey THEN "false" ELSE "true"
      rm == IF mem[n] = NoKey THEN "false" ELSE "true"
      rw == IF ~FsValid(n) THEN "invalid" ELSE IF m[n] = NoKey THEN "false" ELSE "true"
  IN /\ n \notin Empty
     /\ UNCHANGED <<m, disk, mem>>
     /\ res' = [NoRes EXCEPT !.op = "Has", !.n = n, !.fs = rf, !.mem = MemClass(n, rm), !.want = rw]

(* ---- Delete: encode; Remove.  A missing key is reported (class "nf") -- see notes/C40.md
        for the as-built MemKeystore, which reports success (deviation Dev_C40_MemDeleteMissingOk,
        described in TraceKeystore.tla / the replay harness, not here). ---------------------- *)
Delete(n) ==
  LET rf == IF ~FsValid(n) THEN "invalid" ELSE IF disk[Target(n)] = NoKey THEN "nf" ELSE "ok"
      rm == IF mem[n] = NoKey THEN "nf" ELSE "ok"
      rw == IF ~FsValid(n) THEN "invalid" ELSE IF m[n] = NoKey THEN "nf" ELSE "ok"
  IN /\ n \notin Empty
     /\ disk' = IF rf = "ok" THEN [disk EXCEPT ![Target(n)] = NoKey] ELSE disk
     /\ mem'  = IF n \notin Long THEN [mem EXCEPT ![n] = NoKey] ELSE mem
     /\ m'    = IF rw = "ok" THEN [m EXCEPT ![n] = NoKey] ELSE m
     /\ res'  = [NoRes EXCEPT !.op = "Delete", !.n = n, !.fs = rf, !.mem = MemClass(n, rm), !.want = rw]

(* ---- List: Readdirnames of the directory, decode every file name ---------------------------- *)
List ==
  /\ UNCHANGED <<m, disk, mem>>
  /\ res' = [NoRes EXCEPT !.op = "List",
                          !.list  = {n \in Names : disk[InP(n)] # NoKey},
                          !.mlist = {n \in Names : mem[n] # NoKey},
                          !.wlist = {n \in Names : m[n] # NoKey}]

(* ---- Reopen: NewFSKeystore on the existing directory (Mkdir fails with EEXIST: kept) ------- *)
Reopen == /\ UNCHANGED <<m, disk, mem>>
          /\ res' = [NoRes EXCEPT !.op = "Reopen"]

Next == \/ \E n \in Names : (\E k \in PutKeys : Put(n, k)) \/ Get(n) \/ Has(n) \/ Delete(n)
        \/ List \/ Reopen
Spec == Init /\ [][Next]_vars

(* ---- the property -------------------------------------------------------------------------- *)
TypeOK == /\ m \in [Names -> Keys \cup {NoKey}] /\ mem \in [Names -> Keys \cup {NoKey}]
          /\ disk \in [Paths -> Keys \cup {NoKey, Decoy}]
\* both implementations answer what the map dictates (class, key returned, listing)
ResultsAgree == /\ res.fs = res.want
                /\ res.mem \in {res.want, "skip"}
                /\ res.key = res.wkey /\ (res.mem # "skip" => res.mkey = res.wkey)
                /\ res.list = res.wlist /\ res.mlist = res.wlist \ Long
\* the directory holds exactly the files Encode(n), n in DOMAIN m, with the key stored for n
Refines == \A n \in Names : disk[InP(n)] = m[n]
MemAgrees == \A n \in Names \ Long : mem[n] = m[n]
\* nothing outside the directory is created, overwritten, removed -- or returned by Get
Confined == /\ \A n \in Names : disk[OutP(n)] = Decoy
            /\ res.key # Decoy
InvalidNeverStored == \A n \in Long \cup Empty : m[n] = NoKey /\ disk[InP(n)] = NoKey
\* a stored key is never replaced without a Delete
NoOverwriteStep == \A n \in Names : (disk[InP(n)] # NoKey /\ disk'[InP(n)] # NoKey) => disk'[InP(n)] = disk[InP(n)]
NoOverwrite == [][NoOverwriteStep]_vars
\* a call that reports a failure (any class but ok / true / false) changed nothing: not the map, not a
\* single path inside or outside the directory, not the memory keystore
FailedStep == res'.fs \notin {"ok", "true", "false"} => UNCHANGED <<m, disk, mem>>
FailedCallChangesNothing == [][FailedStep]_vars
\* a bad key is never stored, anywhere
BadNeverStored == \A n \in Names : m[n] \notin BadKeys /\ mem[n] \notin BadKeys /\ \A p \in Paths : disk[p] \notin BadKeys
=============================================================================
