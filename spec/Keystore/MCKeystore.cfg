SPECIFICATION Spec
CONSTANTS Normal = {"n1", "n2"}
          Escaping = {"n2"}
          Long = {"nL"}
          Empty = {"nE"}
          Keys = {1, 2}
          BadKeys = {7}
          EncodeOn = TRUE
INVARIANTS TypeOK ResultsAgree Refines MemAgrees Confined InvalidNeverStored BadNeverStored
PROPERTIES NoOverwrite FailedCallChangesNothing
