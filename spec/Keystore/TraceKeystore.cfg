SPECIFICATION TSpec
CONSTANTS Normal = {"n1", "n2", "n3", "n4", "n5", "n6", "n7", "n8", "n9", "n10", "n11", "n12"}
          Escaping = {}
          Long = {"nL"}
          Empty = {"nE"}
          Keys = {1, 2, 3}
          BadKeys = {7}
          EncodeOn = TRUE
          Devs = @DEVS@
INVARIANTS TypeOK ResultsAgreeT Refines MemAgrees Confined InvalidNeverStored DevReport
CONSTRAINT TraceConstraint
POSTCONDITION TracePost
CHECK_DEADLOCK FALSE
