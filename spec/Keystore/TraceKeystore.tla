---------------------------- MODULE TraceKeystore ----------------------------
(* Phase T: a recorded history of the real FSKeystore and MemKeystore driven in lock-step
   (NDJSON, one event per public call; Reset = fresh directories) must be a behaviour of
   Keystore with every logged result (class of both implementations, key returned, listings)
   equal to the one the spec computes, and with the logged projection of the file system after
   the call (model names of the files in the keystore directory; "same" when the parent
   directory and the decoys are untouched) equal to the spec's disk.                         *)
EXTENDS Keystore, Integers
CONSTANT Devs

Trace == ndJsonDeserialize("trace.ndjson")
VARIABLES l, dev
tvars == <<vars, l, dev>>
ASSUME TLCSet(1, 0)

Ev == Trace[l]
IsEvent(e) == l <= Len(Trace) /\ Trace[l].ev = e /\ l' = l + 1
ToSet(s) == {s[i] : i \in 1..Len(s)}

TInit == l = 1 /\ dev = {} /\ Init

\* projection of the real file system after the call
FsOK == /\ ToSet(Ev.dir) = {n \in Names : disk'[InP(n)] # NoKey} /\ Len(Ev.dir) = Cardinality(ToSet(Ev.dir))
        /\ Ev.outside = "same"
Classes == res'.fs = Ev.fs /\ res'.mem = Ev.mem

TReset  == IsEvent("Reset") /\ m' = M0 /\ disk' = Disk0 /\ mem' = M0 /\ res' = NoRes /\ UNCHANGED dev
\* a refused Put may report any of the reasons that apply (PutFs); a bad key (Raw() fails) is refused and FsOK
\* then demands the directory to hold what it held before
TPut    == IsEvent("Put") /\ Ev.n \in Names /\ Ev.k \in PutKeys /\ Ev.fs \in PutFs(Ev.n, Ev.k) /\ PutR(Ev.n, Ev.k, Ev.fs)
           /\ Classes /\ FsOK /\ UNCHANGED dev
TGet    == IsEvent("Get") /\ Ev.n \in Names /\ Get(Ev.n) /\ Classes /\ FsOK
           /\ res'.key = Ev.key /\ (Ev.mem # "skip" => res'.mkey = Ev.mkey) /\ UNCHANGED dev
THas    == IsEvent("Has") /\ Ev.n \in Names /\ Has(Ev.n) /\ Classes /\ FsOK /\ UNCHANGED dev
TDelete == IsEvent("Delete") /\ Ev.n \in Names /\ Delete(Ev.n) /\ Classes /\ FsOK /\ UNCHANGED dev
TList   == IsEvent("List") /\ List /\ FsOK /\ Ev.fs = "ok" /\ Ev.mem = "ok"
           /\ res'.list = ToSet(Ev.list) /\ Len(Ev.list) = Cardinality(res'.list)
           /\ res'.mlist = ToSet(Ev.mlist) /\ Len(Ev.mlist) = Cardinality(res'.mlist) /\ UNCHANGED dev
TReopen == IsEvent("Reopen") /\ Reopen /\ Ev.fs = "ok" /\ FsOK /\ UNCHANGED dev

(* open finding: the as-built MemKeystore.Delete returns nil for a key that is not there, the
   FSKeystore returns the os.Remove error (ENOENT)                                           *)
TDeleteDev == /\ "Dev_C40_MemDeleteMissingOk" \in Devs
              /\ IsEvent("Delete") /\ Ev.n \in Names /\ Ev.n \notin Long /\ Ev.n \notin Empty
              /\ mem[Ev.n] = NoKey /\ Ev.mem = "ok"
              /\ Delete(Ev.n) /\ res'.fs = Ev.fs /\ FsOK
              /\ dev' = dev \cup {"Dev_C40_MemDeleteMissingOk"}

TNext == TReset \/ TPut \/ TGet \/ THas \/ TDelete \/ TList \/ TReopen \/ TDeleteDev
TSpec == TInit /\ [][TNext]_tvars

\* res.mem was computed by the ideal rule; after TDeleteDev it differs from the logged one only
ResultsAgreeT == res.fs = res.want /\ res.key = res.wkey /\ res.list = res.wlist
DevReport == l <= Len(Trace) \/ \A d \in dev : PrintT(<<"DEV_USED", d>>)
TraceConstraint == TLCSet(1, IF l - 1 > TLCGet(1) THEN l - 1 ELSE TLCGet(1))
TracePost == PrintT(<<"TRACE_HWM", TLCGet(1)>>)
=============================================================================
