SPECIFICATION GSpec
CONSTANTS MaxDepth = 4
          MaxLen = 4
          NFd = 1
          ArgPaths <- @ARGS@
          MvDsts <- @DSTS@
          DataSet <- GDataSet
          Offs = {1}
          Sizes = {0, 3}
          Modes = {1}
          Times = {2}
          OpenDevs = @OPEN@
          Avoid = @AVOID@
          MaxSteps = 0
          Names = {"a", "b", "f"}
          D = @D@
          E = 0
          PresetSet = @PRESETS@
INVARIANTS Emit
