------------------------------- MODULE GenMFS -------------------------------
(* Phase G for C19: behaviours of MFS printed as JSON.  Every step carries what the spec says
   the call returns, the whole tree afterwards (projected), the size of every descriptor's
   view and -- where an open known finding applies -- the exact as-built alternative(s).

   GSpec    : exhaustive BFS from a preset tree; all steps but the last are productive
              (succeed and change something), the last step is ANY call (incl. refused ones).
   GSpecSim : -simulate; ONE call per step, chosen by random numbers drawn in the previous step
              (variable tick) so that TLC evaluates a single successor; arguments are drawn
              mostly from paths that exist or are one name away from existing ones.  The module's
              invariants and action properties are checked along these walks as well.          *)
EXTENDS MFS, Json, SequencesExt

CONSTANTS Names,    \* entry names (simulation draws paths over them)
          D,        \* BFS: behaviour length from the empty tree (populated presets: D - 1)
          E,        \* simulation: behaviour length
          PresetSet \* which initial trees (indices into Presets)

VARIABLES hist, pre, tick
gvars == <<vars, hist, pre, tick>>

(* ---- alphabets: same-named directories in different parents by construction ----------- *)
GArgPaths == {<<"a">>, <<"b">>, <<"a", "a">>, <<"b", "a">>, <<"a", "f">>, <<"a", "a", "f">>, <<"b", "a", "f">>}
GMvDsts   == {<<p, FALSE>> : p \in GArgPaths \cup {<<"f">>}}
             \cup {<<p, TRUE>> : p \in {<<>>, <<"a">>, <<"b">>, <<"a", "a">>, <<"b", "a">>}}
GDataSet  == {<<1>>, <<2, 3>>}
\* "prefix names" family (preset 6): entry names that are string prefixes of one another (a, ab, abc), at
\* several depths, so that a comparison of printed paths ("/ab/ab" starts with "/ab/a", "/ab" with "/a")
\* differs from the name-by-name comparison the hierarchy is defined by: moves of directories into such
\* siblings / deeper below them (legal), into their own subtree (refused), removal and lookup next to them.
XArgPaths == {<<"a">>, <<"ab">>, <<"abc">>, <<"a", "f">>, <<"a", "ab">>, <<"ab", "a">>, <<"ab", "ab">>, <<"ab", "ab", "a">>}
XMvDsts   == {<<p, FALSE>> : p \in XArgPaths \cup {<<"ab", "ab", "abc">>}}
             \cup {<<p, TRUE>> : p \in {<<>>, <<"a">>, <<"ab">>, <<"abc">>, <<"ab", "a">>, <<"ab", "ab">>}}

F(c, m, t) == FileNode(c, m, t)
Dn(m, t)   == DirNode(m, t)
Presets ==
  <<  EmptyFS,
      \* equal names in different parents, a file to move around
      (<<>> :> Dn(0, 0)) @@ (<<"a">> :> Dn(0, 0)) @@ (<<"b">> :> Dn(0, 0)) @@ (<<"a", "a">> :> Dn(0, 0))
        @@ (<<"b", "a">> :> Dn(0, 0)) @@ (<<"a", "f">> :> F(<<1>>, 0, 0)) @@ (<<"a", "a", "f">> :> F(<<>>, 0, 0)),
      \* metadata everywhere, a destination file to overwrite
      (<<>> :> Dn(1, 0)) @@ (<<"a">> :> Dn(2, 1)) @@ (<<"b">> :> Dn(0, 2)) @@ (<<"a", "a">> :> Dn(1, 1))
        @@ (<<"a", "f">> :> F(<<1, 2>>, 1, 1)) @@ (<<"b", "a">> :> F(<<3>>, 2, 0)) @@ (<<"a", "a", "f">> :> F(<<2>>, 0, 2)),
      \* tiny tree for the descriptor probes (GSpecProbe): one directory, one file with content and mtime
      (<<>> :> Dn(0, 0)) @@ (<<"a">> :> Dn(0, 0)) @@ (<<"a", "f">> :> F(<<1, 1>>, 0, 1)),
      \* the same with a file that got its mode after its content (w: inline leaf under CIDv1, finding D7)
      (<<>> :> Dn(0, 0)) @@ (<<"a">> :> Dn(0, 0)) @@ (<<"a", "f">> :> [F(<<1, 1>>, 1, 0) EXCEPT !.w = TRUE]),
      \* prefix names: directory /a (with a file) next to /ab, whose children /ab/a and /ab/ab repeat the pattern
      \* one level down, and a FILE /abc whose name extends both
      (<<>> :> Dn(0, 0)) @@ (<<"a">> :> Dn(0, 0)) @@ (<<"a", "f">> :> F(<<1>>, 0, 0)) @@ (<<"ab">> :> Dn(0, 0))
        @@ (<<"ab", "a">> :> Dn(0, 0)) @@ (<<"ab", "ab">> :> Dn(0, 0)) @@ (<<"abc">> :> F(<<2>>, 0, 0)) >>

InitTree == Presets[pre]
GInit == pre \in PresetSet /\ InitWith(InitTree) /\ hist = <<>> /\ tick = <<>>

StepRec == [op |-> last'.op, p |-> last'.a.p, q |-> last'.a.q, ts |-> last'.a.ts, par |-> last'.a.par,
            fl |-> last'.a.fl, d |-> last'.a.d, n |-> last'.a.n, m |-> last'.a.m, fd |-> last'.a.fd,
            res |-> last'.res, names |-> last'.names, tree |-> Proj(fs'),
            fdsz |-> [i \in Fds |-> IF fds'[i].open THEN Len(fds'[i].view) ELSE -1],
            alts |-> last'.alts]
\* prefix steps: succeed, change something, plain flags (the flag variants are exercised as last
\* steps here and anywhere in the simulated behaviours)
Productive == /\ last'.res \in OkRes /\ (fs' # fs \/ fds' # fds)
              /\ last'.op \in {"Mkdir", "Rm"} => ~last'.a.fl
              /\ last'.op = "Mkdir" => last'.a.par

\* the empty tree is explored one step deeper than the populated presets
Dp == IF pre = 1 THEN D ELSE D - 1
GNext == /\ Len(hist) < Dp
         /\ Next
         /\ Len(hist) < Dp - 1 => Productive
         /\ hist' = Append(hist, StepRec)
         /\ UNCHANGED <<pre, tick>>
GSpec == GInit /\ [][GNext]_gvars

\* the initial tree is handed over with the w flag: the harness builds such files content first, metadata second
InitProj == {[p |-> q, k |-> InitTree[q].k, c |-> InitTree[q].c, m |-> InitTree[q].m, t |-> InitTree[q].t, w |-> InitTree[q].w] : q \in DOMAIN InitTree}
Out  == PrintT(<<"BEHAVIOUR", ToJson([init |-> InitProj, steps |-> hist])>>)
Emit == Len(hist) # Dp \/ Out

(* ---- descriptor probes: Open, then two productive calls out of the calls that interact with an
   open descriptor, then a descriptor call (where deviations show) or a read-only call; tiny alphabet (GenMFSProbe.cfg).  Exhaustive, so every open
   finding about descriptors is met (and reported) deterministically. ------------------------- *)
PArgPaths == {<<"a">>, <<"a", "f">>}
PMvDsts   == {<<<<"b">>, FALSE>>}
PDataSet  == {<<2>>, <<2, 3, 3>>}
FocusOps  == {"Write", "Truncate", "Rm", "Mv", "Chmod", "Touch", "FlushPath", "FdFlush"}
GProbeNext == /\ Len(hist) < D
              /\ Next
              /\ Len(hist) = 0 => last'.op = "Open" /\ last'.res = "ok"
              /\ (Len(hist) > 0 /\ Len(hist) < D - 1) => Productive /\ last'.op \in FocusOps
              /\ Len(hist) = D - 1 => last'.op \in {"FdFlush", "Close", "Truncate", "Write", "FlushRoot", "Lookup"}
              /\ hist' = Append(hist, StepRec)
              /\ UNCHANGED <<pre, tick>>
GSpecProbe == GInit /\ [][GProbeNext]_gvars
EmitProbe  == Len(hist) # D \/ Out

(* ---- simulation ------------------------------------------------------------------------ *)
Draw(x)  == [k \in 1..8 |-> RandomElement(0..(9999 + (x % 1)))]   \* parameter: not a constant, drawn afresh each time
R(k)     == tick[k]
Nth(S, r) == LET s == SetToSeq(S) IN s[(r % Len(s)) + 1]
AllPaths == UNION {[1..n -> Names] : n \in 1..MaxDepth}
Near     == {q \in (DOMAIN fs \cup {Append(x, n) : x \in DOMAIN fs, n \in Names}) : Len(q) >= 1 /\ Len(q) <= MaxDepth}
Dirs     == {q \in DOMAIN fs : fs[q].k = "d"}
Pick(k)    == IF R(k) % 5 = 0 THEN Nth(AllPaths, R(k) \div 5) ELSE Nth(Near, R(k) \div 5)
Files    == {q \in DOMAIN fs : fs[q].k = "f"}
Existing == DOMAIN fs \ {Root}
PickDir(k)  == IF R(k) % 4 = 0 THEN Pick(k) ELSE Nth(Dirs, R(k) \div 4)
PickAny(k)  == IF R(k) % 6 = 0 THEN Root ELSE Pick(k)
PickEx(k)   == IF Existing = {} \/ R(k) % 7 = 0 THEN PickAny(k) ELSE Nth(Existing, R(k) \div 7)
PickFile(k) == IF Files = {} \/ R(k) % 8 = 0 THEN Pick(k) ELSE Nth(Files, R(k) \div 8)
OpenFds  == {i \in Fds : fds[i].open}
FreeFds  == Fds \ OpenFds
TicketSeq == <<"Mkdir", "Mkdir", "Mkdir", "Create", "Create", "Create", "Rm", "Rm",
               "Mv", "Mv", "Mv", "Mv", "Mv", "Mv", "Mv", "Meta", "Meta", "Read",
               "FlushPath", "FlushRoot", "Open", "Open", "Fd", "Fd", "Fd", "Fd", "Fd", "Fd", "Fd">>

Try(A) == A \/ (~ENABLED A /\ FlushRoot)
SimCall ==
    LET c == TicketSeq[(R(1) % Len(TicketSeq)) + 1] IN
    CASE c = "Mkdir"  -> Try(Mkdir(Pick(2), R(3) % 2 = 0, R(4) % 3 = 0))
      [] c = "Create" -> Try(Create(Pick(2)))
      [] c = "Rm"     -> Try(Rm(PickEx(2), R(3) % 3 = 0))
      [] c = "Mv"     -> LET ts == R(3) % 3 = 0 IN
                         Try(Mv(PickEx(2), IF ts THEN PickDir(4) ELSE IF R(5) % 2 = 0 THEN Pick(4) ELSE PickEx(4), ts))
      [] c = "Meta"   -> IF R(3) % 2 = 0 THEN Try(Chmod(PickEx(2), Nth(Modes, R(4))))
                                         ELSE Try(Touch(PickEx(2), Nth(Times, R(4))))
      [] c = "Read"   -> IF R(3) % 2 = 0 THEN Lookup(PickEx(2)) ELSE List(PickEx(2))
      [] c = "FlushPath" -> Try(FlushPath(PickEx(2)))
      [] c = "FlushRoot" -> FlushRoot
      [] c = "Open" \/ (c = "Fd" /\ OpenFds = {})
                      -> IF FreeFds = {} THEN FlushRoot ELSE Try(Open(Nth(FreeFds, R(3)), PickFile(2), R(4) % 2 = 0))
      [] c = "Fd"     -> LET i == Nth(OpenFds, R(2))  k == R(3) % 8 IN
                         CASE k <= 2 -> Try(Write(i, Nth(DataSet, R(4))))
                           [] k = 3  -> Try(WriteAt(i, Nth(DataSet, R(4)), Nth(Offs, R(5))))
                           [] k = 4  -> Try(Truncate(i, Nth(Sizes, R(4))))
                           [] k = 5  -> FdFlush(i)
                           [] OTHER  -> Close(i)

\* one printed behaviour per E steps, then a fresh run
Flush    == /\ Len(hist) = E /\ Out
            /\ hist' = <<>> /\ fs' = InitTree /\ fds' = [i \in Fds |-> NoFd] /\ region' = "none" /\ last' = Last0
GNextSim == /\ IF Len(hist) = E THEN Flush ELSE SimCall /\ hist' = Append(hist, StepRec)
            /\ tick' = Draw(Len(hist))
            /\ UNCHANGED pre
GInitSim == pre \in PresetSet /\ InitWith(InitTree) /\ hist = <<>> /\ tick = Draw(0)
GSpecSim == GInitSim /\ [][GNextSim]_gvars
=============================================================================
