SPECIFICATION GSpecProbe
CONSTANTS MaxDepth = 3
          MaxLen = 3
          NFd = 1
          ArgPaths <- PArgPaths
          MvDsts <- PMvDsts
          DataSet <- PDataSet
          Offs = {}
          Sizes = {1, 3}
          Modes = {1}
          Times = {2}
          OpenDevs = @OPEN@
          Avoid = {}
          MaxSteps = 0
          Names = {"a", "f"}
          D = 4
          E = 0
          PresetSet = {4, 5}
INVARIANTS EmitProbe
