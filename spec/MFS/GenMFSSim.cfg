SPECIFICATION GSpecSim
CONSTANTS MaxDepth = @MAXDEPTH@
          MaxLen = 6
          NFd = 2
          ArgPaths = {}
          MvDsts = {}
          DataSet <- GDataSet
          Offs = {0, 1, 3}
          Sizes = {0, 1, 4}
          Modes = {1, 2}
          Times = {1, 2}
          OpenDevs = @OPEN@
          Avoid = @AVOID@
          MaxSteps = 0
          Names = @NAMES@
          D = 0
          E = 30
          PresetSet = {1}
INVARIANTS WellFormed FdsOK
PROPERTIES FailedOpsNoChange MoveSemantics MoveRefusal Frame AckedWriteVisible
