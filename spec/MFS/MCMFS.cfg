SPECIFICATION Spec
CONSTANTS MaxDepth = 2
          MaxLen = 2
          NFd = 1
          ArgPaths <- MCArgPaths
          MvDsts <- MCMvDsts
          DataSet <- MCDataSet
          Offs = {0, 1}
          Sizes = {0, 1}
          Modes = {1}
          Times = {1}
          OpenDevs = {}
          Avoid = {}
          MaxSteps = 4
INVARIANTS WellFormed FdsOK
PROPERTIES FailedOpsNoChange MoveSemantics MoveRefusal Frame AckedWriteVisible
CONSTRAINT DepthBound
VIEW MCView
