-------------------------------- MODULE MCMFS --------------------------------
(* Constants for exhaustive model checking of MFS (phase M): 3 names, depth <= 2,
   files of <= 2 bytes, every operation sequence up to MaxSteps. *)
EXTENDS MFS
MCArgPaths == {<<"a">>, <<"b">>, <<"f">>, <<"a", "a">>, <<"a", "f">>, <<"b", "a">>}
MCMvDsts   == {<<p, FALSE>> : p \in MCArgPaths} \cup {<<p, TRUE>> : p \in {<<>>, <<"a">>, <<"b">>, <<"a", "a">>}}
MCDataSet  == {<<1>>, <<2, 1>>}
=============================================================================
