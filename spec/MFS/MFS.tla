--------------------------------- MODULE MFS ---------------------------------
(* C19 -- MFS (github.com/ipfs/boxo/mfs) as a hierarchical filesystem that persists what it
   shows.  IDEAL behaviour: one action per public call used by clients
   (ops.go: Mkdir, PutNode, Mv, Lookup, FlushPath, Chmod, Touch; dir.go: Unlink, ListNames;
   file.go/fd.go: Open, Write, WriteAt, Truncate, Flush, Close; root.go: Root.Flush).

   State  fs   : the tree as a map  path -> node  (path = sequence of names, <<>> = root;
                 node = [k |-> "d"|"f", c |-> content, m |-> mode, t |-> mtime])
          fds  : open file descriptors (private view of the content, write offset, state)
          last : the call just made and what it must return
          region : bookkeeping for open known findings only (see "Deviations" below)

   Conventions of MFS that the model states as rules (they are the documented/observable
   contract, not defects):
     * Mv(src,dst): dst ending in "/" names a directory to move into; an existing directory at
       the destination is moved INTO (once); an existing file is replaced.
     * Unlink removes whole subtrees.  Mkdir with Mkparents succeeds on an existing directory.
     * A descriptor whose file was unlinked, replaced or moved away (directly or with an
       ancestor) is detached: it keeps working, nothing it writes is visible in the tree.
     * A file that carries an mtime keeps one when modified content is flushed; its value is then
       chosen by MFS (code NOW = "set, unspecified": DagModifier refreshes it only for some DAG shapes).
     * one writer per file (a second Open / File.Flush would block): not generated.

   Deviations: every open known finding X has (a) the predicate under which an operation
   enters X's region / shows X, (b) the exact as-built outcome, attached to the step as
   `alts` (used by GenMFS and TraceMFS; the ideal transition is what the invariants and the
   conformance checks use).  OpenDevs / Avoid only restrict which operations are GENERATED.  *)
EXTENDS Naturals, Integers, Sequences, FiniteSets, TLC

CONSTANTS MaxDepth,   \* longest path in the tree
          MaxLen,     \* longest file
          NFd,        \* descriptors 1..NFd
          ArgPaths,   \* paths used as operation arguments
          MvDsts,     \* <<path, trailingSlash>> pairs used as Mv destinations
          DataSet,    \* byte strings written
          Offs,       \* WriteAt offsets
          Sizes,      \* Truncate sizes
          Modes,      \* Chmod arguments (codes; 0 = unset)
          Times,      \* Touch arguments (codes; 0 = unset, NOW = set by MFS itself)
          OpenDevs,   \* open known findings (deviation names) -- region discipline applies to them
          Avoid,      \* subset of OpenDevs whose triggering operations are not generated
          MaxSteps    \* exploration depth (model checking only)

VARIABLES fs, fds, last, region
vars == <<fs, fds, last, region>>

NOW  == 9
Root == <<>>
D1 == "Dev_C19_MvSameDirName"
D2 == "Dev_C19_MvIntoSelf"
D3 == "Dev_C19_UnlinkedDirResurrected"
D4 == "Dev_C19_MetaRevertedByOpenFd"
D5 == "Dev_C19_FlushForgetsOpenFile"
D6 == "Dev_C19_UnflushedWriteVisible"
D7 == "Dev_C19_InlineLeafExtendCorrupts"

(* ---- paths and trees ---------------------------------------------------------------- *)
Parent(p)      == SubSeq(p, 1, Len(p) - 1)
Base(p)        == p[Len(p)]
Pre(p, i)      == SubSeq(p, 1, i)
IsPrefix(p, q) == Len(p) <= Len(q) /\ SubSeq(q, 1, Len(p)) = p
Rel(q, p)      == SubSeq(q, Len(p) + 1, Len(q))
Max(a, b)      == IF a > b THEN a ELSE b

\* w ("wrapped") is bookkeeping for finding D7 only: the file got its first metadata while it had content
\* (with CIDv1/raw leaves MFS then turns the raw block into a dag-pb leaf with inline data); not projected
DirNode(m, t)     == [k |-> "d", c |-> <<>>, m |-> m, t |-> t, w |-> FALSE]
FileNode(c, m, t) == [k |-> "f", c |-> c, m |-> m, t |-> t, w |-> FALSE]

Ex(f, p)  == p \in DOMAIN f
IsD(f, p) == Ex(f, p) /\ f[p].k = "d"
IsF(f, p) == Ex(f, p) /\ f[p].k = "f"
Sub(f, p)       == [r \in {Rel(q, p) : q \in {x \in DOMAIN f : IsPrefix(p, x)}} |-> f[p \o r]]
Without(f, p)   == [q \in {x \in DOMAIN f : ~IsPrefix(p, x)} |-> f[q]]
Graft(f, at, s) == LET g == Without(f, at)
                   IN [q \in DOMAIN g \cup {at \o r : r \in DOMAIN s} |->
                          IF IsPrefix(at, q) THEN s[Rel(q, at)] ELSE g[q]]
Kids(f, p)      == {q \in DOMAIN f : Len(q) = Len(p) + 1 /\ IsPrefix(p, q)}
Proj(f)         == {[p |-> q, k |-> f[q].k, c |-> f[q].c, m |-> f[q].m, t |-> f[q].t] : q \in DOMAIN f}
Depth(f)        == LET S == {Len(q) : q \in DOMAIN f} IN CHOOSE n \in S : \A k \in S : k <= n

(* ---- path resolution (ops.go DirLookup) --------------------------------------------- *)
FirstMissing(p) == CHOOSE i \in 1..Len(p) : ~Ex(fs, Pre(p, i)) /\ \A j \in 1..(i - 1) : Ex(fs, Pre(p, j))
WalkErr(p)      == IF IsF(fs, Pre(p, FirstMissing(p) - 1)) THEN "err" ELSE "noent"
WalkRes(p)      == IF Ex(fs, p) THEN "ok" ELSE WalkErr(p)
DirRes(p)       == IF IsD(fs, p) THEN "ok" ELSE IF IsF(fs, p) THEN "err" ELSE WalkErr(p)

(* ---- descriptors -------------------------------------------------------------------- *)
NoFd == [open |-> FALSE, p |-> <<>>, att |-> FALSE, view |-> <<>>, pos |-> 0, st |-> "closed",
         sync |-> FALSE, bump |-> FALSE, m0 |-> 0, t0 |-> 0,
         ghost |-> FALSE, gat |-> <<>>, gsub |-> <<>>, d5 |-> FALSE, inl |-> FALSE]
Fds     == 1..NFd
AttAt(p)    == {i \in Fds : fds[i].open /\ fds[i].att /\ fds[i].p = p}
AttBelow(p) == {i \in Fds : fds[i].open /\ fds[i].att /\ IsPrefix(p, fds[i].p) /\ fds[i].p # p}
AttUnder(p) == AttAt(p) \cup AttBelow(p)
Over(v, at, d) == [i \in 1..Max(Len(v), at + Len(d)) |->
                     IF i > at /\ i <= at + Len(d) THEN d[i - at] ELSE IF i <= Len(v) THEN v[i] ELSE 0]
Resize(v, n)   == [i \in 1..n |-> IF i <= Len(v) THEN v[i] ELSE 0]
Bumped(t, b)   == IF b /\ t # 0 THEN NOW ELSE t

(* ---- bookkeeping shared by all actions ----------------------------------------------- *)
A0 == [p |-> <<>>, q |-> <<>>, ts |-> FALSE, par |-> FALSE, fl |-> FALSE, d |-> <<>>, n |-> 0, m |-> 0, fd |-> 0]
OkRes == {"ok", "d", "f"}
Ret(op, a, res, names, fin, alts) ==
    last' = [op |-> op, a |-> a, res |-> res, names |-> names, fin |-> fin, alts |-> alts]
\* as-built alternative: what MFS shows afterwards and what a flush of the root persists
\* (prob # "": instead of a tree, MFS shows an inconsistent file: the named API results contradict each other)
AltD(dev, tree, dag) == [dev |-> dev, res |-> "ok", tree |-> Proj(tree), dag |-> Proj(dag), prob |-> ""]
Alt(dev, tree)       == AltD(dev, tree, tree)
AltP(dev, prob)      == [dev |-> dev, res |-> "ok", tree |-> {}, dag |-> {}, prob |-> prob]

\* T = open deviations whose region this operation enters.  While inside a region only
\* descriptor operations and read-only calls are generated, until all descriptors are closed
\* (after that the as-built state is again described by the ideal state).
QuietOps == {"Write", "WriteAt", "Truncate", "FdFlush", "Close", "Lookup", "List", "FlushRoot"}
Gate(op, T0) ==
    LET T == T0 \cap OpenDevs IN
    /\ region = "none" \/ op \in QuietOps
    /\ region = D7 => op \notin {"Write", "WriteAt", "Truncate"}      \* one modification, then the flush
    /\ T = {} \/ (region = "none" /\ Cardinality(T) = 1 /\ T \cap Avoid = {})
    /\ region' = IF T \cap {D3, D4, D5, D6, D7} # {} THEN CHOOSE x \in T : TRUE
                 ELSE IF \A i \in Fds : ~fds'[i].open THEN "none" ELSE region

(* ---- directory operations ------------------------------------------------------------ *)
MkdirRes(p, par) ==
    IF p = Root THEN (IF par THEN "ok" ELSE "err")
    ELSE IF Ex(fs, p) THEN (IF IsD(fs, p) /\ par THEN "ok" ELSE "exist")
    ELSE LET i == FirstMissing(p) IN
         IF IsF(fs, Pre(p, i - 1)) THEN "err"
         ELSE IF i < Len(p) /\ ~par THEN "noent" ELSE "ok"

\* directories whose child cache is dropped by Directory.Flush (matters for D5 only)
MarkCleaned(q) == [i \in Fds |-> IF i \in AttBelow(q) THEN [fds[i] EXCEPT !.d5 = TRUE] ELSE fds[i]]

Mkdir(p, par, fl) ==
    LET res   == MkdirRes(p, par)
        clean == res = "ok" /\ fl /\ p # Root /\ IsD(fs, p)      \* flush of an existing directory
    IN /\ fs' = IF res = "ok" /\ p # Root
                THEN [q \in DOMAIN fs \cup {Pre(p, i) : i \in 1..Len(p)} |-> IF Ex(fs, q) THEN fs[q] ELSE DirNode(0, 0)]
                ELSE fs
       /\ fds' = IF clean THEN MarkCleaned(p) ELSE fds
       /\ Gate("Mkdir", IF clean /\ AttBelow(p) # {} THEN {D5} ELSE {})
       /\ Ret("Mkdir", [A0 EXCEPT !.p = p, !.par = par, !.fl = fl], res, {}, <<>>, <<>>)

CreateRes(p) == IF p = Root THEN "err"
                ELSE IF DirRes(Parent(p)) # "ok" THEN DirRes(Parent(p))
                ELSE IF Ex(fs, p) THEN "exist" ELSE "ok"
Create(p) ==
    LET res == CreateRes(p)
    IN /\ fs' = IF res = "ok" THEN [q \in DOMAIN fs \cup {p} |-> IF q = p THEN FileNode(<<>>, 0, 0) ELSE fs[q]] ELSE fs
       /\ UNCHANGED fds
       /\ Gate("Create", {})
       /\ Ret("Create", [A0 EXCEPT !.p = p], res, {}, <<>>, <<>>)

\* descriptors at/below a removed or moved-away path: the file's own descriptor is detached;
\* descriptors below a removed DIRECTORY are detached too (gat/gsub remember what D3 resurrects)
Unhook(src) == [i \in Fds |->
                  IF i \in AttAt(src) THEN [fds[i] EXCEPT !.att = FALSE]
                  ELSE IF i \in AttBelow(src)
                       THEN [fds[i] EXCEPT !.att = FALSE, !.ghost = TRUE, !.gat = src, !.gsub = Sub(fs, src)]
                       ELSE fds[i]]

RmRes(p) == IF p = Root THEN "err"
            ELSE IF DirRes(Parent(p)) # "ok" THEN DirRes(Parent(p))
            ELSE IF Ex(fs, p) THEN "ok" ELSE "noent"
Rm(p, fl) ==
    LET res   == RmRes(p)
        un    == Unhook(p)
        clean == {i \in AttBelow(Parent(p)) : ~IsPrefix(p, fds[i].p)}
    IN /\ fs' = IF res = "ok" THEN Without(fs, p) ELSE fs
       /\ fds' = IF res # "ok" THEN fds
                 ELSE IF fl THEN [i \in Fds |-> IF i \in clean THEN [un[i] EXCEPT !.d5 = TRUE] ELSE un[i]]
                 ELSE un
       /\ Gate("Rm", IF res # "ok" THEN {}
                     ELSE (IF AttBelow(p) # {} THEN {D3} ELSE {}) \cup (IF fl /\ clean # {} THEN {D5} ELSE {}))
       /\ Ret("Rm", [A0 EXCEPT !.p = p, !.fl = fl], res, {}, <<>>, <<>>)

(* Mv: where does it go (MFS rule), when is it refused, what does it do *)
MvFinal(src, dst, ts) ==
    LET t == Append(IF ts THEN dst ELSE Parent(dst), IF ts THEN Base(src) ELSE Base(dst))
    IN IF IsD(fs, t) THEN Append(t, Base(src)) ELSE t
MvInfo(src, dst, ts) ==
    LET dDir  == IF ts THEN dst ELSE Parent(dst)
        t     == Append(dDir, IF ts THEN Base(src) ELSE Base(dst))
        final == MvFinal(src, dst, ts)
        pre   == IsD(fs, dDir) /\ IsD(fs, Parent(src)) /\ Ex(fs, src) /\ ~(IsD(fs, t) /\ Ex(fs, final))
        self  == pre /\ IsD(fs, src) /\ IsPrefix(src, Parent(final))  \* into itself / its own subtree
        ok    == pre /\ ~self
        nameq == /\ Len(Parent(src)) > 0 /\ Len(Parent(final)) > 0
                 /\ Base(Parent(src)) = Base(Parent(final)) /\ Base(src) = Base(final)
    IN [final |-> final, pre |-> pre, self |-> self, ok |-> ok, nameq |-> nameq,
        same |-> final = src,                                        \* only for a file onto itself
        dup  |-> ok /\ final # src /\ nameq /\ Parent(src) # Parent(final)]   \* D1: distinct dirs, equal names
MvCopied(src, final) == Graft(fs, final, Sub(fs, src))               \* as built without the unlink
MvFds(src, final) == LET un == Unhook(src)
                     IN [i \in Fds |-> IF i \in AttAt(final) THEN [un[i] EXCEPT !.att = FALSE] ELSE un[i]]
Mv(src, dst, ts) ==
    LET mi    == MvInfo(src, dst, ts)
        final == mi.final
        sub   == Sub(fs, src)
        alts  == IF mi.dup THEN <<Alt(D1, MvCopied(src, final))>>
                 ELSE IF mi.self THEN (IF mi.nameq THEN <<Alt(D2, MvCopied(src, final)), Alt(D2, Without(fs, src))>>
                                                  ELSE <<Alt(D2, Without(fs, src))>>)
                 ELSE <<>>
    IN /\ src # Root /\ (ts \/ dst # Root)
       /\ mi.pre => \A r \in DOMAIN sub : Len(final) + Len(r) <= MaxDepth    \* exploration bound
       /\ fs' = IF mi.ok /\ ~mi.same THEN Graft(Without(fs, src), final, sub) ELSE fs
       /\ fds' = IF mi.ok THEN MvFds(src, final) ELSE fds
       /\ Gate("Mv", (IF mi.dup THEN {D1} ELSE {}) \cup (IF mi.self THEN {D2} ELSE {})
                     \cup (IF mi.ok /\ ~mi.same /\ AttBelow(src) # {} THEN {D3} ELSE {}))
       /\ Ret("Mv", [A0 EXCEPT !.p = src, !.q = dst, !.ts = ts], IF mi.ok THEN "ok" ELSE "err", {}, final, alts)

SetMeta(op, p, m, t) ==
    LET res == WalkRes(p)
    IN /\ fs' = IF res = "ok" THEN [fs EXCEPT ![p].m = IF op = "Chmod" THEN m ELSE @,
                                               ![p].t = IF op = "Touch" THEN t ELSE @,
                                               ![p].w = @ \/ (fs[p].k = "f" /\ fs[p].m = 0 /\ fs[p].t = 0 /\ Len(fs[p].c) >= 1)]
                ELSE fs
       /\ UNCHANGED fds
       /\ Gate(op, IF res = "ok" /\ AttAt(p) # {} THEN {D4} ELSE {})
       /\ Ret(op, [A0 EXCEPT !.p = p, !.m = IF op = "Chmod" THEN m ELSE t], res, {}, <<>>, <<>>)
Chmod(p, m) == SetMeta("Chmod", p, m, 0)
Touch(p, t) == SetMeta("Touch", p, 0, t)

Lookup(p) == /\ UNCHANGED <<fs, fds>> /\ Gate("Lookup", {})
             /\ Ret("Lookup", [A0 EXCEPT !.p = p], IF Ex(fs, p) THEN fs[p].k ELSE WalkErr(p), {}, <<>>, <<>>)
List(p)   == /\ UNCHANGED <<fs, fds>> /\ Gate("List", {})
             /\ Ret("List", [A0 EXCEPT !.p = p],
                    IF ~Ex(fs, p) THEN WalkErr(p) ELSE IF IsF(fs, p) THEN "err" ELSE "ok",
                    IF IsD(fs, p) THEN {Base(q) : q \in Kids(fs, p)} ELSE {}, <<>>, <<>>)

FlushRoot == /\ UNCHANGED <<fs, fds>> /\ Gate("FlushRoot", {})
             /\ Ret("FlushRoot", A0, "ok", {}, <<>>, <<>>)
FlushPath(p) ==
    LET res == WalkRes(p)
    IN /\ IsF(fs, p) => AttAt(p) = {}                      \* File.Flush opens a write descriptor
       /\ UNCHANGED fs
       /\ fds' = IF IsD(fs, p) THEN MarkCleaned(p) ELSE fds
       /\ Gate("FlushPath", IF IsD(fs, p) /\ AttBelow(p) # {} THEN {D5} ELSE {})
       /\ Ret("FlushPath", [A0 EXCEPT !.p = p], res, {}, <<>>, <<>>)

(* ---- descriptor operations ----------------------------------------------------------- *)
Open(i, p, sync) ==
    LET res == IF ~Ex(fs, p) THEN WalkErr(p) ELSE IF IsD(fs, p) THEN "err" ELSE "ok"
    IN /\ ~fds[i].open
       /\ AttAt(p) = {}                                    \* single writer
       /\ UNCHANGED fs
       /\ fds' = IF res = "ok"
                 THEN [fds EXCEPT ![i] = [NoFd EXCEPT !.open = TRUE, !.p = p, !.att = TRUE, !.view = fs[p].c,
                                           !.st = "created", !.sync = sync, !.m0 = fs[p].m, !.t0 = fs[p].t,
                                           !.inl = fs[p].w /\ Len(fs[p].c) >= 1]]
                 ELSE fds
       /\ Gate("Open", {})
       /\ Ret("Open", [A0 EXCEPT !.p = p, !.fd = i, !.fl = sync], res, {}, <<>>, <<>>)

\* D7: the file is a dag-pb leaf with inline data (see w); a modification that DagModifier has to append
\* to it leaves inline data AND links behind: Size() and the readable bytes disagree after the flush
Inline(i) == fds[i].inl       \* shape of the node the descriptor was opened on (attached or not)
Modify(op, i, a, view, pos, bump, T, alts) ==
    /\ fds[i].open /\ Len(view) <= MaxLen
    /\ UNCHANGED fs
    /\ fds' = [fds EXCEPT ![i].view = view, ![i].pos = pos, ![i].st = "dirty", ![i].bump = @ \/ bump]
    /\ Gate(op, T \cup (IF Inline(i) THEN {D7} ELSE {}))
    /\ Ret(op, [a EXCEPT !.fd = i], "ok", {}, <<>>, alts)
Write(i, d)        == Modify("Write", i, [A0 EXCEPT !.d = d], Over(fds[i].view, fds[i].pos, d), fds[i].pos + Len(d), TRUE, {}, <<>>)
\* WriteAt over still-buffered data or beyond the end is DagModifier's business (property C10): only issued
\* on a clean buffer and inside (or right at the end of) the file
WriteAt(i, d, off) == fds[i].st # "dirty" /\ off <= Len(fds[i].view) /\ Modify("WriteAt", i, [A0 EXCEPT !.d = d, !.n = off], Over(fds[i].view, off, d), off + Len(d), TRUE, {}, <<>>)
\* Truncate makes the DagModifier write its buffer into the DAG.  D6: bytes of the descriptor's
\* view that overwrite bytes the tree currently shows become visible there without any flush.
Truncate(i, n) ==
    LET fd   == fds[i]
        old  == fs[fd.p].c
        leak == [k \in 1..Len(old) |-> IF k <= Len(fd.view) THEN fd.view[k] ELSE old[k]]
        hit  == fd.open /\ fd.att /\ leak # old
    IN Modify("Truncate", i, [A0 EXCEPT !.n = n], Resize(fds[i].view, n), fds[i].pos, n # Len(fds[i].view),
              IF hit THEN {D6} ELSE {}, IF hit THEN <<AltD(D6, [fs EXCEPT ![fd.p].c = leak], fs)>> ELSE <<>>)

\* what a flush of descriptor i makes visible (FdFlush, Close)
Flushed(i) ==
    LET fd == fds[i]
    IN IF fd.att /\ fd.st \in {"created", "dirty"}
       THEN [fs EXCEPT ![fd.p].c = fd.view, ![fd.p].t = Bumped(@, fd.bump)]
       ELSE fs
FlushAlts(i, propagates) ==
    LET fd   == fds[i]
        acts == fd.st \in {"created", "dirty"}
        a4 == IF acts /\ fd.att /\ (fd.m0 # fs[fd.p].m \/ fd.t0 # fs[fd.p].t)
              THEN <<Alt(D4, [fs EXCEPT ![fd.p].c = fd.view, ![fd.p].m = fd.m0, ![fd.p].t = Bumped(fd.t0, fd.bump)])>> ELSE <<>>
        a5 == IF acts /\ fd.att /\ fd.d5 THEN <<Alt(D5, fs)>> ELSE <<>>
        r  == Rel(fd.p, fd.gat)
        a3 == IF acts /\ fd.ghost /\ propagates
              THEN <<Alt(D3, Graft(fs, fd.gat, [fd.gsub EXCEPT ![r].c = fd.view, ![r].t = Bumped(@, fd.bump)]))>>
              ELSE <<>>
        a7 == IF acts /\ Inline(i) /\ fd.st = "dirty" THEN <<AltP(D7, "Size(")>> ELSE <<>>
    IN a4 \o a5 \o a3 \o a7
FdFlush(i) ==
    /\ fds[i].open
    /\ fs' = Flushed(i)
    /\ fds' = [fds EXCEPT ![i].st = "flushed", ![i].bump = FALSE, ![i].t0 = Bumped(@, fds[i].bump)]
    /\ Gate("FdFlush", {})
    /\ Ret("FdFlush", [A0 EXCEPT !.fd = i], "ok", {}, <<>>, FlushAlts(i, TRUE))
Close(i) ==
    /\ fds[i].open
    /\ fs' = Flushed(i)
    /\ fds' = [fds EXCEPT ![i] = NoFd]
    /\ Gate("Close", {})
    /\ Ret("Close", [A0 EXCEPT !.fd = i], "ok", {}, <<>>, FlushAlts(i, fds[i].sync))

(* ---- the system ----------------------------------------------------------------------- *)
EmptyFS == (Root :> DirNode(0, 0))
Last0 == [op |-> "Init", a |-> A0, res |-> "ok", names |-> {}, fin |-> <<>>, alts |-> <<>>]
InitWith(tree) == fs = tree /\ fds = [i \in Fds |-> NoFd] /\ region = "none" /\ last = Last0
Init == InitWith(EmptyFS)

Next == \/ \E p \in ArgPaths \cup {Root}, par, fl \in BOOLEAN : Len(p) <= MaxDepth /\ Mkdir(p, par, fl)
        \/ \E p \in ArgPaths \cup {Root} : Len(p) <= MaxDepth /\ Create(p)
        \/ \E p \in ArgPaths, fl \in BOOLEAN : Rm(p, fl)
        \/ \E p \in ArgPaths, d \in MvDsts : Mv(p, d[1], d[2])
        \/ \E p \in ArgPaths \cup {Root} : \/ \E m \in Modes : Chmod(p, m)
                                           \/ \E t \in Times : Touch(p, t)
                                           \/ Lookup(p) \/ List(p) \/ FlushPath(p)
        \/ FlushRoot
        \/ \E i \in Fds : \/ \E p \in ArgPaths, s \in BOOLEAN : Open(i, p, s)
                          \/ \E d \in DataSet : Write(i, d) \/ \E o \in Offs : WriteAt(i, d, o)
                          \/ \E n \in Sizes : Truncate(i, n)
                          \/ FdFlush(i) \/ Close(i)
Spec == Init /\ [][Next]_vars

(* ---- the property --------------------------------------------------------------------- *)
TreeOK(f) == /\ IsD(f, Root)
             /\ \A p \in DOMAIN f : /\ p # Root => IsD(f, Parent(p))       \* hierarchy, files are leaves
                                    /\ Len(p) <= MaxDepth
                                    /\ f[p].k \in {"d", "f"} /\ (f[p].k = "d" => f[p].c = <<>>)
                                    /\ Len(f[p].c) <= MaxLen
WellFormed == TreeOK(fs)
FdsOK == \A i \in Fds : fds[i].open =>
            /\ fds[i].att => IsF(fs, fds[i].p) /\ AttAt(fds[i].p) = {i}
            /\ Len(fds[i].view) <= MaxLen /\ fds[i].st \in {"created", "dirty", "flushed"}
            /\ ~(fds[i].att /\ fds[i].ghost)

\* a refused call changes nothing
FailedOpsNoChange == [][last'.res \notin OkRes => fs' = fs /\ fds' = fds]_vars

\* Mv, stated independently of the Mv action: the subtree appears at the destination, is gone
\* from the source (unless it is the same place), nothing else changes, nothing is lost.
MoveSemantics ==
    [][(last'.op = "Mv" /\ last'.res = "ok") =>
         LET src == last'.a.p   fin == last'.fin IN
         /\ Ex(fs, src)
         /\ \A q \in DOMAIN fs : IsPrefix(src, q) => Ex(fs', fin \o Rel(q, src)) /\ fs'[fin \o Rel(q, src)] = fs[q]
         /\ fin # src => \A q \in DOMAIN fs' : ~IsPrefix(src, q)
         /\ \A q \in DOMAIN fs' : IsPrefix(fin, q) => Ex(fs, src \o Rel(q, fin))
         /\ \A q \in DOMAIN fs \cup DOMAIN fs' :
               (~IsPrefix(src, q) /\ ~IsPrefix(fin, q)) => (Ex(fs, q) /\ Ex(fs', q) /\ fs'[q] = fs[q])
         /\ ~(IsD(fs, src) /\ IsPrefix(src, fin))]_vars

\* Mv is refused ONLY for one of the documented reasons (the converse of MoveSemantics, again stated without
\* the Mv action): nothing to move, no destination directory, the name is taken inside the directory moved
\* into, or the source is a directory and the entry would land in the source itself or below it.  "Below" is
\* a statement about the HIERARCHY: the source is one of the directories on the way from the root to the
\* landing directory, compared name by name -- a sibling whose name (or printed path) merely starts with the
\* same characters (/a vs /ab, /p/a vs /p/a2/x) is NOT below it, and such a move must succeed.
MoveRefusal ==
    [][(last'.op = "Mv" /\ last'.res \notin OkRes) =>
         LET src  == last'.a.p   dst == last'.a.q   ts == last'.a.ts
             into == IF ts THEN dst ELSE Parent(dst)                     \* the directory the destination names
             t    == Append(into, IF ts THEN Base(src) ELSE Base(dst))   \* the entry the destination names
             land == IF IsD(fs, t) THEN t ELSE into                      \* the directory the entry would end up in
         IN \/ ~Ex(fs, src)
            \/ ~IsD(fs, into)
            \/ IsD(fs, t) /\ Ex(fs, Append(t, Base(src)))
            \/ IsD(fs, src) /\ \E i \in 0..Len(land) : Pre(land, i) = src]_vars

\* every other call touches only what it names
Frame ==
    [][LET op == last'.op  p == last'.a.p IN
       /\ op \in {"Lookup", "List", "FlushRoot", "FlushPath", "Open", "Write", "WriteAt", "Truncate"} => fs' = fs
       /\ op \in {"Chmod", "Touch"} => /\ DOMAIN fs' = DOMAIN fs
                                       /\ \A q \in DOMAIN fs : q # p => fs'[q] = fs[q]
                                       /\ last'.res = "ok" => fs'[p].k = fs[p].k /\ fs'[p].c = fs[p].c
       /\ op \in {"FdFlush", "Close"} => /\ DOMAIN fs' = DOMAIN fs
                                         /\ \A q \in DOMAIN fs : q # fds[last'.a.fd].p => fs'[q] = fs[q]
                                         /\ \A q \in DOMAIN fs : fs'[q].m = fs[q].m /\ fs'[q].k = fs[q].k
       /\ op \in {"Mkdir", "Create"} => /\ DOMAIN fs \subseteq DOMAIN fs'
                                        /\ \A q \in DOMAIN fs : fs'[q] = fs[q]
                                        /\ \A q \in DOMAIN fs' \ DOMAIN fs : IsPrefix(q, p) /\ fs'[q].c = <<>>
       /\ op = "Rm" => /\ \A q \in DOMAIN fs' : Ex(fs, q) /\ fs'[q] = fs[q]
                       /\ \A q \in DOMAIN fs \ DOMAIN fs' : IsPrefix(p, q)
                       /\ last'.res = "ok" => ~Ex(fs', p)]_vars

\* an acknowledged write is visible: after a flush/close of an attached descriptor the file holds its view
AckedWriteVisible ==
    [][(last'.op \in {"FdFlush", "Close"} /\ fds[last'.a.fd].att /\ fds[last'.a.fd].st # "flushed")
         => fs'[fds[last'.a.fd].p].c = fds[last'.a.fd].view]_vars

DepthBound == TLCGet("level") <= MaxSteps
MCView == <<fs, fds, region>>
=============================================================================
