SPECIFICATION TSpec
CONSTANTS MaxDepth = 30
          MaxLen = 1000
          NFd = 2
          ArgPaths = {}
          MvDsts = {}
          DataSet = {}
          Offs = {}
          Sizes = {}
          Modes = {}
          Times = {}
          OpenDevs = {}
          Avoid = {}
          MaxSteps = 0
          Devs = @DEVS@
INVARIANTS WellFormed FdsOK DevReport
PROPERTIES FailedOpsNoChange MoveSemantics MoveRefusal Frame AckedWriteVisible
CONSTRAINT TraceConstraint
POSTCONDITION TracePost
CHECK_DEADLOCK FALSE
