------------------------------ MODULE TraceMFS ------------------------------
(* Phase T for C19: a recorded history of the real MFS (NDJSON, one event per public call,
   several runs separated by Reset events) must be a behaviour of MFS: every logged result,
   the whole projected tree after every call, the size of every descriptor's view and, at
   every FlushRoot, the tree re-read from the block store with fresh UnixFS readers must be
   exactly what the specification dictates (ResultMatches, FlushedDagEqualsTree).

   Open known findings are extra actions guarded by Devs: they describe precisely what the
   code does instead, under the precise condition.  D1/D2 (Mv) are complete descriptions; the
   recorder does not enter the regions of D3..D6 (their as-built continuation depends on the
   object cache of MFS, which the tree model deliberately does not have).                    *)
EXTENDS MFS, Json

CONSTANT Devs
Trace == ndJsonDeserialize("trace.ndjson")
VARIABLES l, dev
tvars == <<vars, l, dev>>
ASSUME TLCSet(1, 0)

Ev == Trace[l]
IsEvent(e) == l <= Len(Trace) /\ Trace[l].ev = e /\ l' = l + 1
SetOf(s) == {s[i] : i \in 1..Len(s)}

TInit == l = 1 /\ dev = {} /\ Init

\* what was logged after the call = what the specification says
\* model mtime NOW = "set, value chosen by MFS" (DagModifier refreshes it only for some DAG shapes):
\* any non-zero logged mtime is accepted there, and only there
SameTree(logged, f) ==
    /\ Len(logged) = Cardinality(DOMAIN f)
    /\ {logged[i].p : i \in 1..Len(logged)} = DOMAIN f
    /\ \A i \in 1..Len(logged) :
          LET n == logged[i]  x == f[n.p] IN
          /\ n.k = x.k /\ n.c = x.c /\ n.m = x.m
          /\ n.t = x.t \/ (x.t = NOW /\ n.t # 0)
Post == /\ Ev.problem = ""
        /\ Ev.res = last'.res
        /\ SameTree(Ev.tree, fs')
        /\ Ev.fdsz = [i \in Fds |-> IF fds'[i].open THEN Len(fds'[i].view) ELSE -1]
        /\ UNCHANGED dev

TReset  == /\ IsEvent("Reset") /\ UNCHANGED dev
           /\ fs' = EmptyFS /\ fds' = [i \in Fds |-> NoFd] /\ region' = "none" /\ last' = Last0
TMkdir  == IsEvent("Mkdir") /\ Mkdir(Ev.p, Ev.par, Ev.fl) /\ Post
TCreate == IsEvent("Create") /\ Create(Ev.p) /\ Post
TRm     == IsEvent("Rm") /\ Rm(Ev.p, Ev.fl) /\ Post
TMv     == IsEvent("Mv") /\ Mv(Ev.p, Ev.q, Ev.ts) /\ Post
TChmod  == IsEvent("Chmod") /\ Chmod(Ev.p, Ev.m) /\ Post
TTouch  == IsEvent("Touch") /\ Touch(Ev.p, Ev.m) /\ Post
TLookup == IsEvent("Lookup") /\ Lookup(Ev.p) /\ Post
TList   == IsEvent("List") /\ List(Ev.p) /\ Post /\ (Ev.res = "ok" => SetOf(Ev.names) = last'.names /\ Len(Ev.names) = Cardinality(last'.names))
TFlushPath == IsEvent("FlushPath") /\ FlushPath(Ev.p) /\ Post
\* FlushedDagEqualsTree: the root CID read back from the block store describes exactly the tree
TFlushRoot == IsEvent("FlushRoot") /\ FlushRoot /\ Post /\ Ev.dagProblem = "" /\ SameTree(Ev.dag, fs)
TOpen     == IsEvent("Open") /\ Ev.fd \in Fds /\ Open(Ev.fd, Ev.p, Ev.fl) /\ Post
TWrite    == IsEvent("Write") /\ Ev.fd \in Fds /\ Write(Ev.fd, Ev.d) /\ Post
TWriteAt  == IsEvent("WriteAt") /\ Ev.fd \in Fds /\ WriteAt(Ev.fd, Ev.d, Ev.n) /\ Post
TTruncate == IsEvent("Truncate") /\ Ev.fd \in Fds /\ Truncate(Ev.fd, Ev.n) /\ Post
TFdFlush  == IsEvent("FdFlush") /\ Ev.fd \in Fds /\ FdFlush(Ev.fd) /\ Post
TClose    == IsEvent("Close") /\ Ev.fd \in Fds /\ Close(Ev.fd) /\ Post

(* ---- deviations (open known findings) ------------------------------------------------ *)
DevPost(d, tree) == /\ Ev.problem = "" /\ Ev.res = "ok" /\ SameTree(Ev.tree, tree)
                    /\ fs' = tree /\ region' = region
                    /\ last' = [op |-> "DevMv", a |-> [A0 EXCEPT !.p = Ev.p, !.q = Ev.q, !.ts = Ev.ts], res |-> "ok",
                                names |-> {}, fin |-> <<>>, alts |-> <<>>]
                    /\ Ev.fdsz = [i \in Fds |-> IF fds'[i].open THEN Len(fds'[i].view) ELSE -1]
                    /\ dev' = dev \cup {d}
\* D1: Mv between distinct directories with equal names: copy added, source NOT unlinked
TDevMvDup ==
    /\ D1 \in Devs /\ IsEvent("Mv") /\ Ev.p # Root /\ (Ev.ts \/ Ev.q # Root)
    /\ LET mi == MvInfo(Ev.p, Ev.q, Ev.ts) IN
       /\ mi.dup
       /\ fds' = [i \in Fds |-> IF i \in AttAt(mi.final) THEN [fds[i] EXCEPT !.att = FALSE] ELSE fds[i]]
       /\ DevPost(D1, MvCopied(Ev.p, mi.final))
\* D2: Mv of a directory into its own subtree: nil, copy added below the source, source unlinked
\* (or, when the directory names also coincide, not even unlinked)
TDevMvSelf ==
    /\ D2 \in Devs /\ IsEvent("Mv") /\ Ev.p # Root /\ (Ev.ts \/ Ev.q # Root)
    /\ LET mi == MvInfo(Ev.p, Ev.q, Ev.ts) IN
       /\ mi.self
       /\ \/ /\ fds' = MvFds(Ev.p, mi.final)
             /\ DevPost(D2, Without(fs, Ev.p))
          \/ /\ mi.nameq
             /\ fds' = [i \in Fds |-> IF i \in AttAt(mi.final) THEN [fds[i] EXCEPT !.att = FALSE] ELSE fds[i]]
             /\ DevPost(D2, MvCopied(Ev.p, mi.final))

TNext == \/ TReset \/ TMkdir \/ TCreate \/ TRm \/ TMv \/ TChmod \/ TTouch \/ TLookup \/ TList
         \/ TFlushPath \/ TFlushRoot \/ TOpen \/ TWrite \/ TWriteAt \/ TTruncate \/ TFdFlush \/ TClose
         \/ TDevMvDup \/ TDevMvSelf
TSpec == TInit /\ [][TNext]_tvars

TraceConstraint == TLCSet(1, IF l - 1 > TLCGet(1) THEN l - 1 ELSE TLCGet(1))
TracePost == PrintT(<<"TRACE_HWM", TLCGet(1)>>)
DevReport == l <= Len(Trace) \/ \A d \in dev : PrintT(<<"DEV_USED", d>>)
=============================================================================
