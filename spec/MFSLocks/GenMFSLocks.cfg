SPECIFICATION GSpec
CONSTANTS Devs = @DEVS@
          Both = FALSE
          ScenSet <- @SCEN@
CHECK_DEADLOCK FALSE
