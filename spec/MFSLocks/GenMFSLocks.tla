---------------------------- MODULE GenMFSLocks ----------------------------
(* Phase G: schedules of MFSLocks printed as JSON, one behaviour per simulated run.  Every step
   carries the instruction the thread executes (compared with the lock call / access the real thread is about
   to make) and the model state the harness compares after executing that step in the real code:
   position (op index, pc, run/wait) of every thread, the locks that have an announced or
   holding writer (probed with TryRLock/TryLock), File.node of both files, and the result of a
   Read.  A run ends when all sessions are finished ("complete"), when nothing can move
   ("stuck") or when an acknowledged write is no longer in File.node ("lost").
   Replay must be deterministic, so runs never let a second writer queue on the same lock (the
   order in which Go wakes queued writers is not controllable from gates). *)
EXTENDS MFSLocks, Json, Randomization
VARIABLE hist
gvars == <<vars, hist>>

Rec(t) == LET i == prog'[t][pc[t]] IN
          [t |-> t,
           ins |-> <<i[1], i[2], i[3]>>,
           pos |-> [u \in T |-> <<opi'[u], pc'[u], st'[u]>>],
           wown |-> {x \in LockIds : wown'[x] # 0},
           node |-> node',
           rb |-> IF i[4] = "rbuf" THEN <<buf[t]>> ELSE <<>>]

GStep(t) == /\ Step(t)
            /\ \A x \in LockIds : Cardinality(wq'[x]) <= 1
            /\ hist' = Append(hist, Rec(t))

Lost == ~AckedWriteVisible
End == AllDone \/ Stuck \/ Lost
\* blocked only because of the single-queued-writer restriction: abandon the run silently
Dead == ~End /\ ~ENABLED (\E t \in T : GStep(t))

Flush == /\ End \/ Dead
         \* (IF, not \/ : in an action TLC evaluates both disjuncts)
         /\ IF Dead THEN TRUE
            ELSE PrintT(<<"BEHAVIOUR", ToJson([kind |-> IF Lost THEN "lost" ELSE IF Stuck THEN "stuck" ELSE "complete",
                                            scen |-> scen, steps |-> hist, acked |-> acked,
                                            nt |-> Len(scen)])>>)
         /\ hist' = <<>>
         /\ scen' \in RandomSubset(1, ScenSet) /\ Restart

GInit == scen \in RandomSubset(1, ScenSet) /\ InitRest /\ hist = <<>>
GNext == IF End \/ Dead THEN Flush ELSE \E t \in T : GStep(t)
GSpec == GInit /\ [][GNext]_gvars
=============================================================================
