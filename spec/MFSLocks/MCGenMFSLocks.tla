--------------------------- MODULE MCGenMFSLocks ---------------------------
EXTENDS GenMFSLocks
S(op, f) == << <<op, f>> >>
WSess(f)  == << <<"OpenW", f>>, <<"Write", f>>, <<"FdFlush", f>>, <<"Write", f>>, <<"Close", f>> >>
WnSess(f) == << <<"OpenWn", f>>, <<"Write", f>>, <<"Close", f>> >>
RSess(f)  == << <<"OpenR", f>>, <<"Read", f>>, <<"Close", f>> >>
RpSess(f) == << <<"OpenR", f>>, <<"ReadP", f>>, <<"Close", f>> >>
\* DirGetNode is excluded: Go's map iteration order in cacheSync cannot be forced by gates
FileSessions(f) == {WSess(f), WnSess(f), RSess(f)} \cup
    {S(op, f) : op \in {"FileFlush", "FileSync", "Size", "GetNode", "Mode", "ModTime", "SetMode", "SetModTime"}}
DirSessions == {S(op, "f1") : op \in {"List", "ListNames", "Lookup", "Mkdir", "Unlink"}}
\* operations of the sub-directory d that leave every other operation's program unchanged (SubFlush empties
\* d's cache, Mv/Mkdir/AddChild change the listing: those take part in M at program level only)
SubSessions == {S(op, "f1") : op \in {"SubSetMode", "SubSetModTime", "ChmodSub", "SubMode", "SubGetNode", "SubList",
                                       "SubLookup", "SubUnlink"}}
\* descriptor sessions with the other write APIs in the descriptor states created / dirty / flushed
WaSess(f) == << <<"OpenW", f>>, <<"WriteAt", f>>, <<"FdFlush", f>>, <<"Trunc", f>>, <<"FdFlush", f>>,
                <<"WriteAt", f>>, <<"Close", f>> >>
FdS(o, f, b) == << <<o, f>> >> \o [i \in 1..Len(b) |-> <<b[i], f>>] \o << <<"Close", f>> >>
FdSessions == {FdS("OpenW", "f1", <<"FdFlush", "WriteAt">>), FdS("OpenWn", "f1", <<"FdFlush", "Trunc">>),
               FdS("OpenW", "f1", <<"Trunc", "WriteAt">>), FdS("OpenWn", "f1", <<"WriteAt", "FdFlush">>),
               FdS("OpenW", "f1", <<"WriteAt">>), FdS("OpenWn", "f1", <<"Trunc">>)}
Two(a, b) == a \o b
Base == FileSessions("f1") \cup DirSessions \cup {WSess("f2"), S("SetMode", "f2"), S("Mode", "f2"), RSess("f2")}
        \cup SubSessions \cup FdSessions
        \cup {RpSess("f1"), WaSess("f1"), WSess("f3"), RSess("f3"), S("SetMode", "f3"), S("FileFlush", "f3"), S("Mode", "f3")}
Sess == Base \cup {Two(WSess("f1"), RSess("f1")), Two(S("SetModTime", "f1"), RSess("f1")), Two(S("Mode", "f1"), WnSess("f1"))}
GenScen == {<<a, b>> : a \in Sess, b \in Sess} \cup
           {<<a, b, c>> : a \in Sess, b \in {WSess("f1"), S("Mode", "f1"), S("SetMode", "f1"), S("List", "f1")}, c \in Sess}
           \cup {<<a, b, c, d>> : a \in {WSess("f1"), RSess("f1")}, b \in {S("Mode", "f1"), S("SetMode", "f1"), S("FileFlush", "f1")},
                                  c \in {S("List", "f1"), WnSess("f1"), S("ModTime", "f1")}, d \in Sess}
\* scenarios in which the as-built deviations can bite (writer / flusher against Mode / SetMode)
HotScen == {<<a, b>> : a \in {WSess("f1"), WnSess("f1"), S("FileFlush", "f1"), S("SetMode", "f1"), S("SetModTime", "f1")},
                       b \in {S("Mode", "f1"), S("ModTime", "f1"), S("SetMode", "f1"), S("SetModTime", "f1")}}
           \cup {<<a, b, c>> : a \in {WSess("f1")}, b \in {S("Mode", "f1"), S("SetMode", "f1")}, c \in {RSess("f1"), S("List", "f1"), S("ModTime", "f1")}}
=============================================================================
