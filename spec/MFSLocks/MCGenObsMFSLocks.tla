--------------------------- MODULE MCGenObsMFSLocks ---------------------------
(* Schedule generator over the OBSERVED programs. *)
EXTENDS MCGenMFSLocks, ObsProgs
=============================================================================
