SPECIFICATION Spec
CONSTANTS Devs = {}
          Both = FALSE
          ScenSet <- ScenQuick
          FdDepth = 2
INVARIANTS TypeOK LockSafety AckedWriteVisible FlushedRootVisible NoStuck
CHECK_DEADLOCK TRUE
