SPECIFICATION Spec
CONSTANTS Devs = {}
          Both = FALSE
          ScenSet <- ScenQuick
INVARIANTS TypeOK LockSafety AckedWriteVisible FlushedRootVisible NoStuck
CHECK_DEADLOCK TRUE
