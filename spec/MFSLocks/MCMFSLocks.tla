---------------------------- MODULE MCMFSLocks ----------------------------
(* Scenario sets for exhaustive model checking of MFSLocks.

   Operation alphabet (see notes/C20.md for the table of exported methods): file operations on f1/f2 (root)
   and f3 (inside the sub-directory d), descriptor sessions, operations of the ROOT directory, operations of
   the SUB-directory d (metadata, listing, flushing: child->parent propagation against the parent->child
   order of the root's listing/flush), Root/ops.go entry points.  The state-changing directory operations
   (MkdirNew, MkdirOps, AddChild, SubAddChild, PutNodeSub, DirFlush, FlushMemFree, SubFlush, Mv, MvSub) take part at PROGRAM level: their lock
   program as recorded alone is interleaved with the others; what they change in the directory is not
   modelled. *)
EXTENDS MFSLocks

CONSTANT FdDepth     \* descriptor sessions: every sequence of <= FdDepth modifying/flush calls between Open and Close

S(op, f) == << <<op, f>> >>
WSess(f)  == << <<"OpenW", f>>, <<"Write", f>>, <<"FdFlush", f>>, <<"Write", f>>, <<"Close", f>> >>
WnSess(f) == << <<"OpenWn", f>>, <<"Write", f>>, <<"Close", f>> >>
RSess(f)  == << <<"OpenR", f>>, <<"Read", f>>, <<"Close", f>> >>
\* the other write APIs, each one after a Flush (descriptor state "flushed")
WaSess(f) == << <<"OpenW", f>>, <<"WriteAt", f>>, <<"FdFlush", f>>, <<"Trunc", f>>, <<"FdFlush", f>>,
                <<"WriteAt", f>>, <<"Close", f>> >>

\* every descriptor state sequence: Open(sync | not sync), any sequence of Write / WriteAt / Truncate / Flush
\* (each call is thereby made in state created, dirty and flushed), Close
FdCalls == {"Write", "WriteAt", "Trunc", "FdFlush"}
FdBodies == UNION {[1..k -> FdCalls] : k \in 0..FdDepth}
FdSess(o, f, b) == << <<o, f>> >> \o [i \in 1..Len(b) |-> <<b[i], f>>] \o << <<"Close", f>> >>
FdAll(f) == {FdSess(o, f, b) : o \in {"OpenW", "OpenWn"}, b \in FdBodies}

FSeq(f) == <<WSess(f), WnSess(f), RSess(f), S("FileFlush", f), S("FileSync", f), S("Size", f), S("GetNode", f),
            S("Mode", f), S("ModTime", f), S("SetMode", f), S("SetModTime", f)>>
\* operations of the root directory (and Root / ops.go entry points that go through it)
DSeq == <<S("List", "f1"), S("ListNames", "f1"), S("Lookup", "f1"), S("Mkdir", "f1"), S("Unlink", "f1"),
          S("DirGetNode", "f1"), S("DirFlush", "f1"), S("RootFlush", "f1"), S("RootSetMode", "f1"),
          S("AddChild", "f1"), S("MkdirNew", "f1"), S("Mv", "f2"), S("MvSub", "f1"),
          S("RootClose", "f1"), S("FlushMemFree", "f1"), S("PutNodeSub", "f1"), S("MkdirOps", "f1")>>
\* operations of the sub-directory d
SubDSeq == <<S("SubSetMode", "f1"), S("SubSetModTime", "f1"), S("ChmodSub", "f1"), S("TouchSub", "f1"),
            S("SubMode", "f1"), S("SubModTime", "f1"), S("SubGetNode", "f1"), S("SubFlush", "f1"),
            S("SubList", "f1"), S("SubListNames", "f1"), S("SubLookup", "f1"), S("SubUnlink", "f1"),
            S("SubAddChild", "f1")>>
\* f2 only for the sessions that interact across files through the directory; f3 = the file inside d
\* (its flushes and metadata updates propagate through d to the root)
F2Seq == <<WSess("f2"), RSess("f2"), S("Mode", "f2"), S("SetMode", "f2"), S("FileFlush", "f2")>>
F3Seq == <<WSess("f3"), RSess("f3"), S("Mode", "f3"), S("SetMode", "f3"), S("FileFlush", "f3")>>
All == FSeq("f1") \o DSeq \o SubDSeq \o F2Seq \o F3Seq
\* f2 sessions meet the f1, directory and f2 sessions; f3 sessions meet the directory and f3 sessions: files of
\* different directories share no lock but the ancestors' directory locks, exactly as f1 and f2 do (pairs f1 x f2)
F1Idx == 1..Len(FSeq("f1"))
F2Idx == (Len(All) - Len(F3Seq) - Len(F2Seq) + 1)..(Len(All) - Len(F3Seq))
F3Idx == (Len(All) - Len(F3Seq) + 1)..Len(All)
\* sessions that can be part of a cycle / lost update (used for 3 and 4 threads)
Core == <<WSess("f1"), RSess("f1"), S("Mode", "f1"), S("SetMode", "f1"), S("FileFlush", "f1"),
          S("List", "f1"), S("DirGetNode", "f1"), WnSess("f2"), S("ModTime", "f2")>>
Core4 == <<WSess("f1"), RSess("f1"), S("Mode", "f1"), S("SetModTime", "f1"), S("List", "f1")>>
\* three locks of three levels (File.nodeLock of f3, lock of d, lock of the root), one thread per level: an
\* update of f3 going up, an update / flush of d going up, a listing of the root going down
ScenD == {<<a, b, S("List", "f1")>> : a \in {S("SetMode", "f3"), S("FileFlush", "f3")},
                                      b \in {S("SubSetMode", "f1"), S("SubFlush", "f1")}}

\* A single-operation session whose program set is contained in that of an earlier single-operation session adds
\* no behaviour to the model (the operation name occurs nowhere else; fewer program variants = fewer choices):
\* only the first one of each class takes part in the combinations.  The comparison uses ProgSet, i.e. the
\* OBSERVED programs when the cfg substitutes them, so an operation whose program changes becomes a class of
\* its own (e.g. ModTime = Mode = GetNode, SetModTime = SetMode, Lookup = ListNames, RootFlush <= DirGetNode).
SProg(s) == ProgSet(s[1][1], s[1][2], 1, "none", FALSE, FALSE, <<s[1][1]>>)
Keep(q) == {i \in 1..Len(q) : ~(Len(q[i]) = 1 /\ \E j \in 1..(i - 1) : Len(q[j]) = 1 /\ SProg(q[i]) \subseteq SProg(q[j]))}

\* threads are interchangeable: unordered combinations suffice
U2(q) == LET K == Keep(q) IN UNION {{<<q[i], q[j]>> : j \in {k \in K : k >= i /\ ~(i \in F1Idx \cup F2Idx /\ k \in F3Idx)}} : i \in K}
\* the other write APIs under concurrency (lock-wise WriteAt/Truncate = Write; sequentially: FdScen)
WaPairs == {<<WaSess("f1"), s>> : s \in {S("SetMode", "f1"), S("List", "f1"), RSess("f1")}}
U3(q) == LET K == Keep(q) IN
         UNION {UNION {{<<q[i], q[j], q[k]>> : k \in {m \in K : m >= j}} : j \in {m \in K : m >= i}} : i \in K}
U4(q) == UNION {UNION {UNION {{<<q[i], q[j], q[k], q[m]>> : m \in k..Len(q)} : k \in j..Len(q)} : j \in i..Len(q)} : i \in 1..Len(q)}

\* one thread: the sequential semantics of every descriptor session (acknowledged write visible)
FdScen == {<<s>> : s \in FdAll("f1")}

ScenQuick == U2(All) \cup U3(Core4) \cup ScenD \cup FdScen \cup WaPairs
ScenAll == U2(All) \cup U3(Core) \cup U4(Core4) \cup ScenD \cup FdScen \cup WaPairs
=============================================================================
