---------------------------- MODULE MCMFSLocks ----------------------------
(* Scenario sets for exhaustive model checking of MFSLocks. *)
EXTENDS MFSLocks

S(op, f) == << <<op, f>> >>
WSess(f)  == << <<"OpenW", f>>, <<"Write", f>>, <<"FdFlush", f>>, <<"Write", f>>, <<"Close", f>> >>
WnSess(f) == << <<"OpenWn", f>>, <<"Write", f>>, <<"Close", f>> >>
RSess(f)  == << <<"OpenR", f>>, <<"Read", f>>, <<"Close", f>> >>

FSeq(f) == <<WSess(f), WnSess(f), RSess(f), S("FileFlush", f), S("FileSync", f), S("Size", f), S("GetNode", f),
            S("Mode", f), S("ModTime", f), S("SetMode", f), S("SetModTime", f)>>
DSeq == <<S("List", "f1"), S("ListNames", "f1"), S("Lookup", "f1"), S("Mkdir", "f1"), S("Unlink", "f1"),
          S("DirGetNode", "f1")>>
\* f2 only for the sessions that interact across files through the directory
All == FSeq("f1") \o DSeq \o <<WSess("f2"), RSess("f2"), S("Mode", "f2"), S("SetMode", "f2"), S("FileFlush", "f2")>>
\* sessions that can be part of a cycle / lost update (used for 3 and 4 threads)
Core == <<WSess("f1"), RSess("f1"), S("Mode", "f1"), S("SetMode", "f1"), S("FileFlush", "f1"),
          S("List", "f1"), S("DirGetNode", "f1"), WnSess("f2"), S("ModTime", "f2")>>
Core4 == <<WSess("f1"), RSess("f1"), S("Mode", "f1"), S("SetModTime", "f1"), S("List", "f1")>>

\* threads are interchangeable: unordered combinations suffice
U2(q) == UNION {{<<q[i], q[j]>> : j \in i..Len(q)} : i \in 1..Len(q)}
U3(q) == UNION {UNION {{<<q[i], q[j], q[k]>> : k \in j..Len(q)} : j \in i..Len(q)} : i \in 1..Len(q)}
U4(q) == UNION {UNION {UNION {{<<q[i], q[j], q[k], q[m]>> : m \in k..Len(q)} : k \in j..Len(q)} : j \in i..Len(q)} : i \in 1..Len(q)}

ScenQuick == U2(All) \cup U3(Core4)
ScenAll == U2(All) \cup U3(Core) \cup U4(Core4)
=============================================================================
