---------------------------- MODULE MCObsMFSLocks ----------------------------
(* Model checking of the OBSERVED programs (ObsProgs.tla generated from the recordings of the
   current code).  Excl: operations excluded from the scenarios (used to look for further
   counterexamples after one was attributed to a known deviation). *)
EXTENDS MCMFSLocks, ObsProgs
CONSTANT Excl
Filt(SS) == {sc \in SS : \A i \in 1..Len(sc) : \A j \in 1..Len(sc[i]) : sc[i][j][1] \notin Excl}
ObsScenQuick == Filt(ScenQuick)
ObsScenAll == Filt(ScenAll)
=============================================================================
