------------------------------ MODULE MFSLocks ------------------------------
(* C20 -- MFS is deadlock-free and loses no acknowledged write under concurrency.

   Grain: one step = one critical-section boundary of mfs/{file,fd,dir}.go, i.e. one call of
   Lock/RLock/Unlock/RUnlock on File.desclock, File.nodeLock, Directory.lock, fileDescriptor.mu,
   or one access (read/assignment) of File.node.  Every goroutine ("thread") executes a session
   (sequence of MFS operations); each operation expands to a *program* = sequence of
   instructions  <<kind, class, id, effect>> :
        kind   "L" "U" (exclusive)  "R" "RU" (shared)  "rd" "wr" (access of File.node)
        class  "desc" "node" (id = file) | "dir" (id = "root"/"sub") | "mu" (id = owner thread) | "val"
        effect what the abstract data does when the instruction completes (see Apply)
   The programs are NOT trusted: phase T validates the lock/access events recorded from the
   real code (hooks on every lock call and every File.node access) against exactly these programs
   (TraceMFSLocks), and phase G replays schedules of this model step by step in the real code.

   Lock semantics = Go sync.RWMutex: a writer first becomes the lock's announced writer (wown);
   from then on NEW readers queue (rwait) although the writer itself still waits for the active
   readers to drain -- this is what turns a re-entrant RLock into a deadlock.  Unlock admits all
   queued readers at once, then hands over to a queued writer.  sync.Mutex = same with L/U only.

   Descriptor rule (stated by Apply, independent of the code): EVERY modifying call of a descriptor --
   Write, WriteAt, Truncate -- in EVERY descriptor state (created, dirty, flushed) changes the descriptor's
   view buf[t] and makes the descriptor "dirty"; a Flush()/Close() that returns acknowledges the whole view
   (acked[f] gets buf[t]), whatever sequence of calls preceded it.  The programs observed in the code are
   keyed by that sequence, so a call that forgets to mark the descriptor dirty yields a Flush/Close
   program without the File.node assignment and AckedWriteVisible fails in the model.

   Data: a file's content is the set of tokens (bytes) written to it (Truncate(size+1) = token 0).  node[f] = File.node,
   entry[f] = the parent directory's link, buf[t] = the descriptor's DagModifier view,
   loc/tmp = values read by GetNode()/setNodeData.  acked[f] = tokens whose Flush()/Close()
   returned.  Ideal programs are the default; an as-built variant is selected by a deviation
   name in Devs (one per open finding). *)
EXTENDS Naturals, Sequences, FiniteSets, TLC

CONSTANTS Devs,      \* set of deviation names (as-built program variants)
          Both,      \* TRUE: an enabled deviation ADDS the as-built variant (trace validation: the
                     \* code may or may not have been repaired); FALSE: it REPLACES the ideal one
          ScenSet    \* set of scenarios: a scenario is a sequence (<= 4) of sessions,
                     \* a session is a sequence of <<op, file>>

VARIABLES scen, opi, pc, prog, st,            \* control
          wown, held, act, rwait, wq,         \* locks
          node, entry, buf, loc, tmp, acked,  \* data
          fdst, fdw, fdsync, wn               \* descriptor state per thread

cvars == <<scen, opi, pc, prog, st>>
lvars == <<wown, held, act, rwait, wq>>
dvars == <<node, entry, buf, loc, tmp, acked, fdst, fdw, fdsync, wn>>
vars  == <<cvars, lvars, dvars>>

NT == 4
T  == 1..NT
TN == <<"t1", "t2", "t3", "t4">>
\* tree:  /        (Directory "root")  entries  d, f1, f2
\*        /d       (Directory "sub")   entry    f3          -- every object cached (looked up before the run)
\* so that parent->child lock order (listing / flushing the root visits d, d visits f3) and child->parent
\* propagation (a flush or metadata update of f3 / of d goes up through d to the root) both occur.
Files == {"f1", "f2", "f3"}
NN == <<"n1", "n2", "n3", "n4">>      \* lock of a directory object created by the thread itself (Mkdir of a new name)
LockIds == {<<"desc", f>> : f \in Files} \cup {<<"node", f>> : f \in Files}
           \cup {<<"dir", "root">>, <<"dir", "sub">>} \cup {<<"mu", TN[t]>> : t \in T}
           \cup {<<"dir", NN[t]>> : t \in T}

-----------------------------------------------------------------------------
(* programs *)
Rd3(f, e) == << <<"R", "node", f, "-">>, <<"rd", "val", f, e>>, <<"RU", "node", f, "-">> >>
DirLU(e)  == << <<"L", "dir", "root", "-">>, <<"U", "dir", "root", e>> >>
SubLU(e)  == << <<"L", "dir", "sub", "-">>, <<"U", "dir", "sub", e>> >>
\* parent.updateChildEntry for file f: one localUpdate section per ancestor directory, bottom-up, never nested
UpP(f, e) == IF f = "f3" THEN SubLU(e) \o DirLU(e) ELSE DirLU(e)
\* Directory.getNode of d: lock, cacheSync visits the cached f3 (File.GetNode), unlock
SubSync   == << <<"L", "dir", "sub", "-">> >> \o Rd3("f3", "sync") \o << <<"U", "dir", "sub", "-">> >>
Mu(t, e)  == << <<"L", "mu", TN[t], "-">>, <<"U", "mu", TN[t], e>> >>

\* fileDescriptor.flushUp(fullSync) in descriptor state s
FlushUpP(f, s, sync) ==
    IF s \in {"created", "dirty"}
    THEN << <<"L", "node", f, "-">>, <<"wr", "val", f, "stbuf">>, <<"U", "node", f, "-">> >>
         \o (IF sync THEN UpP(f, "pubbuf") ELSE <<>>)
    ELSE <<>>

OpenP(f, k, e) == << <<k, "desc", f, "-">>, <<"R", "node", f, "-">>, <<"rd", "val", f, "ldbuf">>,
                     <<"RU", "node", f, e>> >>
FdFlushP(t, f, s) == << <<"L", "mu", TN[t], "-">> >> \o FlushUpP(f, s, TRUE)
                     \o << <<"U", "mu", TN[t], "ack">> >>
CloseP(t, f, s, w, sync) == << <<"L", "mu", TN[t], "-">> >> \o FlushUpP(f, s, sync)
                     \o << <<IF w THEN "U" ELSE "RU", "desc", f, "-">>, <<"U", "mu", TN[t], "ackclose">> >>

\* File.Mode()/ModTime(): ideal = one shared section; as built = RLock, then GetNode() RLocks again
ModeIdeal(f)   == Rd3(f, "ldloc")
ModeAsBuilt(f) == << <<"R", "node", f, "-">> >> \o Rd3(f, "ldloc") \o << <<"RU", "node", f, "-">> >>
\* File.SetMode()/SetModTime(): ideal = read-modify-write of File.node in ONE exclusive section,
\* then publish; as built = GetNode() (shared section) for the UnixFS data (size, mode, mtime), then
\* setNodeData reads File.node WITHOUT any lock for the links (= the content blocks, i.e. the tokens),
\* later assigns the node built from these two stale reads, and reads File.node unlocked once more
SetAttrIdeal(f) == << <<"L", "node", f, "-">>, <<"rd", "val", f, "ldloc">>, <<"wr", "val", f, "stloc">>,
                      <<"U", "node", f, "-">> >> \o UpP(f, "publoc")
SetAttrAsBuilt(f) == Rd3(f, "ldloc") \o << <<"rd", "val", f, "ldtmp">>, <<"L", "node", f, "-">>,
                   <<"wr", "val", f, "sttmp">>, <<"U", "node", f, "-">>, <<"rd", "val", f, "ldtmp">> >>
                 \o UpP(f, "pubtmp")
Variants(d, ideal, asbuilt) == IF d \in Devs THEN (IF Both THEN {ideal, asbuilt} ELSE {asbuilt}) ELSE {ideal}
ModeP(f)    == Variants("Dev_C20_ModeReentrantRLock", ModeIdeal(f), ModeAsBuilt(f))
SetAttrP(f) == Variants("Dev_C20_SetAttrLostUpdate", SetAttrIdeal(f), SetAttrAsBuilt(f))
\* deviations whose as-built variant is program p (for reporting)
DevsOf(p) == {d \in Devs : \E f \in Files :
                 \/ d = "Dev_C20_ModeReentrantRLock" /\ p = ModeAsBuilt(f)
                 \/ d = "Dev_C20_SetAttrLostUpdate" /\ p = SetAttrAsBuilt(f)}

\* Directory.ForEachEntry on the root (entries d, f1, f2 in name order): child.GetNode() then Size()
ListP == << <<"L", "dir", "root", "-">> >> \o SubSync
         \o Rd3("f1", "peek") \o Rd3("f1", "peek") \o Rd3("f2", "peek") \o Rd3("f2", "peek")
         \o << <<"U", "dir", "root", "-">> >>
\* Directory.getNode: cacheSync visits the cached entries in Go map order (perm = order of the 3)
SyncEnt(x) == IF x = "d" THEN SubSync ELSE Rd3(x, "sync")
DirGetNodeP(perm) == << <<"L", "dir", "root", "-">> >> \o SyncEnt(perm[1]) \o SyncEnt(perm[2])
                     \o SyncEnt(perm[3]) \o << <<"U", "dir", "root", "-">> >>
Perms == {p \in [1..3 -> {"d", "f1", "f2"}] : \A i, j \in 1..3 : i # j => p[i] # p[j]}

\* program of operation op on file f by thread t, descriptor state (s, w, sync); a SET (the
\* only nondeterminism is Go's map iteration order in cacheSync).  hs = names of the thread's
\* operations since its last Open (inclusive, up to op): unused by these hand-written programs,
\* it is the key under which the programs OBSERVED in the code are looked up (ObsProgs)
ProgSet(op, f, t, s, w, sync, hs) ==
    CASE op = "OpenW"    -> {OpenP(f, "L", "openws")}
      [] op = "OpenWn"   -> {OpenP(f, "L", "openw")}
      [] op = "OpenR"    -> {OpenP(f, "R", "openr")}
      [] op = "Write"    -> {Mu(t, "-") \o Mu(t, "wbuf")}              \* Seek(0, End); Write(token)
      [] op = "WriteAt"  -> {Mu(t, "-") \o Mu(t, "wbuf")}              \* n := Size(); WriteAt(token, n)
      [] op = "Trunc"    -> {Mu(t, "-") \o Mu(t, "tbuf")}              \* n := Size(); Truncate(n + 1)
      [] op = "Read"     -> {Mu(t, "rbuf")}                            \* CtxReadFull
      [] op = "ReadP"    -> {Mu(t, "rbuf")}                            \* Read (io.Reader)
      [] op = "FdFlush"  -> {FdFlushP(t, f, s)}
      [] op = "Close"    -> {CloseP(t, f, s, w, sync)}
      [] op = "FileFlush" -> {OpenP(f, "L", "openws") \o FdFlushP(t, f, "created")
                              \o CloseP(t, f, "flushed", TRUE, TRUE)}
      [] op = "FileSync" -> {<< <<"L", "desc", f, "-">>, <<"U", "desc", f, "-">> >>}
      [] op = "Size"     -> {Rd3(f, "peek")}
      [] op = "GetNode"  -> {Rd3(f, "ldloc")}
      [] op = "Mode"     -> ModeP(f)
      [] op = "ModTime"  -> ModeP(f)
      [] op = "SetMode"  -> SetAttrP(f)
      [] op = "SetModTime" -> SetAttrP(f)
      [] op = "List"     -> {ListP}
      [] op \in {"ListNames", "Lookup", "Mkdir", "Unlink", "Uncache0"} -> {DirLU("-")}
      [] op = "DirGetNode" -> {DirGetNodeP(p) : p \in Perms}
      [] op = "DirFlush" -> {DirGetNodeP(p) : p \in Perms}
      [] op \in {"RootFlush", "RootClose", "FlushMemFree"} -> {DirGetNodeP(p) : p \in Perms}  \* Root methods = getNode of the root directory
      \* Directory.SetMode/SetModTime on the ROOT directory: GetNode, then setNodeData (its parent is the
      \* Root object, which has no lock) re-locks the directory to replace unixfsDir
      [] op = "RootSetMode" -> {DirGetNodeP(p) \o DirLU("-") : p \in Perms}
      \* the same on the sub-directory d: GetNode (own lock), propagate to the parent (the root's lock, d's
      \* own lock NOT held: holding it here would be child->parent against List's parent->child), re-lock d
      [] op \in {"SubSetMode", "SubSetModTime"} -> {SubSync \o DirLU("-") \o SubLU("-")}
      [] op \in {"ChmodSub", "TouchSub"} -> {DirLU("-") \o SubSync \o DirLU("-") \o SubLU("-")}   \* Lookup("/d"), then the above
      [] op \in {"SubMode", "SubModTime", "SubGetNode"} -> {SubSync}
      [] op = "SubFlush" -> {SubSync \o DirLU("-")}                   \* getNode(true), parent.updateChildEntry
      [] op = "SubList"  -> {<< <<"L", "dir", "sub", "-">> >> \o Rd3("f3", "peek") \o Rd3("f3", "peek")
                             \o << <<"U", "dir", "sub", "-">> >>}
      [] op \in {"SubListNames", "SubLookup", "SubUnlink", "SubAddChild"} -> {SubLU("-")}
      [] op = "AddChild" -> {DirLU("-")}
      [] op = "PutNodeSub" -> {DirLU("-") \o SubLU("-")}               \* PutNode(/d/x): Lookup(/d), d.AddChild
      \* Mkdir(/d/x, Flush): Lookup(/d); d.Mkdir(x) (d's lock, inside it the new object's lock); x.Flush():
      \* x.getNode, then the update goes up through d and the root (one section each, never nested)
      [] op = "MkdirOps" -> {DirLU("-") \o << <<"L", "dir", "sub", "-">>, <<"L", "dir", NN[t], "-">>, <<"U", "dir", NN[t], "-">>,
                                               <<"U", "dir", "sub", "-">>, <<"L", "dir", NN[t], "-">>, <<"U", "dir", NN[t], "-">> >>
                             \o SubLU("-") \o DirLU("-")}
      \* Mkdir of a NEW name: under the parent's lock the new directory object is created and its GetNode()
      \* takes the new object's own lock (parent->child)
      [] op = "MkdirNew" -> {<< <<"L", "dir", "root", "-">>, <<"L", "dir", NN[t], "-">>, <<"U", "dir", NN[t], "-">>,
                                <<"U", "dir", "root", "-">> >>}
      \* Mv(/f2 -> /f9): Child(src); src.GetNode(); Child(dst) fails; AddChild; Unlink(src)
      [] op = "Mv"       -> {DirLU("-") \o Rd3(f, "peek") \o DirLU("-") \o DirLU("-") \o DirLU("-")}
      \* Mv(/d -> /e): the same with a directory as the source object (GetNode = SubSync)
      [] op = "MvSub"    -> {DirLU("-") \o SubSync \o DirLU("-") \o DirLU("-") \o DirLU("-")}

-----------------------------------------------------------------------------
Ops(t) == IF t <= Len(scen) THEN scen[t] ELSE <<>>
Done(t) == opi[t] > Len(Ops(t))
CurF(t) == Ops(t)[opi[t]][2]
Ins(t)  == prog[t][pc[t]]
LockOf(i) == <<i[2], i[3]>>
NoReaders(l) == \A u \in T : act[l][u] = 0
Tok(t) == t * 10 + wn[t] + 1

\* the program is (re)chosen when an operation starts (pc = 1), from the descriptor state at that
\* moment (only the thread itself changes it)
OpenOps == {"OpenW", "OpenWn", "OpenR"}
FdCtx(t) == LET ops == Ops(t)  i == opi[t]
                opens == {j \in 1..i : ops[j][1] \in OpenOps}
                a == IF opens = {} THEN i ELSE CHOOSE j \in opens : \A k \in opens : k <= j
            IN  [j \in 1..(i - a + 1) |-> ops[a + j - 1][1]]
CurProgs(t) == IF pc[t] = 1 /\ st[t] = "run"
               THEN ProgSet(Ops(t)[opi[t]][1], CurF(t), t, fdst[t], fdw[t], fdsync[t], FdCtx(t))
               ELSE {prog[t]}

InitRest == /\ opi = [t \in T |-> 1] /\ pc = [t \in T |-> 1] /\ st = [t \in T |-> "run"]
            /\ prog = [t \in T |-> <<>>]
            /\ wown = [l \in LockIds |-> 0] /\ held = [l \in LockIds |-> FALSE]
            /\ act = [l \in LockIds |-> [u \in T |-> 0]]
            /\ rwait = [l \in LockIds |-> {}] /\ wq = [l \in LockIds |-> {}]
            /\ node = [f \in Files |-> {}] /\ entry = [f \in Files |-> {}]
            /\ buf = [t \in T |-> {}] /\ loc = [t \in T |-> {}] /\ tmp = [t \in T |-> {}]
            /\ acked = [f \in Files |-> {}]
            /\ fdst = [t \in T |-> "none"] /\ fdw = [t \in T |-> FALSE] /\ fdsync = [t \in T |-> FALSE]
            /\ wn = [t \in T |-> 0]
Init == scen \in ScenSet /\ InitRest

\* re-initialisation of everything but scen, as an action (used by the generator and the trace spec)
Restart == /\ opi' = [t \in T |-> 1] /\ pc' = [t \in T |-> 1] /\ st' = [t \in T |-> "run"]
           /\ prog' = [t \in T |-> <<>>]
           /\ wown' = [l \in LockIds |-> 0] /\ held' = [l \in LockIds |-> FALSE]
           /\ act' = [l \in LockIds |-> [u \in T |-> 0]]
           /\ rwait' = [l \in LockIds |-> {}] /\ wq' = [l \in LockIds |-> {}]
           /\ node' = [f \in Files |-> {}] /\ entry' = [f \in Files |-> {}]
           /\ buf' = [t \in T |-> {}] /\ loc' = [t \in T |-> {}] /\ tmp' = [t \in T |-> {}]
           /\ acked' = [f \in Files |-> {}]
           /\ fdst' = [t \in T |-> "none"] /\ fdw' = [t \in T |-> FALSE] /\ fdsync' = [t \in T |-> FALSE]
           /\ wn' = [t \in T |-> 0]

-----------------------------------------------------------------------------
(* data effect of a completed instruction of thread t; f = file of the current operation,
   g = file named by the instruction (differs from f only inside List/DirGetNode) *)
Apply(t, e, f, g) ==
    /\ node' = CASE e = "stbuf" -> [node EXCEPT ![f] = buf[t]]
                 [] e = "stloc" -> [node EXCEPT ![f] = loc[t]]
                 [] e = "sttmp" -> [node EXCEPT ![f] = tmp[t]]
                 [] OTHER -> node
    /\ entry' = CASE e = "pubbuf" -> [entry EXCEPT ![f] = buf[t]]
                  [] e = "pubtmp" -> [entry EXCEPT ![f] = tmp[t]]
                  [] e = "publoc" -> [entry EXCEPT ![f] = loc[t]]
                  [] e = "sync"   -> [entry EXCEPT ![g] = node[g]]
                  [] OTHER -> entry
    /\ buf' = CASE e = "ldbuf" -> [buf EXCEPT ![t] = node[f]]
                [] e = "wbuf"  -> [buf EXCEPT ![t] = @ \cup {Tok(t)}]
                [] e = "tbuf"  -> [buf EXCEPT ![t] = @ \cup {0}]        \* Truncate(size + 1): one more (zero) byte
                [] OTHER -> buf
    /\ loc' = IF e = "ldloc" THEN [loc EXCEPT ![t] = node[f]] ELSE loc
    /\ tmp' = IF e = "ldtmp" THEN [tmp EXCEPT ![t] = node[f]] ELSE tmp
    /\ wn'  = IF e = "wbuf" THEN [wn EXCEPT ![t] = @ + 1] ELSE wn
    /\ acked' = IF e \in {"ack", "ackff"} \/ (e = "ackclose" /\ fdw[t])
                THEN [acked EXCEPT ![f] = @ \cup buf[t]] ELSE acked
    /\ fdst' = CASE e \in {"openws", "openw", "openr"} -> [fdst EXCEPT ![t] = "created"]
                 [] e \in {"wbuf", "tbuf"} -> [fdst EXCEPT ![t] = "dirty"]     \* EVERY modifying call: Write, WriteAt, Truncate
                 [] e = "ack" -> [fdst EXCEPT ![t] = "flushed"]
                 [] e = "ackclose" -> [fdst EXCEPT ![t] = "none"]
                 [] OTHER -> fdst
    /\ fdw' = CASE e \in {"openws", "openw"} -> [fdw EXCEPT ![t] = TRUE]
                [] e = "openr" -> [fdw EXCEPT ![t] = FALSE]
                [] OTHER -> fdw
    /\ fdsync' = CASE e = "openws" -> [fdsync EXCEPT ![t] = TRUE]
                   [] e \in {"openw", "openr"} -> [fdsync EXCEPT ![t] = FALSE]
                   [] OTHER -> fdsync

\* control update: thread t completes instruction pc[t] of program p; the threads in G (blocked
\* in a lock request) are granted and complete their instruction too (never the last of an op)
Advance(t, p, G) ==
    /\ prog' = [prog EXCEPT ![t] = p]
    /\ pc'  = [u \in T |-> IF u = t THEN (IF pc[t] < Len(p) THEN pc[t] + 1 ELSE 1)
                           ELSE IF u \in G THEN pc[u] + 1 ELSE pc[u]]
    /\ opi' = [opi EXCEPT ![t] = IF pc[t] < Len(p) THEN @ ELSE @ + 1]
    /\ st'  = [u \in T |-> IF u \in G THEN "run" ELSE st[u]]
    /\ scen' = scen
Block(t, p) == /\ prog' = [prog EXCEPT ![t] = p] /\ st' = [st EXCEPT ![t] = "wait"]
               /\ UNCHANGED <<scen, opi, pc>>

StepWith(t, p) ==
  LET i == p[pc[t]]  l == LockOf(i)  k == i[1] IN
  CASE k = "L" ->
         /\ UNCHANGED dvars
         /\ IF wown[l] = 0
            THEN /\ wown' = [wown EXCEPT ![l] = t]
                 /\ UNCHANGED <<act, rwait, wq>>
                 /\ IF NoReaders(l) THEN held' = [held EXCEPT ![l] = TRUE] /\ Advance(t, p, {})
                                    ELSE held' = held /\ Block(t, p)
            ELSE /\ wq' = [wq EXCEPT ![l] = @ \cup {t}] /\ Block(t, p)
                 /\ UNCHANGED <<wown, held, act, rwait>>
    [] k = "R" ->
         /\ UNCHANGED <<dvars, wown, held, wq>>
         /\ IF wown[l] = 0
            THEN act' = [act EXCEPT ![l][t] = @ + 1] /\ rwait' = rwait /\ Advance(t, p, {})
            ELSE rwait' = [rwait EXCEPT ![l] = @ \cup {t}] /\ act' = act /\ Block(t, p)
    [] k = "U" ->
         /\ held[l]                                  \* else Go: fatal "unlock of unlocked mutex"
         /\ Apply(t, i[4], CurF(t), i[3])
         /\ act' = [act EXCEPT ![l] = [u \in T |-> IF u \in rwait[l] THEN 1 ELSE 0]]
         /\ rwait' = [rwait EXCEPT ![l] = {}]
         /\ IF wq[l] = {}
            THEN /\ wown' = [wown EXCEPT ![l] = 0] /\ held' = [held EXCEPT ![l] = FALSE]
                 /\ wq' = wq /\ Advance(t, p, rwait[l])
            ELSE \E w \in wq[l] :
                 /\ wown' = [wown EXCEPT ![l] = w] /\ wq' = [wq EXCEPT ![l] = @ \ {w}]
                 /\ IF rwait[l] = {} THEN held' = held /\ Advance(t, p, {w})
                                     ELSE held' = [held EXCEPT ![l] = FALSE] /\ Advance(t, p, rwait[l])
    [] k = "RU" ->
         /\ act[l][t] > 0                            \* else Go: fatal "RUnlock of unlocked RWMutex"
         /\ Apply(t, i[4], CurF(t), i[3])
         /\ act' = [act EXCEPT ![l][t] = @ - 1]
         /\ UNCHANGED <<wown, rwait, wq>>
         /\ IF wown[l] # 0 /\ ~held[l] /\ (\A u \in T : act'[l][u] = 0)
            THEN held' = [held EXCEPT ![l] = TRUE] /\ Advance(t, p, {wown[l]})
            ELSE held' = held /\ Advance(t, p, {})
    [] k \in {"rd", "wr"} ->
         /\ Apply(t, i[4], CurF(t), i[3]) /\ UNCHANGED lvars /\ Advance(t, p, {})

Step(t) == /\ ~Done(t) /\ st[t] = "run"
           /\ \E p \in CurProgs(t) : StepWith(t, p)

AllDone == \A t \in T : Done(t)
Finished == AllDone /\ UNCHANGED vars
Next == (\E t \in T : Step(t)) \/ Finished
Spec == Init /\ [][Next]_vars

\* a state from which nothing can move although some session is unfinished
Stuck == ~AllDone /\ \A t \in T : Done(t) \/ st[t] = "wait"

-----------------------------------------------------------------------------
(* properties *)
TypeOK == /\ \A l \in LockIds : wown[l] \in 0..NT /\ rwait[l] \subseteq T /\ wq[l] \subseteq T
          /\ \A t \in T : st[t] \in {"run", "wait"}

\* exclusive holder excludes readers; a held lock has an announced writer
LockSafety == \A l \in LockIds : held[l] => (wown[l] # 0 /\ NoReaders(l))

\* the property: every token whose Flush()/Close() returned is in File.node (what every later
\* Open reads and what the next root flush publishes)
AckedWriteVisible == \A f \in Files : acked[f] \subseteq node[f]

\* a root flush (cacheSync) publishes File.node, hence the flushed root has the acked tokens
\* whenever no descriptor publication is in flight; checked at quiescence
FlushedRootVisible == AllDone => \A f \in Files : acked[f] \subseteq node[f]

NoStuck == ~Stuck
=============================================================================
