SPECIFICATION TSpec
CONSTANTS Devs = @DEVS@
          Both = TRUE
          CheckAcked = TRUE
          ScenSet = {}
INVARIANTS TypeOK LockSafety TAcked DevReport
CONSTRAINT TraceConstraint
POSTCONDITION TracePost
CHECK_DEADLOCK FALSE
