--------------------------- MODULE TraceMFSLocks ---------------------------
(* Phase T: the lock / File.node events recorded from the real mfs package (one run per Reset:
   single-goroutine runs of every operation, free-running 2-4 goroutine runs) must be an
   execution of the MFSLocks programs:
     op    the thread starts its next session operation
     pre   hook BEFORE a Lock/RLock/Unlock/RUnlock call or a File.node access: it must be the
           thread's next instruction (kind, class, id); releases take effect here
     post  hook AFTER a lock was acquired / the access was done: the acquisition must be legal
           (no holder, no active readers for L; no holder for R -- the announced-writer rule
           cannot be observed from a log, see the gated replay G for that), an access must
           move exactly the value the model moves (tokens logged by the harness)
     ret   the operation returned: its program is exhausted, no error; Read returned buf
     final read-back through the live File objects and through a fresh Root on the flushed root
     hang  watchdog: accepted only as the named as-built deviation *)
EXTENDS MFSLocks, Json, Integers

Trace == ndJsonDeserialize("trace.ndjson")
CONSTANT CheckAcked   \* FALSE: the acknowledged-write oracle is evaluated by the driver on the raw events
VARIABLES l, req, dev, rdev   \* dev: deviations used so far (reported); rdev: used in the current run
tvars == <<vars, l, req, dev, rdev>>
ASSUME TLCSet(1, 0)

Ev == Trace[l]
IsEvent(e) == l <= Len(Trace) /\ Trace[l].ev = e /\ l' = l + 1
ToSet(s) == {s[i] : i \in 1..Len(s)}
Has(r, k) == k \in DOMAIN r

TInit == l = 1 /\ scen = <<>> /\ InitRest /\ req = [t \in T |-> FALSE] /\ dev = {} /\ rdev = {}

TReset == /\ IsEvent("Reset") /\ scen' = Ev.scen /\ req' = [t \in T |-> FALSE] /\ dev' = dev /\ rdev' = {}
          /\ Restart

TOp == /\ IsEvent("op")
       /\ LET t == Ev.t IN /\ t <= Len(scen) /\ ~Done(t) /\ pc[t] = 1 /\ ~req[t]
                           /\ Ops(t)[opi[t]] = <<Ev.op, Ev.f>>
       /\ UNCHANGED <<vars, req, dev, rdev>>

\* the thread's next instruction must be (k, c, id); at pc = 1 the program variant is chosen
Matches(t, p) == /\ pc[t] <= Len(p) /\ p[pc[t]][1] = Ev.k /\ p[pc[t]][2] = Ev.c /\ p[pc[t]][3] = Ev.id

\* pre of L / R / rd / wr: request only
TPreReq == /\ IsEvent("pre") /\ Ev.k \in {"L", "R", "rd", "wr"}
           /\ LET t == Ev.t IN
              /\ t <= Len(scen) /\ ~Done(t) /\ ~req[t]
              /\ \E p \in CurProgs(t) :
                   /\ Matches(t, p)
                   /\ prog' = [prog EXCEPT ![t] = p]
                   /\ dev' = IF pc[t] = 1 THEN dev \cup DevsOf(p) ELSE dev
                   /\ rdev' = IF pc[t] = 1 THEN rdev \cup DevsOf(p) ELSE rdev
              /\ req' = [req EXCEPT ![t] = TRUE]
           /\ UNCHANGED <<scen, opi, pc, st, lvars, dvars>>

\* pre of U / RU: the release (logged before the real unlock, so no later acquisition precedes it)
TPreRel == /\ IsEvent("pre") /\ Ev.k \in {"U", "RU"}
           /\ LET t == Ev.t  x == <<Ev.c, Ev.id>> IN
              /\ t <= Len(scen) /\ ~Done(t) /\ ~req[t]
              /\ \E p \in CurProgs(t) :
                   /\ Matches(t, p)
                   /\ dev' = IF pc[t] = 1 THEN dev \cup DevsOf(p) ELSE dev
                   /\ rdev' = IF pc[t] = 1 THEN rdev \cup DevsOf(p) ELSE rdev
                   /\ Apply(t, p[pc[t]][4], CurF(t), Ev.id)
                   /\ Advance(t, p, {})
              /\ IF Ev.k = "U" THEN /\ held[x] /\ wown[x] = t
                                    /\ held' = [held EXCEPT ![x] = FALSE] /\ wown' = [wown EXCEPT ![x] = 0]
                                    /\ act' = act
                 ELSE /\ act[x][t] > 0 /\ act' = [act EXCEPT ![x][t] = @ - 1] /\ UNCHANGED <<held, wown>>
              /\ UNCHANGED <<rwait, wq, req>>

TPostLock == /\ IsEvent("post") /\ Ev.k \in {"L", "R"}
             /\ LET t == Ev.t  x == <<Ev.c, Ev.id>> IN
                /\ t <= Len(scen) /\ req[t] /\ Matches(t, prog[t])
                /\ ~held[x]
                /\ IF Ev.k = "L" THEN /\ NoReaders(x) /\ held' = [held EXCEPT ![x] = TRUE]
                                      /\ wown' = [wown EXCEPT ![x] = t] /\ act' = act
                   ELSE /\ act' = [act EXCEPT ![x][t] = @ + 1] /\ UNCHANGED <<held, wown>>
                /\ Advance(t, prog[t], {})
                /\ req' = [req EXCEPT ![t] = FALSE]
             /\ UNCHANGED <<rwait, wq, dvars, dev, rdev>>

\* the value moved by an access: what the model says must be what the real code moved
TPostAcc == /\ IsEvent("post") /\ Ev.k \in {"rd", "wr"}
            /\ LET t == Ev.t  e == prog[t][pc[t]][4] IN
               /\ t <= Len(scen) /\ req[t] /\ Matches(t, prog[t])
               /\ e \in {"ldbuf", "ldloc", "sync"} => ToSet(Ev.toks) = node[Ev.id]
               /\ e = "stbuf" => ToSet(Ev.toks) = buf[t]
               /\ e = "stloc" => ToSet(Ev.toks) = loc[t]
               /\ e = "sttmp" => ToSet(Ev.toks) = tmp[t]
               \* an unlocked read races with the log order: take the value the code really saw
               /\ IF e = "ldtmp"
                  THEN /\ tmp' = [tmp EXCEPT ![t] = ToSet(Ev.toks)]
                       /\ UNCHANGED <<node, entry, buf, loc, acked, fdst, fdw, fdsync, wn>>
                  ELSE Apply(t, e, CurF(t), Ev.id)
               /\ Advance(t, prog[t], {})
               /\ req' = [req EXCEPT ![t] = FALSE]
            /\ UNCHANGED <<lvars, dev, rdev>>

TRet == /\ IsEvent("ret")
        /\ LET t == Ev.t IN
           /\ t <= Len(scen) /\ ~req[t] /\ pc[t] = 1 /\ opi[t] > 1
           /\ Ops(t)[opi[t] - 1] = <<Ev.op, Ev.f>>
           /\ Ev.err = ""
           /\ Ev.op \in {"Read", "ReadP"} => ToSet(Ev.toks) = buf[t]
        /\ UNCHANGED <<vars, req, dev, rdev>>

TFinal == /\ IsEvent("final")
          /\ \A t \in T : Done(t)
          /\ ~Has(Ev, "rooterr")
          /\ ToSet(Ev.f1) = node["f1"] /\ ToSet(Ev.f2) = node["f2"] /\ ToSet(Ev.f3) = node["f3"]
          /\ ToSet(Ev.root_f1) = node["f1"] /\ ToSet(Ev.root_f2) = node["f2"] /\ ToSet(Ev.root_f3) = node["f3"]
          /\ \/ ~CheckAcked
             \/ "Dev_C20_SetAttrLostUpdate" \in rdev     \* the as-built stale assignment ran in this run
             \/ /\ acked["f1"] \subseteq ToSet(Ev.root_f1) /\ acked["f2"] \subseteq ToSet(Ev.root_f2)
                /\ acked["f3"] \subseteq ToSet(Ev.root_f3)
          /\ UNCHANGED <<vars, req, dev, rdev>>

\* a watchdog hang of the real goroutines is never a behaviour of the ideal programs; it is
\* accepted only as the as-built re-entrant RLock: a thread blocked in the SECOND RLock of Mode/ModTime
THang == /\ IsEvent("hang")
         /\ "Dev_C20_ModeReentrantRLock" \in Devs
         /\ \E i \in 1..Len(Ev.blocked) : LET b == Ev.blocked[i] IN
               /\ b.op \in {"Mode", "ModTime"} /\ b.k = "R" /\ b.c = "node" /\ b.pc = 2 /\ ~b.acq
               /\ prog[b.t] = ModeAsBuilt(b.f) /\ req[b.t]
         /\ dev' = dev \cup {"Dev_C20_ModeReentrantRLock"}
         /\ UNCHANGED <<vars, req, rdev>>

TNext == TReset \/ TOp \/ TPreReq \/ TPreRel \/ TPostLock \/ TPostAcc \/ TRet \/ TFinal \/ THang
TSpec == TInit /\ [][TNext]_tvars

TAcked == ~CheckAcked \/ "Dev_C20_SetAttrLostUpdate" \in rdev \/ AckedWriteVisible
DevReport == l <= Len(Trace) \/ \A d \in dev : PrintT(<<"DEV_USED", d>>)
TraceConstraint == TLCSet(1, IF l - 1 > TLCGet(1) THEN l - 1 ELSE TLCGet(1))
TracePost == PrintT(<<"TRACE_HWM", TLCGet(1)>>)
=============================================================================
