SPECIFICATION TSpec
CONSTANTS Devs = {}
          Both = FALSE
          CheckAcked = FALSE
          ScenSet = {}
          ProgSet <- ObsProgSet
INVARIANTS TypeOK LockSafety
CONSTRAINT TraceConstraint
POSTCONDITION TracePost
CHECK_DEADLOCK FALSE
