---------------------------- MODULE GenMultipart ----------------------------
(* Phase G: every tree of the configured bounds with, per disposition (form-data / attachment), the
   part list the model's MultiFileReader emits and what the model's NewFileFromPartReader yields for a
   full and for a shallow walk -- ideal, and as built (open deviations) where that differs.          *)
EXTENDS MCMultipart, Json

AllDevs == {"Dev_C39_MtimeEpoch"}
Case(form) ==
  LET parts == Serialize(tree, form)
      full  == ParseWith(parts, TRUE, {})
      shal  == ParseWith(parts, FALSE, {})
      dfull == ParseWith(parts, TRUE, AllDevs)
      dshal == ParseWith(parts, FALSE, AllDevs)
  IN [form |-> form, parts |-> parts, full |-> full.out, shallow |-> shal.out,
      devfull |-> IF dfull = full THEN <<>> ELSE <<dfull.out>>,
      devshallow |-> IF dshal = shal THEN <<>> ELSE <<dshal.out>>]

Emit == tree = <<>> \/ Len(tree) < MinNodes
        \/ PrintT(<<"BEHAVIOUR", ToJson([tree |-> tree, cases |-> <<Case(TRUE), Case(FALSE)>>])>>)

\* -simulate: grow one random tree to MaxNodes, print it, start again
Flush == /\ Len(tree) = MaxNodes
         /\ PrintT(<<"BEHAVIOUR", ToJson([tree |-> tree, cases |-> <<Case(TRUE), Case(FALSE)>>])>>)
         /\ tree' = <<>>
GNextSim == IF Len(tree) = MaxNodes THEN Flush ELSE AddNode
GSpecSim == Init /\ [][GNextSim]_vars
=============================================================================
