---------------------------- MODULE GenMultipart ----------------------------
(* Phase G: every tree of the configured bounds with, per disposition (form-data / attachment), the
   part list the model's MultiFileReader emits and what the model's NewFileFromPartReader yields for a
   full and for a shallow walk -- ideal, and as built (open deviations) where that differs.          *)
EXTENDS MCMultipart, Json

AllDevs == {"Dev_C39_MtimeEpoch", "Dev_C39_CloseRepeats"}
Case(form) ==
  LET parts == Serialize(tree, form)
      full  == ParseWith(parts, TRUE, {})
      shal  == ParseWith(parts, FALSE, {})
      dfull == ParseWith(parts, TRUE, AllDevs)
      dshal == ParseWith(parts, FALSE, AllDevs)
  IN [form |-> form, parts |-> parts, full |-> full.out, shallow |-> shal.out,
      devfull |-> IF dfull = full THEN <<>> ELSE <<dfull.out>>,
      devshallow |-> IF dshal = shal THEN <<>> ELSE <<dshal.out>>]

\* the Read results of every sender-side file node (<<>> for directories and links)
Scripts == [i \in 1..Len(tree) |-> IF tree[i].type = "file" THEN Script(tree[i].body, tree[i].rd) ELSE <<>>]
\* how the consumer drains the MultiFileReader and how many closing delimiters the stream must carry (0 = endless)
Drain == [k \in 1..Len(ConsumerBufs) |->
            LET b == ConsumerBufs[k]
            IN [buf |-> b, closers |-> Closers(b, {}),
                dev |-> IF Closers(b, AllDevs) = Closers(b, {}) THEN <<>> ELSE <<Closers(b, AllDevs)>>]]
Beh == [tree |-> tree, scripts |-> Scripts, drain |-> Drain, cases |-> <<Case(TRUE), Case(FALSE)>>]
Emit == tree = <<>> \/ Len(tree) < MinNodes \/ PrintT(<<"BEHAVIOUR", ToJson(Beh)>>)

\* -simulate: grow one random tree to MaxNodes, print it, start again
Flush == /\ Len(tree) = MaxNodes
         /\ PrintT(<<"BEHAVIOUR", ToJson(Beh)>>)
         /\ tree' = <<>>
GNextSim == IF Len(tree) = MaxNodes THEN Flush ELSE AddNode
GSpecSim == Init /\ [][GNextSim]_vars
=============================================================================
