\* thorough: every tree <= 4 nodes, depth <= 3, 3 hostile names, all types, no metadata
SPECIFICATION Spec
CONSTANTS Names <- NamesTiny
          Types <- TypesAll
          Bodies <- BodyX
          Readers <- ReadPlain
          Modes = {0}
          Mtimes <- NoMeta
          MaxNodes = 4
          MaxDepth = 3
          MinNodes = 4
          Devs = {}
INVARIANTS Emit
CHECK_DEADLOCK FALSE
