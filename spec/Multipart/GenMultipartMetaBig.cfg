\* thorough: every tree <= 3 nodes over 2 prefix-related names, modes {unset, 0644} x mtimes {unset, secs+nanos}
SPECIFICATION Spec
CONSTANTS Names <- NamesSmall
          Types <- TypesAll
          Bodies <- BodyX
          Readers <- ReadPlain
          Modes <- ModesTwo
          Mtimes <- MtimesTwo
          MaxNodes = 3
          MaxDepth = 3
          MinNodes = 3
          Devs = {}
INVARIANTS Emit
CHECK_DEADLOCK FALSE
