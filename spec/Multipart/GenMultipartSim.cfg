\* sampled: random trees of exactly 4 nodes, depth <= 3, all names, all metadata (incl. modes without permission bits), 3 Read behaviours
SPECIFICATION GSpecSim
CONSTANTS Names <- NamesMore
          Types <- TypesAll
          Bodies <- BodiesAll
          Readers <- ReadSim
          Modes <- ModesFour
          Mtimes <- MtimesAll
          MaxNodes = 4
          MaxDepth = 3
          MinNodes = 1
          Devs = {}
CHECK_DEADLOCK FALSE
