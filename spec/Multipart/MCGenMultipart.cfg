\* quick M+G, structure: every tree <= 3 nodes, depth <= 3, over the full hostile name alphabet, no metadata;
\* the invariants are checked on each and each tree is printed for replay (root module GenMultipart)
SPECIFICATION Spec
CONSTANTS Names <- NamesAll
          Types <- TypesAll
          Bodies <- BodyX
          Readers <- ReadPlain
          Modes = {0}
          Mtimes <- NoMeta
          MaxNodes = 3
          MaxDepth = 3
          MinNodes = 1
          Devs = {}
INVARIANTS TypeOK RoundTrip StreamFinite ShallowWalk EscapedSafe Emit
CHECK_DEADLOCK FALSE
