\* quick M+G, metadata: every tree <= 2 nodes over 2 prefix-related names with every mode x mtime class,
\* empty and non-empty bodies
SPECIFICATION Spec
CONSTANTS Names <- NamesSmall
          Types <- TypesAll
          Bodies <- BodiesAll
          Readers <- ReadPlain
          Modes <- ModesAll
          Mtimes <- MtimesAll
          MaxNodes = 2
          MaxDepth = 2
          MinNodes = 1
          Devs = {}
INVARIANTS TypeOK RoundTrip StreamFinite ShallowWalk EscapedSafe Emit
CHECK_DEADLOCK FALSE
