\* quick M+G, mode classes: every single node with each of the 32 mode classes {setuid,setgid,sticky subsets} x
\* {no permission bit, 0001, 0644, 0777} (0 = unset) x mtime unset/set
SPECIFICATION Spec
CONSTANTS Names <- NamesOne
          Types <- TypesAll
          Bodies <- BodyX
          Readers <- ReadPlain
          Modes <- ModesSpecial
          Mtimes <- MtimesTwo
          MaxNodes = 1
          MaxDepth = 1
          MinNodes = 1
          Devs = {}
INVARIANTS TypeOK ScriptsOK RoundTrip StreamFinite ShallowWalk EscapedSafe Emit
CHECK_DEADLOCK FALSE
