\* quick M+G, Read behaviours of the sender's file nodes: every tree <= 2 nodes (two files in a row, a file in a
\* directory) over contents of 0, 1 and 3 bytes x 6 behaviour classes (all at once / byte by byte, io.EOF
\* separately / together with the last bytes, (0, nil) reads, short read)
SPECIFICATION Spec
CONSTANTS Names <- NamesSmall
          Types <- TypesDF
          Bodies <- BodiesRead
          Readers <- ReaderClasses
          Modes = {0}
          Mtimes <- NoMeta
          MaxNodes = 2
          MaxDepth = 2
          MinNodes = 1
          Devs = {}
INVARIANTS TypeOK ScriptsOK RoundTrip StreamFinite ShallowWalk EscapedSafe Emit
CHECK_DEADLOCK FALSE
