\* thorough M+G, Read behaviours: every tree <= 3 nodes over contents of 0 and 3 bytes x 6 behaviour classes
SPECIFICATION Spec
CONSTANTS Names <- NamesSmall
          Types <- TypesDF
          Bodies <- BodiesTwo
          Readers <- ReaderClasses
          Modes = {0}
          Mtimes <- NoMeta
          MaxNodes = 3
          MaxDepth = 2
          MinNodes = 1
          Devs = {}
INVARIANTS TypeOK ScriptsOK RoundTrip StreamFinite ShallowWalk EscapedSafe Emit
CHECK_DEADLOCK FALSE
