\* structure: all trees <= 4 nodes, depth <= 2, over the full name alphabet, no metadata
SPECIFICATION Spec
CONSTANTS Names <- NamesAll
          Types <- TypesAll
          Bodies <- BodiesAll
          Modes = {0}
          Mtimes <- NoMeta
          MaxNodes = 4
          MaxDepth = 2
          Devs = {}
INVARIANTS TypeOK RoundTrip ShallowWalk EscapedSafe EscapeInverse ConsumesAll
CHECK_DEADLOCK FALSE
