---------------------------- MODULE MCMultipart ----------------------------
(* Constant sets for the exhaustive configurations of Multipart (cfg files cannot write sequences). *)
EXTENDS Multipart
CONSTANT MinNodes   \* generator: print only trees with at least this many nodes

T(s, ns) == [set |-> TRUE, s |-> s, ns |-> ns]

\* "a", "ab", "a b", "a%2F", e-acute (2 UTF-8 bytes), a name with a double quote  -- prefix-related names included
NamesAll   == {<<"a">>, <<"a", "b">>, <<"a", " ", "b">>, <<"a", "%", "2", "F">>, <<"xC3", "xA9">>, <<"x22", "q">>}
NamesMore  == NamesAll \cup {<<"a", "+">>, <<"a", "?", "b", "=", "1", "&">>, <<"a", "\\">>, <<"a", "x0A">>, <<"a", ".">>}
NamesFour  == {<<"a">>, <<"a", "b">>, <<"a", " ", "b">>, <<"a", "%", "2", "F">>}
NamesSmall == {<<"a">>, <<"a", "b">>}
NamesTiny  == {<<"a">>, <<"a", " ", "b">>, <<"a", "%", "2", "F">>}
TypesAll   == {"dir", "file", "link"}
BodiesAll  == {<<>>, <<"x">>}
BodyX      == {<<"x">>}
BodiesRead == {<<>>, <<"x">>, <<"x", "y", "z">>}
ReadPlain  == {"all"}
BodiesTwo  == {<<>>, <<"x", "y", "z">>}
NamesOne   == {<<"a">>}
TypesDF    == {"dir", "file"}
ModesFour  == {0, 420, 4095, 3584}
ReadSim    == {"all", "alleof", "oneeof"}
\* every 12-bit mode class: setuid / setgid / sticky alone and combined, with and without permission bits
\* (0 = unset; 01000 02000 ... 07000 have NO permission bit; 0001, 0644, 0777)
ModesSpecial == {hi * 512 + lo : hi \in 0..7, lo \in {0, 1, 420, 511}}
NoMeta     == {NoTime}
MtimesAll  == {NoTime, T(1700000000, 0), T(1700000000, 123456789), T(-86400, 5)}
MtimesTwo  == {NoTime, T(1700000000, 123456789)}
ModesAll   == {0, 420, 4095}
ModesTwo   == {0, 420}
=============================================================================
