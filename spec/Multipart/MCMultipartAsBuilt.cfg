\* control: with the as-built fileInfo (Dev_C39_MtimeEpoch) RoundTrip must FAIL in the model
SPECIFICATION Spec
CONSTANTS Names <- NamesSmall
          Types <- TypesAll
          Bodies <- BodyX
          Readers <- ReadPlain
          Modes <- ModesTwo
          Mtimes <- MtimesTwo
          MaxNodes = 2
          MaxDepth = 2
          MinNodes = 1
          Devs = {"Dev_C39_MtimeEpoch"}
INVARIANTS RoundTrip
CHECK_DEADLOCK FALSE
