\* thorough M, structure: all trees <= 4 nodes, depth <= 2, over 4 prefix-related / escaped names
SPECIFICATION Spec
CONSTANTS Names <- NamesFour
          Types <- TypesAll
          Bodies = {"x"}
          Modes = {0}
          Mtimes <- NoMeta
          MaxNodes = 4
          MaxDepth = 2
          MinNodes = 1
          Devs = {}
INVARIANTS TypeOK RoundTrip ShallowWalk EscapedSafe
CHECK_DEADLOCK FALSE
