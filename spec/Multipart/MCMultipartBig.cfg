\* thorough M, structure: all trees <= 4 nodes, depth <= 3, over 4 prefix-related / escaped names
SPECIFICATION Spec
CONSTANTS Names <- NamesFour
          Types <- TypesAll
          Bodies <- BodyX
          Readers <- ReadPlain
          Modes = {0}
          Mtimes <- NoMeta
          MaxNodes = 4
          MaxDepth = 3
          MinNodes = 1
          Devs = {}
INVARIANTS TypeOK RoundTrip StreamFinite ShallowWalk EscapedSafe
CHECK_DEADLOCK FALSE
