\* metadata: all trees <= 3 nodes, depth <= 3, two prefix-related names, every mode x mtime class
SPECIFICATION Spec
CONSTANTS Names <- NamesSmall
          Types <- TypesAll
          Bodies = {"x"}
          Modes <- ModesAll
          Mtimes <- MtimesAll
          MaxNodes = 3
          MaxDepth = 3
          MinNodes = 1
          Devs = {}
INVARIANTS TypeOK RoundTrip ShallowWalk EscapedSafe
CHECK_DEADLOCK FALSE
