\* metadata: all trees <= 3 nodes, depth <= 3, two prefix-related names, modes {unset, 0644} x every mtime class
SPECIFICATION Spec
CONSTANTS Names <- NamesSmall
          Types <- TypesAll
          Bodies <- BodyX
          Readers <- ReadPlain
          Modes <- ModesTwo
          Mtimes <- MtimesAll
          MaxNodes = 3
          MaxDepth = 3
          MinNodes = 1
          Devs = {}
INVARIANTS TypeOK RoundTrip StreamFinite ShallowWalk EscapedSafe
CHECK_DEADLOCK FALSE
