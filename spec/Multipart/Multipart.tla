------------------------------ MODULE Multipart ------------------------------
(* C39 -- Multipart file serialization round-trips.

   A tree of directories, files and symlinks is written by files.MultiFileReader as a list of
   multipart parts (pre-order; one part per node; the root directory itself is not sent) and read back
   by files.NewFileFromPartReader, whose directory iterators rebuild the hierarchy from the part file
   names alone.  The module contains

     * Serialize(tree, form)       -- MultiFileReader.Read / addContentDisposition, at header-field grain;
                                      file names at CHARACTER grain (url.QueryEscape of the joined path)
     * FileName, IsChild, Walk ... -- multipartfile.go fileName / dirName / isChild / makeRelative /
                                      multipartIterator.Next / multipartWalker.nextFile / fileInfo, transcribed;
                                      the consumer either walks everything ("full") or never descends
                                      into directories ("shallow": exercises the skip-nested-parts branch)
     * RoundTrip, ShallowWalk, EscapedSafe -- the property.

   Trees are pre-order lists of nodes with their depth (a canonical form of ordered trees):
     node = [d, name, type, body, rd, mode, mt]
       name : sequence of character tokens; a token is one ASCII character or "xHH" = the raw byte HH
       type : "dir" | "file" | "link";  body: content of a file / target of a link (sequence of character tokens)
       rd   : how the file node's Read hands out its content (io.Reader contract, see Script): everything at once
              or byte by byte, io.EOF separately or TOGETHER with the last bytes, (0, nil) reads in between;
              "-" for nodes that are not sender-side files
       mode : 0 = unset, else the os.FileMode as an integer (links always carry LinkMode)
       mt   : [set, s, ns]  modification time (unset, or seconds + nanoseconds)

   Open finding Dev_C39_CloseRepeats (as-built MultiFileReader.Read): once every entry has been written, each Read
   that still finds buffered output writes ANOTHER closing delimiter before draining; a consumer whose buffer is
   shorter than the delimiter (68 bytes) never sees io.EOF.

   Finding Dev_C39_MtimeEpoch (as-built fileInfo): as soon as the form name carries any parameter
   the mtime is assigned, so a part with a mode but no mtime parses to 1970-01-01T00:00:00Z.          *)
EXTENDS Integers, Sequences, FiniteSets, TLC

CONSTANTS Names,      \* admissible entry names (sequences of character tokens)
          Types,      \* subset of {"dir", "file", "link"}
          Bodies,     \* file contents / link targets (sequences of character tokens)
          Readers,    \* Read behaviours of the sender's file nodes (subset of ReaderClasses)
          Modes,      \* modes for files and directories (0 = unset)
          Mtimes,     \* modification times
          MaxNodes, MaxDepth,
          Devs        \* enabled as-built deviations ({} = ideal)

VARIABLE tree
vars == <<tree>>

LinkMode == 134218239          \* os.ModeSymlink | os.ModePerm
NoTime   == [set |-> FALSE, s |-> 0, ns |-> 0]
Last(s)  == s[Len(s)]

-----------------------------------------------------------------------------
(* ---------- character-level helpers (strings are sequences of tokens) ---------- *)
HasPrefix(s, p) == Len(p) <= Len(s) /\ SubSeq(s, 1, Len(p)) = p
TrimPrefix(s, p) == IF HasPrefix(s, p) THEN SubSeq(s, Len(p) + 1, Len(s)) ELSE s
IndexOf(s, c) == IF \E i \in 1..Len(s) : s[i] = c
                 THEN CHOOSE i \in 1..Len(s) : s[i] = c /\ \A j \in 1..(i - 1) : s[j] # c
                 ELSE 0
\* strings.Cut(s, "/")
Cut(s) == LET i == IndexOf(s, "/")
          IN IF i = 0 THEN [found |-> FALSE, before |-> s, after |-> <<>>]
             ELSE [found |-> TRUE, before |-> SubSeq(s, 1, i - 1), after |-> SubSeq(s, i + 1, Len(s))]

RECURSIVE Flatten(_)
Flatten(ss) == IF ss = <<>> THEN <<>> ELSE Head(ss) \o Flatten(Tail(ss))

RECURSIVE SplitSlash(_)
SplitSlash(s) == LET c == Cut(s) IN IF c.found THEN <<c.before>> \o SplitSlash(c.after) ELSE <<s>>

\* url.QueryEscape: unreserved characters stay, ' ' -> '+', every other byte -> %HH
HexOf == ("x22" :> <<"2", "2">>) @@ ("%" :> <<"2", "5">>) @@ ("/" :> <<"2", "F">>) @@ ("+" :> <<"2", "B">>) @@
         ("xC3" :> <<"C", "3">>) @@ ("xA9" :> <<"A", "9">>) @@ ("?" :> <<"3", "F">>) @@ ("&" :> <<"2", "6">>) @@
         ("=" :> <<"3", "D">>) @@ ("x0A" :> <<"0", "A">>) @@ ("\\" :> <<"5", "C">>)
EscChar(c) == IF c = " " THEN <<"+">>
              ELSE IF c \in DOMAIN HexOf THEN <<"%">> \o HexOf[c]
              ELSE <<c>>
RECURSIVE Escape(_)
Escape(s) == IF s = <<>> THEN <<>> ELSE EscChar(Head(s)) \o Escape(Tail(s))

HexDigits == {"0", "1", "2", "3", "4", "5", "6", "7", "8", "9", "A", "B", "C", "D", "E", "F"}
ByteTok(h1, h2) == IF \E t \in DOMAIN HexOf : HexOf[t] = <<h1, h2>>
                   THEN CHOOSE t \in DOMAIN HexOf : HexOf[t] = <<h1, h2>>
                   ELSE "x" \o h1 \o h2
\* url.QueryUnescape: [ok, val]; a '%' not followed by two hex digits is an error
RECURSIVE Unescape(_)
Unescape(s) ==
  IF s = <<>> THEN [ok |-> TRUE, val |-> <<>>]
  ELSE IF Head(s) = "%"
       THEN IF Len(s) >= 3 /\ s[2] \in HexDigits /\ s[3] \in HexDigits
            THEN LET r == Unescape(SubSeq(s, 4, Len(s)))
                 IN [ok |-> r.ok, val |-> <<ByteTok(s[2], s[3])>> \o r.val]
            ELSE [ok |-> FALSE, val |-> <<>>]
       ELSE LET r == Unescape(Tail(s))
            IN [ok |-> r.ok, val |-> <<IF Head(s) = "+" THEN " " ELSE Head(s)>> \o r.val]

\* path.Clean("/" + s)
RECURSIVE CleanStack(_, _)
CleanStack(comps, st) ==
  IF comps = <<>> THEN st
  ELSE LET c == Head(comps)
       IN CleanStack(Tail(comps),
                     IF c = <<>> \/ c = <<".">> THEN st
                     ELSE IF c = <<".", ".">> THEN (IF st = <<>> THEN st ELSE SubSeq(st, 1, Len(st) - 1))
                     ELSE Append(st, c))
CleanAbs(s) == LET st == CleanStack(SplitSlash(s), <<>>)
               IN IF st = <<>> THEN <<"/">> ELSE Flatten([i \in 1..Len(st) |-> <<"/">> \o st[i]])

\* path.Join(a, b) for a cleaned absolute a and a plain component b
JoinPath(p, n) == IF Last(p) = "/" THEN p \o n ELSE p \o <<"/">> \o n

-----------------------------------------------------------------------------
(* ---------- trees ---------- *)
ParentIdx(t, i) == IF t[i].d = 1 THEN 0
                   ELSE CHOOSE j \in 1..(i - 1) : t[j].d = t[i].d - 1 /\ \A k \in (j + 1)..(i - 1) : t[k].d >= t[i].d
RECURSIVE PathComps(_, _)
PathComps(t, i) == IF t[i].d = 1 THEN <<t[i].name>> ELSE Append(PathComps(t, ParentIdx(t, i)), t[i].name)

\* what may follow the pre-order list t: depth d, and the names already used by the future siblings
DepthsAfter(t) == IF t = <<>> THEN {1}
                  ELSE 1..(IF Last(t).type = "dir" /\ Last(t).d < MaxDepth THEN Last(t).d + 1 ELSE Last(t).d)
SiblingNames(t, d) ==
  LET ps == {j \in 1..Len(t) : t[j].d < d}
      p  == IF ps = {} THEN 0 ELSE CHOOSE j \in ps : \A k \in ps : k <= j
  IN {t[j].name : j \in {k \in (p + 1)..Len(t) : t[k].d = d}}

\* nodes that may be appended to the pre-order list t
NodeChoices(t) ==
  LET free(d) == Names \ SiblingNames(t, d)
  IN UNION {
      {[d |-> d, name |-> n, type |-> "dir", body |-> <<>>, rd |-> "-", mode |-> m, mt |-> mt] :
          n \in free(d), m \in Modes, mt \in Mtimes}
      \cup {[d |-> d, name |-> n, type |-> "file", body |-> b, rd |-> r, mode |-> m, mt |-> mt] :
          n \in free(d), b \in Bodies, r \in Readers, m \in Modes, mt \in Mtimes}
      \cup {[d |-> d, name |-> n, type |-> "link", body |-> b, rd |-> "-", mode |-> LinkMode, mt |-> mt] :
          n \in free(d), b \in Bodies \ {<<>>}, mt \in Mtimes}
    : d \in DepthsAfter(t)}
GoodNode(t, x) == x.type \in Types

-----------------------------------------------------------------------------
(* ---------- MultiFileReader: one part per node, pre-order ---------- *)
CType(ty) == CASE ty = "dir" -> "application/x-directory" [] ty = "link" -> "application/symlink"
                  [] OTHER -> "application/octet-stream"
Opt(b, v) == IF b THEN <<v>> ELSE <<>>
\* addContentDisposition: url.Values with mode / mtime / mtime-nsecs; only the form-data disposition has a
\* name parameter to carry them
Params(x) == [mode  |-> Opt(x.mode # 0, x.mode),
              mtime |-> Opt(x.mt.set, x.mt.s),
              nsecs |-> Opt(x.mt.set /\ x.mt.ns > 0, x.mt.ns)]
NoParams == [mode |-> <<>>, mtime |-> <<>>, nsecs |-> <<>>]

(* The content of a file part.  MultiFileReader.Read hands the caller's buffer to the file node's Read and repeats
   until that returns io.EOF; the io.Reader contract lets a Read return n > 0 bytes TOGETHER with io.EOF, return
   fewer bytes than asked for, or return (0, nil).  Script = the results of the successive Read calls of a file
   node of the given behaviour class; CopyFile = the bytes that reach the part: every byte of every result,
   including those of the result that carries io.EOF, after which the file is closed and the next part begins. *)
ReaderClasses == {"all", "alleof", "one", "oneeof", "zero", "short"}
RR(n, eof) == [n |-> n, eof |-> eof]
Script(body, rd) ==
  LET n == Len(body)
  IN CASE rd = "alleof" -> <<RR(n, TRUE)>>                                            \* data and EOF together
       [] rd = "one"    -> [i \in 1..n |-> RR(1, FALSE)] \o <<RR(0, TRUE)>>           \* byte by byte, then (0, EOF)
       [] rd = "oneeof" -> IF n = 0 THEN <<RR(0, TRUE)>> ELSE [i \in 1..n |-> RR(1, i = n)]  \* last byte with EOF
       [] rd = "zero"   -> <<RR(0, FALSE)>> \o (IF n > 0 THEN <<RR(n, FALSE), RR(0, FALSE)>> ELSE <<>>) \o <<RR(0, TRUE)>>
       [] rd = "short"  -> IF n <= 1 THEN <<RR(n, TRUE)>> ELSE <<RR(1, FALSE), RR(n - 1, TRUE)>>  \* short read, rest with EOF
       [] OTHER         -> (IF n > 0 THEN <<RR(n, FALSE)>> ELSE <<>>) \o <<RR(0, TRUE)>>   \* "all": bytes.Reader, os.File
RECURSIVE CopyFile(_, _, _, _)
CopyFile(body, sc, i, off) ==
  IF i > Len(sc) THEN <<>>
  ELSE SubSeq(body, off + 1, off + sc[i].n) \o (IF sc[i].eof THEN <<>> ELSE CopyFile(body, sc, i + 1, off + sc[i].n))
PartBody(x) == IF x.type = "file" THEN CopyFile(x.body, Script(x.body, x.rd), 1, 0) ELSE x.body

JoinSlash(cs) == Flatten([i \in 1..Len(cs) |-> IF i = 1 THEN cs[i] ELSE <<"/">> \o cs[i]])
PartOf(t, i, form) ==
  [form   |-> form,
   params |-> IF form THEN Params(t[i]) ELSE NoParams,
   fname  |-> Escape(JoinSlash(PathComps(t, i))),      \* filename="<QueryEscape(path.Join(dirs..., name))>"
   ctype  |-> CType(t[i].type),
   body   |-> PartBody(t[i])]
Serialize(t, form) == [i \in 1..Len(t) |-> PartOf(t, i, form)]

\* The stream as a whole: MultiFileReader is an io.Reader -- whatever the size of the buffers the consumer reads
\* with, the stream is the parts, ONE closing delimiter, io.EOF.  Closers = number of closing delimiters on the
\* stream, 0 standing for "no end: closing delimiters for ever".
ConsumerBufs == <<"all", "one">>          \* io.ReadAll's growing buffer / a one-byte buffer
Closers(buf, devs) == IF "Dev_C39_CloseRepeats" \in devs /\ buf = "one" THEN 0 ELSE 1

-----------------------------------------------------------------------------
(* ---------- NewFileFromPartReader and its iterators ---------- *)
\* fileName(part)
FileName(part) == LET u == Unescape(part.fname)
                  IN CleanAbs(IF u.ok THEN u.val ELSE part.fname)
DirName(p) == IF Last(p) = "/" THEN p ELSE Append(p, "/")
IsChild(child, parent) == HasPrefix(child, DirName(parent))
MakeRelative(child, parent) == TrimPrefix(child, DirName(parent))

\* fileInfo(name, part): mode and mtime from the query part of the form name
HasQuery(p) == p.form /\ (p.params.mode # <<>> \/ p.params.mtime # <<>> \/ p.params.nsecs # <<>>)
InfoMode(p) == IF HasQuery(p) /\ p.params.mode # <<>> THEN p.params.mode[1] ELSE 0
InfoTime(p, devs) ==
  LET ns == IF p.params.nsecs # <<>> THEN p.params.nsecs[1] ELSE 0
  IN IF ~HasQuery(p) THEN NoTime
     ELSE IF p.params.mtime # <<>> THEN [set |-> TRUE, s |-> p.params.mtime[1], ns |-> ns]
     ELSE IF "Dev_C39_MtimeEpoch" \in devs THEN [set |-> TRUE, s |-> 0, ns |-> ns]   \* time.Unix(0, nsecs)
     ELSE NoTime

\* multipartWalker.nextFile: the node made from one part (rel = name relative to the directory)
NodeOf(p, rel, depth, devs) ==
  LET ty == CASE p.ctype \in {"application/x-directory", "multipart/form-data"} -> "dir"
              [] p.ctype = "application/symlink" -> "link"
              [] OTHER -> "file"
  IN [d |-> depth, name |-> rel, type |-> ty, body |-> IF ty = "dir" THEN <<>> ELSE p.body, rd |-> "-",
      mode |-> IF ty = "link" THEN LinkMode ELSE InfoMode(p),      \* Symlink.Mode() is constant
      mt |-> InfoTime(p, devs)]
ImplicitDir(name, depth) == [d |-> depth, name |-> name, type |-> "dir", body |-> <<>>, rd |-> "-", mode |-> 0, mt |-> NoTime]

(* Walk(parts, nm, pos, dpath, depth, cur, descend, devs): the entries that a consumer obtains from the iterator
   of the directory whose path is dpath (multipartIterator.Next in a loop), starting at part number pos with
   it.curName = cur; nm[i] = fileName(parts[i]); descend = the consumer iterates every directory it is handed
   before asking for the next sibling.  Result: nodes in visiting order and the walker position afterwards. *)
RECURSIVE Walk(_, _, _, _, _, _, _, _)
Walk(parts, nm, pos, dpath, depth, cur, descend, devs) ==
  IF pos > Len(parts) THEN [out |-> <<>>, pos |-> pos]                         \* getPart: io.EOF
  ELSE
    LET part == parts[pos]
        name == nm[pos]
    IN IF ~IsChild(name, dpath) THEN [out |-> <<>>, pos |-> pos]               \* belongs to another directory
       ELSE IF cur # <<>> /\ IsChild(name, JoinPath(dpath, cur))
       THEN Walk(parts, nm, pos + 1, dpath, depth, cur, descend, devs)            \* already entered: consumePart
       ELSE
         LET rel == MakeRelative(name, dpath)
             c   == Cut(rel)
         IN IF c.found
            THEN \* implicit directory; the part is NOT consumed
              LET sub  == IF descend THEN Walk(parts, nm, pos, JoinPath(dpath, c.before), depth + 1, <<>>, descend, devs)
                          ELSE [out |-> <<>>, pos |-> pos]
                  rest == Walk(parts, nm, sub.pos, dpath, depth, c.before, descend, devs)
              IN [out |-> <<ImplicitDir(c.before, depth)>> \o sub.out \o rest.out, pos |-> rest.pos]
            ELSE \* nextFile consumes the part
              LET nd   == NodeOf(part, rel, depth, devs)
                  sub  == IF nd.type = "dir" /\ descend THEN Walk(parts, nm, pos + 1, name, depth + 1, <<>>, descend, devs)
                          ELSE [out |-> <<>>, pos |-> pos + 1]
                  rest == Walk(parts, nm, sub.pos, dpath, depth, rel, descend, devs)
              IN [out |-> <<nd>> \o sub.out \o rest.out, pos |-> rest.pos]

ParseWith(parts, descend, devs) ==
  Walk(parts, [i \in 1..Len(parts) |-> FileName(parts[i])], 1, <<"/">>, 1, <<>>, descend, devs)
ParseFull(parts, descend) == ParseWith(parts, descend, Devs)
Parse(parts, descend) == ParseFull(parts, descend).out

-----------------------------------------------------------------------------
(* ---------- the property ---------- *)
\* what the receiver must see: in form mode the tree itself (names, types, contents, targets, modes, times --
\* whatever the Read behaviour of the sender's file nodes); the attachment disposition carries no metadata
Seen(x)  == [x EXCEPT !.rd = "-"]
Erase(x) == [x EXCEPT !.mode = IF x.type = "link" THEN LinkMode ELSE 0, !.mt = NoTime]
Expected(t, form) == [i \in 1..Len(t) |-> IF form THEN Seen(t[i]) ELSE Erase(Seen(t[i]))]
SelectTop(t) == SelectSeq(t, LAMBDA x : x.d = 1)

\* full walk: the same tree comes back and every part has been consumed
RoundTrip   == \A form \in BOOLEAN :
                  ParseFull(Serialize(tree, form), TRUE) = [out |-> Expected(tree, form), pos |-> Len(tree) + 1]
\* a consumer that never enters a directory sees exactly the top-level entries (nested parts are skipped)
ShallowWalk == \A form \in BOOLEAN :
                  ParseFull(Serialize(tree, form), FALSE) = [out |-> SelectTop(Expected(tree, form)), pos |-> Len(tree) + 1]
\* the serialised stream ends, after exactly one closing delimiter, for every consumer
StreamFinite == \A k \in 1..Len(ConsumerBufs) : Closers(ConsumerBufs[k], Devs) = 1
\* the escaped file name survives the quoted-string layer of the MIME header untouched (no '"', no '\'),
\* and unescaping is the inverse of escaping on every path
SafeChars == {"a", "b", "q", "0", "1", "2", "3", "4", "5", "6", "7", "8", "9", "A", "B", "C", "D", "E", "F",
              "%", "+", "-", "_", ".", "~"}
EscapedSafe == \A i \in 1..Len(tree) :
                   LET p == JoinSlash(PathComps(tree, i))
                       e == Escape(p)
                   IN (\A k \in 1..Len(e) : e[k] \in SafeChars) /\ Unescape(e) = [ok |-> TRUE, val |-> p]

\* every script hands out exactly the content and ends with io.EOF (sanity of the input alphabet)
ScriptsOK == \A i \in 1..Len(tree) : tree[i].type = "file" =>
                LET sc == Script(tree[i].body, tree[i].rd)
                    S[k \in 0..Len(sc)] == IF k = 0 THEN 0 ELSE S[k - 1] + sc[k].n
                IN /\ S[Len(sc)] = Len(tree[i].body) /\ sc[Len(sc)].eof
                   /\ \A k \in 1..(Len(sc) - 1) : ~sc[k].eof
TypeOK == /\ Len(tree) <= MaxNodes
          /\ \A i \in 1..Len(tree) : tree[i].d \in 1..MaxDepth

-----------------------------------------------------------------------------
Init == tree = <<>>
AddNode == /\ Len(tree) < MaxNodes
           /\ \E x \in NodeChoices(tree) : GoodNode(tree, x) /\ tree' = Append(tree, x)
Next == AddNode
Spec == Init /\ [][Next]_vars
=============================================================================
