---------------------------- MODULE GenMutableFile ----------------------------
(* Phase G: call sequences with, per step, the results and observations that the file model
   dictates (r, p) -- and, wherever an open deviation applies, the exact as-built alternative(s).

   Every byte is unique: initial byte i has value i, the j-th call writes the values
   InitMax + (j-1)*WMax + 1.. , so a misplaced, duplicated or lost write always shows.

   alts: see Track in MutableFile.tla: [devs, r, wild, p] per non-empty set of triggered open
   deviations.  `wild` (of the alternative or of its p) = the as-built state / observation is not
   modelled; the harness accepts the alternative on what is modelled and stops checking there.
   amb: some alternative is observationally equal to the primary outcome although its internal
   state differs; the harness stops checking the behaviour there (never generated so far).

   fo (follow track): open deviations that have no repair (Follow, e.g. one pinned by an existing
   test) stay in the code for good; to keep checking after one of them has shown, a second design
   state d2 evolves with Follow in force at every call, and fo gives ITS outcome and alternatives.
   The harness switches from (r, p) to fo at the first step where the code matches fo instead. *)
EXTENDS MutableFile

CONSTANTS Devs,        \* open deviations (filled in by checks/C10.py from the open findings)
          Follow,      \* subset of Devs without a repair: the follow track keeps them in force
          InitSizes,   \* initial file sizes
          Roots,       \* initial root shapes: "pb" (single dag-pb leaf), "tree" (anything else)
          WLens,       \* lengths of written buffers
          Ks,          \* lengths of read buffers
          Slack,       \* offsets range up to size+Slack (Seek: from -size-Slack)
          D, E         \* behaviour length bound / emit length

InitMax == 16
WMax    == 4
ASSUME \A n \in InitSizes : n <= InitMax
ASSUME \A n \in WLens : n <= WMax
ASSUME Follow \subseteq Devs

VARIABLES f, d, d2, hist, init
gvars == <<f, d, d2, hist, init>>

Data(j, n) == [i \in 1..n |-> InitMax + (j - 1) * WMax + i]
InitContent(n) == [i \in 1..n |-> i]

Start(n, root) == /\ f' = [content |-> InitContent(n), cur |-> 0]
                  /\ d' = DInit(InitContent(n), root)
                  /\ d2' = DInit(InitContent(n), root)
                  /\ init' = [size |-> n, root |-> root]
GInit == /\ \E n \in InitSizes, root \in Roots :
              /\ f = [content |-> InitContent(n), cur |-> 0]
              /\ d = DInit(InitContent(n), root)
              /\ d2 = DInit(InitContent(n), root)
              /\ init = [size |-> n, root |-> root]
         /\ hist = <<>>

Pub(alts) == {[devs |-> a.devs, r |-> a.r, wild |-> a.wild, p |-> a.p, xp |-> a.xp] : a \in alts}

Step(call, i, X(_, _)) ==
    LET t  == Track(Devs \cap Rel(call.op, d), {}, d, X)
        \* (same state and no unrepaired deviation triggered: the follow track coincides, skip the work)
        t2 == IF d2 = d /\ t.trig \cap Follow = {} THEN t ELSE Track(Devs \cap (Follow \cup Rel(call.op, d2)), Follow, d2, X)
    IN /\ f' = i.f
       /\ d' = t.prim.st
       /\ d2' = t2.prim.st
       /\ UNCHANGED init
       /\ hist' = Append(hist, call @@
                   [r    |-> i.r,
                    p    |-> IProbes(i.f),
                    xp   |-> XP(t.prim),
                    alts |-> Pub(t.alts),
                    amb  |-> t.amb,
                    fo   |-> IF Follow = {} THEN [on |-> FALSE]
                             ELSE [on |-> TRUE, r |-> t2.prim.r, wild |-> t2.prim.wild, p |-> t2.prim.p, xp |-> XP(t2.prim),
                                   alts |-> Pub(t2.alts), amb |-> t2.amb, devs |-> Follow]])

Call(op, b, o, w, k) == [op |-> op, b |-> b, o |-> o, w |-> w, k |-> k]
J == Len(hist) + 1
Size == Len(f.content)

GStep ==
    \/ \E n \in WLens : LET b == Data(J, n) IN
          LET X(S, dd) == DWrite(S, dd, b) IN Step(Call("Write", b, 0, 0, 0), IWrite(f, b), X)
    \/ \E n \in WLens, o \in 0..(Size + Slack) : LET b == Data(J, n) IN
          LET X(S, dd) == DWriteAt(S, dd, b, o) IN Step(Call("WriteAt", b, o, 0, 0), IWriteAt(f, b, o), X)
    \/ \E k \in Ks :
          LET X(S, dd) == DRead(S, dd, k) IN Step(Call("Read", <<>>, 0, 0, k), IRead(f, k), X)
    \/ \E o \in (0 - Size - Slack)..(Size + Slack), w \in Whences :
          LET X(S, dd) == DSeek(S, dd, o, w) IN Step(Call("Seek", <<>>, o, w, 0), ISeek(f, o, w), X)
    \/ LET X(S, dd) == DSeek(S, dd, 0, 3) IN Step(Call("Seek", <<>>, 0, 3, 0), ISeek(f, 0, 3), X)
    \/ \E n \in 0..(Size + Slack) :
          LET X(S, dd) == DTruncate(S, dd, n) IN Step(Call("Truncate", <<>>, n, 0, 0), ITruncate(f, n), X)
    \/ LET X(S, dd) == DSize(S, dd) IN Step(Call("Size", <<>>, 0, 0, 0), ISize(f), X)
    \/ LET X(S, dd) == DSync(S, dd) IN Step(Call("Sync", <<>>, 0, 0, 0), ISync(f), X)
    \/ LET X(S, dd) == DGetNode(S, dd) IN Step(Call("GetNode", <<>>, 0, 0, 0), IGetNode(f), X)

GNext == Len(hist) < D /\ GStep
GSpec == GInit /\ [][GNext]_gvars

Out == [init |-> init, steps |-> hist]
Emit == Len(hist) # E \/ PrintT(<<"BEHAVIOUR", ToJson(Out)>>)

\* -simulate: TLC's simulator first computes ALL successors of a state and then picks one, which makes
\* every step as expensive as the whole alphabet; here the call is drawn with RandomElement instead
\* (one successor per state; reproducible: TLC's generator is seeded by -seed).
\* (each random value is bound by \E over a singleton so that it is drawn exactly once)
One(S) == {RandomElement(S)}
GStepRnd ==
    \E kind \in One(1..10) :
    CASE kind \in {1, 2} ->
           \E n \in One(WLens) : LET b == Data(J, n) X(S, dd) == DWrite(S, dd, b)
           IN Step(Call("Write", b, 0, 0, 0), IWrite(f, b), X)
      [] kind \in {3, 4} ->
           \E n \in One(WLens), o \in One(0..(Size + Slack)) : LET b == Data(J, n) X(S, dd) == DWriteAt(S, dd, b, o)
           IN Step(Call("WriteAt", b, o, 0, 0), IWriteAt(f, b, o), X)
      [] kind \in {5, 6} ->
           \E k \in One(Ks) : LET X(S, dd) == DRead(S, dd, k)
           IN Step(Call("Read", <<>>, 0, 0, k), IRead(f, k), X)
      [] kind = 7 ->
           \E o \in One((0 - Size - Slack)..(Size + Slack)), w \in One(0..2) : LET X(S, dd) == DSeek(S, dd, o, w)
           IN Step(Call("Seek", <<>>, o, w, 0), ISeek(f, o, w), X)
      [] kind = 8 ->
           \E n \in One(0..(Size + Slack)) : LET X(S, dd) == DTruncate(S, dd, n)
           IN Step(Call("Truncate", <<>>, n, 0, 0), ITruncate(f, n), X)
      [] kind = 9 ->      \* a seek to a valid target inside the file (or an invalid whence)
           \E w \in One(0..3), t \in One(0..Size) :
           LET o == IF w = 2 THEN t - Size ELSE IF w = 1 THEN t - f.cur ELSE t
               X(S, dd) == DSeek(S, dd, o, w)
           IN Step(Call("Seek", <<>>, o, w, 0), ISeek(f, o, w), X)
      [] OTHER ->
           \E c \in One({"Size", "Sync", "GetNode"}) :
           CASE c = "Size" -> LET X(S, dd) == DSize(S, dd) IN Step(Call("Size", <<>>, 0, 0, 0), ISize(f), X)
             [] c = "Sync" -> LET X(S, dd) == DSync(S, dd) IN Step(Call("Sync", <<>>, 0, 0, 0), ISync(f), X)
             [] OTHER      -> LET X(S, dd) == DGetNode(S, dd) IN Step(Call("GetNode", <<>>, 0, 0, 0), IGetNode(f), X)

Flush == /\ Len(hist) = E
         /\ PrintT(<<"BEHAVIOUR", ToJson(Out)>>)
         /\ hist' = <<>>
         /\ \E n \in One(InitSizes), root \in One(Roots) : Start(n, root)
GNextSim == IF Len(hist) = E THEN Flush ELSE GStepRnd
GSpecSim == GInit /\ [][GNextSim]_gvars
=============================================================================
