---------------------------- MODULE GenMutableFile ----------------------------
(* Phase G: call sequences with, per step, the results and observations that the file model
   dictates (r, p) -- and, wherever an open deviation applies, the exact as-built alternative(s).

   Every byte is unique: initial byte i has value i, the j-th call writes the values
   InitMax + (j-1)*WMax + 1.. , so a misplaced, duplicated or lost write always shows.

   alts: for every non-empty subset S of the *triggered* open deviations (those whose presence,
   alone or on top of the others, changes the outcome or the observations of this very call)
   the outcome of the design-level model with S in force:  [devs, r, wild, p].
   `wild` = the as-built state after the call is not modelled; the harness then accepts the
   alternative on the results alone and stops checking this behaviour.
   amb: some alternative is observationally equal to the ideal outcome although its internal
   state differs; the harness stops checking the behaviour there (never observed so far). *)
EXTENDS MutableFile

CONSTANTS Devs,        \* open deviations (filled in by checks/C10.py from the open findings)
          InitSizes,   \* initial file sizes
          Roots,       \* initial root shapes: "pb" (single dag-pb leaf), "tree" (anything else)
          WLens,       \* lengths of written buffers
          Ks,          \* lengths of read buffers
          Slack,       \* offsets range up to size+Slack (Seek: from -size-Slack)
          D, E         \* behaviour length bound / emit length

InitMax == 16
WMax    == 4
ASSUME \A n \in InitSizes : n <= InitMax
ASSUME \A n \in WLens : n <= WMax

VARIABLES f, d, hist, init
gvars == <<f, d, hist, init>>

Data(j, n) == [i \in 1..n |-> InitMax + (j - 1) * WMax + i]
InitContent(n) == [i \in 1..n |-> i]

GInit == /\ \E n \in InitSizes, root \in Roots :
              /\ f = [content |-> InitContent(n), cur |-> 0]
              /\ d = DInit(InitContent(n), root)
              /\ init = [size |-> n, root |-> root]
         /\ hist = <<>>

\* one step: ideal outcome i, design-level outcome function X(S) (S = deviations in force)
Obs(x, S) == [r |-> x.r, wild |-> x.wild, st |-> x.st,
              p |-> IF x.wild THEN [wild |-> TRUE] ELSE DProbes(S, x.st)]
Visible(o) == [r |-> o.r, wild |-> o.wild, p |-> o.p]

Step(call, i, X(_)) ==
    LET fixed == Obs(X({}), {})
        More(T) == {x \in Devs \ T : Obs(X(T \cup {x}), T \cup {x}) # Obs(X(T), T)}
        trig0 == More({})                                  \* deviations that change this call on their own
        trig1 == trig0 \cup (IF trig0 = {} THEN {} ELSE More(trig0))      \* ... or on top of those
        trig  == trig1 \cup (IF trig1 = trig0 THEN {} ELSE More(trig1))
        alts  == {[devs |-> S, o |-> Obs(X(S), S)] : S \in (SUBSET trig) \ {{}}}
    IN /\ f' = i.f
       /\ d' = fixed.st
       /\ UNCHANGED init
       /\ hist' = Append(hist, call @@
                   [r    |-> i.r,
                    p    |-> IProbes(i.f),
                    alts |-> {[devs |-> a.devs, r |-> a.o.r, wild |-> a.o.wild, p |-> a.o.p] : a \in alts},
                    amb  |-> \E a \in alts : Visible(a.o) = Visible(fixed) /\ a.o.st # fixed.st])

Call(op, b, o, w, k) == [op |-> op, b |-> b, o |-> o, w |-> w, k |-> k]
J == Len(hist) + 1
Size == Len(f.content)

GStep ==
    \/ \E n \in WLens : LET b == Data(J, n) IN
          LET X(S) == DWrite(S, d, b) IN Step(Call("Write", b, 0, 0, 0), IWrite(f, b), X)
    \/ \E n \in WLens, o \in 0..(Size + Slack) : LET b == Data(J, n) IN
          LET X(S) == DWriteAt(S, d, b, o) IN Step(Call("WriteAt", b, o, 0, 0), IWriteAt(f, b, o), X)
    \/ \E k \in Ks :
          LET X(S) == DRead(S, d, k) IN Step(Call("Read", <<>>, 0, 0, k), IRead(f, k), X)
    \/ \E o \in (0 - Size - Slack)..(Size + Slack), w \in Whences :
          LET X(S) == DSeek(S, d, o, w) IN Step(Call("Seek", <<>>, o, w, 0), ISeek(f, o, w), X)
    \/ LET X(S) == DSeek(S, d, 0, 3) IN Step(Call("Seek", <<>>, 0, 3, 0), ISeek(f, 0, 3), X)
    \/ \E n \in 0..(Size + Slack) :
          LET X(S) == DTruncate(S, d, n) IN Step(Call("Truncate", <<>>, n, 0, 0), ITruncate(f, n), X)
    \/ LET X(S) == DSize(S, d) IN Step(Call("Size", <<>>, 0, 0, 0), ISize(f), X)
    \/ LET X(S) == DSync(S, d) IN Step(Call("Sync", <<>>, 0, 0, 0), ISync(f), X)
    \/ LET X(S) == DGetNode(S, d) IN Step(Call("GetNode", <<>>, 0, 0, 0), IGetNode(f), X)

GNext == Len(hist) < D /\ GStep
GSpec == GInit /\ [][GNext]_gvars

Out == [init |-> init, steps |-> hist]
Emit == Len(hist) # E \/ PrintT(<<"BEHAVIOUR", ToJson(Out)>>)

Flush == /\ Len(hist) = E
         /\ PrintT(<<"BEHAVIOUR", ToJson(Out)>>)
         /\ hist' = <<>>
         /\ \E n \in InitSizes, root \in Roots :
              /\ f' = [content |-> InitContent(n), cur |-> 0]
              /\ d' = DInit(InitContent(n), root)
              /\ init' = [size |-> n, root |-> root]
GNextSim == IF Len(hist) = E THEN Flush ELSE GStep
GSpecSim == GInit /\ [][GNextSim]_gvars
=============================================================================
