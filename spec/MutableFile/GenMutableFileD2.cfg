SPECIFICATION GSpec
CONSTANTS Devs = @DEVS@
          Follow = @FOLLOW@
          InitSizes = {0, 4}
          Roots = {"pb", "tree"}
          WLens = {0, 1, 3}
          Ks = {0, 2, 5}
          Slack = 1
          D = 2
          E = 2
INVARIANTS Emit
