SPECIFICATION GSpec
CONSTANTS Devs = @DEVS@
          Follow = @FOLLOW@
          InitSizes = {0, 3}
          Roots = {"pb", "tree"}
          WLens = {0, 2}
          Ks = {0, 3}
          Slack = 1
          D = 2
          E = 2
INVARIANTS Emit
