SPECIFICATION GSpec
CONSTANTS Devs = @DEVS@
          Follow = @FOLLOW@
          InitSizes = {0, 1, 2, 3, 5, 8}
          Roots = {"pb", "tree"}
          WLens = {0, 1, 3}
          Ks = {0, 2, 9}
          Slack = 2
          D = 2
          E = 2
INVARIANTS Emit
