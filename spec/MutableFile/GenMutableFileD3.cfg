SPECIFICATION GSpec
CONSTANTS Devs = @DEVS@
          Follow = @FOLLOW@
          InitSizes = {1}
          Roots = {"tree"}
          WLens = {0, 2}
          Ks = {0, 3}
          Slack = 1
          D = 3
          E = 3
INVARIANTS Emit
