SPECIFICATION GSpecSim
CONSTANTS Devs = @DEVS@
          Follow = @FOLLOW@
          InitSizes = {0, 1, 2, 3, 4, 5, 7, 8, 11, 16}
          Roots = {"pb", "tree"}
          WLens = {0, 1, 2, 3, 4}
          Ks = {0, 1, 2, 3, 5, 9}
          Slack = 2
          D = 1000
          E = 20
