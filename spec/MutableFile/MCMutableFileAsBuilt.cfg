SPECIFICATION BSpec
CONSTANTS Devs = {"Dev_C10_SeekEndSign", "Dev_C10_SeekNegative", "Dev_C10_ShortOverwrite", "Dev_C10_WriteAtCursor", "Dev_C10_ReadWriteStart", "Dev_C10_StaleReader", "Dev_C10_InlineLeafAppend"}
          NB = 2
          MaxBuf = 2
          MaxLen = 3
          Roots = {"tree"}
INVARIANTS TypeOK SameResults
CONSTRAINT Bounded
