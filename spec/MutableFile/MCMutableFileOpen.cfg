SPECIFICATION BSpec
CONSTANTS Devs = {"Dev_C10_ReadWriteStart"}
          NB = 2
          MaxBuf = 2
          MaxLen = 3
          Roots = {"tree"}
INVARIANTS TypeOK SameResults BufferRefinesFile SizeRefines CursorRefines NextWriteAtCursor
CONSTRAINT Bounded
