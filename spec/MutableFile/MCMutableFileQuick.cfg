SPECIFICATION BSpec
CONSTANTS Devs = {}
          NB = 1
          MaxBuf = 2
          MaxLen = 3
          Roots = {"pb", "tree"}
INVARIANTS TypeOK SameResults BufferRefinesFile SizeRefines CursorRefines NextWriteAtCursor NeverWild BufferEndsAtCursor ReaderAtCursor
CONSTRAINT Bounded
