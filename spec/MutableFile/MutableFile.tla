------------------------------ MODULE MutableFile ------------------------------
(* C10 -- the DagModifier (ipld/unixfs/mod/dagmodifier.go) as a mutable file.

   PART 1, the file model (the property):   f = [content, cur]
     content  the bytes of the file (0 = a byte created by zero-filling)
     cur      the single position shared by Write / WriteAt / Read / Seek

   Every call is a function  I<Op>(f, args) = [f |-> state afterwards, r |-> results].
   Interpretation choices (each is where the standard interfaces leave room, none loosens
   "a write is never misplaced, duplicated or lost"):
     * Seek follows io.Seeker: SeekEnd target = size + o, unknown whence or negative target =>
       error and nothing changes.  A successful seek beyond the end materialises the gap as
       zeros at once (io.Seeker leaves I/O after such a seek implementation-defined).
     * Write "continues writing at the current offset" (doc comment); WriteAt(b, o) places b at o
       and leaves the position at o+len(b): Write after WriteAt continues behind it (the modifier
       has one position, WriteAt with o = position is Write).
     * a write call positioned beyond the end zero-fills the gap, also when it carries 0 bytes.
     * Truncate(n) cuts or zero-extends, the position stays.
     * Read/CtxReadFull: the reader contract of C09 (full read; EOF iff fewer than k bytes were
       left; for k = 0 at/after the end both nil and EOF are admissible).

   PART 2, the design-level model of the write buffer (what the code does):
     d = [dag, ws, hb, buf, cur, rd, root]
     dag   content of dm.curNode (the synced DAG)           ws   dm.writeStart
     hb    dm.wrBuf # nil                                   buf  bytes pending in dm.wrBuf
     cur   dm.curWrOff                                      root shape of curNode: "pb" | "raw" (single
     rd    dm.read: [s, pos, size], s = "none" | "fresh" |        leaf) or "tree" (has links)
           "stale" (survived a change of curNode)
   Every call is a function  D<Op>(D, d, args) = [st, r, wild]  where D is the set of *deviations*
   in force: D = {} is the repaired code (fixes/C10-*.diff), D = AllDevs the code as built.
   `wild` = the state afterwards is not modelled (garbage offsets, corrupt DAG, stale reader data).
   MutableFileBuf.tla runs both parts in lock-step and checks that D = {} refines PART 1. *)
EXTENDS Integers, Sequences, FiniteSets, TLC, Json

Min(a, b) == IF a < b THEN a ELSE b
Max(a, b) == IF a > b THEN a ELSE b

SeekStart == 0  SeekCurrent == 1  SeekEnd == 2
Whences   == {SeekStart, SeekCurrent, SeekEnd}

Zeros(n)      == [i \in 1..n |-> 0]
ZeroExt(s, n) == IF Len(s) < n THEN s \o Zeros(n - Len(s)) ELSE s
\* b placed at position p (0-based) of s, gap zero-filled
Overlay(s, p, b) == LET e == ZeroExt(s, p)
                    IN [i \in 1..Max(Len(e), p + Len(b)) |->
                          IF i > p /\ i <= p + Len(b) THEN b[i - p] ELSE e[i]]
Slice(s, p, n) == SubSeq(s, p + 1, p + n)          \* n bytes from 0-based position p

\* reader contract (C09): bytes available, count, admissible EOF signals
ReadN(size, pos, k)    == Min(k, Max(size - pos, 0))
ReadEofs(size, pos, k) == IF k = 0 THEN (IF pos >= size THEN {FALSE, TRUE} ELSE {FALSE})
                          ELSE {pos + k > size}

NoR == [n |-> 0, err |-> FALSE, eofs |-> {FALSE}, data |-> <<>>, ret |-> 0]

(* ============================ PART 1: the file model ============================ *)
IWrite(f, b) ==
    [f |-> [content |-> Overlay(f.content, f.cur, b), cur |-> f.cur + Len(b)],
     r |-> [NoR EXCEPT !.n = Len(b)]]
IWriteAt(f, b, o) ==
    [f |-> [content |-> Overlay(f.content, o, b), cur |-> o + Len(b)],
     r |-> [NoR EXCEPT !.n = Len(b)]]
IRead(f, k) ==
    LET size == Len(f.content)  n == ReadN(size, f.cur, k)
    IN [f |-> [f EXCEPT !.cur = f.cur + n],
        r |-> [NoR EXCEPT !.n = n, !.eofs = ReadEofs(size, f.cur, k), !.data = Slice(f.content, f.cur, n)]]
ITarget(f, o, w) == CASE w = SeekStart   -> o
                      [] w = SeekCurrent -> f.cur + o
                      [] w = SeekEnd     -> Len(f.content) + o
                      [] OTHER           -> -1
ISeek(f, o, w) ==
    LET t == ITarget(f, o, w)
    IN IF w \notin Whences \/ t < 0 THEN [f |-> f, r |-> [NoR EXCEPT !.err = TRUE]]
       ELSE [f |-> [content |-> ZeroExt(f.content, t), cur |-> t], r |-> [NoR EXCEPT !.ret = t]]
ITruncate(f, n) ==
    [f |-> [f EXCEPT !.content = IF n <= Len(f.content) THEN SubSeq(f.content, 1, n) ELSE ZeroExt(f.content, n)],
     r |-> NoR]
ISize(f)    == [f |-> f, r |-> [NoR EXCEPT !.ret = Len(f.content)]]
ISync(f)    == [f |-> f, r |-> NoR]
IGetNode(f) == [f |-> f, r |-> [NoR EXCEPT !.data = f.content]]      \* the returned DAG reads back as content

\* observations that do not change the file (the harness makes them on clones after every call)
Marker == 255
IProbes(f) == [size |-> Len(f.content), view |-> f.content, cur |-> f.cur,
               wview |-> Overlay(f.content, f.cur, <<Marker>>)]     \* where the next Write would land

(* ====================== PART 2: the write buffer, as designed ====================== *)
AllDevs == {"Dev_C10_SeekEndSign", "Dev_C10_SeekNegative", "Dev_C10_ShortOverwrite", "Dev_C10_WriteAtCursor",
            "Dev_C10_ReadWriteStart", "Dev_C10_StaleReader", "Dev_C10_InlineLeafAppend"}

NoRd == [s |-> "none", pos |-> 0, size |-> 0]
\* is there a reader object the code will actually use?
Live(D, d) == d.rd.s = "fresh" \/ (d.rd.s = "stale" /\ "Dev_C10_StaleReader" \in D)
Ok(st, r) == [st |-> st, r |-> r, wild |-> FALSE]
Wild(st, r) == [st |-> st, r |-> r, wild |-> TRUE]

DInit(content, root) == [dag |-> content, ws |-> 0, hb |-> FALSE, buf |-> <<>>, cur |-> 0, rd |-> NoRd, root |-> root]

\* dm.Size()
DSizeOf(d) == IF d.hb THEN Max(Len(d.dag), d.ws + Len(d.buf)) ELSE Len(d.dag)

\* appendData(curNode, k bytes `tail`): trickle.Append.  Appending to a single dag-pb leaf that carries
\* its data inline gives it children while the inline bytes stay in the (now internal) node, where
\* readers ignore them [Dev_C10_InlineLeafAppend]; repaired: the leaf is first wrapped like a raw leaf.
\* A reader opened earlier keeps walking the old curNode [Dev_C10_StaleReader]; repaired: it is dropped
\* (status "stale" means "dropped" unless that deviation is in force).
DAppend(D, d, tail) ==
    IF "Dev_C10_InlineLeafAppend" \in D /\ d.root = "pb" /\ Len(d.dag) > 0 THEN Wild(d, NoR)
    ELSE Ok([d EXCEPT !.dag = d.dag \o tail, !.root = "tree",
                      !.rd = IF d.rd.s = "none" THEN d.rd ELSE [d.rd EXCEPT !.s = "stale"]], NoR)
\* expandSparse(k), k > 0
DExpand(D, d, k) == DAppend(D, d, Zeros(k))

\* Sync(): expandSparse up to writeStart, modifyDag over the existing bytes, appendData for the rest
DFlush(D, d) ==
    IF ~d.hb THEN Ok(d, NoR)
    ELSE LET d0 == [d EXCEPT !.rd = NoRd]                                   \* "If we have an active reader, kill it"
             e  == IF Len(d0.dag) < d0.ws THEN DExpand(D, d0, d0.ws - Len(d0.dag)) ELSE Ok(d0, NoR)
         IN IF e.wild THEN e
            ELSE LET d1   == e.st
                     over == Min(Len(d1.buf), Len(d1.dag) - d1.ws)
                     d2   == [d1 EXCEPT !.dag = Overlay(d1.dag, d1.ws, SubSeq(d1.buf, 1, over))]      \* modifyDag
                     rest == SubSeq(d1.buf, over + 1, Len(d1.buf))
                     a    == IF Len(rest) > 0 THEN DAppend(D, d2, rest) ELSE Ok(d2, NoR)                \* appendData
                 IN IF a.wild THEN a
                    ELSE Ok([a.st EXCEPT !.ws = d.ws + Len(d.buf), !.hb = FALSE, !.buf = <<>>, !.rd = NoRd], NoR)

\* Write(b): append to the pending buffer
DWrite(D, d, b) ==
    Ok([d EXCEPT !.hb = TRUE, !.buf = d.buf \o b, !.cur = d.cur + Len(b), !.rd = NoRd], [NoR EXCEPT !.n = Len(b)])

\* WriteAt(b, o)
DWriteAt(D, d, b, o) ==
    IF d.hb /\ o = d.ws /\ Len(b) >= Len(d.buf)
      THEN \* "we would overwrite the previous write": the pending write is dropped.
           \* as built curWrOff keeps counting the dropped bytes [Dev_C10_WriteAtCursor]
           DWrite(D, [d EXCEPT !.buf = <<>>, !.cur = IF "Dev_C10_WriteAtCursor" \in D THEN d.cur ELSE d.ws], b)
    ELSE IF d.hb /\ o = d.ws /\ "Dev_C10_ShortOverwrite" \in D
      THEN \* as built: a shorter write at writeStart is *appended* to the pending buffer [Dev_C10_ShortOverwrite]
           DWrite(D, d, b)
    ELSE IF o # d.cur
      THEN LET size == DSizeOf(d)
               e    == IF o > size THEN DExpand(D, d, o - size) ELSE Ok(d, NoR)
               f    == IF e.wild THEN e ELSE DFlush(D, e.st)
           IN IF f.wild THEN Wild(d, [NoR EXCEPT !.n = Len(b)])
              ELSE \* as built only writeStart is moved, curWrOff is not [Dev_C10_WriteAtCursor]
                   DWrite(D, [f.st EXCEPT !.ws = o, !.cur = IF "Dev_C10_WriteAtCursor" \in D THEN f.st.cur ELSE o], b)
    ELSE DWrite(D, d, b)

\* Read(k) / CtxReadFull(k): Sync, (re)open the reader at curWrOff, read
DRead(D, d, k) ==
    LET f == DFlush(D, d) IN
    IF f.wild THEN Wild(d, NoR)
    ELSE LET d1 == f.st IN
         IF d1.rd.s = "stale" /\ "Dev_C10_StaleReader" \in D THEN Wild(d1, NoR)      \* data of an older version
         ELSE LET pos  == IF d1.rd.s = "fresh" THEN d1.rd.pos ELSE d1.cur
                  size == Len(d1.dag)
                  n    == ReadN(size, pos, k)
                  cur2 == d1.cur + n
              IN Ok([d1 EXCEPT !.cur = cur2,
                               \* as built writeStart stays behind: the next Write lands there [Dev_C10_ReadWriteStart]
                               !.ws  = IF "Dev_C10_ReadWriteStart" \in D THEN d1.ws ELSE cur2,
                               !.rd  = [s |-> "fresh", pos |-> pos + n, size |-> size]],
                    [NoR EXCEPT !.n = n, !.eofs = ReadEofs(size, pos, k), !.data = Slice(d1.dag, pos, n)])

\* Seek(o, w): Sync, compute the target, expandSparse beyond the end, move both offsets, move the reader
DSeek(D, d, o, w) ==
    LET f == DFlush(D, d) IN
    IF f.wild THEN Wild(d, NoR)
    ELSE LET d1   == f.st
             size == Len(d1.dag)
             t    == CASE w = SeekStart   -> o
                       [] w = SeekCurrent -> d1.cur + o
                       [] w = SeekEnd     -> IF "Dev_C10_SeekEndSign" \in D THEN size - o ELSE size + o   \* as built: fisize - offset
                       [] OTHER           -> 0
             \* as built the reader is moved with the caller's (offset, whence); repaired: to the target
             rt   == IF D \cap {"Dev_C10_SeekEndSign", "Dev_C10_SeekNegative"} = {} THEN t
                     ELSE CASE w = SeekStart   -> o
                            [] w = SeekCurrent -> d1.rd.pos + o
                            [] w = SeekEnd     -> d1.rd.size + o
                            [] OTHER           -> 0
         IN IF w \notin Whences THEN Ok(d1, [NoR EXCEPT !.err = TRUE])
            ELSE IF t < 0 THEN
                 IF "Dev_C10_SeekNegative" \in D
                   THEN \* as built: no check; the offsets become 2^64+t; only a live reader may object
                        Wild(d1, IF Live(D, d1) /\ rt < 0 THEN [NoR EXCEPT !.err = TRUE] ELSE [NoR EXCEPT !.ret = t])
                   ELSE Ok(d1, [NoR EXCEPT !.err = TRUE])
            ELSE LET e == IF t > size THEN DExpand(D, d1, t - size) ELSE Ok(d1, NoR)
                 IN IF e.wild THEN Wild(d1, [NoR EXCEPT !.ret = t])
                    ELSE LET d2 == [e.st EXCEPT !.cur = t, !.ws = t] IN
                         IF ~Live(D, d2) THEN Ok(d2, [NoR EXCEPT !.ret = t])
                         ELSE IF rt < 0 THEN Wild(d2, [NoR EXCEPT !.err = TRUE])     \* offsets moved, error returned
                         ELSE Ok([d2 EXCEPT !.rd.pos = rt], [NoR EXCEPT !.ret = t])

\* Truncate(n): Sync, then dagTruncate / expandSparse
DTruncate(D, d, n) ==
    LET f == DFlush(D, d) IN
    IF f.wild THEN Wild(d, NoR)
    ELSE LET d1 == f.st  size == Len(d1.dag) IN
         IF n = size THEN Ok(d1, NoR)
         ELSE IF n > size THEN DExpand(D, d1, n - size)
         ELSE Ok([d1 EXCEPT !.dag = SubSeq(d1.dag, 1, n),
                            !.rd  = IF d1.rd.s = "none" THEN d1.rd ELSE [d1.rd EXCEPT !.s = "stale"]], NoR)

DSize(D, d) == Ok(d, [NoR EXCEPT !.ret = DSizeOf(d)])
DSync(D, d) == DFlush(D, d)
DGetNode(D, d) == LET f == DFlush(D, d) IN IF f.wild THEN Wild(d, NoR) ELSE Ok(f.st, [NoR EXCEPT !.data = f.st.dag])

\* the same observations as IProbes, made the way the harness makes them: on copies of the modifier
\* (GetNode = Sync + read back; Seek(0, SeekCurrent); Write(marker) + GetNode).  "wild" = not modelled.
DProbes(D, d) ==
    LET v  == DFlush(D, d)
        wv == DFlush(D, DWrite(D, d, <<Marker>>).st)
    IN IF v.wild \/ wv.wild THEN [wild |-> TRUE]
       ELSE [wild |-> FALSE, size |-> DSizeOf(d), view |-> v.st.dag, cur |-> d.cur, wview |-> wv.st.dag]
=============================================================================
