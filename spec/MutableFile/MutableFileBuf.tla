---------------------------- MODULE MutableFileBuf ----------------------------
(* C10, phase M: the file model (f) and the design-level write-buffer model (d) of MutableFile.tla
   advance in lock-step on the same calls; the invariants say that the design with the deviation
   set Devs refines the file model.  Devs = {} (the repaired design) must satisfy them; with
   Devs = AllDevs (the code as built) TLC finds the counterexamples that the replay then
   reproduces on the real code. *)
EXTENDS MutableFile

CONSTANTS Devs,      \* deviations in force in the design-level model
          NB,        \* data bytes 1..NB
          MaxBuf,    \* longest write / read buffer
          MaxLen,    \* bound on file length and offsets (state constraint)
          Roots      \* initial root shapes

VARIABLES f, d, ir, dr, wild
bvars == <<f, d, ir, dr, wild>>

Datas == UNION {[1..n -> 1..NB] : n \in 0..MaxBuf}
Offs  == 0..(MaxLen + 1)

BInit == /\ \E n \in 0..Min(MaxLen, 3), root \in Roots :
              LET c == [i \in 1..n |-> 1 + (i % NB)]
              IN f = [content |-> c, cur |-> 0] /\ d = DInit(c, root)
         /\ ir = NoR /\ dr = NoR /\ wild = FALSE

Do(i, x) == /\ f' = i.f /\ ir' = i.r
            /\ d' = x.st /\ dr' = x.r /\ wild' = x.wild

BNext == /\ ~wild                      \* an unmodelled state ends the behaviour
         /\ \/ \E b \in Datas : Do(IWrite(f, b), DWrite(Devs, d, b))
            \/ \E b \in Datas, o \in Offs : Do(IWriteAt(f, b, o), DWriteAt(Devs, d, b, o))
            \/ \E k \in 0..MaxBuf : Do(IRead(f, k), DRead(Devs, d, k))
            \/ \E o \in (0 - MaxLen - 1)..(MaxLen + 1), w \in 0..3 : Do(ISeek(f, o, w), DSeek(Devs, d, o, w))
            \/ \E n \in Offs : Do(ITruncate(f, n), DTruncate(Devs, d, n))
            \/ Do(ISize(f), DSize(Devs, d))
            \/ Do(ISync(f), DSync(Devs, d))
            \/ Do(IGetNode(f), DGetNode(Devs, d))
BSpec == BInit /\ [][BNext]_bvars

Bounded == Len(f.content) <= MaxLen /\ f.cur <= MaxLen + 1

(* ---- refinement ---------------------------------------------------------------------- *)
\* same results from every call
SameResults == ~wild => ~dr.any /\ dr.n = ir.n /\ dr.err = ir.err /\ dr.eofs = ir.eofs /\ dr.data = ir.data /\ dr.ret = ir.ret
\* flushing the buffer at writeStart always yields the file; Size(), the position and the place
\* where the next Write lands agree with the file model
P == DProbes(Devs, d)
BufferRefinesFile == ~wild => ~P.wild /\ P.view = f.content
SizeRefines       == ~wild => ~P.wild /\ P.size = Len(f.content)
CursorRefines     == ~wild => d.cur = f.cur
NextWriteAtCursor == ~wild => ~P.wild /\ P.wview = IProbes(f).wview
NeverWild         == ~wild
\* design invariants of the repaired code
BufferEndsAtCursor == ~wild => d.cur = d.ws + Len(d.buf)
ReaderAtCursor     == ~wild /\ d.rd.s = "fresh" => d.rd.pos = d.cur /\ d.rd.size = Len(d.dag) /\ ~d.hb
TypeOK == /\ f.cur \in Nat /\ d.ws \in Nat /\ d.cur \in Nat
          /\ d.root \in {"pb", "raw", "tree"} /\ d.rd.s \in {"none", "fresh", "stale"}
          /\ (~d.hb => d.buf = <<>>)
=============================================================================
