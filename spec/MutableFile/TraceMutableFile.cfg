SPECIFICATION TSpec
CONSTANT Devs = @DEVS@
INVARIANTS TypeOK BufferEndsAtCursor DevReport
CONSTRAINT TraceConstraint
POSTCONDITION TracePost
CHECK_DEADLOCK FALSE
