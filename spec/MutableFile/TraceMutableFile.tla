--------------------------- MODULE TraceMutableFile ---------------------------
(* Phase T: recorded histories of real DagModifiers (several runs separated by Reset events;
   files up to 4 KiB, chunkers of 16..512 bytes, widths 2..8, raw/dag-pb leaves, CIDv0/v1/identity)
   must be behaviours of the design-level model of MutableFile.tla -- which MutableFileBuf shows to
   refine the file model when no deviation is in force.

   Every event carries the call, its results r and the observations p made on copies of the
   modifier right after the call (Size(); GetNode()+read back; Seek(0, SeekCurrent); position wpos
   at which a marker written by Write lands, with wok = "the rest of that read-back is the view").

   An event is accepted iff it is the primary outcome of the call on the current design state or,
   for the open deviations (Devs), one of the exact as-built alternatives; `dev` collects the
   deviations an accepting path really used.  Alternatives whose state afterwards is not modelled
   put the run into `wild` mode: its remaining events are skipped up to the next Reset. *)
EXTENDS MutableFile

CONSTANT Devs

Trace == ndJsonDeserialize("trace.ndjson")
VARIABLES l, d, wild, dev, ident
tvars == <<l, d, wild, dev, ident>>
ASSUME TLCSet(1, 0)

Ev == Trace[l]
IsEvent(e) == l <= Len(Trace) /\ Trace[l].ev = e /\ l' = l + 1

Ops == {"Write", "WriteAt", "Read", "Seek", "Truncate", "Size", "Sync", "GetNode"}

TInit == l = 1 /\ d = DInit(<<>>, "tree") /\ wild = FALSE /\ dev = {} /\ ident = FALSE

TReset == /\ IsEvent("Reset")
          /\ d' = DInit(Ev.content, Ev.root) /\ wild' = FALSE /\ ident' = Ev.ident
          /\ UNCHANGED dev

\* the logged call on design state dd with deviations S in force
X(S, dd) == CASE Ev.ev = "Write"    -> DWrite(S, dd, Ev.b)
              [] Ev.ev = "WriteAt"  -> DWriteAt(S, dd, Ev.b, Ev.o)
              [] Ev.ev = "Read"     -> DRead(S, dd, Ev.k)
              [] Ev.ev = "Seek"     -> DSeek(S, dd, Ev.o, Ev.w)
              [] Ev.ev = "Truncate" -> DTruncate(S, dd, Ev.o)
              [] Ev.ev = "Size"     -> DSize(S, dd)
              [] Ev.ev = "Sync"     -> DSync(S, dd)
              [] Ev.ev = "GetNode"  -> DGetNode(S, dd)

\* logged results against modelled results (which error accompanies a failure is not specified)
SameR(er, mr) ==
    IF mr.any THEN TRUE ELSE
    /\ er.err = mr.err
    /\ \/ mr.err
       \/ CASE Ev.ev \in {"Write", "WriteAt"} -> er.n = mr.n
            [] Ev.ev = "Read"    -> er.n = mr.n /\ er.eof \in mr.eofs /\ er.data = mr.data
            [] Ev.ev \in {"Seek", "Size"} -> er.ret = mr.ret
            [] Ev.ev = "GetNode" -> er.data = mr.data
            [] OTHER -> TRUE
SameP(ep, mp) == /\ ep.fail = "" /\ ep.size = mp.size /\ ep.cur = mp.cur /\ ep.view = mp.view
                 /\ ep.wpos = mp.wpos /\ ep.wok

\* does candidate outcome c explain the logged event?  (an unmodelled observation is not compared)
Explains(c) == IF ~SameR(Ev.r, c.r) THEN FALSE
               ELSE IF c.wild THEN TRUE ELSE IF c.p.wild THEN TRUE ELSE SameP(Ev.p, c.p)

\* The harness does not perform a Read through a reader that outlived a change of curNode (as built it
\* serves the old DAG or spins forever): it logs stale = TRUE instead and ends the run.
TStale == /\ l <= Len(Trace) /\ Ev.ev = "Read" /\ ~wild /\ Ev.stale /\ l' = l + 1
          /\ "Dev_C10_StaleReader" \in Devs
          /\ DFlush({}, d).st.rd.s = "stale"            \* the model agrees: the repaired code would have dropped it
          /\ wild' = TRUE /\ dev' = dev \cup {"Dev_C10_StaleReader"} /\ UNCHANGED <<d, ident>>

TOp == /\ l <= Len(Trace) /\ Ev.ev \in Ops /\ ~wild /\ ~Ev.stale /\ l' = l + 1
       /\ UNCHANGED ident
       /\ LET t     == Track(Devs \cap Rel(Ev.ev, d), {}, d, X)
              prim  == [devs |-> {}, r |-> t.prim.r, wild |-> t.prim.wild, p |-> t.prim.p, st |-> t.prim.st, xp |-> XP(t.prim)]
              okAlt == {c \in t.alts : Explains(c)}
              \* a deviation is used only where the primary outcome does not explain the event, and then
              \* only a minimal set of deviations
              \* only a minimal set of deviations, fully modelled explanations before unmodelled ones
              Exact(c) == IF c.wild THEN FALSE ELSE ~c.p.wild
              tier  == IF \E c \in okAlt : Exact(c) THEN {c \in okAlt : Exact(c)} ELSE okAlt
              \* alternatives that look exactly like the primary outcome but leave a different state behind
              \* (as built, Seek moves an open reader with the caller's (offset, whence): once an inverted
              \* SeekEnd has put the reader elsewhere, relative seeks keep it there unnoticed): both are
              \* followed, a later Read tells them apart
              ambAlt == {c \in okAlt : Exact(c) /\ ~prim.wild /\ ~prim.p.wild /\ c.r = prim.r /\ c.p = prim.p /\ c.st # prim.st}
              pick  == IF Explains(prim) THEN {prim} \cup ambAlt
                       ELSE {c \in tier : ~\E c2 \in tier : c2.devs # c.devs /\ c2.devs \subseteq c.devs}
              \* identity-hash prefix: (a) re-rooting outside Sync adds an oversized identity block: the call
              \* fails with that error, or succeeds and an observation fails with it; (b) a branch node was
              \* linked by its oversized identity CID: reading the file fails to fetch it
              identA == \E c \in {prim} \cup t.alts :
                           c.xp /\ (IF Ev.r.identerr THEN TRUE ELSE (SameR(Ev.r, c.r) /\ Ev.p.identfail))
              identB == IF Ev.r.fetcherr THEN TRUE ELSE Ev.p.fetchfail
          IN IF pick # {}
               THEN \E c \in pick :
                      /\ wild' = c.wild
                      /\ d' = IF c.wild THEN d ELSE c.st
                      /\ dev' = dev \cup c.devs
               ELSE /\ "Dev_C10_IdentityOverflow" \in Devs /\ ident
                    /\ (IF identA THEN TRUE ELSE identB)
                    /\ wild' = TRUE /\ d' = d /\ dev' = dev \cup {"Dev_C10_IdentityOverflow"}

TWild == /\ l <= Len(Trace) /\ Ev.ev \in Ops /\ wild /\ l' = l + 1
         /\ UNCHANGED <<d, wild, dev, ident>>

TNext == TReset \/ TOp \/ TStale \/ TWild
TSpec == TInit /\ [][TNext]_tvars

TypeOK == /\ d.ws \in Nat /\ d.cur \in Nat /\ d.root \in {"pb", "raw", "tree"}
          /\ d.rd.s \in {"none", "fresh", "stale"} /\ (~d.hb => d.buf = <<>>)
\* with no deviation in force the buffer always ends at the position
BufferEndsAtCursor == dev = {} /\ ~wild => d.cur = d.ws + Len(d.buf)
DevReport == l <= Len(Trace) \/ \A x \in dev : PrintT(<<"DEV_USED", x>>)

TraceConstraint == TLCSet(1, IF l - 1 > TLCGet(1) THEN l - 1 ELSE TLCGet(1))
TracePost == PrintT(<<"TRACE_HWM", TLCGet(1)>>)
=============================================================================
