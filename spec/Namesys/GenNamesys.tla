----------------------------- MODULE GenNamesys -----------------------------
(* Phase G generator: call sequences (inputs only) for the Go harness.  The harness executes them on
   the real name system and logs what happened; TraceNamesys validates the log (so the races of the
   real resolver are resolved by the trace spec, not guessed here).  To enumerate INPUT sequences the
   resolver's internal steps run in the "prompt" schedule (each deferred cache fill lands at once).

   GSpec    : every input sequence of length E over the configured alphabet (BFS, hist in the state)
   GSpecSim : random long sequences (-simulate), one printed per E calls (Flush)
   ChainMode: publishes are restricted to  n_i -> immutable | /ipns/n_{i+1}[/rest] | /ipns/n_1[/rest]
              so that long chains and cycles arise often (chains up to |Names| hops).          *)
EXTENDS Namesys
CONSTANTS D, E, ChainMode, Prefix,
          NB, MinB, PreC, PostC, SimMode   \* concurrent family (CSpec / CSpecSim), see below
VARIABLE hist
gvars == <<vars, hist>>

NameOrder == <<"n1", "n2", "n3", "n4", "n5", "n6">>
Pos(n) == CHOOSE i \in 1..Len(NameOrder) : NameOrder[i] = n
NextName(n) == IF Pos(n) < Len(NameOrder) /\ NameOrder[Pos(n) + 1] \in Names THEN NameOrder[Pos(n) + 1] ELSE n
ValsFor(n) == IF ~ChainMode THEN Vals
              ELSE {v \in Vals : v.ns = "ipfs" \/ v.root \in {NextName(n), NameOrder[1]}}

Busy == rs # Idle
GInit == Init /\ hist = <<>>
GInternal == /\ Busy /\ UNCHANGED hist
             /\ IF rs.pend # {} THEN \E e \in rs.pend : RFire(e)
                ELSE IF rs.st = "run" THEN RHop ELSE RFinish
GOp == /\ ~Busy /\ Len(hist) < D
       /\ \/ \E n \in Names, t \in TTLs, sq \in SeqOpts : \E v \in ValsFor(n) :
               /\ Publish(n, v, t, sq)
               /\ hist' = Append(hist, [op |-> "Publish", n |-> n, v |-> v, ttl |-> t, sq |-> sq])
          \/ \E q \in Req : RStart(q) /\ hist' = Append(hist, [op |-> "Resolve", q |-> q])
          \/ Tick /\ hist' = Append(hist, [op |-> "Tick"])
          \/ Restart /\ hist' = Append(hist, [op |-> "Restart"])
GNext == GInternal \/ GOp
GSpec == GInit /\ [][GNext]_gvars

Beh == [csize |-> csize, maxttl |-> maxttl, ops |-> hist]
Emit == (Len(hist) # E \/ Busy) \/ PrintT(<<"BEHAVIOUR", ToJson(Beh)>>)

Flush == /\ ~Busy /\ Len(hist) = E
         /\ PrintT(<<"BEHAVIOUR", ToJson(Beh)>>)
         /\ hist' = <<>> /\ routing' = [n \in Names |-> NoRec] /\ dsrec' = [n \in Names |-> NoRec]
         /\ cache' = <<>> /\ now' = 0 /\ csize' \in CacheSizes /\ maxttl' \in MaxTTLs
         /\ rs' = Idle /\ last' = [op |-> "Init"]
         /\ pubs' = [p \in Procs |-> NoCall] /\ lock' = [n \in Names |-> "none"] /\ loose' = {}
\* -simulate: TLC picks uniformly among successor STATES, which would drown Tick/Restart in the
\* thousands of Publish/Resolve parameterisations; so the call kind and its arguments are drawn
\* explicitly (RandomElement), explicit sequence numbers around the current one.
Pick(S) == {RandomElement(S)}
\* the first Prefix calls of a simulated behaviour build a chain n1 -> n2 -> ... (mostly to the next name)
GOpSim ==
  /\ ~Busy /\ Len(hist) < D
  /\ LET k == RandomElement(1..20) IN
     IF Len(hist) < Prefix /\ Len(hist) < Cardinality(Names) THEN
        LET n == NameOrder[Len(hist) + 1]
            nx == {v \in ValsFor(n) : v.ns = "ipns" /\ v.root = NextName(n)}
        IN \E t \in Pick(TTLs) : \E v \in Pick(IF k <= 16 /\ nx # {} THEN nx ELSE ValsFor(n)) :
             /\ Publish(n, v, t, -1)
             /\ hist' = Append(hist, [op |-> "Publish", n |-> n, v |-> v, ttl |-> t, sq |-> -1])
     ELSE IF k <= 8 THEN
        \E n \in Pick(Names), t \in Pick(TTLs) : \E v \in Pick(ValsFor(n)) :
        \E sq \in (IF RandomElement(1..3) = 1
                    THEN Pick({x \in SeqOpts : x >= 0 /\ x >= Prev(n).seq - 1 /\ x <= Prev(n).seq + 2} \cup {0})
                    ELSE {-1}) :
          /\ Publish(n, v, t, sq)
          /\ hist' = Append(hist, [op |-> "Publish", n |-> n, v |-> v, ttl |-> t, sq |-> sq])
     ELSE IF k <= 17 THEN
        \E q \in Pick(Req) : RStart(q) /\ hist' = Append(hist, [op |-> "Resolve", q |-> q])
     ELSE IF k <= 19 THEN
        IF now < MaxNow THEN Tick /\ hist' = Append(hist, [op |-> "Tick"])
        ELSE \E q \in Pick(Req) : RStart(q) /\ hist' = Append(hist, [op |-> "Resolve", q |-> q])
     ELSE Restart /\ hist' = Append(hist, [op |-> "Restart"])
GNextSim == IF ~Busy /\ Len(hist) = E THEN Flush ELSE (GInternal \/ GOpSim)
GSpecSim == GInit /\ [][GNextSim]_gvars

(* ---- concurrent family --------------------------------------------------------------------------
   A behaviour = up to PreC sequential publishes, then MinB..NB overlapping publish calls, then PostC
   sequential calls (publish / resolve).  The harness can start a call (PBegin) and hold it at two gates:
   before the datastore Put (released by PWrite) and before the value-store Put (released by PRoute);
   everything else a call does (enter the critical section and read, fail on a refused sequence
   number, return) happens by itself as soon as it can -- here: eagerly (CInternal).  So the ops are
   the CONTROL sequence; which interleaving the real code then shows is logged and judged by
   TraceNamesys.  CSpec: every control sequence (BFS);  CSpecSim: random ones (-simulate).          *)
ProcOrder == <<"p1", "p2", "p3">>
BegunIdx == {i \in 1..Len(hist) : hist[i].op = "PBegin"}
NBegun == Cardinality(BegunIdx)
NPost == Cardinality({i \in 1..Len(hist) : hist[i].op \in {"Publish", "Resolve"} /\ \E j \in BegunIdx : j < i})
ImmVals == {v \in Vals : v.ns = "ipfs"}
Sel(S) == IF SimMode THEN {RandomElement(S)} ELSE S
SqSel == IF ~SimMode THEN SeqOpts
         ELSE IF SeqExplicit # {} /\ RandomElement(1..3) = 1 THEN {RandomElement(SeqExplicit)} ELSE {-1}
CBusy == \E p \in Procs : \/ pubs[p].st = "begun" /\ lock[pubs[p].n] = "none"
                          \/ pubs[p].st = "read" /\ SeqRejected(pubs[p].prev, pubs[p].sq)
                          \/ pubs[p].st \in {"routed", "rejected"}
CInternal == /\ CBusy /\ UNCHANGED hist
             /\ \E p \in Procs : PRead(p) \/ PReject(p) \/ PEnd(p)
Ctl == (IF NBegun < NB /\ NPost = 0 THEN {[k |-> "B", p |-> ProcOrder[NBegun + 1]]} ELSE {})
       \cup {[k |-> "W", p |-> q] : q \in {r \in Procs : pubs[r].st = "read"}}
       \cup {[k |-> "R", p |-> q] : q \in {r \in Procs : pubs[r].st = "written"}}
       \cup (IF AllIdle /\ NBegun >= MinB /\ NPost < PostC THEN {[k |-> "S", p |-> ""]} ELSE {})
       \cup (IF NBegun = 0 /\ Len(hist) < PreC THEN {[k |-> "P", p |-> ""]} ELSE {})
CSeqPublish == \E n \in Sel(Names), t \in Sel(TTLs), sq \in SqSel : \E v \in Sel(ImmVals) :
                 /\ Publish(n, v, t, sq)
                 /\ hist' = Append(hist, [op |-> "Publish", n |-> n, v |-> v, ttl |-> t, sq |-> sq])
COp == /\ ~CBusy /\ ~Busy /\ Ctl # {}
       /\ \E c \in Sel(Ctl) :
            CASE c.k = "B" -> \E n \in Sel(Names), t \in Sel(TTLs), sq \in SqSel : \E v \in Sel(ImmVals) :
                                /\ PBegin(c.p, n, v, t, sq)
                                /\ hist' = Append(hist, [op |-> "PBegin", p |-> c.p, n |-> n, v |-> v, ttl |-> t, sq |-> sq])
              [] c.k = "W" -> PWrite(c.p) /\ hist' = Append(hist, [op |-> "PWrite", p |-> c.p])
              [] c.k = "R" -> /\ \E acc \in BOOLEAN : PRoute(c.p, acc)
                              /\ hist' = Append(hist, [op |-> "PRoute", p |-> c.p])
              [] c.k = "P" -> CSeqPublish
              [] c.k = "S" -> \/ CSeqPublish
                              \/ \E q \in Sel(Req) : RStart(q) /\ hist' = Append(hist, [op |-> "Resolve", q |-> q])
CDone == ~CBusy /\ ~Busy /\ AllIdle /\ NBegun >= MinB /\ NPost = PostC
CSpec == GInit /\ [][GInternal \/ CInternal \/ COp]_gvars
EmitC == ~CDone \/ PrintT(<<"BEHAVIOUR", ToJson(Beh)>>)
FlushC == /\ PrintT(<<"BEHAVIOUR", ToJson(Beh)>>)
          /\ hist' = <<>> /\ routing' = [n \in Names |-> NoRec] /\ dsrec' = [n \in Names |-> NoRec]
          /\ cache' = <<>> /\ now' = 0 /\ csize' \in CacheSizes /\ maxttl' \in MaxTTLs
          /\ rs' = Idle /\ last' = [op |-> "Init"]
          /\ pubs' = [p \in Procs |-> NoCall] /\ lock' = [n \in Names |-> "none"] /\ loose' = {}
CNextSim == IF CDone /\ (NBegun = NB \/ PostC > 0) THEN FlushC ELSE (GInternal \/ CInternal \/ COp)
CSpecSim == GInit /\ [][CNextSim]_gvars
=============================================================================
