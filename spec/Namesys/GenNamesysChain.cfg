SPECIFICATION GSpec
CONSTANTS Names = {"n1","n2"}
          Cids = {"A"}
          Forms = {"b36","b58"}
          RSeg = {"x"}
          LenRV = 0
          LenRR = 0
          TrR = {FALSE}
          TTLs = {0,2}
          SeqExplicit = {}
          CacheSizes = {0,1,2}
          MaxTTLCaps = {1}
          Depths = {1,2}
          MaxNow = 1
          MaxSeq = 9
          D = 3
          E = 3
          ChainMode = TRUE
          Prefix = 0
          NB = 0
          MinB = 0
          PreC = 0
          PostC = 0
          SimMode = FALSE
          Procs = {}
          Devs = {}
INVARIANTS Emit
