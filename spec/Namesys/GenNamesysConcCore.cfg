SPECIFICATION CSpec
CONSTANTS Names = {"n1"}
          Cids = {"A","B"}
          Forms = {"b36"}
          RSeg = {"x"}
          LenRV = 0
          LenRR = 0
          TrR = {FALSE}
          TTLs = {1}
          SeqExplicit = {}
          CacheSizes = {0}
          MaxTTLCaps = {}
          Depths = {1}
          MaxNow = 0
          MaxSeq = 9
          D = 0
          E = 0
          ChainMode = FALSE
          Prefix = 0
          NB = 2
          MinB = 2
          PreC = 1
          PostC = 1
          SimMode = FALSE
          Procs = {"p1","p2"}
          Devs = {}
INVARIANTS EmitC
