SPECIFICATION CSpecSim
CONSTANTS Names = {"n1","n2"}
          Cids = {"A","B","C"}
          Forms = {"b36","b58"}
          RSeg = {"x"}
          LenRV = 0
          LenRR = 0
          TrR = {FALSE}
          TTLs = {0,1,2}
          SeqExplicit = {0,1,2,3}
          CacheSizes = {0}
          MaxTTLCaps = {}
          Depths = {1}
          MaxNow = 0
          MaxSeq = 1000
          D = 0
          E = 0
          ChainMode = FALSE
          Prefix = 0
          NB = 3
          MinB = 2
          PreC = 2
          PostC = 2
          SimMode = TRUE
          Procs = {"p1","p2","p3"}
          Devs = {}
