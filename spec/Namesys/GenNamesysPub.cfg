SPECIFICATION GSpec
CONSTANTS Names = {"n1"}
          Cids = {"A","B"}
          Forms = {"b36"}
          RSeg = {"x"}
          LenRV = 0
          LenRR = 0
          TrR = {FALSE}
          TTLs = {0,1}
          SeqExplicit = {0,1,2}
          CacheSizes = {0,1}
          MaxTTLCaps = {0}
          Depths = {1}
          MaxNow = 1
          MaxSeq = 9
          D = 3
          E = 3
          ChainMode = FALSE
          Prefix = 0
          NB = 0
          MinB = 0
          PreC = 0
          PostC = 0
          SimMode = FALSE
          Procs = {}
          Devs = {}
INVARIANTS Emit
