SPECIFICATION GSpecSim
CONSTANTS Names = {"n1","n2","n3","n4","n5","n6"}
          Cids = {"A","B"}
          Forms = {"b36","b58","b32"}
          RSeg = {"x","y"}
          LenRV = 1
          LenRR = 2
          TrR = {FALSE,TRUE}
          TTLs = {0,1,2,3}
          SeqExplicit = {0,1,2,3,4,5,6}
          CacheSizes = {0,1,2,3}
          MaxTTLCaps = {0,1,2}
          Depths = {1,2,3,4,5,6}
          MaxNow = 1000
          MaxSeq = 1000
          D = 1000
          E = 18
          ChainMode = TRUE
          Prefix = 6
          NB = 0
          MinB = 0
          PreC = 0
          PostC = 0
          SimMode = FALSE
          Procs = {}
          Devs = {}

