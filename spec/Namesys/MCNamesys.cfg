SPECIFICATION Spec
CONSTANTS Names = {"n1", "n2"}
          Cids = {"A", "B"}
          Forms = {"b36", "b58"}
          RSeg = {"x"}
          LenRV = 0
          LenRR = 0
          TrR = {FALSE}
          TTLs = {0, 1, 2}
          SeqExplicit = {1, 2}
          CacheSizes = {0, 1, 2}
          MaxTTLCaps = {0, 1}
          Depths = {1, 2, 3}
          MaxNow = 2
          MaxSeq = 2
          Devs = {}
INVARIANTS ChainResult RecursionErrorIffTooLong ReadYourPublish MinNonZeroTTL CacheCoherent DsRoutingAgree
           ExplicitSeqMustIncrease PublishStores CacheBounded
PROPERTIES SeqMonotone SeqIncrementsOnChange SeqStepsByOne
