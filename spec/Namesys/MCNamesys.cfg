SPECIFICATION Spec
CONSTANTS Names = {"n1","n2"}
          Cids = {"A"}
          Forms = {"b36"}
          RSeg = {"x"}
          LenRV = 0
          LenRR = 0
          TrR = {FALSE}
          TTLs = {0,1}
          SeqExplicit = {1}
          CacheSizes = {0,1,2}
          MaxTTLCaps = {0}
          Depths = {1,2}
          MaxNow = 1
          MaxSeq = 1
          Procs = {}
          Devs = {}
INVARIANTS ChainResult RecursionErrorIffTooLong ReadYourPublish MinNonZeroTTL CacheCoherent DsRoutingAgree
           ExplicitSeqMustIncrease PublishStores CacheBounded
PROPERTIES SeqMonotone SeqIncrementsOnChange SeqStepsByOne
