SPECIFICATION Spec
CONSTANTS Names = {"n1","n2","n3"}
          Cids = {"A","B"}
          Forms = {"b36","b58"}
          RSeg = {"x"}
          LenRV = 1
          LenRR = 1
          TrR = {FALSE,TRUE}
          TTLs = {0,1,2}
          SeqExplicit = {0,1,2,3}
          CacheSizes = {0,1,2,3}
          MaxTTLCaps = {0,1,2}
          Depths = {1,2,3,4}
          MaxNow = 6
          MaxSeq = 6
          Procs = {}
          Devs = {}
INVARIANTS ChainResult RecursionErrorIffTooLong ReadYourPublish MinNonZeroTTL CacheCoherent DsRoutingAgree
           ExplicitSeqMustIncrease PublishStores CacheBounded
PROPERTIES SeqMonotone SeqIncrementsOnChange SeqStepsByOne
