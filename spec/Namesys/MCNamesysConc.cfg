SPECIFICATION Spec
CONSTANTS Names = {"n1"}
          Cids = {"A","B"}
          Forms = {}
          RSeg = {"x"}
          LenRV = 0
          LenRR = 0
          TrR = {FALSE}
          TTLs = {1}
          SeqExplicit = {1}
          CacheSizes = {0}
          MaxTTLCaps = {}
          Depths = {}
          MaxNow = 0
          MaxSeq = 2
          Procs = {"p1","p2"}
          Devs = {}
INVARIANTS DsRoutingAgree ExplicitSeqMustIncrease PublishStores LockDiscipline ReadIsCurrent ConcOutcome
PROPERTIES SeqMonotone SeqIncrementsOnChange SeqStepsByOne DsSeqMonotone DsSeqIncrementsOnChange DsSeqStepsByOne
