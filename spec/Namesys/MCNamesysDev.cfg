SPECIFICATION Spec
CONSTANTS Names = {"n1"}
          Cids = {"A","B"}
          Forms = {"b36"}
          RSeg = {"x"}
          LenRV = 0
          LenRR = 0
          TrR = {FALSE}
          TTLs = {1}
          SeqExplicit = {}
          CacheSizes = {2}
          MaxTTLCaps = {}
          Depths = {1}
          MaxNow = 0
          MaxSeq = 3
          Procs = {}
          Devs = {"Dev_C29_PublishCacheKey"}
INVARIANTS ReadYourPublish
