------------------------------- MODULE Namesys -------------------------------
(* C29 -- one name system (namesys.NewNameSystem) over a value store:
     publisher   : IPNSPublisher.updateRecord  (sequence selection from the datastore record, falling
                   back to the routing record) + PutIPNSRecord, then the publish-time cache fill of
                   namesys.Publish;
     resolver    : namesys.resolveOnceAsync (cache lookup, routing read, DEFERRED cache fill) driven by
                   utilities.resolveAsync (recursion over /ipns/ links, depth limit, min non-zero TTL);
     cache       : hashicorp LRU of size csize (sequence, oldest first) with entry TTL / EOL and the
                   optional max-cache-TTL cap.
   Grain: Publish, Tick, Restart are atomic (the harness is sequential).  A Resolve is a small
   process: RStart, then per hop one RHop (cache Get + routing read), and per cache miss one pending
   cache fill that the real code performs in a separate goroutine (when the one-shot result channel
   closes): it may land before or after the following hops (RFire), and when the call ends with the
   recursion error -- the only early return -- it may be lost to the context cancellation (RDrop).

   Paths are records  [ns, root, form, rest, tr]:  /ipfs/<cid>/rest  or  /ipns/<name in textual
   form>/rest, tr = trailing slash.  Time is a logical clock (unit = the harness' TTL unit).

   Concurrent publishes (Procs # {}): a publish call p is the small process
     PBegin  ->  PRead (take the publisher's critical section for the name, read the last record)
             ->  PWrite (choose the sequence number from THAT record, store to the datastore, leave
                 the critical section)  |  PReject (explicit sequence not greater: leave, fail)
             ->  PRoute (hand the record to the value store, outside the critical section: the
                 store keeps the better record, an overtaken record is refused and the call fails)
             ->  PEnd.
   Between PRead(p) and PWrite(p)/PReject(p) no other call reads or writes the name's last record
   (lock[n] = p): that is what makes SeqMonotone / SeqIncrementsOnChange hold for the records in
   the order the datastore and the value store see them (the DsSeq.. and Seq.. properties), ReadIsCurrent, and
   DsRoutingAgree once the calls have ended.  Calls of the sequential grain (Publish, RStart,
   Tick, Restart) happen only while no concurrent call is in flight; concurrent calls run with
   the resolver cache off (the order of the publish-time cache fills of overlapping calls is not
   part of the property).

   Known finding Dev_C29_PublishCacheKey (as built): Publish fills / invalidates the cache under the
   bare name ("k51..."), Resolve reads and fills "/ipns/<text as written>"; so a publish never
   reaches the entries a resolve uses, and a publish with TTL 0 does not drop the old entry. *)
EXTENDS Integers, Sequences, FiniteSets, TLC, Json

CONSTANTS Names,       \* IPNS names (keys)
          Cids,        \* immutable roots
          Forms,       \* textual forms of a name in a path: "b36" (canonical), "b58", "b32"
          RSeg, LenRV, LenRR,   \* remainder segments; max remainder length in published values / requests
          TrR,         \* trailing-slash choices in resolve requests (subset of BOOLEAN)
          TTLs,        \* record TTLs a publish may use
          SeqExplicit, \* explicit sequence numbers a publish may pass (besides "none" = -1)
          CacheSizes,  \* 0 = WithCache not given
          MaxTTLCaps,  \* WithMaxCacheTTL values: 0 = retention disabled, k = cap (besides "not given" = -1)
          Depths,      \* depth limits of resolve requests (>= 1)
          MaxNow, MaxSeq,
          Procs,       \* identifiers of concurrent publish calls ({} = sequential calls only)
          Devs         \* enabled known-finding deviations

Dev == "Dev_C29_PublishCacheKey" \in Devs
SeqOpts == {-1} \cup SeqExplicit
MaxTTLs == {-1} \cup MaxTTLCaps

(* ------------------------------------------------------------------ paths, records -- *)
NoPath == [ns |-> "", root |-> "", form |-> "", rest |-> <<>>, tr |-> FALSE]
Imm(c, r)     == [ns |-> "ipfs", root |-> c, form |-> "", rest |-> r, tr |-> FALSE]
Link(n, f, r) == [ns |-> "ipns", root |-> n, form |-> f, rest |-> r, tr |-> FALSE]
SeqsTo(S, n) == UNION {[1..k -> S] : k \in 0..n}
RestsV == SeqsTo(RSeg, LenRV)
RestsR == SeqsTo(RSeg, LenRR)
Vals == {Imm(c, r) : c \in Cids, r \in RestsV} \cup {Link(n, f, r) : n \in Names, f \in Forms, r \in RestsV}
Mutable(p) == p.ns = "ipns"
\* joinPaths: the unresolved remainder (and the request's trailing slash) goes behind the value
Join(base, rem, tr) == IF rem = <<>> /\ ~tr THEN base ELSE [base EXCEPT !.rest = @ \o rem, !.tr = tr]

NoRec == [has |-> FALSE, val |-> NoPath, seq |-> 0, ttl |-> 0]
Rec(v, s, t) == [has |-> TRUE, val |-> v, seq |-> s, ttl |-> t]

Min(a, b) == IF a < b THEN a ELSE b
MinNZ(a, b) == IF a <= 0 THEN (IF b <= 0 THEN 0 ELSE b) ELSE IF b <= 0 THEN a ELSE Min(a, b)

Req == [n : Names, f : Forms, rest : RestsR, tr : TrR, depth : Depths]
ReqPath(q) == [Link(q.n, q.f, q.rest) EXCEPT !.tr = q.tr]

VARIABLES routing,  \* [Names -> record]   the value store
          dsrec,    \* [Names -> record]   the publisher's own datastore
          cache,    \* sequence of [key, val, ttl, eol], least recently used first
          now,      \* logical clock
          csize, maxttl,   \* configuration (fixed per run)
          rs,       \* the resolve call in flight
          last,     \* the last completed call and its observable outcome
          pubs,     \* [Procs -> concurrent publish call]  st: idle | begun | read | written | routed | rejected
          lock,     \* [Names -> Procs \cup {"none"}]  who is inside the publisher's critical section of the name
          loose     \* names whose value-store record took part in an equal-sequence tie (TTL may differ from the datastore's)
cvars == <<pubs, lock, loose>>
vars == <<routing, dsrec, cache, now, csize, maxttl, rs, last, pubs, lock, loose>>

(* ------------------------------------------------------------------ cache ----------- *)
Key(n, f) == [n |-> n, f |-> f]
PubKey(n)    == IF Dev THEN Key(n, "bare") ELSE Key(n, "name")
ResKey(n, f) == IF Dev THEN Key(n, f)      ELSE Key(n, "name")

Idx(c, k)     == {i \in 1..Len(c) : c[i].key = k}
HasKey(c, k)  == Idx(c, k) # {}
EntryOf(c, k) == c[CHOOSE i \in Idx(c, k) : TRUE]
Without(c, k) == SelectSeq(c, LAMBDA e : e.key # k)
Touch(c, k)   == IF HasKey(c, k) THEN Append(Without(c, k), EntryOf(c, k)) ELSE c   \* lru.Get
Add(c, e)     == LET c1 == Append(Without(c, e.key), e)                             \* lru.Add
                 IN IF Len(c1) > csize THEN Tail(c1) ELSE c1
Hit(c, k)     == csize > 0 /\ HasKey(c, k) /\ EntryOf(c, k).eol > now
\* namesys.cacheSet: nothing for ttl <= 0; retention capped by the max cache TTL
CacheSet(c, k, v, ttl) ==
  IF csize = 0 \/ ttl <= 0 THEN c
  ELSE Add(c, [key |-> k, val |-> v, ttl |-> ttl,
               eol |-> now + (IF maxttl < 0 THEN ttl ELSE Min(ttl, maxttl))])
\* namesys.capTTL: a positive cap bounds the TTL reported for a fresh resolution
CapTTL(t) == IF maxttl > 0 /\ t > maxttl THEN maxttl ELSE t

(* ------------------------------------------------------------------ init ------------ *)
Idle == [st |-> "idle"]
NoCall == [st |-> "idle", n |-> "", v |-> NoPath, ttl |-> 0, sq |-> -1, prev |-> NoRec, rec |-> NoRec, ok |-> FALSE]
AllIdle == \A p \in Procs : pubs[p].st = "idle"
InFlight(n) == \E p \in Procs : pubs[p].st # "idle" /\ pubs[p].n = n
Init == /\ routing = [n \in Names |-> NoRec] /\ dsrec = [n \in Names |-> NoRec]
        /\ cache = <<>> /\ now = 0
        /\ csize \in CacheSizes /\ maxttl \in MaxTTLs
        /\ rs = Idle /\ last = [op |-> "Init"]
        /\ pubs = [p \in Procs |-> NoCall] /\ lock = [n \in Names |-> "none"] /\ loose = {}

(* ------------------------------------------------------------------ Publish --------- *)
\* updateRecord: previous record = own datastore, else the routing system
Prev(n) == IF dsrec[n].has THEN dsrec[n] ELSE routing[n]
SeqRejected(prev, sq) == sq >= 0 /\ (IF prev.has THEN sq <= prev.seq ELSE sq = 0)
SeqChosen(prev, v, sq) == IF sq >= 0 THEN sq
                          ELSE IF ~prev.has THEN 0
                          ELSE IF prev.val = v THEN prev.seq ELSE prev.seq + 1

Publish(n, v, ttl, sq) ==
  /\ rs = Idle /\ AllIdle
  /\ LET prev == Prev(n) IN
     IF SeqRejected(prev, sq)
     THEN /\ cache' = Without(cache, PubKey(n))            \* error path: cacheInvalidate
          /\ UNCHANGED <<routing, dsrec, loose>>
          /\ last' = [op |-> "Publish", n |-> n, v |-> v, sq |-> sq, ok |-> FALSE, pre |-> prev]
     ELSE LET s == SeqChosen(prev, v, sq) IN
          /\ s <= MaxSeq
          /\ dsrec' = [dsrec EXCEPT ![n] = Rec(v, s, ttl)]
          /\ routing' = [routing EXCEPT ![n] = Rec(v, s, ttl)]
          /\ loose' = loose \ {n}
          /\ cache' = IF ttl > 0 THEN CacheSet(cache, PubKey(n), v, ttl)
                      ELSE IF Dev THEN cache                \* as built: cacheSet(ttl<=0) is a no-op
                      ELSE Without(cache, PubKey(n))        \* nothing cacheable: drop the old entry
          /\ last' = [op |-> "Publish", n |-> n, v |-> v, sq |-> sq, ok |-> TRUE, pre |-> prev]
  /\ UNCHANGED <<now, csize, maxttl, rs, pubs, lock>>

(* ------------------------------------------------------------------ concurrent Publish *)
\* the call starts (namesys.Publish entered); nothing shared is touched yet
PBegin(p, n, v, ttl, sq) ==
  /\ rs = Idle /\ csize = 0 /\ pubs[p].st = "idle"
  /\ pubs' = [pubs EXCEPT ![p] = [NoCall EXCEPT !.st = "begun", !.n = n, !.v = v, !.ttl = ttl, !.sq = sq]]
  /\ last' = [op |-> "PBegin"]
  /\ UNCHANGED <<routing, dsrec, cache, now, csize, maxttl, rs, lock, loose>>
\* updateRecord, first half: enter the critical section and read the last published record
\* (Sanity_NoPublishLock, used by MCNamesysNoLock.cfg only: the model WITHOUT the critical section, to show
\*  that the sequence properties depend on it)
PRead(p) ==
  /\ pubs[p].st = "begun" /\ (lock[pubs[p].n] = "none" \/ "Sanity_NoPublishLock" \in Devs)
  /\ lock' = [lock EXCEPT ![pubs[p].n] = p]
  /\ pubs' = [pubs EXCEPT ![p].st = "read", ![p].prev = Prev(pubs[p].n)]
  /\ UNCHANGED <<routing, dsrec, cache, now, csize, maxttl, rs, last, loose>>
\* explicit sequence number not greater than the one read: fail without storing anything
PReject(p) ==
  /\ pubs[p].st = "read" /\ SeqRejected(pubs[p].prev, pubs[p].sq)
  /\ lock' = [lock EXCEPT ![pubs[p].n] = "none"]
  /\ pubs' = [pubs EXCEPT ![p].st = "rejected", ![p].ok = FALSE]
  /\ UNCHANGED <<routing, dsrec, cache, now, csize, maxttl, rs, last, loose>>
\* updateRecord, second half: sequence number from the record READ, store, leave the critical section
PWrite(p) ==
  /\ pubs[p].st = "read" /\ ~SeqRejected(pubs[p].prev, pubs[p].sq)
  /\ LET c == pubs[p]
         s == SeqChosen(c.prev, c.v, c.sq)
     IN /\ s <= MaxSeq
        /\ dsrec' = [dsrec EXCEPT ![c.n] = Rec(c.v, s, c.ttl)]
        /\ pubs' = [pubs EXCEPT ![p].st = "written", ![p].rec = Rec(c.v, s, c.ttl)]
        /\ lock' = [lock EXCEPT ![c.n] = "none"]
  /\ UNCHANGED <<routing, cache, now, csize, maxttl, rs, last, loose>>
\* PutIPNSRecord, outside the critical section.  The value store (environment) keeps the better
\* record: a higher sequence number is accepted, a lower one refused ("old record", the call fails);
\* equal numbers are decided by the records' validity (not modelled: either outcome, acc).
PRoute(p, acc) ==
  /\ pubs[p].st = "written"
  /\ LET c == pubs[p]
         cur == routing[c.n]
     IN /\ (~cur.has \/ c.rec.seq > cur.seq) => acc
        /\ (cur.has /\ c.rec.seq < cur.seq) => ~acc
        /\ routing' = IF acc THEN [routing EXCEPT ![c.n] = c.rec] ELSE routing
        /\ loose' = IF cur.has /\ c.rec.seq = cur.seq /\ c.rec # cur THEN loose \cup {c.n}
                     ELSE IF acc THEN loose \ {c.n} ELSE loose
        /\ pubs' = [pubs EXCEPT ![p].st = "routed", ![p].ok = acc]
  /\ UNCHANGED <<dsrec, cache, now, csize, maxttl, rs, last, lock>>
PEnd(p) ==
  /\ pubs[p].st \in {"routed", "rejected"}
  /\ pubs' = [pubs EXCEPT ![p] = NoCall]
  /\ last' = [op |-> "PEnd"]
  /\ UNCHANGED <<routing, dsrec, cache, now, csize, maxttl, rs, lock, loose>>

(* ------------------------------------------------------------------ Resolve --------- *)
NoRes == [err |-> "", path |-> NoPath, ttl |-> 0]
RStart(q) ==
  /\ rs = Idle /\ AllIdle
  /\ rs' = [st |-> "run", inp |-> q, p |-> ReqPath(q), depth |-> q.depth, ttl |-> 0, pend |-> {},
            hops |-> 0, first |-> NoPath, res |-> NoRes,
            ryp |-> IF last.op = "Publish" /\ last.ok /\ last.n = q.n THEN last.v ELSE NoPath]
  /\ UNCHANGED <<routing, dsrec, cache, now, csize, maxttl, last, pubs, lock, loose>>

\* after a hop produced value v with reported TTL t
Advance(v, t, pend) ==
  LET np  == Join(v, rs.p.rest, rs.p.tr)
      acc == MinNZ(rs.ttl, t)
      r1  == [rs EXCEPT !.pend = pend, !.hops = @ + 1, !.ttl = acc,
                        !.first = IF rs.hops = 0 THEN v ELSE @]
  IN rs' = IF ~Mutable(np)
           THEN [r1 EXCEPT !.st = "done", !.res = [err |-> "", path |-> np, ttl |-> acc]]
           ELSE IF rs.depth = 1
           THEN [r1 EXCEPT !.st = "done", !.res = [err |-> "recursion", path |-> np, ttl |-> acc]]
           ELSE [r1 EXCEPT !.p = np, !.depth = @ - 1]

RHop ==
  /\ rs.st = "run"
  /\ LET k == ResKey(rs.p.root, rs.p.form)
         r == routing[rs.p.root]
     IN /\ cache' = IF csize > 0 THEN Touch(cache, k) ELSE cache        \* cacheGet -> lru.Get
        /\ IF Hit(cache, k)
           THEN LET e == EntryOf(cache, k) IN Advance(e.val, Min(e.ttl, e.eol - now), rs.pend)
           ELSE IF ~r.has
           THEN rs' = [rs EXCEPT !.st = "done", !.res = [err |-> "notfound", path |-> NoPath, ttl |-> 0]]
           ELSE Advance(r.val, CapTTL(r.ttl),
                        rs.pend \cup (IF csize > 0 /\ r.ttl > 0
                                      THEN {[key |-> k, val |-> r.val, ttl |-> r.ttl]} ELSE {}))
  /\ UNCHANGED <<routing, dsrec, now, csize, maxttl, last, pubs, lock, loose>>

\* the deferred cache fill of an earlier hop lands
RFire(e) ==
  /\ rs.st \in {"run", "done"} /\ e \in rs.pend
  /\ cache' = CacheSet(cache, e.key, e.val, e.ttl)
  /\ rs' = [rs EXCEPT !.pend = @ \ {e}]
  /\ UNCHANGED <<routing, dsrec, now, csize, maxttl, last, pubs, lock, loose>>
\* ... or is cancelled: only after the early return with the recursion error
RDrop(e) ==
  /\ rs.st = "done" /\ rs.res.err = "recursion" /\ e \in rs.pend
  /\ rs' = [rs EXCEPT !.pend = @ \ {e}]
  /\ UNCHANGED <<routing, dsrec, cache, now, csize, maxttl, last, pubs, lock, loose>>
RFinish ==
  /\ rs.st = "done" /\ rs.pend = {}
  /\ last' = [op |-> "Resolve"]
  /\ rs' = Idle
  /\ UNCHANGED <<routing, dsrec, cache, now, csize, maxttl, pubs, lock, loose>>

(* ------------------------------------------------------------------ environment ----- *)
Tick == /\ rs = Idle /\ AllIdle /\ now < MaxNow /\ now' = now + 1 /\ last' = [op |-> "Tick"]
        /\ UNCHANGED <<routing, dsrec, cache, csize, maxttl, rs, pubs, lock, loose>>
\* a new name system (empty datastore, empty cache) over the same value store
Restart == /\ rs = Idle /\ AllIdle /\ dsrec' = [n \in Names |-> NoRec] /\ cache' = <<>> /\ last' = [op |-> "Restart"]
           /\ UNCHANGED <<routing, now, csize, maxttl, rs, pubs, lock, loose>>

Next == \/ \E n \in Names, v \in Vals, t \in TTLs, sq \in SeqOpts : Publish(n, v, t, sq)
        \/ \E q \in Req : RStart(q)
        \/ RHop \/ RFinish
        \/ \E e \in (IF rs.st = "idle" THEN {} ELSE rs.pend) : RFire(e) \/ RDrop(e)
        \/ Tick \/ Restart
        \/ \E p \in Procs : \/ \E n \in Names, v \in Vals, t \in TTLs, sq \in SeqOpts : PBegin(p, n, v, t, sq)
                             \/ PRead(p) \/ PReject(p) \/ PWrite(p) \/ PEnd(p)
                             \/ \E acc \in BOOLEAN : PRoute(p, acc)
Spec == Init /\ [][Next]_vars

(* ------------------------------------------------------------------ the property ---- *)
\* the result a resolve must have, from the value store alone (no cache): ChainResult
RECURSIVE Chain(_, _)
Chain(p, d) ==
  IF ~routing[p.root].has THEN [err |-> "notfound", path |-> NoPath]
  ELSE LET np == Join(routing[p.root].val, p.rest, p.tr) IN
       IF ~Mutable(np) THEN [err |-> "", path |-> np]
       ELSE IF d = 1 THEN [err |-> "recursion", path |-> np]
       ELSE Chain(np, d - 1)
\* following k links from p never leaves the mutable namespace (all k records exist)
RECURSIVE StillMutable(_, _)
StillMutable(p, k) ==
  IF k = 0 THEN Mutable(p)
  ELSE Mutable(p) /\ routing[p.root].has /\ StillMutable(Join(routing[p.root].val, p.rest, p.tr), k - 1)
\* record TTLs of the links followed
RECURSIVE ChainTTLs(_, _)
ChainTTLs(p, d) ==
  IF ~Mutable(p) \/ d = 0 \/ ~routing[p.root].has THEN {}
  ELSE {routing[p.root].ttl} \cup ChainTTLs(Join(routing[p.root].val, p.rest, p.tr), d - 1)
SetMin(S) == CHOOSE x \in S : \A y \in S : x <= y

Done == rs.st = "done"
ChainResult == Done => [err |-> rs.res.err, path |-> rs.res.path] = Chain(ReqPath(rs.inp), rs.inp.depth)
RecursionErrorIffTooLong ==
  Done => (rs.res.err = "recursion" <=> StillMutable(ReqPath(rs.inp), rs.inp.depth))
ReadYourPublish == rs.st # "idle" /\ rs.hops >= 1 /\ rs.ryp # NoPath => rs.first = rs.ryp
MinNonZeroTTL ==
  Done /\ rs.res.err # "notfound" =>
    LET nz == {t \in ChainTTLs(ReqPath(rs.inp), rs.inp.depth) : t > 0} IN
    /\ nz = {} => rs.res.ttl = 0
    /\ nz # {} => /\ 0 < rs.res.ttl /\ rs.res.ttl <= SetMin(nz)
                  /\ csize = 0 => rs.res.ttl = CapTTL(SetMin(nz))
                  /\ maxttl > 0 => rs.res.ttl <= maxttl
\* a live cache entry never disagrees with the value store (what makes the above hold with a cache)
CacheCoherent == \A i \in 1..Len(cache) :
                   cache[i].eol > now => LET r == routing[cache[i].key.n] IN
                                           r.has /\ r.val = cache[i].val /\ r.ttl = cache[i].ttl
\* the value store holds what the publisher stored last (once the publishes of the name have ended)
DsRoutingAgree == \A n \in Names : dsrec[n].has /\ ~InFlight(n) =>
                    /\ routing[n].has /\ routing[n].val = dsrec[n].val /\ routing[n].seq = dsrec[n].seq
                    /\ (n \in loose \/ routing[n].ttl = dsrec[n].ttl)
\* the critical section: its holder is the one call between PRead and PWrite/PReject, and the record
\* that call read is still the last published record of the name
LockDiscipline == \A n \in Names : \A p \in Procs : lock[n] = p <=> (pubs[p].st = "read" /\ pubs[p].n = n)
ReadIsCurrent == \A p \in Procs : pubs[p].st = "read" => pubs[p].prev = Prev(pubs[p].n)
\* a concurrent publish: what it stored is never newer than what the stores hold afterwards (nothing is
\* lost to an older record), an explicit sequence number is used as given and only if greater than the one read
ConcOutcome == \A p \in Procs :
                 LET c == pubs[p] IN
                 /\ c.st \in {"written", "routed"} =>
                      /\ dsrec[c.n].has /\ dsrec[c.n].seq >= c.rec.seq
                      /\ c.sq >= 0 => /\ c.rec.seq = c.sq
                                       /\ IF c.prev.has THEN c.sq > c.prev.seq ELSE c.sq >= 1
                 /\ c.st = "routed" => routing[c.n].has /\ routing[c.n].seq >= c.rec.seq
                 /\ c.st = "rejected" => c.sq >= 0 /\ (IF c.prev.has THEN c.sq <= c.prev.seq ELSE c.sq = 0)
ExplicitSeqMustIncrease ==
  last.op = "Publish" /\ last.sq >= 0 =>
    /\ last.ok <=> (IF last.pre.has THEN last.sq > last.pre.seq ELSE last.sq >= 1)
    /\ last.ok => routing[last.n].seq = last.sq
PublishStores == last.op = "Publish" /\ last.ok =>
                   /\ routing[last.n].has /\ routing[last.n].val = last.v
                   /\ dsrec[last.n] = routing[last.n]
CacheBounded == Len(cache) <= csize /\ \A i, j \in 1..Len(cache) : i # j => cache[i].key # cache[j].key

SeqMonotoneAct == \A n \in Names : routing[n].has => routing'[n].has /\ routing'[n].seq >= routing[n].seq
SeqIncrementsOnChangeAct == \A n \in Names : routing[n].has /\ routing'[n].val # routing[n].val =>
                              routing'[n].seq > routing[n].seq
\* without an explicit sequence the number moves by at most one, and stays when the value stays
SeqStepsByOneAct == \A n \in Names :
                      (last'.op = "Publish" /\ last'.n = n /\ last'.ok /\ last'.sq < 0 /\ routing[n].has) =>
                        routing'[n].seq = routing[n].seq + (IF routing'[n].val = routing[n].val THEN 0 ELSE 1)
\* the same for the records in the order the publisher's datastore sees them (Restart empties it)
DsSeqMonotoneAct == \A n \in Names : dsrec[n].has /\ dsrec'[n].has => dsrec'[n].seq >= dsrec[n].seq
DsSeqIncrementsOnChangeAct == \A n \in Names : dsrec[n].has /\ dsrec'[n].has /\ dsrec'[n].val # dsrec[n].val =>
                                dsrec'[n].seq > dsrec[n].seq
\* a concurrent publish without explicit sequence moves the datastore's number by at most one
DsSeqStepsByOneAct == \A p \in Procs :
                        (pubs[p].st = "read" /\ pubs'[p].st = "written" /\ pubs[p].sq < 0 /\ dsrec[pubs[p].n].has) =>
                          dsrec'[pubs[p].n].seq = dsrec[pubs[p].n].seq +
                                                   (IF dsrec'[pubs[p].n].val = dsrec[pubs[p].n].val THEN 0 ELSE 1)
DsSeqMonotone           == [][DsSeqMonotoneAct]_vars
DsSeqIncrementsOnChange == [][DsSeqIncrementsOnChangeAct]_vars
DsSeqStepsByOne         == [][DsSeqStepsByOneAct]_vars
SeqMonotone           == [][SeqMonotoneAct]_vars
SeqIncrementsOnChange == [][SeqIncrementsOnChangeAct]_vars
SeqStepsByOne         == [][SeqStepsByOneAct]_vars
=============================================================================
