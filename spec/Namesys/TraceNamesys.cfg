SPECIFICATION TSpec
CONSTANTS Names = {"n1", "n2", "n3", "n4", "n5", "n6"}
          Cids = {"A", "B", "C"}
          Forms = {"b36", "b58", "b32"}
          RSeg = {"x", "y"}
          LenRV = 0
          LenRR = 0
          TrR = {FALSE, TRUE}
          TTLs = {}
          SeqExplicit = {}
          CacheSizes = {}
          MaxTTLCaps = {}
          Depths = {}
          MaxNow = 1000000
          MaxSeq = 1000000
          Procs = {"p1", "p2", "p3"}
          Devs = @DEVS@
INVARIANTS TChainResult TRecursionIff TReadYourPublish TMinNonZeroTTL TCacheCoherent DsRoutingAgree
           ExplicitSeqMustIncrease PublishStores CacheBounded LockDiscipline ReadIsCurrent ConcOutcome DevReport
PROPERTIES TSeqMonotone TSeqIncrementsOnChange TSeqStepsByOne TDsSeqMonotone TDsSeqIncrementsOnChange TDsSeqStepsByOne
CONSTRAINT TraceConstraint
POSTCONDITION TracePost
CHECK_DEADLOCK FALSE
