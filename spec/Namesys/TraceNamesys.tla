---------------------------- MODULE TraceNamesys ----------------------------
(* Phase T: the log of the real name system (one event per call: Reset / Publish / Resolve / Tick /
   Restart, with results, the stored records and the resolver cache in LRU order) must be a
   behaviour of Namesys.  A Resolve event is matched by RStart (inputs taken from the event that is
   about to be consumed), any number of silent RHop / RFire / RDrop steps -- TLC searches the
   interleavings of the deferred cache fills -- and RFinish, which consumes the event and compares
   result and cache.  With Devs = {} the cache is compared per NAME (the ideal model has one entry
   per name); with Dev_C29_PublishCacheKey the as-built keys are compared literally.
   Concurrent publishes are logged at their linearization points by the harness' datastore / value
   store wrappers: PBegin (call started), PRead (datastore Get of the last record), PWrite
   (datastore Put), PRoute (value-store Put and its outcome), PEnd (call returned), PQuiet (all
   calls ended: both stores).  What is OBSERVABLE of a call's critical section are its store
   operations, so the log is matched against the behaviours of Namesys in which a call reads the last
   record and stores (or refuses) in adjacent steps: a PWrite event = PRead;PWrite of the model, i.e.
   the record put must be the one the sequence rule yields for the last record AT THE TIME OF THE PUT
   (a publisher that decided on a stale read puts a different record, or puts where it had to refuse);
   the refusal of an explicit sequence number has no store operation: PRead;PReject is a silent step
   somewhere between the call's PBegin and PEnd.  PRead events only confirm the datastore content.  *)
EXTENDS Namesys

Trace == ndJsonDeserialize("trace.ndjson")
VARIABLE l
tvars == <<vars, l>>
ASSUME TLCSet(1, 0)

Ev == Trace[l]
IsEvent(e) == l <= Len(Trace) /\ Trace[l].ev = e /\ l' = l + 1
Silent == l <= Len(Trace) /\ Trace[l].ev = "Resolve" /\ l' = l

\* the model cache as the harness logs it
CacheView(c, t) == [i \in 1..Len(c) |->
                   [n |-> c[i].key.n, f |-> IF Dev THEN c[i].key.f ELSE "name",
                    val |-> c[i].val, ttl |-> c[i].ttl, rem |-> c[i].eol - t]]
Logged(lc) == [i \in 1..Len(lc) |->
                 [n |-> lc[i].n, f |-> IF Dev THEN lc[i].f ELSE "name",
                  val |-> lc[i].val, ttl |-> lc[i].ttl, rem |-> lc[i].rem]]
CacheMatches(c, t, lc) == CacheView(c, t) = Logged(lc)

TInit == /\ l = 1 /\ routing = [n \in Names |-> NoRec] /\ dsrec = [n \in Names |-> NoRec]
         /\ cache = <<>> /\ now = 0 /\ csize = 0 /\ maxttl = -1 /\ rs = Idle /\ last = [op |-> "Init"]
         /\ pubs = [p \in Procs |-> NoCall] /\ lock = [n \in Names |-> "none"] /\ loose = {}

TReset == /\ IsEvent("Reset")
          /\ routing' = [n \in Names |-> NoRec] /\ dsrec' = [n \in Names |-> NoRec]
          /\ cache' = <<>> /\ now' = 0 /\ csize' = Ev.csize /\ maxttl' = Ev.maxttl
          /\ rs' = Idle /\ last' = [op |-> "Init"]
          /\ pubs' = [p \in Procs |-> NoCall] /\ lock' = [n \in Names |-> "none"] /\ loose' = {}
TPublish == /\ IsEvent("Publish") /\ Ev.quiet
            /\ Publish(Ev.n, Ev.v, Ev.ttl, Ev.sq)
            /\ last'.ok = Ev.ok
            /\ (Ev.ok \/ Ev.err = "seq")
            /\ routing' = Ev.rt /\ dsrec' = Ev.ds
            /\ CacheMatches(cache', now', Ev.cache)
TRStart == /\ Silent /\ RStart(Trace[l].q)
TRHop   == /\ Silent /\ RHop
TRFire  == /\ Silent /\ \E e \in (IF rs.st = "idle" THEN {} ELSE rs.pend) : RFire(e)
TRDrop  == /\ Silent /\ \E e \in (IF rs.st = "idle" THEN {} ELSE rs.pend) : RDrop(e)
TRFinish == /\ IsEvent("Resolve") /\ Ev.quiet
            /\ rs.st = "done" /\ rs.inp = Ev.q
            /\ rs.res = Ev.res
            /\ CacheMatches(cache, now, Ev.cache)
            /\ RFinish
TTick == /\ IsEvent("Tick") /\ Tick /\ CacheMatches(cache', now', Ev.cache)
TRestart == /\ IsEvent("Restart") /\ Restart

\* PRead(p) immediately followed by PWrite(p) / PReject(p): two steps of Namesys seen as one
PReadWrite(p) ==
  /\ pubs[p].st = "begun" /\ lock[pubs[p].n] = "none"
  /\ LET c == pubs[p]
         prev == Prev(c.n)
         s == SeqChosen(prev, c.v, c.sq)
     IN /\ ~SeqRejected(prev, c.sq) /\ s <= MaxSeq
        /\ dsrec' = [dsrec EXCEPT ![c.n] = Rec(c.v, s, c.ttl)]
        /\ pubs' = [pubs EXCEPT ![p].st = "written", ![p].prev = prev, ![p].rec = Rec(c.v, s, c.ttl)]
  /\ UNCHANGED <<routing, cache, now, csize, maxttl, rs, last, lock, loose>>
PReadReject(p) ==
  /\ pubs[p].st = "begun" /\ lock[pubs[p].n] = "none"
  /\ SeqRejected(Prev(pubs[p].n), pubs[p].sq)
  /\ pubs' = [pubs EXCEPT ![p].st = "rejected", ![p].prev = Prev(pubs[p].n), ![p].ok = FALSE]
  /\ UNCHANGED <<routing, dsrec, cache, now, csize, maxttl, rs, last, lock, loose>>

TPBegin == /\ IsEvent("PBegin") /\ Ev.p \in Procs /\ PBegin(Ev.p, Ev.n, Ev.v, Ev.ttl, Ev.sq)
TPRead  == /\ IsEvent("PRead") /\ Ev.p \in Procs /\ pubs[Ev.p].n = Ev.n
           /\ Ev.got = dsrec[Ev.n]
           /\ UNCHANGED vars
TPReject == /\ l <= Len(Trace) /\ l' = l /\ \E p \in Procs : PReadReject(p)
TPWrite == /\ IsEvent("PWrite") /\ Ev.p \in Procs /\ pubs[Ev.p].n = Ev.n
           /\ PReadWrite(Ev.p)
           /\ dsrec'[Ev.n] = Ev.rec
TPRoute == /\ IsEvent("PRoute") /\ Ev.p \in Procs /\ pubs[Ev.p].n = Ev.n
           /\ Ev.err \in {"", "old"} /\ Ev.acc = (Ev.err = "")
           /\ pubs[Ev.p].rec = Ev.rec
           /\ PRoute(Ev.p, Ev.acc)
           /\ routing'[Ev.n] = Ev.rt
TPEnd   == /\ IsEvent("PEnd") /\ Ev.p \in Procs
           /\ pubs[Ev.p].ok = Ev.ok
           /\ Ev.err = (IF Ev.ok THEN "" ELSE IF pubs[Ev.p].st = "rejected" THEN "seq" ELSE "old")
           /\ PEnd(Ev.p)
TPQuiet == /\ IsEvent("PQuiet") /\ Ev.quiet /\ AllIdle
           /\ routing = Ev.rt /\ dsrec = Ev.ds
           /\ UNCHANGED vars

TNext == TReset \/ TPublish \/ TRStart \/ TRHop \/ TRFire \/ TRDrop \/ TRFinish \/ TTick \/ TRestart
         \/ TPBegin \/ TPRead \/ TPReject \/ TPWrite \/ TPRoute \/ TPEnd \/ TPQuiet
TSpec == TInit /\ [][TNext]_tvars

\* the module's properties, as they apply to a log: a Reset starts a new run (new value store); the
\* read-side invariants describe the ideal model only (with the deviation enabled they are, by
\* definition of the finding, not expected to hold).
IsReset == l <= Len(Trace) /\ Trace[l].ev = "Reset"
TSeqMonotone           == [][IsReset \/ SeqMonotoneAct]_tvars
TSeqIncrementsOnChange == [][IsReset \/ SeqIncrementsOnChangeAct]_tvars
TSeqStepsByOne         == [][IsReset \/ SeqStepsByOneAct]_tvars
TDsSeqMonotone           == [][IsReset \/ DsSeqMonotoneAct]_tvars
TDsSeqIncrementsOnChange == [][IsReset \/ DsSeqIncrementsOnChangeAct]_tvars
TDsSeqStepsByOne         == [][IsReset \/ DsSeqStepsByOneAct]_tvars
TChainResult     == Dev \/ ChainResult
TRecursionIff    == Dev \/ RecursionErrorIffTooLong
TReadYourPublish == Dev \/ ReadYourPublish
TMinNonZeroTTL   == Dev \/ MinNonZeroTTL
TCacheCoherent   == Dev \/ CacheCoherent

TraceConstraint == TLCSet(1, IF l - 1 > TLCGet(1) THEN l - 1 ELSE TLCGet(1))
TracePost == PrintT(<<"TRACE_HWM", TLCGet(1)>>)
DevReport == l <= Len(Trace) \/ \A d \in Devs : PrintT(<<"DEV_USED", d>>)
=============================================================================
