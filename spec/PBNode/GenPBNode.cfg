SPECIFICATION GSpec
CONSTANTS Targets = {1, 2}
          Tsizes = {0}
          DataVals = {"nil", "empty", "x"}
          Builders = {"v0", "v1"}
          MaxLinks = 3
          NNames = 2
          Lean = 1
          D = 3
          E = 3
INVARIANTS Emit
