------------------------------ MODULE GenPBNode ------------------------------
(* Phase G generator for C11.  Two instances of PBNode are driven in lockstep by the same call
   descriptors:  I = the ideal specification (Devs = {}), A = the specification with the as-built
   behaviour of the open finding(s) enabled.  Every step of a behaviour carries
     a    the call (descriptor of PBNode!Acts)
     out  the result the IDEAL spec dictates
     st   the cache-free content after the step: stable-sorted links, data token, effective builder
          (the harness derives Enc/Cid expectations from it and checks what Cid()/RawData()/Links()
          would return now on a clone of the real node)
     alt  <<>> or <<[out, cv, b]>>: the as-built result / CID view / effective builder where they
          differ from the ideal ones -- the harness reports the named deviation only for exactly
          this alternative. *)
EXTENDS Naturals, Sequences, FiniteSets, TLC, Json
CONSTANTS Targets, Tsizes, DataVals, Builders, MaxLinks,
          NNames,   \* how many of <<"", "a", "b">> are used
          Lean,     \* 0 / 1 / 2: how much the call alphabet is reduced (deeper exhaustive enumeration)
          D, E      \* BFS: D = E = depth (script mode: D = bound on the script length)
VARIABLES links, dirty, data, builder, encCache, cidCache, ins, out,
          alinks, adirty, adata, abuilder, aencCache, acidCache, ains, aout,
          hist
ivars == <<links, dirty, data, builder, encCache, cidCache, ins, out>>
avars == <<alinks, adirty, adata, abuilder, aencCache, acidCache, ains, aout>>

GNameOrder == SubSeq(<<"", "a", "b">>, 1, NNames)
T1 == CHOOSE t \in Targets : \A u \in Targets : t <= u
T2 == CHOOSE t \in Targets : \A u \in Targets : t >= u
S1 == CHOOSE s \in Tsizes : \A u \in Tsizes : s <= u
S2 == CHOOSE s \in Tsizes : \A u \in Tsizes : s >= u
NLast == GNameOrder[NNames]
\* SetLinks arguments: empty, an unsorted list with a duplicate name, a sorted pair
GSetLinksArgs == {<<>>,
                  <<<<NLast, T1, S2>>, <<GNameOrder[1], T2, S1>>, <<NLast, T2, S1>>>>,
                  <<<<GNameOrder[1], T1, S1>>, <<NLast, T1, S1>>>>}

I == INSTANCE PBNode WITH NameOrder <- GNameOrder, SetLinksArgs <- GSetLinksArgs, Devs <- {}
A == INSTANCE PBNode WITH NameOrder <- GNameOrder, SetLinksArgs <- GSetLinksArgs,
                          Devs <- {"Dev_C11_NilBuilderKeepsCid"},
                          links <- alinks, dirty <- adirty, data <- adata, builder <- abuilder,
                          encCache <- aencCache, cidCache <- acidCache, ins <- ains, out <- aout

\* Lean = 0: every call of PBNode!Acts; 1: reduced alphabet; 2: further reduced (deepest enumeration)
LeanOps == IF Lean = 1 THEN {"Add", "Remove", "SetLinks", "SetData", "SetBuilder", "Links", "Raw", "Force", "Cid", "Copy", "Decode", "DecodeBlock"}
           ELSE {"Add", "Remove", "SetLinks", "SetData", "SetBuilder", "Links", "Raw", "Cid", "Copy", "DecodeBlock"}
Keep(a) == Lean = 0 \/ /\ a.op \in LeanOps
                       /\ a.op = "SetData" => a.d # "empty"
                       /\ a.op = "SetBuilder" => a.b \in {"nil", "v1"}
                       /\ a.op = "SetLinks" => Len(a.ls) # 2
GActs == {a \in I!Acts : Keep(a)}

InitData == {"nil"}                                   \* BFS starts from &ProtoNode{}
\* hist[1] is the synthetic constructor step (NodeWithData(d) / &ProtoNode{})
NewStep(d) == [a |-> [op |-> "New", d |-> d], out |-> I!Res("New", "", 0),
               st |-> [l |-> <<>>, d |-> d, b |-> "v0"], alt |-> <<>>]
GInit == /\ I!Init /\ A!Init /\ adata = data /\ data \in InitData /\ hist = <<NewStep(data)>>

Alt == IF aout' = out' /\ A!CidView' = I!IdealCid' /\ abuilder' = builder' THEN <<>>
       ELSE <<[out |-> aout', cv |-> A!CidView', b |-> A!Eff(abuilder')]>>
Step(a) == hist' = Append(hist, [a |-> a, out |-> out',
                                 st |-> [l |-> I!IdealLinks', d |-> data', b |-> I!Eff(builder')],
                                 alt |-> Alt])

GNext == /\ Len(hist) < D + 1
         /\ \E a \in GActs : I!Do(a) /\ A!Do(a) /\ Step(a)
GSpec == GInit /\ [][GNext]_<<ivars, avars, hist>>

Emit == Len(hist) # E + 1 \/ PrintT(<<"BEHAVIOUR", ToJson(hist)>>)

=============================================================================
