SPECIFICATION GSpec
CONSTANTS Targets = {1}
          Tsizes = {0}
          DataVals = {"nil", "empty", "x"}
          Builders = {"v0", "v1"}
          MaxLinks = 4
          NNames = 2
          Lean = 2
          D = 4
          E = 4
INVARIANTS Emit
