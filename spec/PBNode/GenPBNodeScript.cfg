SPECIFICATION SSpec
CONSTANTS Targets = {1, 2}
          Tsizes = {0, 1, 2, 3, 4, 5, 6, 7}
          DataVals = {"nil", "empty", "x", "y"}
          Builders = {"v0", "v1", "v1b", "v1s"}
          MaxLinks = 16
          NNames = 3
          Lean = 0
          D = 1000
          E = 1000
