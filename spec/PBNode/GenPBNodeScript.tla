--------------------------- MODULE GenPBNodeScript ---------------------------
(* Phase G, long behaviours: the CALL SEQUENCES are drawn at random by the check driver (seeded,
   script.ndjson: one {"d": initial data token, "acts": [call descriptors]} per line); TLC runs both
   PBNode instances through each script and prints the behaviour with the results the specification
   dictates.  (TLC -simulate enumerates all ~100 successors of both instances at every step, which
   costs seconds per behaviour for 16 links; a scripted run has exactly one successor per step.)
   A call whose guard is false (AddRawLink beyond MaxLinks) is skipped. *)
EXTENDS GenPBNode
Script == ndJsonDeserialize("script.ndjson")
VARIABLES run, pc
svars == <<ivars, avars, hist, run, pc>>

Fresh(d) == /\ links' = <<>> /\ dirty' = FALSE /\ data' = d /\ builder' = "unset"
            /\ encCache' = <<>> /\ cidCache' = <<>> /\ ins' = <<>> /\ out' = I!Res("New", "", 0)
            /\ alinks' = <<>> /\ adirty' = FALSE /\ adata' = d /\ abuilder' = "unset"
            /\ aencCache' = <<>> /\ acidCache' = <<>> /\ ains' = <<>> /\ aout' = I!Res("New", "", 0)
            /\ hist' = <<NewStep(d)>>

SInit == /\ I!Init /\ A!Init /\ data = Script[1].d /\ adata = data
         /\ hist = <<NewStep(data)>> /\ run = 1 /\ pc = 1

Blocked(a) == a.op = "Add" /\ Len(links) >= MaxLinks
SNext == /\ run <= Len(Script)
         /\ IF pc > Len(Script[run].acts)
            THEN /\ PrintT(<<"BEHAVIOUR", ToJson(hist)>>)
                 /\ run' = run + 1 /\ pc' = 1
                 /\ Fresh(IF run < Len(Script) THEN Script[run + 1].d ELSE "nil")
            ELSE LET a == Script[run].acts[pc] IN
                 /\ pc' = pc + 1 /\ run' = run
                 /\ IF Blocked(a) THEN UNCHANGED <<ivars, avars, hist>>
                    ELSE I!Do(a) /\ A!Do(a) /\ Step(a)
SSpec == SInit /\ [][SNext]_svars
=============================================================================
