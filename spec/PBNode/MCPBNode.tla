------------------------------ MODULE MCPBNode ------------------------------
(* Phase M: full reachability of the ProtoNode cache model over a small alphabet.
   `out` (the result of the last call) is left out of the VIEW; what was observed is checked on
   every transition by the action property ObservedProp instead of a state invariant. *)
EXTENDS PBNode
CONSTANTS MaxSet, NNames
AllNames == <<"", "a", "b">>
MCNameOrder == SubSeq(AllNames, 1, NNames)
\* SetLinks arguments: every link sequence of length <= MaxSet
MCSetLinksArgs == UNION {[1..k -> Link] : k \in 0..MaxSet}
MCView == <<links, dirty, data, builder, encCache, cidCache, ins>>
ObservedProp == [][ObservedFresh']_vars
=============================================================================
