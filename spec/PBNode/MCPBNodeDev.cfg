SPECIFICATION Spec
CONSTANTS NameOrder <- MCNameOrder
          Targets = {1, 2}
          Tsizes = {0}
          DataVals = {"nil", "empty", "x"}
          Builders = {"v0", "v1"}
          MaxLinks = 3
          MaxSet = 2
          SetLinksArgs <- MCSetLinksArgs
          Devs = {"Dev_C11_NilBuilderKeepsCid"}
INVARIANTS TypeOK CidFresh RawFresh LinksFresh ObservedFresh StableOrder OrderIndependent DecodeRoundTrip CacheCoherent
PROPERTIES ReplaceProp
