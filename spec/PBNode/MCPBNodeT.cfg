SPECIFICATION Spec
CONSTANTS NameOrder <- MCNameOrder
          NNames = 2
          Targets = {1, 2}
          Tsizes = {0}
          DataVals = {"nil", "empty", "x"}
          Builders = {"v0", "v1"}
          MaxLinks = 3
          MaxSet = 1
          SetLinksArgs <- MCSetLinksArgs
          Devs = {}
VIEW MCView
INVARIANTS TypeOK CidFresh RawFresh LinksFresh StableOrder OrderIndependent DecodeRoundTrip CacheCoherent
PROPERTIES ReplaceProp ObservedProp
