-------------------------------- MODULE PBNode --------------------------------
(* C11 -- the mutable dag-pb ProtoNode of ipld/merkledag/node.go + coding.go:
   a list of links, opaque data, a CID builder, and TWO caches (the encoded form and the CID)
   that every mutator has to invalidate.

   The model keeps the caches exactly as the code has them (encCache = n.encoded,
   cidCache = n.cached, dirty = n.linksDirty, links = n.links in their CURRENT physical
   order) with one action per public method.  The property is stated against a cache-free
   definition:  the ghost variable `ins` is the list of links in pure insertion order
   (never sorted), and
        IdealEnc == Enc(BucketSort(ins), data)       IdealCid == Hash(Eff(builder), IdealEnc)
   where BucketSort is a declarative stable sort (concatenate, in name order, the
   sub-sequences of equal names), while the code's in-place sort is modelled operationally
   (stable sort by position counting, SortLinks).

   A link is a tuple <<name, target, tsizeClass>>.  Data tokens: "nil" (no Data field),
   "empty" (Data field present, zero length), anything else = non-empty bytes.
   Enc is abstract and injective (a record); Hash is abstract and injective (a record):
   the harness maps Enc to bytes with an independent dag-pb wire encoder and Hash to
   builder.Sum.                                                                           *)
EXTENDS Naturals, Sequences, FiniteSets, TLC

CONSTANTS NameOrder,  \* sequence of the link names in strictly increasing bytewise order, e.g. <<"", "a", "b">>
          Targets,    \* link target ids
          Tsizes,     \* Tsize class ids (all <= MaxInt64; the too-large class is the AddBad action)
          DataVals,   \* data tokens ("nil", "empty", ...)
          Builders,   \* usable builder tokens; "v0" is the default
          MaxLinks,   \* bound on Len(links)
          SetLinksArgs, \* set of link sequences offered to SetLinks
          Devs        \* enabled named deviations (as-built behaviour of open findings)

VARIABLES links, dirty, data, builder, encCache, cidCache,   \* the ProtoNode fields
          ins,                                               \* ghost: links in insertion order
          out                                                \* observable result of the last call
vars == <<links, dirty, data, builder, encCache, cidCache, ins, out>>

Names == {NameOrder[i] : i \in 1..Len(NameOrder)}
Link  == Names \X Targets \X Tsizes
Rank(n) == CHOOSE i \in 1..Len(NameOrder) : NameOrder[i] = n
NameOf(l) == l[1]

Enc(ls, d)  == [links |-> ls, data |-> d]
Hash(b, e)  == [b |-> b, e |-> e]
Eff(b)      == IF b = "unset" THEN "v0" ELSE b          \* CidBuilder(): nil field means v0

(* ---- sorting ------------------------------------------------------------------------ *)
\* as-built: slices.SortStableFunc by strings.Compare(name).  Written as the position every element
\* ends up at under a stable sort (number of elements that must precede it), not recursively:
\* TLC re-evaluates lazily passed sequence arguments of recursive operators (exponential cost).
SortLinks(s) == LET n   == Len(s)                             \* (functions are built once, eagerly)
                    rk  == [i \in 1..n |-> Rank(NameOf(s[i]))]
                    pos == [i \in 1..n |-> Cardinality({j \in 1..n : rk[j] < rk[i] \/ (rk[j] = rk[i] /\ j < i)}) + 1]
                    inv == [k \in 1..n |-> CHOOSE i \in 1..n : pos[i] = k]
                IN  [k \in 1..n |-> s[inv[k]]]

\* property side: declarative
ByName(s, n) == SelectSeq(s, LAMBDA l : NameOf(l) = n)
RECURSIVE Buckets(_, _)
Buckets(s, i) == IF i > Len(NameOrder) THEN <<>> ELSE ByName(s, NameOrder[i]) \o Buckets(s, i + 1)
BucketSort(s) == Buckets(s, 1)
IsSorted(s) == \A i \in 1..(Len(s) - 1) : Rank(NameOf(s[i])) <= Rank(NameOf(s[i + 1]))
IsStableSortOf(s, orig) == /\ IsSorted(s) /\ Len(s) = Len(orig)
                           /\ \A n \in Names : ByName(s, n) = ByName(orig, n)
DistinctNames(s) == \A i, j \in 1..Len(s) : i # j => NameOf(s[i]) # NameOf(s[j])
Perms(s) == {[i \in 1..Len(s) |-> s[p[i]]] : p \in {q \in [1..Len(s) -> 1..Len(s)] : \A i, j \in 1..Len(s) : i # j => q[i] # q[j]}}

(* ---- what a reader would get NOW (no side effect) ----------------------------------- *)
NeedEnc   == encCache = <<>> \/ dirty
LinksView == IF dirty THEN SortLinks(links) ELSE links
EncView   == IF NeedEnc THEN Enc(LinksView, data) ELSE encCache[1]
CidView   == IF NeedEnc \/ cidCache = <<>> THEN Hash(Eff(builder), EncView) ELSE cidCache[1]

(* ---- the cache-free definition ------------------------------------------------------ *)
IdealLinks == BucketSort(ins)
IdealEnc   == Enc(IdealLinks, data)
IdealCid   == Hash(Eff(builder), IdealEnc)

Res(op, err, v) == [op |-> op, err |-> err, v |-> v]

Init == /\ links = <<>> /\ dirty = FALSE /\ data \in DataVals /\ builder = "unset"
        /\ encCache = <<>> /\ cidCache = <<>> /\ ins = <<>>
        /\ out = Res("New", "", 0)                     \* NodeWithData(d) / &ProtoNode{}

(* ---- mutators ----------------------------------------------------------------------- *)
AddRawLink(l) ==                       \* also AddNodeLink (MakeLink + AddRawLink)
    /\ Len(links) < MaxLinks
    /\ links' = Append(links, l) /\ dirty' = TRUE /\ encCache' = <<>>
    /\ ins' = Append(ins, l)
    /\ out' = Res("Add", "", 0)
    /\ UNCHANGED <<data, builder, cidCache>>

AddBad(why) ==                         \* checkLink fails: undefined CID / Tsize > MaxInt64
    /\ out' = Res("AddBad", why, 0)
    /\ UNCHANGED <<links, dirty, data, builder, encCache, cidCache, ins>>

RemoveNodeLink(n) ==
    IF \E i \in 1..Len(links) : NameOf(links[i]) = n
    THEN /\ links' = SelectSeq(links, LAMBDA l : NameOf(l) # n)
         /\ ins' = SelectSeq(ins, LAMBDA l : NameOf(l) # n)
         /\ dirty' = TRUE /\ encCache' = <<>>
         /\ out' = Res("Remove", "", 0)
         /\ UNCHANGED <<data, builder, cidCache>>
    ELSE /\ out' = Res("Remove", "notfound", 0)
         /\ UNCHANGED <<links, dirty, data, builder, encCache, cidCache, ins>>

SetLinks(ls) ==
    /\ links' = ls /\ ins' = ls /\ dirty' = TRUE /\ encCache' = <<>>
    /\ out' = Res("SetLinks", "", 0)
    /\ UNCHANGED <<data, builder, cidCache>>

SetData(d) ==
    /\ data' = d /\ encCache' = <<>> /\ cidCache' = <<>>
    /\ out' = Res("SetData", "", 0)
    /\ UNCHANGED <<links, dirty, builder, ins>>

\* b \in Builders \cup {"nil", "bad"}.  "nil" resets to the default builder.
\* IDEAL: every successful call drops the cached CID.
\* Dev_C11_NilBuilderKeepsCid (as built): the nil branch returns before `n.cached = cid.Undef`.
SetCidBuilder(b) ==
    CASE b = "bad" -> /\ out' = Res("SetBuilder", "bad", 0)
                      /\ UNCHANGED <<links, dirty, data, builder, encCache, cidCache, ins>>
      [] b = "nil" -> /\ builder' = "v0"
                      /\ cidCache' = IF "Dev_C11_NilBuilderKeepsCid" \in Devs THEN cidCache ELSE <<>>
                      /\ out' = Res("SetBuilder", "", 0)
                      /\ UNCHANGED <<links, dirty, data, encCache, ins>>
      [] OTHER     -> /\ builder' = b /\ cidCache' = <<>>
                      /\ out' = Res("SetBuilder", "", 0)
                      /\ UNCHANGED <<links, dirty, data, encCache, ins>>

(* ---- readers (they DO have side effects on the caches) ------------------------------ *)
\* Links() / Tree("") / MarshalJSON(): sort if dirty, clear dirty, drop the encoded cache
LinksRead(op) ==
    /\ links' = LinksView /\ dirty' = FALSE
    /\ encCache' = IF dirty THEN <<>> ELSE encCache
    /\ out' = Res(op, "", LinksView)
    /\ UNCHANGED <<data, builder, cidCache, ins>>

DataRead == out' = Res("Data", "", data) /\ UNCHANGED <<links, dirty, data, builder, encCache, cidCache, ins>>

CidBuilderRead ==                      \* CidBuilder(): materialises the default
    /\ builder' = Eff(builder) /\ out' = Res("CidBuilder", "", Eff(builder))
    /\ UNCHANGED <<links, dirty, data, encCache, cidCache, ins>>

\* EncodeProtobuf(force): re-encode iff no cache / dirty / force (dropping the CID cache),
\* then (re)compute the CID if it is not cached.
EncodeEffect(force) ==
    LET re == encCache = <<>> \/ dirty \/ force
        ls == IF re THEN LinksView ELSE links
        e  == IF re THEN Enc(ls, data) ELSE encCache[1]
        rc == re \/ cidCache = <<>>
        c  == IF rc THEN Hash(Eff(builder), e) ELSE cidCache[1]
    IN /\ links' = ls /\ dirty' = FALSE
       /\ encCache' = <<e>> /\ cidCache' = <<c>>
       /\ builder' = IF rc THEN Eff(builder) ELSE builder
       /\ UNCHANGED <<data, ins>>

RawData     == EncodeEffect(FALSE) /\ out' = Res("Raw", "", encCache'[1])
EncodeForce == EncodeEffect(TRUE)  /\ out' = Res("Force", "", encCache'[1])
CidRead     == EncodeEffect(FALSE) /\ out' = Res("Cid", "", cidCache'[1])

(* ---- node-replacing operations (the node under test becomes the result) ------------- *)
\* Copy(): data copied only if len > 0 (an empty non-nil slice becomes nil -- as built, see notes),
\* links copied and sorted, builder field copied, no caches.
Copy ==
    /\ links' = SortLinks(links) /\ dirty' = FALSE
    /\ data' = IF data = "empty" THEN "nil" ELSE data
    /\ encCache' = <<>> /\ cidCache' = <<>>
    /\ out' = Res("Copy", "", 0)
    /\ UNCHANGED <<builder, ins>>

\* DecodeProtobuf(n.RawData()): links in serialized order, encoded = the bytes, no CID, no builder
Decode ==
    /\ links' = EncView.links /\ dirty' = FALSE /\ data' = EncView.data
    /\ encCache' = <<EncView>> /\ cidCache' = <<>> /\ builder' = "unset"
    /\ out' = Res("Decode", "", 0)
    /\ UNCHANGED ins

\* DecodeProtobufBlock(block(n.RawData(), n.Cid())): as Decode, cached = the block's CID, builder = its prefix
DecodeBlock ==
    /\ links' = EncView.links /\ dirty' = FALSE /\ data' = EncView.data
    /\ encCache' = <<EncView>> /\ cidCache' = <<CidView>> /\ builder' = CidView.b
    /\ out' = Res("DecodeBlock", "", 0)
    /\ UNCHANGED ins

(* ---- one descriptor per call, so that generators can drive two instances in lockstep - *)
ReadOps == {"Links", "Tree", "Json", "Data", "CidBuilder", "Raw", "Force", "Cid", "Copy", "Decode", "DecodeBlock"}
Acts == [op : {"Add"}, l : Link] \cup [op : {"AddBad"}, why : {"undef", "big"}]
        \cup [op : {"Remove"}, n : Names] \cup [op : {"SetLinks"}, ls : SetLinksArgs]
        \cup [op : {"SetData"}, d : DataVals] \cup [op : {"SetBuilder"}, b : Builders \cup {"nil", "bad"}]
        \cup [op : ReadOps]

Do(a) == CASE a.op = "Add"         -> AddRawLink(a.l)
           [] a.op = "AddBad"      -> AddBad(a.why)
           [] a.op = "Remove"      -> RemoveNodeLink(a.n)
           [] a.op = "SetLinks"    -> SetLinks(a.ls)
           [] a.op = "SetData"     -> SetData(a.d)
           [] a.op = "SetBuilder"  -> SetCidBuilder(a.b)
           [] a.op \in {"Links", "Tree", "Json"} -> LinksRead(a.op)
           [] a.op = "Data"        -> DataRead
           [] a.op = "CidBuilder"  -> CidBuilderRead
           [] a.op = "Raw"         -> RawData
           [] a.op = "Force"       -> EncodeForce
           [] a.op = "Cid"         -> CidRead
           [] a.op = "Copy"        -> Copy
           [] a.op = "Decode"      -> Decode
           [] a.op = "DecodeBlock" -> DecodeBlock

Next == \E a \in Acts : Do(a)
Spec == Init /\ [][Next]_vars

(* ---- invariants ---------------------------------------------------------------------- *)
Opt(S) == {<<>>} \cup {<<x>> : x \in S}
TypeOK == /\ links \in Seq(Link) /\ Len(links) <= MaxLinks /\ ins \in Seq(Link) /\ Len(ins) = Len(links)
          /\ dirty \in BOOLEAN /\ data \in DataVals /\ builder \in Builders \cup {"unset"}
          /\ Len(encCache) <= 1 /\ Len(cidCache) <= 1

\* the property, as "whatever a caller asks now":
CidFresh   == CidView = IdealCid                  \* Cid() = H(builder, Enc(stable-sorted CURRENT links, data))
RawFresh   == EncView = IdealEnc                  \* RawData() is the encoding of the current content
LinksFresh == LinksView = IdealLinks
\* ... and as "whatever a caller was just told":
ObservedFresh == /\ out.op = "Cid" => out.v = IdealCid
                 /\ out.op \in {"Raw", "Force"} => out.v = IdealEnc
                 /\ out.op \in {"Links", "Tree", "Json"} => out.v = IdealLinks
                 /\ out.op = "Data" => out.v = data
                 /\ out.op = "CidBuilder" => out.v = Eff(builder)
\* serialized order: sorted by name, equal names in insertion order (declarative characterisation)
StableOrder == IsStableSortOf(EncView.links, ins)
\* distinct names => the encoding does not depend on the insertion order
OrderIndependent == DistinctNames(ins) => \A p \in Perms(ins) : Enc(SortLinks(p), data) = EncView
\* decode(encode(node)) has the same links and data, and re-encodes to the same value
Dec(e) == [links |-> e.links, data |-> e.data]
DecodeRoundTrip == /\ Dec(EncView) = [links |-> IdealLinks, data |-> data]
                   /\ Enc(SortLinks(Dec(EncView).links), Dec(EncView).data) = EncView
\* cache coherence (what makes the lazy invalidation scheme work)
CacheCoherent == /\ (encCache # <<>> /\ ~dirty) => encCache[1] = Enc(links, data)
                 /\ (encCache # <<>> /\ ~dirty /\ cidCache # <<>>) => cidCache[1].e = encCache[1]
                 /\ ~dirty => IsSorted(links)

\* node-replacing operations keep the encoding (Copy: up to the empty/nil data normalisation)
NormData(d) == IF d = "empty" THEN "nil" ELSE d
ReplaceKeepsEnc == /\ out'.op \in {"Decode", "DecodeBlock"} => EncView' = EncView
                   /\ out'.op = "DecodeBlock" => CidView' = CidView
                   /\ out'.op = "Copy" => EncView' = Enc(EncView.links, NormData(EncView.data))
ReplaceProp == [][ReplaceKeepsEnc]_vars
=============================================================================
