SPECIFICATION GSpec
CONSTANTS K = 3
          N = 2
          MaxDepth = 4
          NodeKinds = {"b", "h", "f"}
          RootKinds = {"b", "h"}
          Fills = {0, 20}
          Fans = {8}
INVARIANTS Emit
