---------------------------- MODULE GenPathResolve ----------------------------
(* Phase G for C33: TLC enumerates UnixFS trees (every canonical insertion order of at most N
   nodes below the root, depth <= MaxDepth, basic / HAMT-sharded directories and files, optional
   filler entries that make a directory wide) and, per tree, the query set
     - the path of every node (and of the first/last filler entry of every filled directory),
     - for every directory and every name that is NOT one of its entries (pool names, a name that
       never exists, a filler number beyond the width): the path through that missing name,
       alone and followed by one and two more segments,
     - one path continuing below every file,
   each with the result ResolveTree dictates.  One printed line per tree. *)
EXTENDS PathResolve
CONSTANTS K,          \* pool names 1..K  (K+1 is a name that never exists)
          N, MaxDepth,
          NodeKinds, RootKinds, Fills, Fans
VARIABLES tree, fan
gvars == <<tree, fan>>

n == Len(tree.nodes)
Dirs(t) == {d \in 0..Len(t.nodes) : IsDir(t, d)}

GInit == /\ fan \in Fans
         /\ \E rk \in RootKinds, f \in Fills :
               tree = [rootk |-> rk, rootFilled |-> f > 0, fill |-> f, nodes |-> <<>>]

\* canonical insertion order (parent, name) strictly increasing: every tree is built exactly once
After(p, nm) == IF n = 0 THEN TRUE
                ELSE (p > tree.nodes[n].p \/ (p = tree.nodes[n].p /\ nm > tree.nodes[n].nm))
AddNode(p, nm, k, fl) ==
  /\ n < N /\ p \in Dirs(tree) /\ Depth(tree, p) < MaxDepth
  /\ After(p, nm) /\ ~HasChild(tree, p, nm)
  /\ (fl => (k # "f" /\ tree.fill > 0))
  /\ tree' = [tree EXCEPT !.nodes = Append(@, [p |-> p, nm |-> nm, k |-> k, filled |-> fl])]
  /\ UNCHANGED fan
GNext == \E p \in 0..n, nm \in 1..K, k \in NodeKinds, fl \in BOOLEAN : AddNode(p, nm, k, fl)
GSpec == GInit /\ [][GNext]_gvars

(* ---- the query set of a tree *)
Tails == {<<>>, <<1>>, <<1, 2>>}
Existing(t) == {PathTo(t, d) : d \in 0..Len(t.nodes)}
               \cup UNION {{Append(PathTo(t, d), -1), Append(PathTo(t, d), 0 - t.fill)} : d \in {x \in Dirs(t) : FilledDir(t, x)}}
MissNames(t) == (1..(K + 1)) \cup {-1, 0 - (t.fill + 1)}
Missing(t) == {Append(PathTo(t, d), m) \o tl :
                 d \in Dirs(t), m \in MissNames(t), tl \in Tails}
BelowFiles(t) == {Append(PathTo(t, f), 1) : f \in {x \in 1..Len(t.nodes) : KindOf(t, x) = "f"}}
                 \cup {Append(Append(PathTo(t, d), -1), 1) : d \in {x \in Dirs(t) : FilledDir(t, x)}}
\* names looked up on every returned directory node: the pool, a name that never exists, first / last /
\* one-beyond-the-last filler number
Probe(t) == (1..(K + 1)) \cup {-1, 0 - (t.fill + 1)} \cup (IF t.fill > 0 THEN {0 - t.fill} ELSE {})
\* Uses(t)[d + 1] = what node d gives when the caller USES it after the resolver returned
Uses(t) == [i \in 1..(Len(t.nodes) + 1) |-> Use(t, i - 1, Probe(t))]
FillerUse(t) == Use(t, FillerFile, Probe(t))
\* r without the bookkeeping set; eh = the open finding Dev_C33_EmptyHamtUnreadable applies to <<last, path>>
Res(t, q) == LET F[r \in {ResolveTree(t, q)}] ==
                    [segs |-> q, r |-> [st |-> r.st, at |-> r.at, idx |-> r.idx, name |-> r.name],
                     via |-> IF r.st = "ok" THEN Via(t, q) ELSE <<>>,   \* the node every returned component must be
                     ehLast |-> HitsEmptyHamt(t, r, "last"), ehPath |-> HitsEmptyHamt(t, r, "path")]
             IN F[ResolveTree(t, q)]
Queries(t) == {Res(t, q) : q \in Existing(t) \cup Missing(t) \cup BelowFiles(t)}

Emit == PrintT(<<"BEHAVIOUR", ToJson([k |-> "tree", fan |-> fan, kpool |-> K, tree |-> tree, uses |-> Uses(tree), fuse |-> FillerUse(tree), queries |-> Queries(tree)])>>)
GSane == WellFormed(tree) /\ ExistingResolve(tree)
\* model-level sanity of the rule on every query of the tree (phase M): a result is "ok" exactly for
\* the paths of nodes / filler entries, a NoLink names the first segment that is not an entry of the
\* directory reached by the prefix before it, and the physical kind of a directory never matters
Flat(t) == [t EXCEPT !.rootk = "b", !.nodes = [i \in 1..Len(t.nodes) |-> IF t.nodes[i].k = "h" THEN [t.nodes[i] EXCEPT !.k = "b"] ELSE t.nodes[i]]]
Determinate ==
  \A q \in Existing(tree) \cup Missing(tree) \cup BelowFiles(tree) :
     LET r == ResolveTree(tree, q) IN
       /\ (r.st = "nolink" => /\ r.idx \in 1..Len(q) /\ r.name = q[r.idx]
                               /\ LET pre == ResolveTree(tree, SubSeq(q, 1, r.idx - 1))
                                  IN pre.st = "ok" /\ pre.at = r.at /\ IsDir(tree, r.at)
                                     /\ ~HasChild(tree, r.at, r.name) /\ ~IsFillerOf(tree, r.at, r.name))
       /\ (r.st = "ok" /\ r.at >= 0 => PathTo(tree, r.at) = q)
       /\ LET f == ResolveTree(Flat(tree), q) IN f.st = r.st /\ f.at = r.at /\ f.idx = r.idx

\* the returned node IS the named entry (phase M): a directory node lists / looks up exactly the names
\* that resolve one segment further, to the same targets; layout never shows; the components of an
\* existing path are the targets of its prefixes
UseSane ==
  /\ \A d \in 0..n :
       LET u == Use(tree, d, Probe(tree)) IN
         /\ u.kind = (IF IsDir(tree, d) THEN "dir" ELSE "file") /\ u.content = d
         /\ \A nm \in Probe(tree) :
              LET r == ResolveTree(tree, Append(PathTo(tree, d), nm)) IN
                IF Look(tree, d, nm) # NoEntry THEN r.st = "ok" /\ r.at = Look(tree, d, nm) ELSE r.st # "ok"
         /\ \A e \in u.ents : Look(tree, d, e[1]) = e[2] /\ tree.nodes[e[2]].p = d
         /\ Cardinality(u.ents) = Cardinality(Children(tree, d))
         /\ u.fill[1] = Cardinality({f \in 1..tree.fill : Look(tree, d, 0 - f) = FillerFile})
         /\ Use(Flat(tree), d, Probe(tree)) = u
  /\ \A q \in Existing(tree) \cup Missing(tree) \cup BelowFiles(tree) :
       LET r == ResolveTree(tree, q) IN
         r.st = "ok" => /\ Len(Via(tree, q)) = Len(q) + 1 /\ Via(tree, q)[Len(q) + 1] = r.at
                        /\ \A j \in 0..Len(q) : ResolveTree(tree, SubSeq(q, 1, j)).at = Via(tree, q)[j + 1]

\* -simulate: random larger trees; print when full
Flush == /\ n = N
         /\ PrintT(<<"BEHAVIOUR", ToJson([k |-> "tree", fan |-> fan, kpool |-> K, tree |-> tree, uses |-> Uses(tree), fuse |-> FillerUse(tree), queries |-> Queries(tree)])>>)
         /\ fan' \in Fans
         /\ \E rk \in RootKinds, f \in Fills :
               tree' = [rootk |-> rk, rootFilled |-> f > 0, fill |-> f, nodes |-> <<>>]
\* without the canonical-order restriction (a random walk would get stuck): any free (parent, name)
AddAny(p, nm, k, fl) ==
  /\ n < N /\ p \in Dirs(tree) /\ Depth(tree, p) < MaxDepth /\ ~HasChild(tree, p, nm)
  /\ (fl => (k # "f" /\ tree.fill > 0))
  /\ tree' = [tree EXCEPT !.nodes = Append(@, [p |-> p, nm |-> nm, k |-> k, filled |-> fl])]
  /\ UNCHANGED fan
GNextSim == IF n = N THEN Flush
            ELSE \E p \in 0..n, nm \in 1..K, k \in NodeKinds, fl \in BOOLEAN : AddAny(p, nm, k, fl)
GSpecSim == GInit /\ [][GNextSim]_gvars
=============================================================================
