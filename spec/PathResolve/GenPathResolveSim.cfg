SPECIFICATION GSpecSim
CONSTANTS K = 6
          N = 7
          MaxDepth = 4
          NodeKinds = {"b", "h", "f"}
          RootKinds = {"b", "h"}
          Fills = {0, 30, 300}
          Fans = {8, 16, 256}
