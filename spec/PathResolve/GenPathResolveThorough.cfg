SPECIFICATION GSpec
CONSTANTS K = 2
          N = 3
          MaxDepth = 4
          NodeKinds = {"b", "h", "f"}
          RootKinds = {"b", "h"}
          Fills = {0, 40}
          Fans = {8}
INVARIANTS Emit
