SPECIFICATION GSpec
CONSTANTS K = 2
          N = 2
          MaxDepth = 3
          NodeKinds = {"b", "h", "f"}
          RootKinds = {"b", "h"}
          Fills = {0, 2}
          Fans = {8}
INVARIANTS GSane Determinate UseSane
