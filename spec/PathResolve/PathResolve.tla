----------------------------- MODULE PathResolve -----------------------------
(* C33 -- path resolution over a UnixFS tree.

   A tree is a root directory (node 0) and nodes 1..n, node i = [p, nm, k, filled]:
     p   parent (a directory with a smaller index),   nm  the entry name under p (an integer token),
     k   "b" basic directory | "h" HAMT-sharded directory | "f" file,
     filled  (directories) additionally holds the filler entries -1 .. -fill, all linking to the one
             shared filler file (node -1) -- this is how wide directories are modelled.
   Name tokens: positive = index into the harness's name pool (which contains names colliding in
   the first HAMT levels, "0", "Links", ...), negative = filler number.

   The property: resolving is a walk by NAME, whatever the physical layout ("b" and "h" are
   indistinguishable here -- that is the point):
     every segment names an entry      -> the node reached, nothing left over
     segment i is not an entry of the
       directory reached so far        -> NoLink, naming exactly segment i
     the node reached before segment i
       is a file                       -> an error (kind not fixed by the property)          *)
EXTENDS Naturals, Integers, Sequences, FiniteSets, TLC, Json

FillerFile == -1          \* id of the shared target of all filler entries

(* tree = [rootk, rootFilled, fill, nodes] *)
KindOf(t, d)   == IF d = 0 THEN t.rootk ELSE IF d = FillerFile THEN "f" ELSE t.nodes[d].k
FilledDir(t, d) == IF d = 0 THEN t.rootFilled ELSE t.nodes[d].filled
Children(t, d) == {i \in 1..Len(t.nodes) : t.nodes[i].p = d}
HasChild(t, d, nm) == \E i \in Children(t, d) : t.nodes[i].nm = nm
ChildOf(t, d, nm)  == CHOOSE i \in Children(t, d) : t.nodes[i].nm = nm
IsFillerOf(t, d, nm) == FilledDir(t, d) /\ nm < 0 /\ (0 - nm) <= t.fill

\* one step of the walk from a state [st, at, idx, name, seen] over segment s (seen = nodes visited so far)
StepWalk(t, w, s, i) ==
  IF w.st # "ok" THEN w
  ELSE IF KindOf(t, w.at) = "f" THEN [st |-> "notdir", at |-> w.at, idx |-> i, name |-> s, seen |-> w.seen]
  ELSE IF HasChild(t, w.at, s)
       THEN [st |-> "ok", at |-> ChildOf(t, w.at, s), idx |-> 0, name |-> 0, seen |-> w.seen \cup {ChildOf(t, w.at, s)}]
  ELSE IF IsFillerOf(t, w.at, s) THEN [st |-> "ok", at |-> FillerFile, idx |-> 0, name |-> 0, seen |-> w.seen \cup {FillerFile}]
  ELSE [st |-> "nolink", at |-> w.at, idx |-> i, name |-> s, seen |-> w.seen]

\* ResolveTree: fold of StepWalk over the segments.  (TLC note: operator arguments and LET bodies are
\* substituted lazily and may be re-evaluated at every reference, which is exponential for a fold;
\* a variable bound by a set -- w \in {W[i-1]} -- is a VALUE, so every level is evaluated once.)
ResolveTree(t, segs) ==
  LET W[i \in 0..Len(segs)] ==
        IF i = 0 THEN [st |-> "ok", at |-> 0, idx |-> 0, name |-> 0, seen |-> {0}]
        ELSE CHOOSE x \in {StepWalk(t, w, segs[i], i) : w \in {W[i - 1]}} : TRUE
  IN W[Len(segs)]

(* ---- USING what a resolution returned.  "Returns the named entry" is a statement about the value
   the caller gets, and that value is used AFTER the resolver has returned (the caller's context is
   still live): a returned directory must list / look up exactly the entries of the named
   directory -- whatever its physical layout, also when the entries live in child shard blocks
   that are only read at that moment --, a returned file must yield the bytes of the named file.
   NoEntry = "no entry of that name".  A directory's filler entries are summarized as
   <<count, lowest, highest filler number>> (all linking to FillerFile). *)
NoEntry == -2
IsDirNode(t, d) == d >= 0 /\ KindOf(t, d) \in {"b", "h"}
Look(t, d, nm) == IF ~IsDirNode(t, d) THEN NoEntry
                  ELSE IF HasChild(t, d, nm) THEN ChildOf(t, d, nm)
                  ELSE IF IsFillerOf(t, d, nm) THEN FillerFile ELSE NoEntry
Named(t, d) == {<<t.nodes[i].nm, i>> : i \in Children(t, d)}
FillOf(t, d) == IF FilledDir(t, d) /\ t.fill > 0 THEN <<t.fill, 1, t.fill>> ELSE <<0, 0, 0>>
\* what node d gives when used: its kind as the caller sees it (directory / file), the named entries
\* and filler summary it lists, the answer to a lookup of every name in `probe`, and (file) whose bytes
Use(t, d, probe) ==
  IF IsDirNode(t, d)
  THEN [kind |-> "dir", ents |-> Named(t, d), fill |-> FillOf(t, d),
        look |-> {<<nm, Look(t, d, nm)>> : nm \in probe}, content |-> d]
  ELSE [kind |-> "file", ents |-> {}, fill |-> <<0, 0, 0>>, look |-> {}, content |-> d]
\* the nodes a walk passes, in order (root first); for an "ok" walk one per segment + 1
Via(t, segs) ==
  LET V[i \in 0..Len(segs)] ==
        IF i = 0 THEN <<0>>
        ELSE CHOOSE x \in {IF Len(v) = i /\ Look(t, v[i], segs[i]) # NoEntry THEN Append(v, Look(t, v[i], segs[i])) ELSE v
                           : v \in {V[i - 1]}} : TRUE
  IN V[Len(segs)]

(* ---- as-built deviation conditions (open findings; the ideal above does not depend on them) *)
\* nodes whose block a resolver API has to DECODE: ResolveToLastNode returns the last link without
\* loading its target; ResolvePath loads the target as well
Decoded(r, api) == IF api = "last" /\ r.st = "ok" THEN r.seen \ {r.at} ELSE r.seen
\* a HAMT-sharded directory without any entry: boxo serializes it without the bitfield (Data) and the
\* reifier used for pathing (go-unixfsnode) refuses such a shard
EmptyHamt(t, d) == d >= 0 /\ KindOf(t, d) = "h" /\ Children(t, d) = {} /\ ~(FilledDir(t, d) /\ t.fill > 0)
HitsEmptyHamt(t, r, api) == \E d \in Decoded(r, api) : EmptyHamt(t, d)

(* ---- well-formed trees *)
IsDir(t, d) == KindOf(t, d) \in {"b", "h"}
Depth(t, d) == LET D[i \in 0..Len(t.nodes)] == IF i = 0 THEN 0 ELSE D[t.nodes[i].p] + 1 IN D[d]
PathTo(t, d) == LET P[i \in 0..Len(t.nodes)] == IF i = 0 THEN <<>> ELSE Append(P[t.nodes[i].p], t.nodes[i].nm) IN P[d]
WellFormed(t) == /\ t.rootk \in {"b", "h"}
                 /\ \A i \in 1..Len(t.nodes) :
                      /\ t.nodes[i].p \in 0..(i - 1) /\ IsDir(t, t.nodes[i].p)
                      /\ t.nodes[i].k \in {"b", "h", "f"} /\ t.nodes[i].nm > 0
                      /\ \A j \in 1..Len(t.nodes) : (j # i /\ t.nodes[j].p = t.nodes[i].p) => t.nodes[j].nm # t.nodes[i].nm

(* ---- sanity theorems of the rule, checked by TLC on every generated tree *)
\* the path to a node resolves to that node; a resolved path is the path to its target
ExistingResolve(t) == \A d \in 0..Len(t.nodes) : LET r == ResolveTree(t, PathTo(t, d)) IN r.st = "ok" /\ r.at = d
=============================================================================
