SPECIFICATION TSpec
CONSTANTS Devs = @DEVS@
INVARIANTS TSane DevReport
CONSTRAINT TraceConstraint
POSTCONDITION TracePost
CHECK_DEADLOCK FALSE
