--------------------------- MODULE TracePathResolve ---------------------------
(* Phase T for C33: the harness generates random, deeper and much wider trees (up to 13 nodes,
   directories with 0/30/300/700 filler entries, HAMT fanout 8/16/256), logs the tree once
   ("Tree") and then one "Resolve" event per query and API with the projected real result (for
   ResolvePath including what the returned node gave when it was used after the call returned).
   Every event must agree with ResolveTree on the logged tree. *)
EXTENDS PathResolve

Trace == ndJsonDeserialize("trace.ndjson")
VARIABLES l, tree, dev
tvars == <<l, tree, dev>>
ASSUME TLCSet(1, 0)
CONSTANT Devs

Ev == Trace[l]
IsEvent(e) == l <= Len(Trace) /\ Trace[l].ev = e /\ l' = l + 1
NoTree == [rootk |-> "b", rootFilled |-> FALSE, fill |-> 0, nodes |-> <<>>]

TInit == l = 1 /\ tree = NoTree /\ dev = {}

TTree == /\ IsEvent("Tree") /\ WellFormed(Ev.tree)
         /\ tree' = Ev.tree /\ UNCHANGED dev

\* ResolvePath also returns the NODE; the harness uses it after the call has returned (lists it, looks
\* up the logged probe names, reads a file to the end) and logs what it got: that must be Use of the
\* named node for exactly those probe names (JSON arrays arrive as sequences)
SeqSet(q) == {q[i] : i \in 1..Len(q)}
UseAgrees(u, d) ==
  LET w == Use(tree, d, {p[1] : p \in SeqSet(u.look)}) IN
    /\ u.kind = w.kind
    /\ IF w.kind = "file" THEN u.content = w.content
       ELSE /\ Len(u.ents) = Cardinality(w.ents) /\ SeqSet(u.ents) = w.ents
            /\ u.fill = w.fill
            /\ Len(u.look) > 0 /\ Len(u.look) = Cardinality(w.look) /\ SeqSet(u.look) = w.look
\* ideal: both APIs follow the walk by name
Agrees(r) == \/ /\ r.st = "ok" /\ Ev.ok /\ Ev.target = r.at /\ Ev.rem = 0
                /\ (Ev.api = "path" => UseAgrees(Ev.use, r.at))
             \/ r.st = "nolink" /\ ~Ev.ok /\ Ev.err = "nolink" /\ Ev.name = r.name
             \/ r.st = "notdir" /\ ~Ev.ok
TResolve == /\ IsEvent("Resolve") /\ Ev.api \in {"last", "path"}
            /\ Agrees(ResolveTree(tree, Ev.segs))
            /\ UNCHANGED <<tree, dev>>

\* open finding Dev_C33_ResolvePathNoLinkError (as built): ResolvePath reports a missing name with the
\* generic error "path ... did not resolve to a node" instead of an ErrNoLink naming the segment
TResolveDevPath == /\ "Dev_C33_ResolvePathNoLinkError" \in Devs
                   /\ IsEvent("Resolve") /\ Ev.api = "path"
                   /\ ResolveTree(tree, Ev.segs).st = "nolink"
                   /\ ~Ev.ok /\ Ev.err = "other" /\ Ev.generic
                   /\ dev' = dev \cup {"Dev_C33_ResolvePathNoLinkError"} /\ UNCHANGED tree
\* open finding Dev_C33_EmptyHamtUnreadable (as built): a walk that has to decode the block of a HAMT
\* directory without entries fails with "'Data' field not present", whatever the query
TResolveDevEmpty == /\ "Dev_C33_EmptyHamtUnreadable" \in Devs
                    /\ IsEvent("Resolve") /\ Ev.api \in {"last", "path"}
                    /\ HitsEmptyHamt(tree, ResolveTree(tree, Ev.segs), Ev.api)
                    /\ ~Ev.ok /\ Ev.err = "other" /\ Ev.nodata
                    /\ dev' = dev \cup {"Dev_C33_EmptyHamtUnreadable"} /\ UNCHANGED tree

TNext == TTree \/ TResolve \/ TResolveDevPath \/ TResolveDevEmpty
TSpec == TInit /\ [][TNext]_tvars

TSane == WellFormed(tree)
DevReport == l <= Len(Trace) \/ \A d \in dev : PrintT(<<"DEV_USED", d>>)
TraceConstraint == TLCSet(1, IF l - 1 > TLCGet(1) THEN l - 1 ELSE TLCGet(1))
TracePost == PrintT(<<"TRACE_HWM", TLCGet(1)>>)
=============================================================================
