SPECIFICATION Spec
CONSTANTS Tok = {"e","dot","dd","ipfs","ipns","ipld","IPFS","cidV0","cidV1b32","cidV1b36","cidV1b58","pidRsaB58","pidEdB58","pidCidB36","a","uni","sp","dots3","badcid"}
          TokRed = {"e","dot","dd","ipfs","ipns","IPFS","cidV1b32","a"}
          LenFull = 3
          LenRed = 5
          LenUri = 3
          LenName = 3
          LenNameW = 2
          LenSess = 4
          LenOps = 3
INVARIANTS Emit Idempotent NoDots PrintedIsCanonical SameRootCid MutableHasNoCid UriEqualsPath NameRoundTrip BinaryLaws TrailingSlashKept ValueSemantics DerivedLaws NameValueLaws
