---------------------------- MODULE GenPathSyntax ----------------------------
(* Phase G: one printed line per case of PathSyntax with the expected observable; the Go
   harness turns the tokens into text, calls the real parser / name conversions and compares. *)
EXTENDS PathSyntax
Emit == PrintT(<<"BEHAVIOUR", ToJson(Expect)>>)
=============================================================================
