SPECIFICATION Spec
CONSTANTS Tok = {"e","dot","dd","ipfs","ipns","ipld","IPFS","cidV0","cidV1b32","cidV1b36","cidV1b58","pidRsaB58","pidEdB58","pidCidB36","a","uni","sp","dots3","badcid"}
          TokRed = {"e","dot","dd","ipfs","ipns","IPFS","cidV1b32","a"}
          LenFull = 4
          LenRed = 6
          LenUri = 4
          LenName = 4
          LenNameW = 3
          LenSess = 4
          LenOps = 4
INVARIANTS Emit Idempotent NoDots PrintedIsCanonical SameRootCid MutableHasNoCid UriEqualsPath NameRoundTrip BinaryLaws TrailingSlashKept ValueSemantics DerivedLaws NameValueLaws
