SPECIFICATION Spec
CONSTANTS Tok = {"e","dot","dd","ipfs","ipns","ipld","IPFS","cidV0","cidV1b32","cidV1b36","cidV1b58","pidRsaB58","pidEdB58","pidCidB36","a","uni","sp","dots3","badcid"}
          TokRed = {"e","dot","dd","ipfs","ipns","IPFS","cidV1b32","a"}
          LenFull = 2
          LenRed = 4
          LenUri = 2
          LenName = 2
          LenNameW = 1
          LenSess = 3
          LenOps = 2
INVARIANTS Idempotent NoDots PrintedIsCanonical SameRootCid MutableHasNoCid UriEqualsPath NameRoundTrip BinaryLaws TrailingSlashKept ValueSemantics DerivedLaws NameValueLaws
