------------------------------ MODULE PathSyntax ------------------------------
(* C28 -- content paths (path.NewPath / NewPathFromURI) and IPNS names (ipns.Name) as
   syntax over a TOKEN alphabet.

   A string is the tokens joined by "/".  The empty token "e" therefore yields leading,
   trailing and repeated slashes:  <<"e","ipfs","cidV0","e">>  is  "/ipfs/Qm.../".
   A token is a CLASS name; the Go harness owns the table token -> concrete text and
   self-checks the class facts assumed here (IsCid / CidOf).

   The rule below is the documented one (path.go, doc of Path / NewPath / Segments):
     * a path is /{namespace}/{root}[/rest], namespace in {ipfs, ipld, ipns};
     * the string is cleaned lexically (empty and "." segments vanish, ".." removes the
       preceding segment and vanishes at the root), the final "/" is preserved;
     * ipfs/ipld: the root must decode as a CID; ipns: any root.
   One case (variable `c`) = one initial state; TLC enumerates the case space, evaluates
   the invariants on it (phase M) and prints the expected observable (phase G).          *)
EXTENDS Naturals, Sequences, FiniteSets, TLC, Json

CONSTANTS Tok,       \* token alphabet of the full enumeration
          LenFull,   \* all sequences over Tok up to this length
          TokRed,    \* reduced alphabet (one representative per class) ...
          LenRed,    \* ... enumerated up to this (larger) length
          LenUri,    \* URI cases: rest sequences over TokRed up to this length
          LenName,   \* name graph: conversion paths up to this length (4 plain key classes)
          LenNameW,  \* ... and up to this length for EVERY binary key class
          LenSess,   \* value sessions: on every accepted path over TokRed up to this length ...
          LenOps     \* ... all call sequences (accessors + Scribble) up to this length

(* ------------------------------------------------------------------ token classes -- *)
NoCid == <<"none", 0>>
\* the CID a token denotes (cid.Decode), NoCid if it does not decode.  Equal tuples = Equal CIDs:
\* the three cidV1 tokens are the SAME CID in three multibases.
CidOf(t) == CASE t = "cidV0"     -> <<"v0-dagpb", 1>>
              [] t = "cidV1b32"  -> <<"v1-dagpb", 1>>
              [] t = "cidV1b36"  -> <<"v1-dagpb", 1>>
              [] t = "cidV1b58"  -> <<"v1-dagpb", 1>>
              [] t = "pidRsaB58" -> <<"v0-dagpb", 2>>   \* "Qm..." peer id is textually a CIDv0
              [] t = "pidCidB36" -> <<"v1-key", 3>>     \* k51... libp2p-key CID
              [] OTHER           -> NoCid              \* incl. pidEdB58 "12D3Koo..." and badcid
IsCid(t) == CidOf(t) # NoCid

Immutable == {"ipfs", "ipld"}
Namespaces == Immutable \cup {"ipns"}

(* ------------------------------------------------------------------ strings -------- *)
\* tokens joined by "/" : first token "e" and at least two tokens <=> string starts with "/"
Rooted(ts)     == Len(ts) >= 2 /\ ts[1] = "e"
EndsInSlash(ts) == Len(ts) >= 2 /\ ts[Len(ts)] = "e"

(* lexical cleaning of a rooted path: result = the surviving segments *)
RECURSIVE CleanR(_, _)
CleanR(ts, st) ==
  IF ts = <<>> THEN st
  ELSE LET t == Head(ts) IN
       CleanR(Tail(ts),
              CASE t \in {"e", "dot"} -> st
                [] t = "dd"           -> IF st = <<>> THEN st ELSE SubSeq(st, 1, Len(st) - 1)
                [] OTHER              -> Append(st, t))
(* ... and of a relative one (StringToSegments is public): leading ".." survive *)
RECURSIVE CleanU(_, _)
CleanU(ts, st) ==
  IF ts = <<>> THEN st
  ELSE LET t == Head(ts) IN
       CleanU(Tail(ts),
              CASE t \in {"e", "dot"} -> st
                [] t = "dd"           -> IF st # <<>> /\ st[Len(st)] # "dd"
                                         THEN SubSeq(st, 1, Len(st) - 1) ELSE Append(st, t)
                [] OTHER              -> Append(st, t))
Segments(ts) == IF Rooted(ts) THEN CleanR(ts, <<>>) ELSE CleanU(ts, <<>>)

(* ------------------------------------------------------------------ Parse / Print -- *)
Reject(why) == [ok |-> FALSE, err |-> why, ns |-> "", segs |-> <<>>, tr |-> FALSE,
                mut |-> FALSE, cid |-> NoCid]
Parse(ts) ==
  LET sg == Segments(ts) IN
  IF ~Rooted(ts) \/ Len(sg) < 2 THEN Reject("insufficient")
  ELSE IF sg[1] \notin Namespaces THEN Reject("namespace")
  ELSE IF sg[1] \in Immutable /\ ~IsCid(sg[2]) THEN Reject("cid")
  ELSE [ok |-> TRUE, err |-> "", ns |-> sg[1], segs |-> sg, tr |-> EndsInSlash(ts),
        mut |-> sg[1] \notin Immutable,
        cid |-> IF sg[1] \in Immutable THEN CidOf(sg[2]) ELSE NoCid]

\* the printed form of an accepted path, again as tokens
Printed(p) == <<"e">> \o p.segs \o (IF p.tr THEN <<"e">> ELSE <<>>)

(* URI form: {scheme}:[//]{rest}; scheme matched case-insensitively; anything else is
   handed to Parse unchanged (and is then rejected: it does not start with "/").       *)
SchemeNs(s) == CASE s \in {"ipfs", "IPFS", "IpFs"} -> "ipfs"
                 [] s \in {"ipns", "IPNS"}         -> "ipns"
                 [] s \in {"ipld", "iPLD"}         -> "ipld"
                 [] OTHER                          -> ""      \* "http", "ipfsx", "ipf"
Schemes == {"ipfs", "IPFS", "IpFs", "ipns", "IPNS", "ipld", "iPLD", "http", "ipfsx", "ipf"}
Seps    == {"", "//"}
ParseURI(s, rest) == IF SchemeNs(s) # "" THEN Parse(<<"e", SchemeNs(s)>> \o rest)
                     ELSE Reject("insufficient")

(* ------------------------------------------------------------------ IPNS names ----- *)
\* A name is the multihash of a public key; model name = key type.  An EDGE renders the name
\* in some form and parses it back:
Edges == {"String",      \* Name.String()  (base36 libp2p-key CID)      -> NameFromString
          "StringNs",    \* "/ipns/" + String()                         -> NameFromString
          "B58",         \* Peer().String() (legacy base58 multihash)   -> NameFromString
          "CidB32",      \* Cid().String()                              -> NameFromString
          "CidB58",      \* Cid() in base58btc ("z...")                 -> NameFromString
          "CidB36U",     \* Cid() in upper-case base36 ("K...")         -> NameFromString
          "Cid",         \* Cid()                                       -> NameFromCid
          "RoutingKey",  \* RoutingKey()                                -> NameFromRoutingKey
          "Peer",        \* Peer()                                      -> NameFromPeer
          "Path",        \* AsPath().String()                           -> NameFromString
          "PathSeg",     \* NewPath("/ipns/"+B58).Segments()[1]         -> NameFromString
          "JSON"}        \* MarshalJSON                                 -> UnmarshalJSON
\* renderings that must be REJECTED
BadForms == {"CidDagPb",        \* same multihash, codec dag-pb: NameFromCid and NameFromString reject
             "RoutingKeyBare",  \* multihash bytes without the "/ipns/" prefix
             "RoutingKeyPk",    \* "/pk/" + multihash
             "Garbage", "Empty",
             "IpfsPrefixed"}    \* "/ipfs/" + String()
Keys == {"rsa2048", "ed25519", "secp256k1", "ecdsa"}

(* ---- binary level.  A name IS a binary multihash (a sequence of bytes 0..255); the routing
   key is the ASCII bytes of "/ipns/" followed by those raw bytes (no multibase).  The laws are
   stated over an abstract universe of binary keys described by BYTE-VALUE CLASSES of the two
   ends of the key: the byte 0x2f ('/', the separator of the routing-key prefix), 0x00, 0xff,
   the six bytes "/ipns/" themselves, or "any" other byte.  The harness must find / construct
   a real peer ID for every class (brute-forced key pairs, identity multihashes of chosen
   public-key bytes, sha2-256 digests found by search); phase T re-checks InClass and the
   byte-level results below on the CONCRETE bytes it used.                                   *)
Prefix  == <<47, 105, 112, 110, 115, 47>>        \* "/ipns/"
BClass  == {"sl", "z", "ff", "ipns", "any"}
Single  == BClass \ {"ipns"}
Special == {47, 0, 255}
ClassBytes(cl) == CASE cl = "sl"   -> <<47>>
                    [] cl = "z"    -> <<0>>
                    [] cl = "ff"   -> <<255>>
                    [] cl = "ipns" -> Prefix
                    [] OTHER       -> <<>>       \* "any": one byte outside Special
\* key classes: kt = framing of the multihash, fst / lst = class of the first / last payload bytes
\*   ed25519   identity multihash of the 36-byte key protobuf: every class at both ends
\*   secp256k1 identity multihash, 33-byte compressed point (first byte 2 or 3)
\*   ecdsa     sha2-256 of the key protobuf (real keys: one end constrained at a time)
\*   rsa2048   sha2-256 of the key protobuf (one real key)
\*   sha256    sha2-256 digest found by search (what RSA / ECDSA peer IDs look like), both ends
\*   rawmh     a multihash whose OWN first byte is '/' (hash code 0x2f; NameFromPeer / NameFromCid
\*             accept any well-framed multihash); fst = "ipns": the multihash begins with "/ipns/"
KeyClasses ==
       [kt : {"ed25519"}, fst : BClass, lst : BClass]
  \cup [kt : {"secp256k1"}, fst : {"any"}, lst : Single]
  \cup {k \in [kt : {"ecdsa"}, fst : Single, lst : Single] : k.fst = "any" \/ k.lst = "any"}
  \cup [kt : {"rsa2048"}, fst : {"any"}, lst : {"any"}]
  \cup [kt : {"sha256"}, fst : Single, lst : Single]
  \cup [kt : {"rawmh"}, fst : {"sl", "ipns"}, lst : BClass]
Plain(k) == k.kt \in Keys /\ k.fst = "any" /\ k.lst = "any"    \* the classes walked to depth LenName
Hdr(k)  == CASE k.kt = "ed25519"   -> <<0, 36, 8, 1, 18, 32>>
             [] k.kt = "secp256k1" -> <<0, 37, 8, 2, 18, 33>>
             [] k.kt = "rawmh"     -> IF k.fst = "ipns" THEN <<47, 105>> ELSE <<47, 40>>
             [] OTHER              -> <<18, 32>>
PLen(k) == CASE k.kt = "secp256k1" -> 33
             [] k.kt = "rawmh"     -> IF k.fst = "ipns" THEN 105 ELSE 40
             [] OTHER              -> 32
\* constrained bytes right after the header (rawmh: its class is carried by the header itself)
Lead(k) == IF k.kt = "rawmh" THEN (IF k.fst = "ipns" THEN <<112, 110, 115, 47>> ELSE <<>>)
           ELSE ClassBytes(k.fst)
InClass(b, k) ==
  LET h == Hdr(k)  n == Len(h) + PLen(k)  ld == Lead(k)  tr == ClassBytes(k.lst) IN
  /\ Len(b) = n /\ \A i \in 1..n : b[i] \in 0..255
  /\ SubSeq(b, 1, Len(h)) = h
  /\ SubSeq(b, Len(h) + 1, Len(h) + Len(ld)) = ld
  /\ SubSeq(b, n - Len(tr) + 1, n) = tr
  /\ (k.fst = "any" => b[Len(h) + 1] \notin Special)
  /\ (k.lst = "any" => b[n] \notin Special)
  /\ (k.kt = "secp256k1" => b[Len(h) + 1] \in {2, 3})
\* the model's representative of a class (filler 'A')
Rep(k) == LET ld == IF k.fst = "any" THEN (IF k.kt = "secp256k1" THEN <<2>> ELSE <<65>>) ELSE Lead(k)
              tr == IF k.lst = "any" THEN <<65>> ELSE ClassBytes(k.lst)
          IN Hdr(k) \o ld \o [i \in 1..(PLen(k) - Len(ld) - Len(tr)) |-> 65] \o tr

\* multihash framing: <varint code><varint length><exactly length bytes>.  Only one-byte varints
\* occur in the universe (OneByteFraming is asserted on every input of phase T).
OneByteFraming(b) == IF Len(b) < 2 THEN TRUE ELSE b[1] < 128 /\ b[2] < 128
MhFramed(b) == IF Len(b) < 2 THEN FALSE ELSE b[1] < 128 /\ b[2] < 128 /\ Len(b) = 2 + b[2]
NameBad == [ok |-> FALSE, mh |-> <<>>]
FromBytes(b) == IF MhFramed(b) THEN [ok |-> TRUE, mh |-> b] ELSE NameBad
HasPrefix(d, p) == Len(d) >= Len(p) /\ SubSeq(d, 1, Len(p)) = p
RoutingKeyOf(b) == Prefix \o b
\* exactly ONE leading "/ipns/" is removed and nothing else; the rest must be the whole multihash
RkRest(d) == SubSeq(d, Len(Prefix) + 1, Len(d))
FromRoutingKey(d) == IF HasPrefix(d, Prefix) THEN FromBytes(RkRest(d)) ELSE NameBad
\* byte strings derived from a key that are handed to NameFromRoutingKey
RkVariants == {"exact", "plusSlash", "minusLast", "doublePrefix", "slashFirst", "bare", "pk", "upper", "noSlash"}
RkInput(v, b) == CASE v = "exact"        -> Prefix \o b
                   [] v = "plusSlash"    -> Prefix \o b \o <<47>>
                   [] v = "minusLast"    -> Prefix \o SubSeq(b, 1, Len(b) - 1)
                   [] v = "doublePrefix" -> Prefix \o Prefix \o b
                   [] v = "slashFirst"   -> <<47>> \o Prefix \o b
                   [] v = "bare"         -> b
                   [] v = "pk"           -> <<47, 112, 107, 47>> \o b
                   [] v = "upper"        -> <<47, 73, 80, 78, 83, 47>> \o b
                   [] v = "noSlash"      -> <<47, 105, 112, 110, 115>> \o b
\* text forms: a multibase / base58 alphabet never contains '/', so a text form is an opaque
\* injective encoding of the bytes, optionally behind the textual "/ipns/" prefix
ToText(e, b) == [ns |-> e \in {"StringNs", "Path"}, of |-> b]
FromText(t)  == FromBytes(t.of)
\* the legacy base58 multihash text exists for identity / sha2-256 multihashes only
EdgesFor(k) == IF k.kt = "rawmh" THEN Edges \ {"B58", "PathSeg"} ELSE Edges

\* model of an edge on the binary name; the property says every edge is the identity
Via(edge, b) == CASE edge = "RoutingKey"      -> FromRoutingKey(RoutingKeyOf(b))
                  [] edge \in {"Peer", "Cid"} -> FromBytes(b)
                  [] OTHER                    -> FromText(ToText(edge, b))
RECURSIVE Walk(_, _)
Walk(es, b) == IF es = <<>> THEN [ok |-> TRUE, mh |-> b]
               ELSE LET r == Via(Head(es), b) IN IF r.ok THEN Walk(Tail(es), r.mh) ELSE r

(* ------------------------------------------------------------------ value sessions -- *)
(* A parsed path and an IPNS name are VALUES.  A session creates one value and then calls its
   accessors / derives other values from it.  Some calls hand the caller a slice: the RESULT of
   Segments() / RoutingKey() / MarshalJSON(), or leave him with the ARGUMENT buffer he passed to
   Join / NewPathFromSegments / NameFromRoutingKey / UnmarshalJSON.  Those slices belong to the
   caller, who may overwrite them:  Scribble(i) = the caller assigns to every index of the slice
   of call i and appends into a re-slice of it.  The model state of a session is the value alone
   and Scribble does not touch it: every accessor -- on the value, on every copy of it taken
   before or after, and on every value derived earlier -- keeps giving the result below.       *)
PathOps  == {"Segments",   \* p.Segments()                      (yields the returned slice)
             "String",     \* p.String()
             "Reparse",    \* NewPath(p.String())
             "Join",       \* Join(p, "a")                      (yields the argument slice)
             "FromSegs",   \* NewPathFromSegments(segments of p) (yields the argument slice)
             "Immutable"}  \* NewImmutablePath(p)
NameOps  == {"RoutingKey", \* n.RoutingKey()                    (yields the returned bytes)
             "JSON",       \* n.MarshalJSON()                   (yields the returned bytes)
             "FromRK",     \* NameFromRoutingKey(buf)           (yields the argument buffer)
             "FromJSON",   \* UnmarshalJSON(buf)                (yields the argument buffer)
             "Peer",       \* n.Peer()
             "Text"}       \* n.String()
Yielding == {"Segments", "Join", "FromSegs", "RoutingKey", "JSON", "FromRK", "FromJSON"}

PathResult(op, p) ==
  CASE op = "Segments"  -> p.segs
    [] op = "String"    -> Printed(p)
    [] op = "Reparse"   -> Parse(Printed(p))
    [] op = "Join"      -> Parse(<<"e">> \o p.segs \o <<"a">>)
    [] op = "FromSegs"  -> Parse(<<"e">> \o p.segs)
    [] op = "Immutable" -> [ok |-> ~p.mut, cid |-> p.cid]
NameResult(op, b) ==
  CASE op = "RoutingKey" -> RoutingKeyOf(b)
    [] op = "JSON"       -> ToText("JSON", b)
    [] op = "FromRK"     -> FromRoutingKey(RoutingKeyOf(b))
    [] op = "FromJSON"   -> FromText(ToText("JSON", b))
    [] op = "Peer"       -> b
    [] op = "Text"       -> ToText("String", b)

\* a call is [op, of]: of = 0, or for Scribble the index of the earlier call whose slice is overwritten
Call(o) == [op |-> o, of |-> 0]
Scribbled(ops) == {ops[j].of : j \in {i \in 1..Len(ops) : ops[i].op = "Scribble"}}
OpenSlices(ops) == {i \in 1..Len(ops) : ops[i].op \in Yielding /\ i \notin Scribbled(ops)}
\* a session starts by obtaining something that can be scribbled on (pure reads are the "p" family)
NextCalls(A, ops) == {Call(o) : o \in (IF ops = <<>> THEN A \cap Yielding ELSE A)}
                       \cup {[op |-> "Scribble", of |-> i] : i \in OpenSlices(ops)}
\* the enumerated sessions (phases M, G) do not grow read-only prefixes beyond two calls: the third and later
\* calls of a session that has not scribbled yet are Scribble steps (phase T sessions are not restricted)
EnumCalls(A, ops) == {o \in NextCalls(A, ops) : o.op = "Scribble" \/ Len(ops) < 2 \/ Scribbled(ops) # {}}
\* one step of a session; st = [val, res].  No step changes st.val; Scribble does not even read it.
SStep(fam, o, st) ==
  IF o.op = "Scribble" THEN [st EXCEPT !.res = Append(@, "none")]
  ELSE [st EXCEPT !.res = Append(@, IF fam = "v" THEN PathResult(o.op, st.val) ELSE NameResult(o.op, st.val))]
RECURSIVE SRun(_, _, _)
SRun(fam, ops, st) == IF ops = <<>> THEN st ELSE SRun(fam, Tail(ops), SStep(fam, Head(ops), st))

(* ------------------------------------------------------------------ case space ----- *)
(* A case is grown token by token (every prefix is itself a case), so TLC's breadth-first
   search enumerates ALL token sequences up to the bound of the family:
     "p"/full : sequences over Tok    up to LenFull      "p"/red : over TokRed up to LenRed
     "u"      : scheme x separator x rest over TokRed up to LenUri
     "n"      : binary key class x conversion path over Edges up to LenName (plain classes) / LenNameW (all)
     "x"      : rejected forms        ("b" : phase T only, a concrete binary key)
     "v"      : value session on an accepted path (over TokRed, up to LenSess) x calls up to LenOps
     "w"      : value session on the name of a plain key class x calls up to LenOps                *)
VARIABLE c
Init == \/ c \in [k : {"p"}, a : {"full", "red"}, t : {<<>>}]
        \/ c \in [k : {"u"}, sch : Schemes, sep : Seps, t : {<<>>}]
        \/ c \in [k : {"n"}, key : KeyClasses, es : {<<>>}]
        \/ c \in [k : {"x"}, key : Keys, form : BadForms]
        \/ c \in [k : {"w"}, key : {kc \in KeyClasses : Plain(kc)}, ops : {<<>>}]
Next == \/ /\ c.k = "p" /\ c.a = "full" /\ Len(c.t) < LenFull
           /\ \E x \in Tok : c' = [c EXCEPT !.t = Append(@, x)]
        \/ /\ c.k = "p" /\ c.a = "red" /\ Len(c.t) < LenRed
           /\ \E x \in TokRed : c' = [c EXCEPT !.t = Append(@, x)]
        \/ /\ c.k = "u" /\ Len(c.t) < LenUri
           /\ \E x \in TokRed : c' = [c EXCEPT !.t = Append(@, x)]
        \/ /\ c.k = "n" /\ Len(c.es) < (IF Plain(c.key) THEN LenName ELSE LenNameW)
           /\ \E x \in EdgesFor(c.key) : c' = [c EXCEPT !.es = Append(@, x)]
        \/ /\ c.k = "p" /\ c.a = "red" /\ Len(c.t) <= LenSess /\ Parse(c.t).ok
           /\ c' = [k |-> "v", t |-> c.t, ops |-> <<>>]
        \/ /\ c.k = "v" /\ Len(c.ops) < LenOps
           /\ \E o \in EnumCalls(PathOps, c.ops) : c' = [c EXCEPT !.ops = Append(@, o)]
        \/ /\ c.k = "w" /\ Len(c.ops) < LenOps
           /\ \E o \in EnumCalls(NameOps, c.ops) : c' = [c EXCEPT !.ops = Append(@, o)]
Spec == Init /\ [][Next]_c

\* what the real code must show for case c
Expect ==
  CASE c.k = "p" -> [k |-> "p", t |-> c.t, p |-> Parse(c.t), sg |-> Segments(c.t)]
    [] c.k = "u" -> [k |-> "u", sch |-> c.sch, sep |-> c.sep, t |-> c.t, p |-> ParseURI(c.sch, c.t)]
    [] c.k = "n" -> [k |-> "n", key |-> c.key, es |-> c.es, same |-> Walk(c.es, Rep(c.key)) = [ok |-> TRUE, mh |-> Rep(c.key)]]
    [] c.k = "x" -> [k |-> "x", key |-> c.key, form |-> c.form, ok |-> FALSE]
    [] c.k = "v" -> [k |-> "v", t |-> c.t, p |-> Parse(c.t), ops |-> c.ops,
                     res |-> SRun("v", c.ops, [val |-> Parse(c.t), res |-> <<>>]).res]
    [] c.k = "w" -> [k |-> "w", key |-> c.key, mh |-> Rep(c.key), ops |-> c.ops,
                     res |-> SRun("w", c.ops, [val |-> Rep(c.key), res |-> <<>>]).res]

(* ------------------------------------------------------------------ the property --- *)
P == IF c.k \in {"p", "v"} THEN Parse(c.t) ELSE IF c.k = "u" THEN ParseURI(c.sch, c.t) ELSE Reject("n/a")
Idempotent  == P.ok => Parse(Printed(P)) = P
NoDots      == P.ok => \A i \in 1..Len(P.segs) : P.segs[i] \notin {"e", "dot", "dd"}
PrintedIsCanonical == P.ok => /\ Segments(Printed(P)) = P.segs
                              /\ Len(P.segs) >= 2 /\ P.segs[1] = P.ns /\ P.ns \in Namespaces
SameRootCid == P.ok /\ ~P.mut => /\ P.cid # NoCid /\ P.cid = CidOf(P.segs[2])
                                 /\ Parse(Printed(P)).cid = P.cid
MutableHasNoCid == P.ok /\ P.mut => P.ns = "ipns" /\ P.cid = NoCid
UriEqualsPath == c.k = "u" /\ SchemeNs(c.sch) # "" =>
                   ParseURI(c.sch, c.t) = Parse(<<"e", SchemeNs(c.sch)>> \o c.t)
NameRoundTrip == c.k = "n" => Walk(c.es, Rep(c.key)) = [ok |-> TRUE, mh |-> Rep(c.key)]
\* binary laws; b = the model's representative (phases M, G) or the concrete bytes of a real key (phase T)
KeyBytes == IF c.k \in {"n", "w"} THEN Rep(c.key) ELSE c.mh
BinaryLaws == (c.k = "n" /\ c.es = <<>>) \/ c.k = "b" =>
  LET b == KeyBytes IN
  /\ InClass(b, c.key) /\ MhFramed(b)
  /\ FromRoutingKey(RoutingKeyOf(b)) = [ok |-> TRUE, mh |-> b]            \* round trip, whatever the bytes
  /\ \A v \in RkVariants : LET d == RkInput(v, b)  r == FromRoutingKey(d) IN
        /\ (r.ok => RoutingKeyOf(r.mh) = d)                              \* exact inverse: no second spelling
        /\ (v \in {"plusSlash", "minusLast", "pk", "upper"} => ~r.ok)
\* a trailing "/" is kept exactly when the input ended with one (documented for NewPath)
TrailingSlashKept == c.k \in {"p", "v"} /\ P.ok => (P.tr <=> EndsInSlash(c.t))
\* value semantics: whatever was called before -- Scribble included -- the session's value is the one it
\* was created with and every call returns what it returns on that value; Scribble targets are real slices
SessVal == IF c.k = "v" THEN Parse(c.t) ELSE KeyBytes
ValueSemantics == c.k \in {"v", "w", "b"} =>
  LET v0 == SessVal  fam == IF c.k = "v" THEN "v" ELSE "w"
      run == SRun(fam, c.ops, [val |-> v0, res |-> <<>>]) IN
  /\ run.val = v0 /\ Len(run.res) = Len(c.ops)
  /\ \A i \in 1..Len(c.ops) :
        IF c.ops[i].op = "Scribble"
        THEN c.ops[i].of \in 1..(i - 1) /\ c.ops[c.ops[i].of].op \in Yielding /\ run.res[i] = "none"
        ELSE c.ops[i].of = 0 /\ run.res[i] = (IF fam = "v" THEN PathResult(c.ops[i].op, v0) ELSE NameResult(c.ops[i].op, v0))
\* what the derived values are, in terms of the value they were derived from
DerivedLaws == c.k = "v" =>
  LET p == Parse(c.t)  j == PathResult("Join", p) IN
  /\ p.ok /\ PathResult("Reparse", p) = p
  /\ Segments(PathResult("String", p)) = p.segs /\ PathResult("Segments", p) = p.segs
  /\ PathResult("FromSegs", p) = [p EXCEPT !.tr = FALSE]
  /\ j = [p EXCEPT !.tr = FALSE, !.segs = Append(p.segs, "a")]
  /\ PathResult("Immutable", p).ok = (p.cid # NoCid)
NameValueLaws == c.k \in {"w", "b"} =>
  LET b == KeyBytes IN
  /\ NameResult("FromRK", b) = [ok |-> TRUE, mh |-> b] /\ NameResult("FromJSON", b) = [ok |-> TRUE, mh |-> b]
  /\ NameResult("Peer", b) = b /\ NameResult("RoutingKey", b) = Prefix \o b
  /\ NameResult("JSON", b).of = b /\ NameResult("Text", b).of = b

=============================================================================
