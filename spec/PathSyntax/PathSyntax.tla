------------------------------ MODULE PathSyntax ------------------------------
(* C28 -- content paths (path.NewPath / NewPathFromURI) and IPNS names (ipns.Name) as
   syntax over a TOKEN alphabet.

   A string is the tokens joined by "/".  The empty token "e" therefore yields leading,
   trailing and repeated slashes:  <<"e","ipfs","cidV0","e">>  is  "/ipfs/Qm.../".
   A token is a CLASS name; the Go harness owns the table token -> concrete text and
   self-checks the class facts assumed here (IsCid / CidOf).

   The rule below is the documented one (path.go, doc of Path / NewPath / Segments):
     * a path is /{namespace}/{root}[/rest], namespace in {ipfs, ipld, ipns};
     * the string is cleaned lexically (empty and "." segments vanish, ".." removes the
       preceding segment and vanishes at the root), the final "/" is preserved;
     * ipfs/ipld: the root must decode as a CID; ipns: any root.
   One case (variable `c`) = one initial state; TLC enumerates the case space, evaluates
   the invariants on it (phase M) and prints the expected observable (phase G).          *)
EXTENDS Naturals, Sequences, FiniteSets, TLC, Json

CONSTANTS Tok,       \* token alphabet of the full enumeration
          LenFull,   \* all sequences over Tok up to this length
          TokRed,    \* reduced alphabet (one representative per class) ...
          LenRed,    \* ... enumerated up to this (larger) length
          LenUri,    \* URI cases: rest sequences over TokRed up to this length
          LenName    \* name graph: conversion paths up to this length

(* ------------------------------------------------------------------ token classes -- *)
NoCid == <<"none", 0>>
\* the CID a token denotes (cid.Decode), NoCid if it does not decode.  Equal tuples = Equal CIDs:
\* the three cidV1 tokens are the SAME CID in three multibases.
CidOf(t) == CASE t = "cidV0"     -> <<"v0-dagpb", 1>>
              [] t = "cidV1b32"  -> <<"v1-dagpb", 1>>
              [] t = "cidV1b36"  -> <<"v1-dagpb", 1>>
              [] t = "cidV1b58"  -> <<"v1-dagpb", 1>>
              [] t = "pidRsaB58" -> <<"v0-dagpb", 2>>   \* "Qm..." peer id is textually a CIDv0
              [] t = "pidCidB36" -> <<"v1-key", 3>>     \* k51... libp2p-key CID
              [] OTHER           -> NoCid              \* incl. pidEdB58 "12D3Koo..." and badcid
IsCid(t) == CidOf(t) # NoCid

Immutable == {"ipfs", "ipld"}
Namespaces == Immutable \cup {"ipns"}

(* ------------------------------------------------------------------ strings -------- *)
\* tokens joined by "/" : first token "e" and at least two tokens <=> string starts with "/"
Rooted(ts)     == Len(ts) >= 2 /\ ts[1] = "e"
EndsInSlash(ts) == Len(ts) >= 2 /\ ts[Len(ts)] = "e"

(* lexical cleaning of a rooted path: result = the surviving segments *)
RECURSIVE CleanR(_, _)
CleanR(ts, st) ==
  IF ts = <<>> THEN st
  ELSE LET t == Head(ts) IN
       CleanR(Tail(ts),
              CASE t \in {"e", "dot"} -> st
                [] t = "dd"           -> IF st = <<>> THEN st ELSE SubSeq(st, 1, Len(st) - 1)
                [] OTHER              -> Append(st, t))
(* ... and of a relative one (StringToSegments is public): leading ".." survive *)
RECURSIVE CleanU(_, _)
CleanU(ts, st) ==
  IF ts = <<>> THEN st
  ELSE LET t == Head(ts) IN
       CleanU(Tail(ts),
              CASE t \in {"e", "dot"} -> st
                [] t = "dd"           -> IF st # <<>> /\ st[Len(st)] # "dd"
                                         THEN SubSeq(st, 1, Len(st) - 1) ELSE Append(st, t)
                [] OTHER              -> Append(st, t))
Segments(ts) == IF Rooted(ts) THEN CleanR(ts, <<>>) ELSE CleanU(ts, <<>>)

(* ------------------------------------------------------------------ Parse / Print -- *)
Reject(why) == [ok |-> FALSE, err |-> why, ns |-> "", segs |-> <<>>, tr |-> FALSE,
                mut |-> FALSE, cid |-> NoCid]
Parse(ts) ==
  LET sg == Segments(ts) IN
  IF ~Rooted(ts) \/ Len(sg) < 2 THEN Reject("insufficient")
  ELSE IF sg[1] \notin Namespaces THEN Reject("namespace")
  ELSE IF sg[1] \in Immutable /\ ~IsCid(sg[2]) THEN Reject("cid")
  ELSE [ok |-> TRUE, err |-> "", ns |-> sg[1], segs |-> sg, tr |-> EndsInSlash(ts),
        mut |-> sg[1] \notin Immutable,
        cid |-> IF sg[1] \in Immutable THEN CidOf(sg[2]) ELSE NoCid]

\* the printed form of an accepted path, again as tokens
Printed(p) == <<"e">> \o p.segs \o (IF p.tr THEN <<"e">> ELSE <<>>)

(* URI form: {scheme}:[//]{rest}; scheme matched case-insensitively; anything else is
   handed to Parse unchanged (and is then rejected: it does not start with "/").       *)
SchemeNs(s) == CASE s \in {"ipfs", "IPFS", "IpFs"} -> "ipfs"
                 [] s \in {"ipns", "IPNS"}         -> "ipns"
                 [] s \in {"ipld", "iPLD"}         -> "ipld"
                 [] OTHER                          -> ""      \* "http", "ipfsx", "ipf"
Schemes == {"ipfs", "IPFS", "IpFs", "ipns", "IPNS", "ipld", "iPLD", "http", "ipfsx", "ipf"}
Seps    == {"", "//"}
ParseURI(s, rest) == IF SchemeNs(s) # "" THEN Parse(<<"e", SchemeNs(s)>> \o rest)
                     ELSE Reject("insufficient")

(* ------------------------------------------------------------------ IPNS names ----- *)
\* A name is the multihash of a public key; model name = key type.  An EDGE renders the name
\* in some form and parses it back:
Edges == {"String",      \* Name.String()  (base36 libp2p-key CID)      -> NameFromString
          "StringNs",    \* "/ipns/" + String()                         -> NameFromString
          "B58",         \* Peer().String() (legacy base58 multihash)   -> NameFromString
          "CidB32",      \* Cid().String()                              -> NameFromString
          "CidB58",      \* Cid() in base58btc ("z...")                 -> NameFromString
          "CidB36U",     \* Cid() in upper-case base36 ("K...")         -> NameFromString
          "Cid",         \* Cid()                                       -> NameFromCid
          "RoutingKey",  \* RoutingKey()                                -> NameFromRoutingKey
          "Peer",        \* Peer()                                      -> NameFromPeer
          "Path",        \* AsPath().String()                           -> NameFromString
          "PathSeg",     \* NewPath("/ipns/"+B58).Segments()[1]         -> NameFromString
          "JSON"}        \* MarshalJSON                                 -> UnmarshalJSON
\* renderings that must be REJECTED
BadForms == {"CidDagPb",        \* same multihash, codec dag-pb: NameFromCid and NameFromString reject
             "RoutingKeyBare",  \* multihash bytes without the "/ipns/" prefix
             "RoutingKeyPk",    \* "/pk/" + multihash
             "Garbage", "Empty",
             "IpfsPrefixed"}    \* "/ipfs/" + String()
Keys == {"rsa2048", "ed25519", "secp256k1", "ecdsa"}
\* model of an edge: identity on the name (that is the property); canonical text is form "String"
Via(edge, name) == name
RECURSIVE Walk(_, _)
Walk(es, name) == IF es = <<>> THEN name ELSE Walk(Tail(es), Via(Head(es), name))

(* ------------------------------------------------------------------ case space ----- *)
(* A case is grown token by token (every prefix is itself a case), so TLC's breadth-first
   search enumerates ALL token sequences up to the bound of the family:
     "p"/full : sequences over Tok    up to LenFull      "p"/red : over TokRed up to LenRed
     "u"      : scheme x separator x rest over TokRed up to LenUri
     "n"      : key type x conversion path over Edges up to LenName     "x" : rejected forms *)
VARIABLE c
Init == \/ c \in [k : {"p"}, a : {"full", "red"}, t : {<<>>}]
        \/ c \in [k : {"u"}, sch : Schemes, sep : Seps, t : {<<>>}]
        \/ c \in [k : {"n"}, key : Keys, es : {<<>>}]
        \/ c \in [k : {"x"}, key : Keys, form : BadForms]
Next == \/ /\ c.k = "p" /\ c.a = "full" /\ Len(c.t) < LenFull
           /\ \E x \in Tok : c' = [c EXCEPT !.t = Append(@, x)]
        \/ /\ c.k = "p" /\ c.a = "red" /\ Len(c.t) < LenRed
           /\ \E x \in TokRed : c' = [c EXCEPT !.t = Append(@, x)]
        \/ /\ c.k = "u" /\ Len(c.t) < LenUri
           /\ \E x \in TokRed : c' = [c EXCEPT !.t = Append(@, x)]
        \/ /\ c.k = "n" /\ Len(c.es) < LenName
           /\ \E x \in Edges : c' = [c EXCEPT !.es = Append(@, x)]
Spec == Init /\ [][Next]_c

\* what the real code must show for case c
Expect ==
  CASE c.k = "p" -> [k |-> "p", t |-> c.t, p |-> Parse(c.t), sg |-> Segments(c.t)]
    [] c.k = "u" -> [k |-> "u", sch |-> c.sch, sep |-> c.sep, t |-> c.t, p |-> ParseURI(c.sch, c.t)]
    [] c.k = "n" -> [k |-> "n", key |-> c.key, es |-> c.es, same |-> Walk(c.es, c.key) = c.key]
    [] c.k = "x" -> [k |-> "x", key |-> c.key, form |-> c.form, ok |-> FALSE]

(* ------------------------------------------------------------------ the property --- *)
P == IF c.k = "p" THEN Parse(c.t) ELSE IF c.k = "u" THEN ParseURI(c.sch, c.t) ELSE Reject("n/a")
Idempotent  == P.ok => Parse(Printed(P)) = P
NoDots      == P.ok => \A i \in 1..Len(P.segs) : P.segs[i] \notin {"e", "dot", "dd"}
PrintedIsCanonical == P.ok => /\ Segments(Printed(P)) = P.segs
                              /\ Len(P.segs) >= 2 /\ P.segs[1] = P.ns /\ P.ns \in Namespaces
SameRootCid == P.ok /\ ~P.mut => /\ P.cid # NoCid /\ P.cid = CidOf(P.segs[2])
                                 /\ Parse(Printed(P)).cid = P.cid
MutableHasNoCid == P.ok /\ P.mut => P.ns = "ipns" /\ P.cid = NoCid
UriEqualsPath == c.k = "u" /\ SchemeNs(c.sch) # "" =>
                   ParseURI(c.sch, c.t) = Parse(<<"e", SchemeNs(c.sch)>> \o c.t)
NameRoundTrip == c.k = "n" => Walk(c.es, c.key) = c.key
\* a trailing "/" is kept exactly when the input ended with one (documented for NewPath)
TrailingSlashKept == c.k = "p" /\ P.ok => (P.tr <=> EndsInSlash(c.t))

=============================================================================
