SPECIFICATION TSpec
CONSTANTS Tok = {}
          TokRed = {}
          LenFull = 0
          LenRed = 0
          LenUri = 0
          LenName = 0
          LenNameW = 0
          LenSess = 0
          LenOps = 0
          Devs = @DEVS@
INVARIANTS Idempotent NoDots PrintedIsCanonical SameRootCid MutableHasNoCid UriEqualsPath TrailingSlashKept BinaryLaws ValueSemantics DerivedLaws NameValueLaws
CONSTRAINT TraceConstraint
POSTCONDITION TracePost
CHECK_DEADLOCK FALSE
