--------------------------- MODULE TracePathSyntax ---------------------------
(* Phase T: parser calls recorded from the real code on long random token sequences
   (beyond the exhaustive bound of phase G).  Every logged result must be exactly what the
   rule of PathSyntax dictates, and the module's invariants are evaluated on every logged
   case (c is set to the case of the event). *)
EXTENDS PathSyntax, Integers

Trace == ndJsonDeserialize("trace.ndjson")
CONSTANT Devs
VARIABLE l
tvars == <<c, l>>
ASSUME TLCSet(1, 0)

Ev == Trace[l]
IsEvent(e) == l <= Len(Trace) /\ Trace[l].ev = e /\ l' = l + 1

TInit == l = 1 /\ c = [k |-> "p", a |-> "full", t |-> <<>>]

TParse == /\ IsEvent("Parse") /\ Ev.detail = ""
          /\ Parse(Ev.t) = Ev.p
          /\ Segments(Ev.t) = Ev.sg
          /\ c' = [k |-> "p", a |-> "full", t |-> Ev.t]
TParseURI == /\ IsEvent("ParseURI") /\ Ev.detail = ""
             /\ Ev.sch \in Schemes /\ Ev.sep \in Seps
             /\ ParseURI(Ev.sch, Ev.t) = Ev.p
             /\ c' = [k |-> "u", sch |-> Ev.sch, sep |-> Ev.sep, t |-> Ev.t]

\* a concrete binary key used by the harness for key class Ev.key: the bytes must really be in the class,
\* and RoutingKey() must be "/ipns/" + exactly those bytes
TNameKey == /\ IsEvent("NameKey")
            /\ Ev.key \in KeyClasses /\ InClass(Ev.mh, Ev.key)
            /\ Ev.rk = RoutingKeyOf(Ev.mh)
            /\ c' = [k |-> "b", key |-> Ev.key, mh |-> Ev.mh, ops |-> <<>>]
\* NameFromRoutingKey on a byte string derived from the current key: result = the rule, byte for byte
TNameRK == /\ IsEvent("NameRK") /\ c.k = "b"
           /\ Ev.v \in RkVariants /\ Ev.d = RkInput(Ev.v, c.mh)
           /\ OneByteFraming(IF HasPrefix(Ev.d, Prefix) THEN RkRest(Ev.d) ELSE <<>>)
           /\ FromRoutingKey(Ev.d) = Ev.r
           /\ UNCHANGED c


(* value sessions (PathSyntax: SStep).  VOpen: a path value was created from Ev.t; VCall: one call of the
   session alphabet on it -- Scribble included, which is a step like any other and leaves the value alone.
   After EVERY step the harness re-observes the value through all the handles it holds (the original, copies
   taken before / after, wrappers) and every value derived earlier: Ev.vals must all be the session's value,
   Ev.ders[i] the result the spec gave for the call that derived it, Ev.open the still unscribbled slices. *)
TVOpen == /\ IsEvent("VOpen") /\ Ev.detail = ""
          /\ Parse(Ev.t) = Ev.p /\ Ev.p.ok
          /\ c' = [k |-> "v", t |-> Ev.t, ops |-> <<>>]
StepResult(fam, o, v) == SStep(fam, o, [val |-> v, res |-> <<>>]).res[1]
TVCall == /\ IsEvent("VCall") /\ c.k = "v" /\ Ev.detail = ""
          /\ LET o == [op |-> Ev.op, of |-> Ev.of]  v == Parse(c.t)  ops2 == Append(c.ops, o) IN
             /\ o \in NextCalls(PathOps, c.ops)
             /\ Ev.r = StepResult("v", o, v)
             /\ \A i \in 1..Len(Ev.vals) : Ev.vals[i] = v
             /\ \A i \in 1..Len(Ev.ders) : Ev.ders[i].of \in 1..Len(ops2) /\ ops2[Ev.ders[i].of].op \in {"Reparse", "Join", "FromSegs"}
                                              /\ Ev.ders[i].p = PathResult(ops2[Ev.ders[i].of].op, v)
             /\ \A i \in 1..Len(Ev.open) : Ev.open[i].of \in OpenSlices(ops2)
                                              /\ ops2[Ev.open[i].of].op = "Segments" /\ Ev.open[i].sg = v.segs
             /\ c' = [c EXCEPT !.ops = Append(@, o)]
\* ... and on the name of the current binary key (after NameKey)
TNCall == /\ IsEvent("NCall") /\ c.k = "b" /\ Ev.detail = ""
          /\ LET o == [op |-> Ev.op, of |-> Ev.of]  ops2 == Append(c.ops, o) IN
             /\ o \in NextCalls(NameOps, c.ops)
             /\ Ev.r = StepResult("w", o, c.mh)
             /\ \A i \in 1..Len(Ev.vals) : Ev.vals[i] = [mh |-> c.mh, rk |-> RoutingKeyOf(c.mh)]
             /\ \A i \in 1..Len(Ev.open) : Ev.open[i].of \in OpenSlices(ops2)
                                              /\ ops2[Ev.open[i].of].op = "RoutingKey" /\ Ev.open[i].b = RoutingKeyOf(c.mh)
             /\ c' = [c EXCEPT !.ops = Append(@, o)]

TNext == TParse \/ TParseURI \/ TNameKey \/ TNameRK \/ TVOpen \/ TVCall \/ TNCall
TSpec == TInit /\ [][TNext]_tvars

TraceConstraint == TLCSet(1, IF l - 1 > TLCGet(1) THEN l - 1 ELSE TLCGet(1))
TracePost == PrintT(<<"TRACE_HWM", TLCGet(1)>>)
=============================================================================
