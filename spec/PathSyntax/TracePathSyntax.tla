--------------------------- MODULE TracePathSyntax ---------------------------
(* Phase T: parser calls recorded from the real code on long random token sequences
   (beyond the exhaustive bound of phase G).  Every logged result must be exactly what the
   rule of PathSyntax dictates, and the module's invariants are evaluated on every logged
   case (c is set to the case of the event). *)
EXTENDS PathSyntax, Integers

Trace == ndJsonDeserialize("trace.ndjson")
CONSTANT Devs
VARIABLE l
tvars == <<c, l>>
ASSUME TLCSet(1, 0)

Ev == Trace[l]
IsEvent(e) == l <= Len(Trace) /\ Trace[l].ev = e /\ l' = l + 1

TInit == l = 1 /\ c = [k |-> "p", a |-> "full", t |-> <<>>]

TParse == /\ IsEvent("Parse") /\ Ev.detail = ""
          /\ Parse(Ev.t) = Ev.p
          /\ Segments(Ev.t) = Ev.sg
          /\ c' = [k |-> "p", a |-> "full", t |-> Ev.t]
TParseURI == /\ IsEvent("ParseURI") /\ Ev.detail = ""
             /\ Ev.sch \in Schemes /\ Ev.sep \in Seps
             /\ ParseURI(Ev.sch, Ev.t) = Ev.p
             /\ c' = [k |-> "u", sch |-> Ev.sch, sep |-> Ev.sep, t |-> Ev.t]

\* a concrete binary key used by the harness for key class Ev.key: the bytes must really be in the class,
\* and RoutingKey() must be "/ipns/" + exactly those bytes
TNameKey == /\ IsEvent("NameKey")
            /\ Ev.key \in KeyClasses /\ InClass(Ev.mh, Ev.key)
            /\ Ev.rk = RoutingKeyOf(Ev.mh)
            /\ c' = [k |-> "b", key |-> Ev.key, mh |-> Ev.mh]
\* NameFromRoutingKey on a byte string derived from the current key: result = the rule, byte for byte
TNameRK == /\ IsEvent("NameRK") /\ c.k = "b"
           /\ Ev.v \in RkVariants /\ Ev.d = RkInput(Ev.v, c.mh)
           /\ OneByteFraming(IF HasPrefix(Ev.d, Prefix) THEN RkRest(Ev.d) ELSE <<>>)
           /\ FromRoutingKey(Ev.d) = Ev.r
           /\ UNCHANGED c

TNext == TParse \/ TParseURI \/ TNameKey \/ TNameRK
TSpec == TInit /\ [][TNext]_tvars

TraceConstraint == TLCSet(1, IF l - 1 > TLCGet(1) THEN l - 1 ELSE TLCGet(1))
TracePost == PrintT(<<"TRACE_HWM", TLCGet(1)>>)
=============================================================================
