------------------------------- MODULE Backoff -------------------------------
(* C46, numeric part: peerHandler.nextBackoff.
     if d < Max:  d := d + d/2 + rand[0, d)
     if d > Max:  d := Max - rand[0, Max * Jitter / 100)
   M: all sequences of consecutive failures in whole seconds (InitDelay = 5, MaxDelay = 600); the failure
      counter n saturates at MaxFails (only "n >= 13" matters), so sequences of any length (>= 100) are covered.
   T: (prev, next) pairs recorded from the real nextBackoff in milliseconds are checked against InBackoffMs,
      which allows for the truncation of nanoseconds to milliseconds. *)
EXTENDS Integers, Sequences, TLC, Json
CONSTANTS InitDelay, MaxDelay, JitterPct, MaxFails

VARIABLES d, n
bvars == <<d, n>>

Cap(x) == IF x > MaxDelay THEN {MaxDelay - j : j \in 0..((MaxDelay * JitterPct) \div 100 - 1)} ELSE {x}
Backoff(x) == IF x < MaxDelay THEN UNION {Cap(x + x \div 2 + r) : r \in 0..(x - 1)} ELSE Cap(x)

BInit == d = InitDelay /\ n = 0
BNext == d' \in Backoff(d) /\ n' = (IF n < MaxFails THEN n + 1 ELSE n)
BSpec == BInit /\ [][BNext]_bvars

\* every scheduled delay is in (0, 10 minutes]
BackoffBounded == d > 0 /\ d <= MaxDelay
\* ... is longer than the initial delay once it went through nextBackoff, and reaches the top 10% band
BackoffGrows == (n >= 1 => d > InitDelay) /\ (n >= 13 => 10 * d > 9 * MaxDelay - 10)
\* it never shrinks below the band once there
BackoffStep == [][d' >= d \/ 10 * d' > 9 * MaxDelay - 10]_bvars
=============================================================================
