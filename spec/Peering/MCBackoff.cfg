SPECIFICATION BSpec
CONSTANTS InitDelay = 5
          MaxDelay = 600
          JitterPct = 10
          MaxFails = 14
INVARIANTS BackoffBounded BackoffGrows
PROPERTIES BackoffStep
