SPECIFICATION Spec
CONSTANTS Peers = {"a", "b"}
          MaxH = 2
          MaxPend = 1
          MaxEnv = 2
          MaxFire = 2
          MaxDialFail = 1
          StopOrders = {"cancel-first"}
          Devs = {"Dev_C46_RearmAfterStop"}
INVARIANTS NoDialAfterStop
