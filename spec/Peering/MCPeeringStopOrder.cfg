SPECIFICATION Spec
CONSTANTS Peers = {"a", "b"}
          MaxH = 2
          MaxPend = 1
          MaxEnv = 2
          MaxFire = 1
          MaxDialFail = 1
          StopOrders = {"timer-first"}
          Devs = {}
INVARIANTS NoTimerAfterStop
