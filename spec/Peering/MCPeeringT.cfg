SPECIFICATION Spec
CONSTANTS Peers = {"a", "b"}
          MaxH = 2
          MaxPend = 2
          MaxEnv = 2
          MaxFire = 2
          MaxDialFail = 2
          StopOrders = {"cancel-first"}
          Devs = {}
INVARIANTS TypeOK ScheduledWhileRunning ArmedDelayGrown NoTimerAfterStop NoDialAfterStop ConnectedQuiet
