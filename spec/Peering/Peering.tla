------------------------------- MODULE Peering -------------------------------
(* C46 -- peering/peering.go: the peering service and its per-peer handlers.

   A handler (peerHandler) is created by AddPeer and identified by its creation number 1..nh;
   RemovePeer + AddPeer of the same peer creates a NEW handler while goroutines and the timer
   of the old one may still be around.  One action per critical section:
     AddPeer / RemovePeer / Start / Stop           under ps.mu; Stop/RemovePeer stop handlers in two
                                                   sub-steps each: cancel()  (HCancel) and, under ph.mu
                                                   (lock .. unlock = one atomic step), timer.Stop();
                                                   timer = nil  (HStopTimer).  The ORDER of the two is a
                                                   parameter (StopOrders): "cancel-first" is what the
                                                   properties need; with "timer-first" (clear the timer,
                                                   unlock, cancel afterwards) a handler goroutine that runs
                                                   between the two sub-steps sees a live context and a nil
                                                   timer and arms a timer nobody stops (NoTimerAfterStop
                                                   fails: MCPeeringStopOrder.cfg).  Handler goroutines
                                                   interleave at every sub-step boundary.
     EnvConn / EnvDisc                             the network changes connectedness and calls the
                                                   notifee, which spawns  go stopIfConnected /
                                                   go startIfDisconnected  on the current handler
     RunStart / RunStopc / RunRStopc               the critical sections of those goroutines (and of the
                                                   stopIfConnected call at the end of reconnect)
     TimerFire                                     the reconnect timer fires: go reconnect()
     DialStart / DialOk / DialFail                 host.Connect called / returned
     RecFailReset                                  reconnect after a failed Connect: timer.Reset(nextBackoff())
   Pending goroutines are a bag  pend[kind, h].

   The module states the IDEAL behaviour; the code as built differs in two named deviations:
     Dev_C46_RearmAfterStop   startIfDisconnected does not look at the handler's context: a goroutine
                              spawned before Stop()/RemovePeer() that runs afterwards arms the timer of
                              the stopped handler, which then calls Connect and re-arms for ever.
     Dev_C46_FiredTimerLeft   reconnect whose Connect succeeded but whose peer is no longer connected
                              when stopIfConnected looks leaves the fired timer in place: nothing is
                              scheduled and startIfDisconnected (timer # nil) will not schedule either.
   Delays are abstracted to the classes "init" (= initialDelay) and "grown" (after >= 1 nextBackoff);
   the numeric law of nextBackoff is the separate module Backoff. *)
EXTENDS Naturals, FiniteSets, TLC, Json

CONSTANTS Peers,      \* peer names
          MaxH,       \* bound on handlers ever created
          MaxPend,    \* bound on equal pending goroutines
          MaxEnv,     \* bound on EnvConn + EnvDisc
          MaxFire,    \* bound on TimerFire
          MaxDialFail,\* bound on DialFail
          StopOrders, \* subset of {"cancel-first", "timer-first"}: possible orders of the sub-steps of handler.stop()
          Devs

H == 1..MaxH
Kinds == {"start", "stopc", "rec", "dial", "recfail", "rstopc"}
Dev1 == "Dev_C46_RearmAfterStop"
Dev2 == "Dev_C46_FiredTimerLeft"

VARIABLES
  state,      \* "init" | "running" | "stopped"
  registered, \* notifee registered with the network (Start .. StopNotify)
  api,        \* "none" | "stop" | "remove": a Stop()/RemovePeer() call is between call and return
  tostop,     \* [H -> "no" | "both" | "cancel" | "timer"]  sub-steps of handler.stop() left for the call in progress
  cur,        \* [Peers -> 0..MaxH]  ps.peers
  nh,         \* handlers created
  hpeer,      \* [H -> Peers]
  cancelled,  \* [H -> BOOLEAN]      ph.ctx cancelled
  timer,      \* [H -> "none" | "armed" | "fired"]   nil | running | non-nil but expired
  delay,      \* [H -> "init" | "grown"]
  connected,  \* [Peers -> BOOLEAN]  what the network reports
  pend,       \* [Kinds \X H -> 0..MaxPend]
  \* ---- ghost ----
  retired,    \* handlers whose Stop()/RemovePeer() has returned
  laterec,    \* handlers with a reconnect goroutine that was spawned (timer fired) after they were retired
  lateDial,   \* such a goroutine has called Connect
  startErr,   \* result of the last Start call
  nenv, nfire, nfail,
  dev

svars == <<state, registered, api, tostop, cur, nh, hpeer>>
hvars == <<cancelled, timer, delay, connected, pend>>
gvars == <<retired, laterec, lateDial, startErr, nenv, nfire, nfail, dev>>
vars  == <<svars, hvars, gvars>>

AnyPeer == CHOOSE p \in Peers : TRUE
Init == /\ state = "init" /\ registered = FALSE /\ api = "none"
        /\ tostop = [h \in H |-> "no"] /\ cur = [p \in Peers |-> 0] /\ nh = 0
        /\ hpeer = [h \in H |-> AnyPeer]
        /\ cancelled = [h \in H |-> FALSE] /\ timer = [h \in H |-> "none"]
        /\ delay = [h \in H |-> "init"] /\ connected \in [Peers -> BOOLEAN]
        /\ pend = [x \in Kinds \X H |-> 0]
        /\ retired = {} /\ laterec = {} /\ lateDial = FALSE /\ startErr = FALSE
        /\ nenv = 0 /\ nfire = 0 /\ nfail = 0 /\ dev = {}

Inc(k, h) == [pend EXCEPT ![<<k, h>>] = @ + 1]
Dec(k, h) == [pend EXCEPT ![<<k, h>>] = @ - 1]
Move(k1, k2, h) == [pend EXCEPT ![<<k1, h>>] = @ - 1, ![<<k2, h>>] = @ + 1]
CurHandlers == {cur[p] : p \in Peers} \ {0}

(* ------------------------------------------------------------------ service API (under ps.mu) *)
AddPeer(p) ==
  /\ api = "none"
  /\ IF cur[p] # 0
     THEN UNCHANGED <<cur, nh, hpeer, cancelled, pend>>            \* only setAddrs
     ELSE /\ nh < MaxH
          /\ nh' = nh + 1 /\ cur' = [cur EXCEPT ![p] = nh + 1]
          /\ hpeer' = [hpeer EXCEPT ![nh + 1] = p]
          /\ cancelled' = [cancelled EXCEPT ![nh + 1] = (state = "stopped")]
          /\ pend' = IF state = "running" THEN Inc("start", nh + 1) ELSE pend
  \* a handler created after Stop() is born stopped
  /\ retired' = IF cur[p] = 0 /\ state = "stopped" THEN retired \cup {nh + 1} ELSE retired
  /\ UNCHANGED <<state, registered, api, tostop, timer, delay, connected,
                 lateDial, laterec, startErr, nenv, nfire, nfail, dev>>

RemoveCall(p) ==
  /\ api = "none" /\ api' = "remove"
  /\ IF cur[p] = 0 THEN UNCHANGED <<tostop, cur>>
     ELSE /\ tostop' = [tostop EXCEPT ![cur[p]] = "both"]
          /\ cur' = [cur EXCEPT ![p] = 0]
  /\ UNCHANGED <<state, registered, nh, hpeer, hvars, gvars>>

StopCall ==
  /\ api = "none" /\ api' = "stop"
  /\ registered' = FALSE                                         \* StopNotify comes first
  /\ tostop' = IF state = "stopped" THEN tostop
               ELSE [h \in H |-> IF h \in CurHandlers THEN "both" ELSE "no"]
  /\ UNCHANGED <<state, cur, nh, hpeer, hvars, gvars>>

\* handler.stop(), sub-step ph.cancel(): first ("cancel-first") or after the timer has been cleared
HCancel(h) == /\ \/ tostop[h] = "both" /\ "cancel-first" \in StopOrders
                 \/ tostop[h] = "cancel"
              /\ cancelled' = [cancelled EXCEPT ![h] = TRUE]
              /\ tostop' = [tostop EXCEPT ![h] = IF tostop[h] = "both" THEN "timer" ELSE "no"]
              /\ UNCHANGED <<state, registered, api, cur, nh, hpeer, timer, delay, connected, pend, gvars>>
\* handler.stop(), sub-step under ph.mu (lock; stop and forget the timer; unlock): after the cancel, or first
\* ("timer-first")
HStopTimer(h) == /\ \/ tostop[h] = "both" /\ "timer-first" \in StopOrders
                    \/ tostop[h] = "timer"
                 /\ timer' = [timer EXCEPT ![h] = "none"]
                 /\ tostop' = [tostop EXCEPT ![h] = IF tostop[h] = "both" THEN "cancel" ELSE "no"]
                 /\ UNCHANGED <<state, registered, api, cur, nh, hpeer, cancelled, delay, connected, pend, gvars>>

\* Stop()/RemovePeer() return: every handler they stopped is retired from now on
ApiRet(kind) ==
  /\ api = kind /\ \A h \in H : tostop[h] = "no"
  /\ api' = "none"
  /\ state' = IF kind = "stop" THEN "stopped" ELSE state
  /\ retired' = retired \cup {h \in 1..nh : cancelled[h] /\ (h \notin CurHandlers \/ kind = "stop")}
  /\ UNCHANGED <<registered, tostop, cur, nh, hpeer, hvars, laterec, lateDial, startErr, nenv, nfire, nfail, dev>>

StartCall ==
  /\ api = "none"
  /\ CASE state = "init" ->
            /\ \A h \in CurHandlers : pend[<<"start", h>>] < MaxPend
            /\ state' = "running" /\ registered' = TRUE /\ startErr' = FALSE
            /\ pend' = [x \in Kinds \X H |-> IF x[1] = "start" /\ x[2] \in CurHandlers THEN pend[x] + 1 ELSE pend[x]]
       [] state = "running" -> /\ startErr' = FALSE /\ UNCHANGED <<state, registered, pend>>
       [] state = "stopped" -> /\ startErr' = TRUE /\ UNCHANGED <<state, registered, pend>>
  /\ UNCHANGED <<api, tostop, cur, nh, hpeer, cancelled, timer, delay, connected,
                 retired, laterec, lateDial, nenv, nfire, nfail, dev>>

(* ------------------------------------------------------------------ network events *)
Spawned(k, p) == IF registered /\ cur[p] # 0 /\ pend[<<k, cur[p]>>] < MaxPend THEN Inc(k, cur[p]) ELSE pend
CanSpawn(k, p) == (registered /\ cur[p] # 0) => pend[<<k, cur[p]>>] < MaxPend

EnvConn(p) == /\ api = "none" /\ ~connected[p] /\ CanSpawn("stopc", p)
              /\ connected' = [connected EXCEPT ![p] = TRUE]
              /\ pend' = Spawned("stopc", p)
              /\ nenv' = nenv + 1
              /\ UNCHANGED <<svars, cancelled, timer, delay, retired, laterec, lateDial, startErr, nfire, nfail, dev>>
EnvDisc(p) == /\ api = "none" /\ connected[p] /\ CanSpawn("start", p)
              /\ connected' = [connected EXCEPT ![p] = FALSE]
              /\ pend' = Spawned("start", p)
              /\ nenv' = nenv + 1
              /\ UNCHANGED <<svars, cancelled, timer, delay, retired, laterec, lateDial, startErr, nfire, nfail, dev>>

(* ------------------------------------------------------------------ handler goroutines (under ph.mu) *)
\* startIfDisconnected reaching Connectedness (timer = nil)
RunStart(h) ==
  /\ pend[<<"start", h>>] > 0 /\ timer[h] = "none"
  /\ pend' = Dec("start", h)
  /\ IF ~connected[hpeer[h]] /\ ~cancelled[h]
     THEN /\ timer' = [timer EXCEPT ![h] = "armed"] /\ delay' = [delay EXCEPT ![h] = "grown"]
     ELSE UNCHANGED <<timer, delay>>
  /\ UNCHANGED <<svars, cancelled, connected, gvars>>
\* AS BUILT: ... on a handler whose context is cancelled: arms the timer all the same
DevRunStart(h) ==
  /\ Dev1 \in Devs
  /\ pend[<<"start", h>>] > 0 /\ timer[h] = "none" /\ ~connected[hpeer[h]] /\ cancelled[h]
  /\ pend' = Dec("start", h)
  /\ timer' = [timer EXCEPT ![h] = "armed"] /\ delay' = [delay EXCEPT ![h] = "grown"]
  /\ dev' = dev \cup {Dev1}
  /\ UNCHANGED <<svars, cancelled, connected, retired, laterec, lateDial, startErr, nenv, nfire, nfail>>
\* startIfDisconnected that returns without asking the network (timer # nil, or ideal: context cancelled)
RunStartNoop(h) ==
  /\ pend[<<"start", h>>] > 0 /\ (timer[h] # "none" \/ cancelled[h])
  /\ pend' = Dec("start", h)
  /\ UNCHANGED <<svars, cancelled, timer, delay, connected, gvars>>

\* stopIfConnected (goroutine of a Connected notification) reaching Connectedness (timer # nil)
RunStopc(h) ==
  /\ pend[<<"stopc", h>>] > 0 /\ timer[h] # "none"
  /\ pend' = Dec("stopc", h)
  /\ IF connected[hpeer[h]]
     THEN /\ timer' = [timer EXCEPT ![h] = "none"] /\ delay' = [delay EXCEPT ![h] = "init"]
     ELSE UNCHANGED <<timer, delay>>
  /\ UNCHANGED <<svars, cancelled, connected, gvars>>
RunStopcNoop(h, k) ==
  /\ k \in {"stopc", "rstopc"} /\ pend[<<k, h>>] > 0 /\ timer[h] = "none"
  /\ pend' = Dec(k, h)
  /\ UNCHANGED <<svars, cancelled, timer, delay, connected, gvars>>

\* the check at the end of reconnect (timer # nil): connected -> stop; IDEAL: otherwise make sure the
\* timer is running again (a fired timer must not be left behind)
RunRStopc(h) ==
  /\ pend[<<"rstopc", h>>] > 0 /\ timer[h] # "none"
  /\ pend' = Dec("rstopc", h)
  /\ IF connected[hpeer[h]]
     THEN /\ timer' = [timer EXCEPT ![h] = "none"] /\ delay' = [delay EXCEPT ![h] = "init"]
     ELSE IF timer[h] = "fired"
          THEN /\ timer' = [timer EXCEPT ![h] = "armed"] /\ delay' = [delay EXCEPT ![h] = "grown"]
          ELSE UNCHANGED <<timer, delay>>
  /\ UNCHANGED <<svars, cancelled, connected, gvars>>
\* AS BUILT: not connected and the timer has fired: nothing happens
DevRunRStopc(h) ==
  /\ Dev2 \in Devs
  /\ pend[<<"rstopc", h>>] > 0 /\ timer[h] = "fired" /\ ~connected[hpeer[h]]
  /\ pend' = Dec("rstopc", h)
  /\ dev' = dev \cup {Dev2}
  /\ UNCHANGED <<svars, cancelled, timer, delay, connected, retired, laterec, lateDial, startErr, nenv, nfire, nfail>>

TimerFire(h) ==
  /\ timer[h] = "armed" /\ pend[<<"rec", h>>] < MaxPend
  /\ timer' = [timer EXCEPT ![h] = "fired"]
  /\ pend' = Inc("rec", h)
  /\ nfire' = nfire + 1
  /\ laterec' = IF h \in retired THEN laterec \cup {h} ELSE laterec
  /\ UNCHANGED <<svars, cancelled, delay, connected, retired, lateDial, startErr, nenv, nfail, dev>>

\* reconnect: host.Connect(ph.ctx, ...) is called
DialStart(h) ==
  /\ pend[<<"rec", h>>] > 0 /\ pend[<<"dial", h>>] < MaxPend
  /\ pend' = Move("rec", "dial", h)
  /\ lateDial' = (lateDial \/ h \in laterec)
  /\ UNCHANGED <<svars, cancelled, timer, delay, connected, retired, laterec, startErr, nenv, nfire, nfail, dev>>
\* Connect returns nil: the peer is connected (a cancelled context never connects); the network
\* notifies before Connect returns
DialOk(h) ==
  /\ api = "none" /\ pend[<<"dial", h>>] > 0 /\ ~cancelled[h] /\ pend[<<"rstopc", h>>] < MaxPend
  /\ LET p  == hpeer[h]
         p1 == Move("dial", "rstopc", h)
     IN /\ connected' = [connected EXCEPT ![p] = TRUE]
        /\ pend' = IF ~connected[p] /\ registered /\ cur[p] # 0 /\ p1[<<"stopc", cur[p]>>] < MaxPend
                   THEN [p1 EXCEPT ![<<"stopc", cur[p]>>] = @ + 1] ELSE p1
        /\ (~connected[p] /\ registered /\ cur[p] # 0) => p1[<<"stopc", cur[p]>>] < MaxPend
  /\ UNCHANGED <<svars, cancelled, timer, delay, gvars>>
\* Connect returns an error (dial failed, or the context was cancelled)
DialFail(h) ==
  /\ pend[<<"dial", h>>] > 0 /\ pend[<<"recfail", h>>] < MaxPend
  /\ pend' = Move("dial", "recfail", h)
  /\ nfail' = nfail + 1
  /\ UNCHANGED <<svars, cancelled, timer, delay, connected, retired, laterec, lateDial, startErr, nenv, nfire, dev>>
\* reconnect after the error, under ph.mu: if the timer still exists Reset(nextBackoff())
RecFailReset(h) ==
  /\ pend[<<"recfail", h>>] > 0 /\ pend[<<"rstopc", h>>] < MaxPend
  /\ pend' = Move("recfail", "rstopc", h)
  /\ IF timer[h] # "none"
     THEN /\ timer' = [timer EXCEPT ![h] = "armed"] /\ delay' = [delay EXCEPT ![h] = "grown"]
     ELSE UNCHANGED <<timer, delay>>
  /\ UNCHANGED <<svars, cancelled, connected, gvars>>

Internal(h) == \/ HCancel(h) \/ HStopTimer(h)
               \/ RunStart(h) \/ DevRunStart(h) \/ RunStartNoop(h)
               \/ RunStopc(h) \/ RunRStopc(h) \/ DevRunRStopc(h)
               \/ RunStopcNoop(h, "stopc") \/ RunStopcNoop(h, "rstopc")
               \/ DialStart(h) \/ RecFailReset(h)

Next == \/ \E p \in Peers : AddPeer(p) \/ RemoveCall(p)
        \/ StartCall \/ StopCall \/ ApiRet("stop") \/ ApiRet("remove")
        \/ \E p \in Peers : nenv < MaxEnv /\ (EnvConn(p) \/ EnvDisc(p))
        \/ \E h \in H : h <= nh /\ Internal(h)
        \/ \E h \in H : h <= nh /\ nfire < MaxFire /\ TimerFire(h)
        \/ \E h \in H : h <= nh /\ DialOk(h)
        \/ \E h \in H : h <= nh /\ nfail < MaxDialFail /\ DialFail(h)
Spec == Init /\ [][Next]_vars

(* ------------------------------------------------------------------ properties *)
TypeOK == /\ state \in {"init", "running", "stopped"} /\ api \in {"none", "stop", "remove"}
          /\ cur \in [Peers -> 0..MaxH] /\ nh \in 0..MaxH /\ tostop \in [H -> {"no", "both", "cancel", "timer"}]
          /\ timer \in [H -> {"none", "armed", "fired"}] /\ delay \in [H -> {"init", "grown"}]
          /\ pend \in [Kinds \X H -> 0..MaxPend]
NoPending(h) == \A k \in Kinds : pend[<<k, h>>] = 0
\* while the service runs every disconnected peering peer has a reconnect scheduled
\* (as soon as no goroutine of its handler is still on its way)
ScheduledWhileRunning ==
  \A p \in Peers : (state = "running" /\ api = "none" /\ cur[p] # 0 /\ ~connected[p] /\ NoPending(cur[p]))
                     => timer[cur[p]] = "armed"
\* a scheduled delay is never the bare initial delay (it went through nextBackoff)
ArmedDelayGrown == \A h \in H : timer[h] = "armed" => delay[h] = "grown"
\* once Stop()/RemovePeer() has returned the handler never has a running timer again ...
NoTimerAfterStop == \A h \in retired : timer[h] # "armed"
\* ... and no reconnect started afterwards calls Connect
NoDialAfterStop == ~lateDial
\* a connected peer with nothing on its way has no timer and starts from the initial delay again
ConnectedQuiet ==
  \A p \in Peers : (state = "running" /\ api = "none" /\ cur[p] # 0 /\ connected[p] /\ NoPending(cur[p]))
                     => (timer[cur[p]] = "none" /\ delay[cur[p]] = "init")
=============================================================================
