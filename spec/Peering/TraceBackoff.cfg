SPECIFICATION TSpec
CONSTANTS InitMs = 5000
          MaxMs = 600000
          JitterPct = 10
INVARIANTS Bounded
CONSTRAINT TraceConstraint
POSTCONDITION TracePost
CHECK_DEADLOCK FALSE
