---------------------------- MODULE TraceBackoff ----------------------------
(* Phase T for the numeric part of C46: sequences of (prev, next) milliseconds recorded from the real
   peerHandler.nextBackoff (100 consecutive failures per sequence). *)
EXTENDS Integers, Sequences, TLC, Json
CONSTANTS InitMs, MaxMs, JitterPct

Trace == ndJsonDeserialize("trace.ndjson")
VARIABLES l, cur
ASSUME TLCSet(1, 0)
Ev == Trace[l]
IsEvent(e) == l <= Len(Trace) /\ Trace[l].ev = e /\ l' = l + 1

\* next = prev + prev/2 + r, r in [0, prev), all in ns; logged values are floor(ns / 10^6)
Uncapped(p, x) == 2 * x + 2 >= 3 * p /\ 2 * x <= 5 * p + 5
InBand(x)      == x <= MaxMs /\ 100 * x >= (100 - JitterPct) * MaxMs - 100
InBackoffMs(p, x) ==
  /\ x > 0 /\ x <= MaxMs
  /\ IF p >= MaxMs THEN x = p
     ELSE \/ Uncapped(p, x)
          \/ (5 * p + 5 > 2 * MaxMs /\ InBand(x))          \* prev + prev/2 + r may exceed the maximum

TInit  == l = 1 /\ cur = InitMs
TReset == IsEvent("BackoffReset") /\ Ev.d = InitMs /\ cur' = Ev.d
TStep  == /\ IsEvent("Backoff") /\ Ev.prev = cur /\ Ev.same /\ Ev.pos
          /\ InBackoffMs(Ev.prev, Ev.next) /\ cur' = Ev.next
TSpec  == TInit /\ [][TReset \/ TStep]_<<l, cur>>

TraceConstraint == TLCSet(1, IF l - 1 > TLCGet(1) THEN l - 1 ELSE TLCGet(1))
TracePost == PrintT(<<"TRACE_HWM", TLCGet(1)>>)
Bounded == cur > 0 /\ cur <= MaxMs
=============================================================================
