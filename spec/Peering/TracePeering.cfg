SPECIFICATION TSpec
CONSTANTS Peers = {"a", "b"}
          MaxH = 10
          MaxPend = 8
          MaxEnv = 0
          MaxFire = 0
          MaxDialFail = 0
          StopOrders = {"cancel-first", "timer-first"}
          Devs = @DEVS@
INVARIANTS TypeOK DevReport
CONSTRAINT TraceConstraint
POSTCONDITION TracePost
CHECK_DEADLOCK FALSE
