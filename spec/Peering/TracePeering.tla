---------------------------- MODULE TracePeering ----------------------------
(* Phase T for C46: a history recorded from the real PeeringService running against the fake host
   must be a behaviour of Peering.  Logged: API calls (call and return for Stop/RemovePeer/Start),
   network events, every critical section that asks the network for Connectedness (Run), timer firings
   forced by the harness, Connect calls and their outcomes, observations of handler state (Obs) and
   quiescence points (Quiet: no service goroutine is running), and the ph.cancel() sub-step of handler.stop()
   (HCancel, logged by the wrapper the harness puts around ph.cancel, with what it saw of the timer:
   "none" | "set" | "locked" = ph.mu was held).  Not logged, hence silent: the other sub-step of
   handler.stop() (lock; timer.Stop(); timer = nil; unlock) -- it may come before or after the logged
   HCancel (StopOrders = both orders; the observation and the events around it decide) --, goroutines that
   return without asking the network, and the Reset after a failed Connect.  The wrapper lets the pending
   handler goroutines run before and/or after the real cancel, i.e. between the sub-steps of stop().  Timers never fire on their own during a run (delays are >= 7.5 s, a run
   takes milliseconds and every observed armed timer is pushed an hour ahead): TimerFire is always logged.  The properties are part of acceptance
   (PropertyHolds): a history is accepted iff SOME explanation satisfies them throughout.  *)
EXTENDS Peering, Integers, Sequences

Trace == ndJsonDeserialize("trace.ndjson")
VARIABLE l
tlvars == <<vars, l>>
ASSUME TLCSet(1, 0)

Ev == Trace[l]
IsEvent(e) == l <= Len(Trace) /\ Trace[l].ev = e /\ l' = l + 1
Hs == 1..nh

TInit == l = 1 /\ Init

TReset ==
  /\ IsEvent("Reset")
  /\ state' = "init" /\ registered' = FALSE /\ api' = "none"
  /\ tostop' = [h \in H |-> "no"] /\ cur' = [p \in Peers |-> 0] /\ nh' = 0
  /\ hpeer' = [h \in H |-> AnyPeer]
  /\ cancelled' = [h \in H |-> FALSE] /\ timer' = [h \in H |-> "none"]
  /\ delay' = [h \in H |-> "init"] /\ connected' = [p \in Peers |-> Ev.conn[p]]
  /\ pend' = [x \in Kinds \X H |-> 0]
  /\ retired' = {} /\ laterec' = {} /\ lateDial' = FALSE /\ startErr' = FALSE
  /\ nenv' = 0 /\ nfire' = 0 /\ nfail' = 0 /\ dev' = dev

TAddPeer    == /\ IsEvent("AddPeer") /\ Ev.p \in Peers
               /\ Ev.h = (IF cur[Ev.p] = 0 THEN nh + 1 ELSE 0)
               /\ AddPeer(Ev.p)
TRemoveCall == IsEvent("RemoveCall") /\ Ev.p \in Peers /\ RemoveCall(Ev.p)
TRemoveRet  == IsEvent("RemoveRet") /\ ApiRet("remove")
TStopCall   == IsEvent("StopCall") /\ StopCall
TStopRet    == IsEvent("StopRet") /\ ApiRet("stop")
TStartCall  == IsEvent("StartCall") /\ StartCall
TStartRet   == IsEvent("StartRet") /\ Ev.err = startErr /\ UNCHANGED vars
THCancel    == /\ IsEvent("HCancel") /\ Ev.h \in Hs
               /\ CASE Ev.tm = "none" -> timer[Ev.h] = "none"
                    [] Ev.tm = "set"  -> timer[Ev.h] # "none"
                    [] OTHER          -> TRUE
               /\ HCancel(Ev.h)
TEnvConn    == IsEvent("EnvConn") /\ Ev.reg = registered /\ EnvConn(Ev.p)
TEnvDisc    == IsEvent("EnvDisc") /\ Ev.reg = registered /\ EnvDisc(Ev.p)
TRun ==
  /\ IsEvent("Run")
  /\ \E h \in (IF Ev.h = 0 THEN Hs ELSE {Ev.h} \cap Hs) :
       /\ hpeer[h] = Ev.p /\ Ev.conn = connected[Ev.p]
       /\ CASE Ev.kind = "start"  -> RunStart(h) \/ DevRunStart(h)
            [] Ev.kind = "stopc"  -> RunStopc(h)
            [] Ev.kind = "rstopc" -> RunRStopc(h) \/ DevRunRStopc(h)
TTimerFire  == IsEvent("TimerFire") /\ Ev.h \in Hs /\ TimerFire(Ev.h)
TDialStart  == IsEvent("DialStart") /\ Ev.h \in Hs /\ Ev.cancelled = cancelled[Ev.h] /\ DialStart(Ev.h)
TDialRet    == /\ IsEvent("DialRet") /\ Ev.h \in Hs
               /\ CASE Ev.res = "ok"     -> DialOk(Ev.h)
                    [] Ev.res = "fail"   -> DialFail(Ev.h)
                    [] Ev.res = "cancel" -> cancelled[Ev.h] /\ DialFail(Ev.h)
TObs        == /\ IsEvent("Obs") /\ Ev.h \in Hs
               /\ timer[Ev.h] = Ev.timer /\ delay[Ev.h] = Ev.delay /\ cancelled[Ev.h] = Ev.cancelled
               /\ UNCHANGED vars
\* no goroutine of the service is running: everything pending is a Connect call waiting for its outcome
TQuiet      == /\ IsEvent("Quiet")
               /\ \A h \in H, k \in Kinds \ {"dial"} : pend[<<k, h>>] = 0
               /\ \A h \in H : pend[<<"dial", h>>] <= 1
               /\ Cardinality({h \in H : pend[<<"dial", h>>] = 1}) = Ev.dials
               /\ UNCHANGED vars

Silent == /\ l' = l /\ l <= Len(Trace)
          /\ \E h \in Hs : \/ HStopTimer(h) \/ RunStartNoop(h)
                           \/ RunStopcNoop(h, "stopc") \/ RunStopcNoop(h, "rstopc")
                           \/ RecFailReset(h)

TNext == \/ TReset \/ TAddPeer \/ TRemoveCall \/ TRemoveRet \/ TStopCall \/ TStopRet \/ TStartCall \/ TStartRet \/ THCancel
         \/ TEnvConn \/ TEnvDisc \/ TRun \/ TTimerFire \/ TDialStart \/ TDialRet \/ TObs \/ TQuiet \/ Silent
TSpec == TInit /\ [][TNext]_tlvars

PropertyHolds == /\ (ScheduledWhileRunning \/ Dev2 \in dev)
                 /\ (NoTimerAfterStop \/ Dev1 \in dev)
                 /\ (NoDialAfterStop \/ Dev1 \in dev)
                 /\ ArmedDelayGrown /\ ConnectedQuiet
TraceConstraint == /\ TLCSet(1, IF l - 1 > TLCGet(1) THEN l - 1 ELSE TLCGet(1))
                   /\ PropertyHolds
TracePost == PrintT(<<"TRACE_HWM", TLCGet(1)>>)
DevReport == l <= Len(Trace) \/ \A d \in dev : PrintT(<<"DEV_USED", d>>)
=============================================================================
