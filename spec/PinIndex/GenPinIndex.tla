----------------------------- MODULE GenPinIndex -----------------------------
(* Phase G for C24.  Three generators over the same actions:
   GSpec     every call sequence of length D (exhaustive BFS; emitted at length E = D);
   GSpecSG   state-graph cover: with VIEW idx TLC keeps one (shortest) history per distinct
             multimap and prints, for EVERY transition out of every distinct multimap, that
             history extended by the transition (every (state, call) pair is replayed once);
   GSpecSim  -simulate: long random call sequences, one printed per E steps.
   Every step carries the call, its expected result and the expected answer of the whole
   query battery in the state after the call. *)
EXTENDS PinIndex, Randomization
CONSTANTS D, E
VARIABLE hist
gvars == <<vars, hist>>

SetToSeqOfPairs(S) == S   \* sets are printed as JSON arrays of [k,v]

\* expected query battery in the state after the step (primed by the caller)
Battery(ix) ==
  LET VO(k)  == {p[2] : p \in {q \in ix : q[1] = k}}
      FE(k)  == IF k = 0 THEN ix ELSE {p \in ix : p[1] = k}
  IN [ search  |-> [i \in 1..(NK+1) |-> IF i = 1 THEN [err |-> "ErrEmptyKey", vals |-> {}]
                                                  ELSE [err |-> "ok", vals |-> VO(i-1)]],
       hasany  |-> [i \in 1..(NK+1) |-> FE(i-1) # {}],
       foreach |-> [i \in 1..(NK+1) |-> FE(i-1)],
       hasvalue|-> [i \in 1..(NK+1) |-> [j \in 1..(NV+1) |->
                        IF ArgErr(i-1, j-1) # "ok" THEN ArgErr(i-1, j-1)
                        ELSE IF <<i-1, j-1>> \in ix THEN "true" ELSE "false"]] ]

Step(op, k, v, err, n) ==
  hist' = Append(hist, [op |-> op, k |-> k, v |-> v, err |-> err, n |-> n, idx |-> idx', q |-> Battery(idx')])

GInit == Init /\ hist = <<>>
Calls == \/ \E k \in KeysE, v \in ValsE : \/ Add(k, v) /\ Step("Add", k, v, AddRes(k, v), 0)
                                          \/ Delete(k, v) /\ Step("Delete", k, v, DeleteRes(k, v), 0)
         \/ \E k \in KeysE : DeleteKey(k) /\ Step("DeleteKey", k, 0, DeleteKeyRes(k).err, DeleteKeyRes(k).n)
         \/ DeleteAll /\ Step("DeleteAll", 0, 0, "ok", DeleteAllRes.n)

GNext == Len(hist) < D /\ Calls
GSpec == GInit /\ [][GNext]_gvars
Emit  == Len(hist) # E \/ PrintT(<<"BEHAVIOUR", ToJson([steps |-> hist])>>)

\* state-graph cover (use with VIEW SGView)
SGView  == idx
GNextSG == Calls /\ PrintT(<<"BEHAVIOUR", ToJson([steps |-> hist'])>>)
GSpecSG == GInit /\ [][GNextSG]_gvars

Flush    == /\ Len(hist) = E
            /\ PrintT(<<"BEHAVIOUR", ToJson([steps |-> hist])>>)
            /\ hist' = <<>> /\ idx' = {}
\* one random call per step (\E over a random singleton binds the choice once)
SimCalls == \E k \in RandomSubset(1, KeysE), v \in RandomSubset(1, ValsE), o \in RandomSubset(1, 1..12) :
              CASE o <= 6  -> Add(k, v) /\ Step("Add", k, v, AddRes(k, v), 0)
                [] o <= 9  -> Delete(k, v) /\ Step("Delete", k, v, DeleteRes(k, v), 0)
                [] o <= 11 -> DeleteKey(k) /\ Step("DeleteKey", k, 0, DeleteKeyRes(k).err, DeleteKeyRes(k).n)
                [] OTHER   -> DeleteAll /\ Step("DeleteAll", 0, 0, "ok", DeleteAllRes.n)
GNextSim == IF Len(hist) = E THEN Flush ELSE SimCalls
GSpecSim == GInit /\ [][GNextSim]_gvars
=============================================================================
