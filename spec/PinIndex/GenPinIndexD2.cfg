SPECIFICATION GSpec
CONSTANTS NK = 3
          NV = 3
          D = 2
          E = 2
INVARIANTS Emit
