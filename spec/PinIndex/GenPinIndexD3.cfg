SPECIFICATION GSpec
CONSTANTS NK = 3
          NV = 3
          D = 3
          E = 3
INVARIANTS Emit
