SPECIFICATION GSpecSG
CONSTANTS NK = 2
          NV = 2
          D = 0
          E = 0
VIEW SGView
