SPECIFICATION GSpecSG
CONSTANTS NK = 3
          NV = 3
          D = 0
          E = 0
VIEW SGView
