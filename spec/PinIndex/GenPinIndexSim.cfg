SPECIFICATION GSpecSim
CONSTANTS NK = 3
          NV = 3
          D = 1000
          E = 40
