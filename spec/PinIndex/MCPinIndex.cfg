SPECIFICATION Spec
CONSTANTS NK = 3
          NV = 3
INVARIANTS TypeOK QueriesAgree
PROPERTIES FailedCallNoChange OwnKeyOnly
