------------------------------- MODULE PinIndex -------------------------------
(* C24 -- pinning/pinner/dsindex/indexer.go: a secondary index is a MULTIMAP, i.e. a set of
   (key, value) pairs of arbitrary non-empty strings.  One action per mutating call of the
   Indexer interface, one operator per query.  Model keys / values are small integers; 0 is
   the EMPTY string (the only string with special meaning: rejected by Add/Delete/DeleteKey/
   HasValue/Search, "all keys" for ForEach/HasAny).  Which byte strings the integers stand
   for is the harness' business (prefix-related strings, prefix-related encodings, "/", NUL,
   non-UTF-8, length 1 and 1000): the model says that NOTHING about the strings matters
   except equality. *)
EXTENDS Naturals, Sequences, FiniteSets, TLC, Json

CONSTANTS NK,   \* non-empty keys 1..NK
          NV    \* non-empty values 1..NV

Keys  == 1..NK
Vals  == 1..NV
KeysE == 0..NK          \* with the empty string
ValsE == 0..NV

VARIABLE idx            \* the multimap: a subset of Keys \X Vals
vars == <<idx>>

Init == idx = {}

(* ---- argument validation (same rule for every call that takes the argument) ------------ *)
ArgErr(k, v) == IF k = 0 THEN "ErrEmptyKey" ELSE IF v = 0 THEN "ErrEmptyValue" ELSE "ok"
KeyErr(k)    == IF k = 0 THEN "ErrEmptyKey" ELSE "ok"

(* ---- queries: what a caller must observe ------------------------------------------------ *)
ValuesOf(k)      == {p[2] : p \in {q \in idx : q[1] = k}}
SearchRes(k)     == IF k = 0 THEN [err |-> "ErrEmptyKey", vals |-> {}] ELSE [err |-> "ok", vals |-> ValuesOf(k)]
HasValueRes(k,v) == IF ArgErr(k, v) # "ok" THEN [err |-> ArgErr(k, v), has |-> FALSE]
                    ELSE [err |-> "ok", has |-> <<k, v>> \in idx]
ForEachRes(k)    == IF k = 0 THEN idx ELSE {p \in idx : p[1] = k}   \* "" enumerates every key
HasAnyRes(k)     == ForEachRes(k) # {}                               \* "" : any entry at all

(* ---- mutators: result (error string or count) and effect -------------------------------- *)
AddRes(k, v)     == ArgErr(k, v)
DeleteRes(k, v)  == ArgErr(k, v)                    \* deleting an absent pair is not an error
DeleteKeyRes(k)  == IF k = 0 THEN [err |-> "ErrEmptyKey", n |-> 0] ELSE [err |-> "ok", n |-> Cardinality(ValuesOf(k))]
DeleteAllRes     == [err |-> "ok", n |-> Cardinality(idx)]

Add(k, v)     == idx' = IF ArgErr(k, v) = "ok" THEN idx \cup {<<k, v>>} ELSE idx
Delete(k, v)  == idx' = IF ArgErr(k, v) = "ok" THEN idx \ {<<k, v>>} ELSE idx
DeleteKey(k)  == idx' = IF k = 0 THEN idx ELSE {p \in idx : p[1] # k}
DeleteAll     == idx' = {}
Query         == UNCHANGED idx

Next == \/ \E k \in KeysE, v \in ValsE : Add(k, v) \/ Delete(k, v)
        \/ \E k \in KeysE : DeleteKey(k)
        \/ DeleteAll

Spec == Init /\ [][Next]_vars

(* ---- invariants ------------------------------------------------------------------------- *)
TypeOK == idx \subseteq Keys \X Vals           \* the empty string never becomes a key or a value

\* all query APIs describe the same multimap (and a key only ever reports its own values)
QueriesAgree ==
  /\ \A k \in Keys : /\ SearchRes(k).vals = {v \in Vals : HasValueRes(k, v).has}
                     /\ HasAnyRes(k) = (SearchRes(k).vals # {})
                     /\ ForEachRes(k) = {k} \X SearchRes(k).vals
  /\ ForEachRes(0) = UNION {ForEachRes(k) : k \in Keys}
  /\ HasAnyRes(0) = (\E k \in Keys : HasAnyRes(k))

\* a failed call (empty argument) changes nothing; a successful one changes only its own key
FailedCallNoChange == [][\A k \in KeysE, v \in ValsE :
                           /\ (ArgErr(k, v) # "ok" /\ (Add(k, v) \/ Delete(k, v))) => UNCHANGED idx
                           /\ (k = 0 /\ DeleteKey(k)) => UNCHANGED idx]_vars
OwnKeyOnly == [][\A k \in Keys : (\E v \in ValsE : Add(k, v) \/ Delete(k, v)) \/ DeleteKey(k)
                     => \A j \in Keys \ {k} : ValuesOf(j)' = ValuesOf(j)]_vars
=============================================================================
