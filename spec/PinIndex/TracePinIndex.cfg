SPECIFICATION TSpec
CONSTANTS NK = 6
          NV = 6
INVARIANTS TypeOK QueriesAgree
CONSTRAINT TraceConstraint
POSTCONDITION TracePost
CHECK_DEADLOCK FALSE
