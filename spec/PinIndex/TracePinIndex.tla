---------------------------- MODULE TracePinIndex ----------------------------
(* Phase T for C24: a recorded history of the real indexer over random byte strings (projected
   to 1..NK / 1..NV by the harness' string pool, 0 = "") must be a behaviour of PinIndex with
   every logged result equal to what the multimap dictates. *)
EXTENDS PinIndex, Integers

Trace == ndJsonDeserialize("trace.ndjson")
VARIABLE l
tvars == <<vars, l>>
ASSUME TLCSet(1, 0)

Ev == Trace[l]
IsEvent(e) == l <= Len(Trace) /\ Trace[l].ev = e /\ l' = l + 1
ToSet(s) == {s[i] : i \in 1..Len(s)}
Pairs(s) == {<<s[i][1], s[i][2]>> : i \in 1..Len(s)}

TInit == l = 1 /\ idx = {}

TReset     == IsEvent("Reset") /\ idx' = {}
TAdd       == IsEvent("Add") /\ Ev.err = AddRes(Ev.k, Ev.v) /\ Add(Ev.k, Ev.v)
TDelete    == IsEvent("Delete") /\ Ev.err = DeleteRes(Ev.k, Ev.v) /\ Delete(Ev.k, Ev.v)
TDeleteKey == IsEvent("DeleteKey") /\ [err |-> Ev.err, n |-> Ev.n] = DeleteKeyRes(Ev.k) /\ DeleteKey(Ev.k)
TDeleteAll == IsEvent("DeleteAll") /\ [err |-> Ev.err, n |-> Ev.n] = DeleteAllRes /\ DeleteAll
TSearch    == /\ IsEvent("Search") /\ Ev.detail = ""
              /\ SearchRes(Ev.k) = [err |-> Ev.err, vals |-> ToSet(Ev.vals)]
              /\ Len(Ev.vals) = Cardinality(ToSet(Ev.vals))
              /\ Query
TBool(b)   == IF b THEN "true" ELSE "false"
THasValue  == /\ IsEvent("HasValue")
              /\ Ev.res = (IF HasValueRes(Ev.k, Ev.v).err # "ok" THEN HasValueRes(Ev.k, Ev.v).err
                           ELSE TBool(HasValueRes(Ev.k, Ev.v).has))
              /\ Query
THasAny    == IsEvent("HasAny") /\ Ev.detail = "" /\ Ev.has = HasAnyRes(Ev.k) /\ Query
TForEach   == /\ IsEvent("ForEach") /\ Ev.detail = ""
              /\ Pairs(Ev.pairs) = ForEachRes(Ev.k) /\ Len(Ev.pairs) = Cardinality(ForEachRes(Ev.k))
              /\ Ev.raw = Cardinality(idx)          \* nothing else is left in the datastore
              /\ Query
TForEachStop == /\ IsEvent("ForEachStop") /\ Ev.detail = ""
                /\ IF ForEachRes(Ev.k) = {} THEN Ev.n = 0
                   ELSE Ev.n = 1 /\ <<Ev.pair[1], Ev.pair[2]>> \in ForEachRes(Ev.k)
                /\ Query

TNext == TReset \/ TAdd \/ TDelete \/ TDeleteKey \/ TDeleteAll \/ TSearch \/ THasValue \/ THasAny
         \/ TForEach \/ TForEachStop
TSpec == TInit /\ [][TNext]_tvars

TraceConstraint == TLCSet(1, IF l - 1 > TLCGet(1) THEN l - 1 ELSE TLCGet(1))
TracePost == PrintT(<<"TRACE_HWM", TLCGet(1)>>)
=============================================================================
