------------------------------ MODULE GenPinner ------------------------------
(* Phase G for C22.  Generators over the calls of Pinner:
   GSpecSG   state-graph cover: VIEW = the pinner state, so TLC keeps one (shortest) history per
             distinct <<DAG, present, rec, dir>> and prints that history extended by EVERY call
             possible in that state (each (state, call) pair is replayed once);
   GSpecSim  -simulate: a fresh random DAG with shared subtrees and missing blocks every E
             calls, one random call per step.
   Every step carries: the call, the IDEAL expectation (result + the answer of the whole query
   battery in the state after the call) and, where an as-built deviation applies to this very
   step, the alternative expectation with the names of the deviations that explain it.  The
   history always continues from the IDEAL state. *)
EXTENDS MCPinner, Randomization
CONSTANTS E,           \* simulation: calls per behaviour
          MaxMissing   \* simulation: blocks missing initially (0..MaxMissing)
VARIABLES hist, dag0
gvars == <<vars, hist, dag0>>

GCalls(s) == Calls(s)

StateDevs == {"Dev_C22_FailedRepinUnpins", "Dev_C22_UpdateKeepsDirect"}
QueryDev  == "Dev_C22_IndirectRootReported"
Exp(a, D) == [res |-> a.res, obs |-> Obs(a.s, D)]
\* the query deviation only changes the answers of IsPinnedWithType(c, Indirect)
WithQ(e, s) == LET k == Ctx(s)
               IN [e EXCEPT !.obs.isp = [c \in Nodes |-> [e.obs.isp[c] EXCEPT ![3] = IsPinnedAns(k, c, 3, {QueryDev})]]]
StepRec(s, o) ==
  LET a0  == Apply(s, o, {})
      sd  == {d \in StateDevs : Apply(s, o, {d}) # a0}          \* at most one applies to one call
      a1  == Apply(s, o, sd)
      e0  == Exp(a0, {})
      e0q == WithQ(e0, a0.s)
      e1  == Exp(a1, {})
      e1q == WithQ(e1, a1.s)
      alts == (IF e0q # e0 THEN {[devs |-> {QueryDev}, exp |-> e0q, samestate |-> TRUE]} ELSE {})
              \cup (IF sd # {} THEN {[devs |-> sd, exp |-> e1, samestate |-> FALSE]} ELSE {})
              \cup (IF sd # {} /\ e1q # e1 THEN {[devs |-> sd \cup {QueryDev}, exp |-> e1q, samestate |-> FALSE]} ELSE {})
  IN [o |-> o, exp |-> e0, alts |-> alts]

GDo(o) == /\ hist' = Append(hist, StepRec(St, o))
          /\ LET a == Apply(St, o, {}) IN present' = a.s.present /\ rec' = a.s.rec /\ dir' = a.s.dir
          /\ UNCHANGED <<links, dag0>>
Beh(h) == [n |-> N, links |-> dag0.links, present |-> dag0.present, steps |-> h]
\* state-graph cover: the steps before the last one were the last steps of other behaviours; they keep
\* only the result and the pin/block state (enough to notice where the real state leaves the history)
SlimE(e)  == [res |-> e.res, obs |-> [rkeys |-> e.obs.rkeys, dkeys |-> e.obs.dkeys, present |-> e.obs.present]]
Slim(st)  == [o |-> st.o, exp |-> SlimE(st.exp),
              alts |-> {[devs |-> a.devs, exp |-> SlimE(a.exp), samestate |-> a.samestate] : a \in {x \in st.alts : ~x.samestate}}]
BehSG(h)  == [n |-> N, links |-> dag0.links, present |-> dag0.present,
              steps |-> [i \in 1..Len(h) |-> IF i < Len(h) THEN Slim(h[i]) ELSE h[i]]]

GInit == /\ Init /\ hist = <<>>
         /\ dag0 = [links |-> links, present |-> present]

SGView  == <<links, present, rec, dir, dag0>>
GNextSG == \E o \in GCalls(St) : GDo(o) /\ PrintT(<<"BEHAVIOUR", ToJson(BehSG(hist'))>>)
GSpecSG == GInit /\ [][GNextSG]_gvars

\* ---- simulation ---------------------------------------------------------------------------
Min(a, b) == IF a < b THEN a ELSE b
Higher(n) == {m \in Nodes : m > n}
\* (the parameter only keeps TLC from caching the random value as a constant)
RandDag(h) == [n \in Nodes |-> RandomSubset(Min(Cardinality(Higher(n)), RandomElement(0..3) + 0 * Len(h)), Higher(n))]
NewDag == /\ links' = RandDag(hist)
          /\ present' = Nodes \ RandomSubset(RandomElement(0..MaxMissing) + 0 * Len(hist), Nodes)
          /\ rec' = {} /\ dir' = {} /\ hist' = <<>>
          /\ dag0' = [links |-> links', present |-> present']
SimInit == /\ links = [n \in Nodes |-> {}] /\ present = Nodes /\ rec = {} /\ dir = {}
           /\ hist = <<>> /\ dag0 = [links |-> links, present |-> present] 
\* one random call per step: the kind first (weighted), then random arguments; half of the time the
\* node is taken among the pinned ones.  A call the documentation does not determine is replaced by Unpin.
Kinds == <<"Pin", "Pin", "Pin", "Pin", "Pin", "PinMode", "PinMode", "PinMode", "Unpin", "Unpin", "Update", "Update", "Update">>
Pinnd == RecRoots(St) \cup DirRoots(St)
SimCall ==
  \E i \in RandomSubset(1, 1..Len(Kinds)), coin \in RandomSubset(1, 1..4),
     f \in RandomSubset(1, BOOLEAN), nm \in RandomSubset(1, Names), m0 \in RandomSubset(1, ModeSet), vm \in RandomSubset(1, 1..4),
     ft \in RandomSubset(1, {"none", "none", "none"} \cup FaultSet), w \in RandomSubset(1, 1..3) :
    LET kind == Kinds[i]
        m == IF vm = 1 THEN m0 ELSE IF vm = 2 THEN 2 ELSE 1       \* mostly the two valid modes
        fault == IF w = 1 THEN ft ELSE "none"                 \* two thirds of the calls without fault
        pool == IF kind = "Update" THEN (IF RecRoots(St) # {} /\ coin > 1 THEN RecRoots(St) ELSE Nodes)
                ELSE IF Pinnd # {} /\ coin > 2 THEN Pinnd ELSE Nodes
    IN \E c \in RandomSubset(1, pool), c2 \in RandomSubset(1, Nodes) :
         LET o == CASE kind = "Pin"     -> Op("Pin", c, 0, f, nm, 0, IF fault = "cancelFetch" /\ ~f THEN "none" ELSE fault)
                    [] kind = "PinMode" -> Op("PinMode", c, 0, FALSE, nm, m, IF fault = "cancelFetch" THEN "none" ELSE fault)
                    [] kind = "Unpin"   -> Op("Unpin", c, 0, f, "", 0, IF fault = "cancelFetch" THEN "none" ELSE fault)
                    [] OTHER            -> Op("Update", c, c2, f, "", 0, fault)
         IN IF IsCall(St, o) THEN GDo(o) ELSE GDo(Op("Unpin", c, 0, f, "", 0, "none"))
Flush    == PrintT(<<"BEHAVIOUR", ToJson(Beh(hist))>>) /\ NewDag
GNextSim == IF Len(hist) = E THEN Flush
            ELSE IF Len(hist) = 0 /\ dag0.links = [n \in Nodes |-> {}] /\ dag0.present = Nodes /\ rec = {} /\ dir = {} /\ links = dag0.links
                 THEN NewDag \/ SimCall ELSE SimCall
GSpecSim == SimInit /\ [][GNextSim]_gvars
=============================================================================
