SPECIFICATION GSpecSG
CONSTANTS N = 2
          Names = {"", "a"}
          Devs = {}
          InitDags <- Chain2
          E = 0
          GenFaults = {"none", "cancelFetch"}
          GenModes = {1, 2, 4}
          MaxMissing = 0
VIEW SGView
