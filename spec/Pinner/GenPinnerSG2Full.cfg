SPECIFICATION GSpecSG
CONSTANTS N = 2
          Names = {"", "a"}
          Devs = {}
          InitDags <- AllDags
          MaxMiss = 1
          ModeSet = {1, 2, 3, 4, 5, 6, 7}
          FaultSet = {"none", "cancelled", "cancelFetch"}
          E = 0
          MaxMissing = 0
VIEW SGView
