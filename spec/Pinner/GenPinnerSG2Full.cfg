SPECIFICATION GSpecSG
CONSTANTS N = 2
          Names = {"", "a"}
          Devs = {}
          InitDags <- AllDags
          E = 0
          GenFaults = {"none", "cancelled", "cancelFetch"}
          GenModes = {1, 2, 3, 4, 5, 6, 7}
          MaxMissing = 0
VIEW SGView
