SPECIFICATION GSpecSG
CONSTANTS N = 3
          Names = {"", "a"}
          Devs = {}
          InitDags <- Shared3
          MaxMiss = 1
          ModeSet = {1, 2, 4}
          FaultSet = {"none", "cancelFetch"}
          E = 0
          MaxMissing = 0
VIEW SGView
