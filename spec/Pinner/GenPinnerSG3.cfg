SPECIFICATION GSpecSG
CONSTANTS N = 3
          Names = {"", "a"}
          Devs = {}
          InitDags <- Dags3
          E = 0
          GenFaults = {"none", "cancelFetch"}
          GenModes = {1, 2, 3}
          MaxMissing = 0
VIEW SGView
