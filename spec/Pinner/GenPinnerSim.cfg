SPECIFICATION GSpecSim
CONSTANTS N = 8
          Names = {"", "a", "b"}
          Devs = {}
          InitDags <- AllDags
          MaxMiss = 0
          ModeSet = {1, 2, 3, 4, 5, 6, 7}
          FaultSet = {"none", "cancelled", "cancelFetch"}
          E = 20
          MaxMissing = 2
