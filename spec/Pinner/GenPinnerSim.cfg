SPECIFICATION GSpecSim
CONSTANTS N = 8
          Names = {"", "a", "b"}
          Devs = {}
          InitDags <- AllDags
          E = 20
          GenFaults = {"none", "cancelled", "cancelFetch"}
          GenModes = {1, 2, 3, 4, 5, 6, 7}
          MaxMissing = 2
