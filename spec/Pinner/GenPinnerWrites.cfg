SPECIFICATION GSpec
CONSTANTS NC = 2
          Names = {"", "a"}
          Devs = {}
          MaxOps = 3
          MaxCrashes = 1
          SyncEvery = 1
          MaxStale = 0
CHECK_DEADLOCK FALSE
