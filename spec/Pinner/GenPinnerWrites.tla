--------------------------- MODULE GenPinnerWrites ---------------------------
(* C23 generator: call histories of the write-level model whose last call can be stopped in a state
   where ONE CID HAS TWO PIN RECORDS (new pin written, replaced pin not yet removed: Update onto a
   directly pinned target, re-pin with another name, direct -> recursive upgrade), or whose last call
   is an Update refused because the target is already pinned recursively.  The harness runs each
   chosen history on the real pinner and stops the last call after every one of its writes; the
   recovery of such a state is where an over-eager stale-index repair destroys the sibling record's
   index entries.  Setup calls all write; the first call is on cid 1 (symmetry). *)
EXTENDS PinnerWrites
VARIABLES hist,   \* the calls so far: [op, c, c2, flag, name, nw = number of writes the call issues in the model]
          pre     \* pin records before the last call
gvars == <<vars, hist, pre>>

TwoRecs == \E p, q \in recs : p.id # q.id /\ p.c = q.c
Last == hist[Len(hist)]
Interesting == \/ phase = "op" /\ TwoRecs
               \/ IF phase = "idle" /\ hist # <<>>
                  THEN /\ Last.op = "Update" /\ Last.nw = 0 /\ Last.c # Last.c2
                       /\ PinsOf("r", Last.c2) # {} /\ Cardinality(PinsOf("r", Last.c)) = 1
                  ELSE FALSE

GInit == Init /\ hist = <<>> /\ pre = {}
GBegin == /\ (IF hist = <<>> THEN TRUE ELSE Last.nw > 0)
          /\ Begin
          /\ (IF hist = <<>> THEN cur'.o.c = 1 ELSE TRUE)
          /\ hist' = Append(hist, [op |-> cur'.o.op, c |-> cur'.o.c, c2 |-> cur'.o.c2, flag |-> cur'.o.flag,
                                   name |-> cur'.o.name, nw |-> Len(prog')])
          /\ pre' = recs
GWrite == Write /\ UNCHANGED <<hist, pre>>
GCrash == /\ Interesting
          /\ Crash
          /\ PrintT(<<"BEHAVIOUR", ToJson([h |-> hist, k |-> (IF phase = "op" THEN Last.nw - Len(prog) ELSE 0),
                                            pre |-> pre, two |-> TwoRecs])>>)
          /\ UNCHANGED <<hist, pre>>
GNext == GBegin \/ GWrite \/ GCrash
GSpec == GInit /\ [][GNext]_gvars
=============================================================================
