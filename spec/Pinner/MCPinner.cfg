SPECIFICATION Spec
CONSTANTS N = 3
          Names = {"", "a"}
          Devs = {}
          InitDags <- Dags3
INVARIANTS TypeOK RecursiveSupersedesDirect RepinReplacesName IndirectDef QueriesAgree FailedCallNoChange
