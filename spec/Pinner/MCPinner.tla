------------------------------- MODULE MCPinner -------------------------------
(* model-checking instances of Pinner: the DAG families explored exhaustively *)
EXTENDS Pinner
\* N = 2: one link
Chain2 == { <<{2}, {}>> }
\* N = 3: a shared subtree (1 -> 2 -> 3, 1 -> 3) and two roots over one child
Dags3 == { <<{2, 3}, {3}, {}>>, <<{3}, {3}, {}>> }
\* N = 4: diamond, chain, two roots over a shared subtree
Shared3 == { <<{2, 3}, {3}, {}>> }
Dags4 == { <<{2, 3}, {4}, {4}, {}>>, <<{2}, {3}, {4}, {}>>, <<{3}, {3}, {4}, {}>> }
=============================================================================
