SPECIFICATION Spec
CONSTANTS N = 3
          Names = {"", "a"}
          Devs = {}
          InitDags <- AllDags
INVARIANTS TypeOK RecursiveSupersedesDirect RepinReplacesName IndirectDef QueriesAgree FailedCallNoChange
