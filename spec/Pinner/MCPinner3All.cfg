SPECIFICATION Spec
CONSTANTS N = 3
          Names = {"", "a"}
          Devs = {}
          InitDags <- AllDags
          MaxMiss = 3
          ModeSet = {1, 2, 3, 4, 5, 6, 7}
          FaultSet = {"none", "cancelled", "cancelFetch"}
INVARIANTS TypeOK RecursiveSupersedesDirect RepinReplacesName IndirectDef QueriesAgree FailedCallNoChange
