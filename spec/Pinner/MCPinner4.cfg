SPECIFICATION Spec
CONSTANTS N = 4
          Names = {"", "a"}
          Devs = {}
          InitDags <- Dags4
INVARIANTS TypeOK RecursiveSupersedesDirect RepinReplacesName IndirectDef QueriesAgree FailedCallNoChange
