SPECIFICATION Spec
CONSTANTS N = 4
          Names = {"", "a"}
          Devs = {}
          InitDags <- Dags4
          MaxMiss = 1
          ModeSet = {1, 2, 4}
          FaultSet = {"none", "cancelFetch"}
INVARIANTS TypeOK RecursiveSupersedesDirect RepinReplacesName IndirectDef QueriesAgree FailedCallNoChange
