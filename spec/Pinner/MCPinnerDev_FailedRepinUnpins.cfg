SPECIFICATION Spec
CONSTANTS N = 3
          Names = {"", "a"}
          Devs = {"Dev_C22_FailedRepinUnpins"}
          InitDags <- Dags3
INVARIANTS TypeOK RecursiveSupersedesDirect RepinReplacesName IndirectDef QueriesAgree FailedCallNoChange
