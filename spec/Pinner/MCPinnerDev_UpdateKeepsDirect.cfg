SPECIFICATION Spec
CONSTANTS N = 3
          Names = {"", "a"}
          Devs = {"Dev_C22_UpdateKeepsDirect"}
          InitDags <- Dags3
          MaxMiss = 1
          ModeSet = {1, 2, 4}
          FaultSet = {"none", "cancelFetch"}
INVARIANTS TypeOK RecursiveSupersedesDirect RepinReplacesName IndirectDef QueriesAgree FailedCallNoChange
