SPECIFICATION Spec
CONSTANTS NC = 2
          Names = {"", "a"}
          Devs = {"Dev_C23_RepinDeleteFirst"}
          MaxOps = 3
          MaxCrashes = 2
          SyncEvery = 1
          MaxStale = 0
INVARIANTS TypeOK IndexesAgree DirtyCovers NoDanglingIndex PinnedPreserved
CHECK_DEADLOCK FALSE
