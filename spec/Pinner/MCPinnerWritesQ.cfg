SPECIFICATION Spec
CONSTANTS NC = 2
          Names = {"", "a"}
          Devs = {}
          MaxOps = 3
          MaxCrashes = 1
          SyncEvery = 1
          MaxStale = 1
INVARIANTS TypeOK IndexesAgree DirtyCovers NoDanglingIndex PinnedPreserved RepairRemovesOnlyStale
CHECK_DEADLOCK FALSE
