-------------------------------- MODULE Pinner --------------------------------
(* C22 -- pinning/pinner/dspinner/pin.go at the grain of one public call per step.

   State  : a DAG (links, which blocks are present locally), the set of recursive pins and
            the set of direct pins, each a set of <<node, name>> pairs.
   Calls  : Pin(node, recursive, name), PinWithMode(cid, mode, name), Unpin(cid, recursive),
            Update(from, to, unpin) -- each with an optional fault (context already cancelled;
            context cancelled at the first block read of the call's fetch); a missing block
            under the root is the third fault (state of the DAG).
   Queries: IsPinned / IsPinnedWithType(mode), CheckIfPinned(WithType)(mode, names, cids...),
            DirectKeys / RecursiveKeys (detailed or not) -- operators over the state.

   Effects and answers are written as pure operators over a state record so that the
   generator can evaluate the IDEAL rule and the AS-BUILT rule (a set D of named deviations)
   side by side.  Devs = {} is the property; a non-empty Devs describes exactly what the code
   does instead (each deviation is an open finding, see findings/C22-*.json):

     Dev_C22_FailedRepinUnpins     Pin(recursive) of an already recursively pinned root whose fetch
                                   fails removes the existing pin (removed BEFORE the fetch)
     Dev_C22_IndirectRootReported  IsPinnedWithType(c, Indirect) does not exclude recursive roots
     Dev_C22_UpdateKeepsDirect     Update(from, to) leaves an existing direct pin of `to` in place *)
EXTENDS Naturals, Sequences, FiniteSets, TLC, Json

CONSTANTS N,       \* nodes 1..N ; links only go from lower to higher numbers (acyclic)
          Names,   \* pin names, "" = unnamed
          Devs,    \* enabled as-built deviations
          InitDags,\* the DAGs explored (a set of [Nodes -> SUBSET Nodes]); AllDags = every forward-linked DAG
          MaxMiss, \* initially at most MaxMiss blocks are missing
          ModeSet, \* the mode arguments (indexes of ModeNames) PinWithMode is called with
          FaultSet \* the faults injected into calls

Nodes == 1..N
\* pin modes as passed to the API: 0..5 are the declared constants, 99 is an undeclared value
ModeNames == <<"recursive", "direct", "indirect", "internal", "any", "notpinned", "bogus">>
ModeIdx   == 1..7
Faults    == {"none", "cancelled", "cancelFetch"}

VARIABLES links,    \* [Nodes -> SUBSET Nodes]
          present,  \* blocks available in the DAG service
          rec,      \* recursive pins  \subseteq Nodes \X Names
          dir       \* direct pins     \subseteq Nodes \X Names
vars == <<links, present, rec, dir>>
St == [links |-> links, present |-> present, rec |-> rec, dir |-> dir]

(* ---- DAG ------------------------------------------------------------------------------ *)
Kids(L, P, X) == UNION {L[n] : n \in X \cap P}          \* links can only be read from present blocks
RECURSIVE Close(_, _, _, _)
Close(L, P, X, k) == IF k = 0 THEN X ELSE Close(L, P, X \cup Kids(L, P, X), k - 1)
Desc(s, r)     == Close(s.links, s.present, Kids(s.links, s.present, {r}), N)   \* discovered below r
TrueDesc(s, r) == Close(s.links, Nodes, s.links[r], N)                         \* by the real links
Complete(s, c) == ({c} \cup Desc(s, c)) \subseteq s.present   \* the whole graph under c can be read
RecRoots(s) == {p[1] : p \in s.rec}
DirRoots(s) == {p[1] : p \in s.dir}
Without(P, c) == {p \in P : p[1] # c}
Ret(s, r) == [s |-> s, res |-> r]

(* ---- effects of the calls --------------------------------------------------------------- *)
\* Pin(node, recursive=TRUE) [fetch = TRUE]  /  PinWithMode(c, Recursive) [fetch = FALSE]
ApplyPinRec(s, c, name, fetch, fault, D) ==
  LET s1    == IF fetch THEN [s EXCEPT !.present = @ \cup {c}] ELSE s   \* Pin stores the root block first
      repin == c \in RecRoots(s)
      fetchFails == fetch /\ (fault = "cancelFetch" \/ ~Complete(s1, c))
  IN IF fault = "cancelled" THEN Ret(s1, "err")
     ELSE IF fetchFails
          THEN IF repin /\ "Dev_C22_FailedRepinUnpins" \in D
               THEN Ret([s1 EXCEPT !.rec = Without(@, c)], "err")
               ELSE Ret(s1, "err")                                   \* a failed call changes nothing
     ELSE Ret([s1 EXCEPT !.rec = Without(@, c) \cup {<<c, name>>},   \* re-pin replaces the name
                         !.dir = Without(@, c)], "ok")               \* recursive supersedes direct

\* Pin(node, recursive=FALSE) [viaPin = TRUE]  /  PinWithMode(c, Direct)
ApplyPinDir(s, c, name, viaPin, fault) ==
  LET s1 == IF viaPin THEN [s EXCEPT !.present = @ \cup {c}] ELSE s
  IN IF fault = "cancelled" THEN Ret(s1, "err")
     ELSE IF c \in RecRoots(s) THEN Ret(s1, "err")                   \* already pinned recursively
     ELSE Ret([s1 EXCEPT !.dir = Without(@, c) \cup {<<c, name>>}], "ok")

ApplyUnpin(s, c, recursive, fault) ==
  IF fault = "cancelled" THEN Ret(s, "err")
  ELSE IF c \in RecRoots(s)
       THEN IF recursive THEN Ret([s EXCEPT !.rec = Without(@, c), !.dir = Without(@, c)], "ok")
            ELSE Ret(s, "err")                                      \* is pinned recursively
  ELSE IF c \in DirRoots(s) THEN Ret([s EXCEPT !.dir = Without(@, c)], "ok")
  ELSE Ret(s, "err")                                                \* not pinned or pinned indirectly

\* Update fetches "every object in the graph of `to` that is not in the graph of `from`", assuming
\* the graph of `from` is complete.  Hence: it must fail when `to` or a block only reachable from
\* `to` is missing, it must succeed when both graphs are complete, anything else is not determined
\* by the documentation (the generators never produce such a call).
UpdMustFail(s, from, to) == \/ to \notin s.present
                            \/ (({to} \cup TrueDesc(s, to)) \ ({from} \cup TrueDesc(s, from))) \ s.present # {}
UpdMustOk(s, from, to)   == ({from, to} \cup TrueDesc(s, from) \cup TrueDesc(s, to)) \subseteq s.present
ApplyUpdate(s, from, to, unpin, fault, D) ==
  LET fromPins == {p \in s.rec : p[1] = from}
  IN IF fault = "cancelled" THEN Ret(s, "err")
     ELSE IF Cardinality(fromPins) # 1 THEN Ret(s, "err")            \* `from` is not recursively pinned
     ELSE IF from = to THEN Ret(s, "ok")
     ELSE IF to \in RecRoots(s) THEN Ret(s, "err")
     ELSE IF fault = "cancelFetch" \/ UpdMustFail(s, from, to) THEN Ret(s, "err")
     ELSE LET nm   == (CHOOSE p \in fromPins : TRUE)[2]                \* the name moves with the pin
              rec1 == s.rec \cup {<<to, nm>>}
              rec2 == IF unpin THEN Without(rec1, from) ELSE rec1
              dir2 == IF "Dev_C22_UpdateKeepsDirect" \in D THEN s.dir ELSE Without(s.dir, to)
          IN Ret([s EXCEPT !.rec = rec2, !.dir = dir2], "ok")

\* a call: [op, c, c2, flag, name, mode, fault]
\*   Pin: flag = recursive;  PinMode: mode index;  Unpin: flag = recursive;  Update: c = from, c2 = to, flag = unpin
Apply(s, o, D) ==
  CASE o.op = "Pin"     -> IF o.flag THEN ApplyPinRec(s, o.c, o.name, TRUE, o.fault, D)
                           ELSE ApplyPinDir(s, o.c, o.name, TRUE, o.fault)
    [] o.op = "PinMode" -> IF ModeNames[o.mode] = "recursive" THEN ApplyPinRec(s, o.c, o.name, FALSE, o.fault, D)
                           ELSE IF ModeNames[o.mode] = "direct" THEN ApplyPinDir(s, o.c, o.name, FALSE, o.fault)
                           ELSE Ret(s, "err")                        \* unrecognized pin mode
    [] o.op = "Unpin"   -> ApplyUnpin(s, o.c, o.flag, o.fault)
    [] o.op = "Update"  -> ApplyUpdate(s, o.c, o.c2, o.flag, o.fault, D)

Op(op, c, c2, flag, name, mode, fault) ==
  [op |-> op, c |-> c, c2 |-> c2, flag |-> flag, name |-> name, mode |-> mode, fault |-> fault]
AllOps ==
       {Op("Pin", c, 0, f, nm, 0, ft) : c \in Nodes, f \in BOOLEAN, nm \in Names, ft \in FaultSet \ {"cancelFetch"}}
  \cup {Op("Pin", c, 0, TRUE, nm, 0, ft) : c \in Nodes, nm \in Names, ft \in FaultSet \cap {"cancelFetch"}}
  \cup {Op("PinMode", c, 0, FALSE, nm, m, ft) : c \in Nodes, nm \in Names, m \in ModeSet, ft \in FaultSet \ {"cancelFetch"}}
  \cup {Op("Unpin", c, 0, f, "", 0, ft) : c \in Nodes, f \in BOOLEAN, ft \in FaultSet \ {"cancelFetch"}}
  \cup {Op("Update", c, c2, f, "", 0, ft) : c \in Nodes, c2 \in Nodes, f \in BOOLEAN, ft \in FaultSet}
\* the calls whose outcome the documentation determines in state s
IsCall(s, o) == o.op = "Update" =>
                  /\ ~(o.fault = "cancelled" /\ o.c = o.c2)     \* a no-op may or may not notice the cancellation
                  /\ UpdMustFail(s, o.c, o.c2) \/ UpdMustOk(s, o.c, o.c2)
Calls(s) == {o \in AllOps : IsCall(s, o)}

(* ---- answers of the queries ------------------------------------------------------------- *)
\* An answer is a SET of allowed outcomes <<tag, x>>; it has more than one element only where the
\* result legitimately depends on the iteration order of the roots (which root is named as `via`,
\* whether an unreadable part of some recursively pinned graph is reached before the answer is found).
No == <<"no", 0>>
Er == <<"err", 0>>
NP == <<"notpinned", "">>
NameOf(P, c) == {p[2] : p \in {q \in P : q[1] = c}}
\* what the queries depend on, computed once per state:
\*   vias[c]     the recursive roots below which c is found
\*   unreadable  some recursively pinned graph has a missing block (a full traversal fails)
Ctx(s) == LET rr  == RecRoots(s)
              dsc == [r \in Nodes |-> IF r \in rr THEN Desc(s, r) ELSE {}]
          IN [rr |-> rr, dr |-> DirRoots(s),
              vias |-> [c \in Nodes |-> {r \in rr : c \in dsc[r]}],
              unreadable |-> \E r \in rr : ~(({r} \cup dsc[r]) \subseteq s.present)]
\* search below every recursive root
Search(k, c) == {<<"via", r>> : r \in k.vias[c]}
                \cup (IF k.unreadable THEN {Er} ELSE IF k.vias[c] = {} THEN {No} ELSE {})

IsPinnedAns(k, c, m, D) ==
  CASE ModeNames[m] = "recursive" -> IF c \in k.rr THEN {<<"recursive", 0>>} ELSE {No}
    [] ModeNames[m] = "direct"    -> IF c \in k.dr THEN {<<"direct", 0>>} ELSE {No}
    [] ModeNames[m] = "internal"  -> {No}
    [] ModeNames[m] = "indirect"  -> IF c \in k.rr /\ "Dev_C22_IndirectRootReported" \notin D
                                     THEN {No}              \* a recursive root is never "indirect"
                                     ELSE Search(k, c)
    [] ModeNames[m] = "any"       -> IF c \in k.rr THEN {<<"recursive", 0>>}
                                     ELSE IF c \in k.dr THEN {<<"direct", 0>>}
                                     ELSE Search(k, c)
    [] OTHER                      -> {Er}                   \* NotPinned / undeclared values are not query modes

\* CheckIfPinnedWithType(mode, includeNames = TRUE, cs...): [err, per], err \in {"no","may","must"};
\* per[c] = allowed <<mode, name-or-via>> for every c \in cs when the call succeeds.
CheckAns(s, k, m, cs) ==
  LET md  == ModeNames[m]
      rpn(c) == {<<"recursive", n>> : n \in NameOf(s.rec, c)}
      dpn(c) == {<<"direct", n>> : n \in NameOf(s.dir, c)}
      ind(c) == IF k.vias[c] = {} THEN {NP} ELSE {<<"indirect", r>> : r \in k.vias[c]}
      tc  == IF md = "any" THEN cs \ (k.rr \cup k.dr)
             ELSE IF md = "indirect" THEN cs \ k.rr ELSE {}
      allFound == \A c \in tc : k.vias[c] # {}
      err == IF md \in {"notpinned", "bogus"} THEN "must"
             ELSE IF tc = {} \/ ~k.unreadable THEN "no"
             ELSE IF allFound THEN "may" ELSE "must"
      per(c) == CASE md = "recursive" -> IF c \in k.rr THEN rpn(c) ELSE {NP}
                  [] md = "direct"    -> IF c \in k.dr THEN dpn(c) ELSE {NP}
                  [] md = "indirect"  -> IF c \in k.rr THEN {NP} ELSE ind(c)
                  [] md = "any"       -> IF c \in k.rr THEN rpn(c)
                                         ELSE IF c \in k.dr THEN dpn(c) ELSE ind(c)
                  [] OTHER            -> {NP}
  IN [err |-> err, per |-> [c \in Nodes |-> IF c \in cs THEN per(c) ELSE {}]]

\* the whole battery
ObsK(s, k, D) ==
  [ isp   |-> [c \in Nodes |-> [m \in ModeIdx |-> IsPinnedAns(k, c, m, D)]],
    chk   |-> [c \in Nodes |-> [m \in ModeIdx |-> LET a == CheckAns(s, k, m, {c}) IN [err |-> a.err, out |-> a.per[c]]]],
    all   |-> [ind |-> CheckAns(s, k, 3, Nodes), any |-> CheckAns(s, k, 5, Nodes)],   \* one batch call each
    rkeys |-> s.rec,                                             \* RecursiveKeys(detailed): <<cid, name>>
    dkeys |-> s.dir,
    present |-> s.present ]
Obs(s, D) == ObsK(s, Ctx(s), D)

(* ---- the state machine ------------------------------------------------------------------ *)
DagOK(L) == \A n \in Nodes : L[n] \subseteq {m \in Nodes : m > n}
AllDags  == {L \in [Nodes -> SUBSET Nodes] : DagOK(L)}
Init == /\ links \in InitDags
        /\ present \in {P \in SUBSET Nodes : Cardinality(Nodes \ P) <= MaxMiss}
        /\ rec = {} /\ dir = {}

Do(o) == LET a == Apply(St, o, Devs)
         IN /\ present' = a.s.present /\ rec' = a.s.rec /\ dir' = a.s.dir
            /\ UNCHANGED links
OpsOf(kind) == {o \in AllOps : o.op = kind}
Call(kind)  == \E o \in OpsOf(kind) : IsCall(St, o) /\ Do(o)
Pin         == Call("Pin")
PinWithMode == Call("PinMode")
Unpin       == Call("Unpin")
Update      == Call("Update")
Next == Pin \/ PinWithMode \/ Unpin \/ Update
Spec == Init /\ [][Next]_vars

(* ---- the property ----------------------------------------------------------------------- *)
TypeOK == /\ DagOK(links) /\ present \subseteq Nodes
          /\ rec \subseteq Nodes \X Names /\ dir \subseteq Nodes \X Names

RecursiveSupersedesDirect == RecRoots(St) \cap DirRoots(St) = {}

\* re-pinning replaces the name: never two pins of the same kind for one CID, and a successful
\* (re-)pin leaves exactly the new name (stated for every call possible in the current state)
IsRecPin(o) == (o.op = "Pin" /\ o.flag) \/ (o.op = "PinMode" /\ ModeNames[o.mode] = "recursive")
IsDirPin(o) == (o.op = "Pin" /\ ~o.flag) \/ (o.op = "PinMode" /\ ModeNames[o.mode] = "direct")
RepinReplacesName ==
  /\ \A c \in Nodes : Cardinality(NameOf(rec, c)) <= 1 /\ Cardinality(NameOf(dir, c)) <= 1
  /\ \A o \in Calls(St) : LET a == Apply(St, o, Devs)
                           IN a.res = "ok" =>
                                /\ IsRecPin(o) => NameOf(a.s.rec, o.c) = {o.name} /\ NameOf(a.s.dir, o.c) = {}
                                /\ IsDirPin(o) => NameOf(a.s.dir, o.c) = {o.name}

\* indirect = reachable from a recursive root and not itself a recursive root
IndirectDef == \A c \in Nodes :
   LET k == Ctx(St)
       a == IsPinnedAns(k, c, 3, Devs)
   IN /\ \A x \in a : x[1] = "via" => c \notin RecRoots(St) /\ x[2] \in RecRoots(St) /\ c \in Desc(St, x[2])
      /\ (c \notin RecRoots(St) /\ ~k.unreadable) => (a = {No}) = (\A r \in RecRoots(St) : c \notin Desc(St, r))

\* every API gives the same classification (compared on the non-error outcomes)
Pinned(a)   == {x \in a : x # Er} # {} /\ \A x \in a : x # Er => x # No
Unpinned(a) == {x \in a : x # Er} # {} /\ \A x \in a : x # Er => x = No
QueriesAgree == \A c \in Nodes : \A m \in 1..5 :
   LET k == Ctx(St)
       a == IsPinnedAns(k, c, m, Devs)
       b == CheckAns(St, k, m, {c})
   IN b.err # "must" =>
        /\ Pinned(a) => NP \notin b.per[c]
        /\ Unpinned(a) => b.per[c] = {NP}

\* an operation that returns an error leaves every pin unchanged (for every call possible here)
FailedCallNoChange == \A o \in Calls(St) : LET a == Apply(St, o, Devs)
                                            IN a.res = "err" => a.s.rec = rec /\ a.s.dir = dir
=============================================================================
