----------------------------- MODULE PinnerWrites -----------------------------
(* C23 -- the dspinner at the grain of ONE DATASTORE WRITE per step
   (pinning/pinner/dspinner/pin.go: setDirty, addPin, removePin, flushPins/setClean, New,
   rebuildIndexes).

   Persistent state (the datastore under /pins):
     recs            pin records  [id, c, mode ("r"/"d"), name]          /pins/pin/<id>
     ixR, ixD        cid indexes  <<c, id>>                                /pins/index/cid{R,D}index/<c>/<id>
     ixN             name index   <<name, id>>                             /pins/index/nameIndex/<name>/<id>
     flag            "none" | "0" | "1"                                    /pins/state/dirty
   Volatile state (lost by a crash): memDirty (p.dirty # p.clean), prog (writes the running
   call / the running recovery still has to issue, in order), phase.

   A call (Begin) fixes the sequence of writes it will issue from what it reads; Write issues
   the next one; Crash may happen between any two writes (also during recovery); Reopen is
   New(): nothing if the flag is not 1, otherwise rebuildIndexes: per pin record re-add a
   missing cid index entry, then a missing name index entry; finally SetClean.  Before that, per
   record, an entry of the other mode's cid index with the record's own id is removed (fault Stale);
   entries of OTHER records of the same cid are never touched.

   IDEAL write order of a (re-)pin: write the new pin completely, then remove the pins it
   replaces.  Deviation Dev_C23_RepinDeleteFirst (open finding): the code removes the old pins
   completely first and only then writes the new one.
   IDEAL recovery: the dirty flag is cleared after the last repair.  Deviation
   Dev_C23_RebuildCleansEarly (open finding): rebuildIndexes calls flushPins after every
   SyncEvery (50) checked records, which clears the flag although later records are still
   unrepaired (and never sets it again). *)
EXTENDS Naturals, Sequences, FiniteSets, TLC, Json

CONSTANTS NC,         \* cids 1..NC
          Names,      \* pin names, "" = unnamed (no name index entry)
          Devs,       \* enabled as-built deviations
          MaxOps,     \* calls per history
          MaxCrashes, \* crashes per history
          SyncEvery,  \* rebuildIndexes flushes after every SyncEvery checked records (50 in the code)
          MaxStale    \* stale cross-mode index entries found at a reopen, per history (fault Stale)

Cids == 1..NC
RepinDev == "Dev_C23_RepinDeleteFirst"
EarlyDev == "Dev_C23_RebuildCleansEarly"

VARIABLES recs, ixR, ixD, ixN, flag,        \* persistent
          memDirty, prog, phase,            \* volatile: phase \in {"idle","op","down","recover"}
          nextId, nops, ncrash, nstale,     \* bookkeeping
          keep,                             \* cids pinned before the running call that the call does not unpin
          excused,                          \* cids a deviation (used in this history) may lose
          cur,                              \* the running / last call and its result
          dev,                              \* deviations used so far (all histories)
          rundev                            \* deviations used in this history
disk == <<recs, ixR, ixD, ixN, flag>>
vars == <<recs, ixR, ixD, ixN, flag, memDirty, prog, phase, nextId, nops, ncrash, nstale, keep, excused, cur, dev, rundev>>

(* ---- writes ---------------------------------------------------------------------------- *)
W(k, id, c, mode, name) == [k |-> k, id |-> id, c |-> c, mode |-> mode, name |-> name]
SetDirtyW == W("SetDirty", 0, 0, "", "")
SetCleanW == W("SetClean", 0, 0, "", "")
Ix(mode)  == IF mode = "r" THEN ixR ELSE ixD
Other(mode) == IF mode = "r" THEN "d" ELSE "r"

\* effect of one write on the datastore
DoWrite(w) ==
  /\ recs' = CASE w.k = "PutRecord" -> {p \in recs : p.id # w.id} \cup {[id |-> w.id, c |-> w.c, mode |-> w.mode, name |-> w.name]}
               [] w.k = "DelRecord" -> {p \in recs : p.id # w.id}
               [] OTHER -> recs
  /\ ixR'  = CASE w.k = "AddCidIndex" /\ w.mode = "r" -> ixR \cup {<<w.c, w.id>>}
               [] w.k = "DelCidIndex" /\ w.mode = "r" -> ixR \ {<<w.c, w.id>>}
               [] OTHER -> ixR
  /\ ixD'  = CASE w.k = "AddCidIndex" /\ w.mode = "d" -> ixD \cup {<<w.c, w.id>>}
               [] w.k = "DelCidIndex" /\ w.mode = "d" -> ixD \ {<<w.c, w.id>>}
               [] OTHER -> ixD
  /\ ixN'  = CASE w.k = "AddNameIndex" -> ixN \cup {<<w.name, w.id>>}
               [] w.k = "DelNameIndex" -> ixN \ {<<w.name, w.id>>}
               [] OTHER -> ixN
  /\ flag' = CASE w.k = "SetDirty" -> "1" [] w.k = "SetClean" -> "0" [] OTHER -> flag

(* ---- what the code reads ----------------------------------------------------------------- *)
IdsOf(ix, c) == {e[2] : e \in {x \in ix : x[1] = c}}
PinsOf(mode, c) == {p \in recs : p.id \in IdsOf(Ix(mode), c)}       \* via the index, then loadPin
PinnedSet == {e[1] : e \in ixR \cup ixD}                             \* what every query consults
\* all enumerations of a finite set (Search returns the ids in datastore order)
RECURSIVE SeqsOf(_)
SeqsOf(S) == IF S = {} THEN {<<>>} ELSE UNION {{<<x>> \o t : t \in SeqsOf(S \ {x})} : x \in S}
RECURSIVE Flat(_)
Flat(ss) == IF ss = <<>> THEN <<>> ELSE Head(ss) \o Flat(Tail(ss))

(* ---- the write sequences of addPin / removePin -------------------------------------------- *)
AddSeq(id, c, mode, name) ==
  <<W("PutRecord", id, c, mode, name), W("AddCidIndex", id, c, mode, "")>>
  \o (IF name # "" THEN <<W("AddNameIndex", id, 0, "", name)>> ELSE <<>>)
\* removePin: indexes first, the record last ("an incomplete remove is detected by a pin that has a missing index")
RmSeq(p) ==
  <<W("DelCidIndex", p.id, p.c, p.mode, "")>>
  \o (IF p.name # "" THEN <<W("DelNameIndex", p.id, 0, "", p.name)>> ELSE <<>>)
  \o <<W("DelRecord", p.id, 0, "", "")>>
RmAll(ps) == Flat([i \in 1..Len(ps) |-> RmSeq(ps[i])])
\* a mutating call: SetDirty before the first change if memory is clean, SetClean (flushPins) at the end
Framed(body) == IF body = <<>> THEN <<>>
                ELSE (IF memDirty THEN <<>> ELSE <<SetDirtyW>>) \o body \o <<SetCleanW>>

(* ---- calls --------------------------------------------------------------------------------- *)
Call(op, c, c2, flag_, name) == [op |-> op, c |-> c, c2 |-> c2, flag |-> flag_, name |-> name]
Pinned(c) == c \in PinnedSet

Start(o, body, res, unpins, usedDev) ==
  /\ phase = "idle" /\ nops < MaxOps
  /\ prog' = Framed(body)
  /\ phase' = IF body = <<>> THEN "idle" ELSE "op"
  /\ memDirty' = (memDirty \/ body # <<>>)
  /\ nops' = nops + 1
  /\ keep' = PinnedSet \ unpins
  /\ cur' = [o |-> o, res |-> res]
  /\ excused' = IF usedDev THEN excused \cup {o.c} ELSE excused
  /\ dev' = IF usedDev THEN dev \cup {RepinDev} ELSE dev
  /\ rundev' = IF usedDev THEN rundev \cup {RepinDev} ELSE rundev
  /\ UNCHANGED <<disk, ncrash, nextId, nstale>>

\* Pin(c, recursive, name) / PinWithMode(c, Recursive, name), fetch successful: replaces every pin of c
BeginPinRec(c, name) ==
  \E oldR \in SeqsOf(PinsOf("r", c)), oldD \in SeqsOf(PinsOf("d", c)) :
    LET o   == Call("PinRec", c, 0, FALSE, name)
        add == AddSeq(nextId, c, "r", name)
        old == RmAll(oldR) \o RmAll(oldD)
    IN \/ Start(o, add \o old, "ok", {}, FALSE)
       \/ /\ RepinDev \in Devs /\ old # <<>>
          /\ Start(o, old \o add, "ok", {}, TRUE)
\* Pin(c, direct, name) / PinWithMode(c, Direct, name)
BeginPinDir(c, name) ==
  LET o == Call("PinDir", c, 0, FALSE, name)
  IN IF PinsOf("r", c) # {} THEN Start(o, <<>>, "err", {}, FALSE)        \* already pinned recursively
     ELSE \E oldD \in SeqsOf(PinsOf("d", c)) :
            LET add == AddSeq(nextId, c, "d", name)
                old == RmAll(oldD)
            IN \/ Start(o, add \o old, "ok", {}, FALSE)
               \/ /\ RepinDev \in Devs /\ old # <<>>
                  /\ Start(o, old \o add, "ok", {}, TRUE)
BeginUnpin(c, recursive) ==
  LET o == Call("Unpin", c, 0, recursive, "")
  IN IF PinsOf("r", c) # {} /\ ~recursive THEN Start(o, <<>>, "err", {}, FALSE)   \* is pinned recursively
     ELSE IF PinsOf("r", c) = {} /\ PinsOf("d", c) = {} THEN Start(o, <<>>, "err", {}, FALSE)   \* not pinned
     ELSE \E oldR \in SeqsOf(PinsOf("r", c)), oldD \in SeqsOf(PinsOf("d", c)) :
            Start(o, RmAll(oldR) \o RmAll(oldD), "ok", {c}, FALSE)
\* Update(from, to, unpin), fetch successful.  Whether a direct pin of `to` is removed (after the new
\* recursive pin has been written) is C22's business; both are accepted here.
BeginUpdate(from, to, unpin) ==
  LET o == Call("Update", from, to, unpin, "")
      fp == PinsOf("r", from)
  IN IF Cardinality(fp) # 1 THEN Start(o, <<>>, "err", {}, FALSE)
     ELSE IF from = to THEN Start(o, <<>>, "ok", {}, FALSE)
     ELSE IF PinsOf("r", to) # {} THEN Start(o, <<>>, "err", {}, FALSE)
     ELSE LET p   == CHOOSE x \in fp : TRUE
              add == AddSeq(nextId, to, "r", p.name)
              rmf == IF unpin THEN RmSeq(p) ELSE <<>>
          IN \/ Start(o, add \o rmf, "ok", IF unpin THEN {from} ELSE {}, FALSE)
             \/ \E oldD \in SeqsOf(PinsOf("d", to)) :
                  oldD # <<>> /\ Start(o, add \o RmAll(oldD) \o rmf, "ok", IF unpin THEN {from} ELSE {}, FALSE)

Begin == \/ \E c \in Cids, nm \in Names : BeginPinRec(c, nm) \/ BeginPinDir(c, nm)
         \/ \E c \in Cids, r \in BOOLEAN : BeginUnpin(c, r)
         \/ \E f \in Cids, t \in Cids, u \in BOOLEAN : BeginUpdate(f, t, u)

\* the next write of the running call or of the running recovery reaches the datastore
Write == /\ phase \in {"op", "recover"} /\ prog # <<>>
         /\ DoWrite(Head(prog))
         /\ prog' = Tail(prog)
         /\ phase' = IF Len(prog) = 1 THEN "idle" ELSE phase
         /\ memDirty' = IF Head(prog).k = "SetClean" THEN FALSE ELSE memDirty
         /\ nextId' = IF Head(prog).k = "PutRecord" THEN nextId + 1 ELSE nextId   \* pin ids are never reused
         /\ UNCHANGED <<nops, ncrash, nstale, keep, excused, cur, dev, rundev>>

\* the process stops: everything volatile is lost, the datastore keeps exactly the writes issued so far
Crash == /\ phase \in {"idle", "op", "recover"} /\ ncrash < MaxCrashes
         /\ phase' = "down" /\ prog' = <<>> /\ memDirty' = FALSE /\ ncrash' = ncrash + 1
         /\ keep' = IF phase = "idle" THEN PinnedSet ELSE keep      \* an idle crash must lose nothing
         /\ UNCHANGED <<disk, nextId, nops, nstale, excused, cur, dev, rundev>>

\* Fault: while the process is down with the dirty flag set, the datastore also holds an entry of the
\* OTHER mode's cid index for an existing pin record (same cid, same pin id) -- what an interrupted mode
\* change of an older version left behind.  No pin record matches it (the record has the other mode):
\* it is the one kind of index entry rebuildIndexes removes.
Stale(id) == /\ phase = "down" /\ flag = "1" /\ nstale < MaxStale
             /\ \E p \in recs :
                  /\ p.id = id /\ <<p.c, p.id>> \notin Ix(Other(p.mode))
                  /\ ixR' = IF p.mode = "d" THEN ixR \cup {<<p.c, p.id>>} ELSE ixR
                  /\ ixD' = IF p.mode = "r" THEN ixD \cup {<<p.c, p.id>>} ELSE ixD
             /\ nstale' = nstale + 1
             /\ UNCHANGED <<recs, ixN, flag, memDirty, prog, phase, nextId, nops, ncrash, keep, excused, cur, dev, rundev>>

\* New(): rebuildIndexes when the dirty flag is set
\* per pin record p, in this order: remove the entry of the OTHER mode's cid index that carries p's own
\* id (and nothing else: entries of other pin records of the same cid -- a direct and a recursive record of
\* one cid coexist after an interrupted Update / re-pin -- belong to records that exist and must survive),
\* re-add p's missing cid index entry, re-add p's missing name index entry
Ok(p)      == <<p.c, p.id>> \in Ix(p.mode)
Repairs(p) == (IF <<p.c, p.id>> \in Ix(Other(p.mode)) THEN <<W("DelCidIndex", p.id, p.c, Other(p.mode), "")>> ELSE <<>>)
              \o (IF Ok(p) THEN <<>> ELSE <<W("AddCidIndex", p.id, p.c, p.mode, "")>>)
              \o (IF p.name # "" /\ <<p.name, p.id>> \notin ixN THEN <<W("AddNameIndex", p.id, 0, "", p.name)>> ELSE <<>>)
RepairAll(ord) == Flat([i \in 1..Len(ord) |-> Repairs(ord[i])])
Reopen == /\ phase = "down"
          /\ IF flag # "1"
             THEN phase' = "idle" /\ prog' = <<>> /\ memDirty' = FALSE /\ UNCHANGED <<dev, rundev>>
             ELSE \E ord \in SeqsOf({p \in recs : Repairs(p) # <<>>}) :       \* query order of the records
                    /\ phase' = "recover" /\ memDirty' = TRUE
                    /\ \/ prog' = RepairAll(ord) \o <<SetCleanW>> /\ UNCHANGED <<dev, rundev>>
                       \* as built: the first j damaged records are among the first SyncEvery records of the
                       \* query, the flag is cleared there, the others are repaired afterwards, no final write
                       \/ /\ EarlyDev \in Devs /\ Cardinality(recs) > SyncEvery
                          /\ \E j \in 0..(Len(ord) - 1) :
                               /\ j <= SyncEvery /\ Len(ord) - j <= Cardinality(recs) - SyncEvery
                               /\ prog' = RepairAll(SubSeq(ord, 1, j)) \o <<SetCleanW>> \o RepairAll(SubSeq(ord, j + 1, Len(ord)))
                          /\ dev' = dev \cup {EarlyDev} /\ rundev' = rundev \cup {EarlyDev}
          /\ UNCHANGED <<disk, nextId, nops, ncrash, nstale, keep, excused, cur>>

Init == /\ recs = {} /\ ixR = {} /\ ixD = {} /\ ixN = {} /\ flag = "none"
        /\ memDirty = FALSE /\ prog = <<>> /\ phase = "idle"
        /\ nextId = 1 /\ nops = 0 /\ ncrash = 0 /\ nstale = 0 /\ keep = {} /\ excused = {}
        /\ cur = [o |-> Call("none", 0, 0, FALSE, ""), res |-> "ok"] /\ dev = {} /\ rundev = {}
Next == Begin \/ Write \/ Crash \/ (\E id \in 1..(nextId - 1) : Stale(id)) \/ Reopen
Spec == Init /\ [][Next]_vars

(* ---- the property --------------------------------------------------------------------------- *)
TypeOK == /\ \A p \in recs : p.c \in Cids /\ p.mode \in {"r", "d"} /\ p.name \in Names /\ p.id \in 1..(nextId - 1)
          /\ flag \in {"none", "0", "1"} /\ phase \in {"idle", "op", "down", "recover"}

\* every indexed CID has a matching pin record and every pin record is indexed
Consistent ==
  /\ \A p \in recs : <<p.c, p.id>> \in Ix(p.mode) /\ (p.name # "" => <<p.name, p.id>> \in ixN)
  /\ \A e \in ixR : \E p \in recs : p.id = e[2] /\ p.c = e[1] /\ p.mode = "r"
  /\ \A e \in ixD : \E p \in recs : p.id = e[2] /\ p.c = e[1] /\ p.mode = "d"
  /\ \A e \in ixN : \E p \in recs : p.id = e[2] /\ p.name = e[1]
IndexesAgree == phase = "idle" => Consistent
\* the reason recovery is never skipped: an inconsistent datastore always carries the dirty flag,
\* and an index entry never outlives / precedes its record (rebuildIndexes removes only cross-mode entries of existing records)
DirtyCovers == flag # "1" => Consistent
NoDanglingIndex == /\ \A e \in ixR \cup ixD : \E p \in recs : p.id = e[2]
                   /\ \A e \in ixN : \E p \in recs : p.id = e[2]

\* the recovery removes an index entry only if no pin record matches it (id, cid and mode)
RepairRemovesOnlyStale ==
  phase = "recover" => \A i \in 1..Len(prog) :
     prog[i].k = "DelCidIndex" => ~\E p \in recs : p.id = prog[i].id /\ p.c = prog[i].c /\ p.mode = prog[i].mode

\* every CID pinned before the (interrupted) call that the call does not unpin is still pinned
PinnedPreserved       == phase = "idle" => keep \subseteq PinnedSet
PinnedPreservedModDev == phase = "idle" => (keep \ PinnedSet) \subseteq excused
\* what Dev_C23_RebuildCleansEarly breaks once it has been used in a history
IndexesAgreeModDev    == EarlyDev \in rundev \/ IndexesAgree
DirtyCoversModDev     == EarlyDev \in rundev \/ DirtyCovers
=============================================================================
