SPECIFICATION TSpec
CONSTANTS NC = 128
          Names = {"", "a", "b"}
          Devs = @DEVS@
          MaxOps = 100000
          MaxCrashes = 100000
          SyncEvery = 50
          MaxStale = 100000
INVARIANTS TypeOK IndexesAgreeModDev DirtyCoversModDev NoDanglingIndex PinnedPreservedModDev RepairRemovesOnlyStale DevReport
CONSTRAINT TraceConstraint
POSTCONDITION TracePost
CHECK_DEADLOCK FALSE
