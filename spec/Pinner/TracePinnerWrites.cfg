SPECIFICATION TSpec
CONSTANTS NC = 3
          Names = {"", "a", "b"}
          Devs = @DEVS@
          MaxOps = 100000
          MaxCrashes = 100000
INVARIANTS TypeOK IndexesAgree DirtyCovers NoDanglingIndex PinnedPreservedModDev DevReport
CONSTRAINT TraceConstraint
POSTCONDITION TracePost
CHECK_DEADLOCK FALSE
