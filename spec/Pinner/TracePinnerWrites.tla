-------------------------- MODULE TracePinnerWrites --------------------------
(* Phase T for C23: crash-point enumeration on the real dspinner.  The harness runs call
   histories on a real pinner over a recording datastore; for EVERY call and EVERY prefix of
   the call's datastore writes it re-runs the history on a fresh pinner whose datastore stops
   accepting writes after exactly that prefix (the crash), reopens a real pinner on what was
   persisted (New -> rebuildIndexes), optionally crashes again inside the recovery, and logs
   the raw /pins keys and the answers of the reopened pinner.

   Events:  Reset | Begin(op,c,c2,flag,name) | W(k,id,c,mode,name) | End(res) | Crash | Stale(id) | Reopen
            | State(recs,ixR,ixD,ixN,flag,pinned,rkeys,dkeys,stray)
   Every W must be exactly the next write PinnerWrites prescribes (so a re-ordering in the code
   is rejected), every State must equal the model's datastore, and the invariants of
   PinnerWrites are evaluated at every step. *)
EXTENDS PinnerWrites, Integers

Trace == ndJsonDeserialize("trace.ndjson")
VARIABLE l
tvars == <<vars, l>>
ASSUME TLCSet(1, 0)

Ev == Trace[l]
IsEvent(e) == l <= Len(Trace) /\ Trace[l].ev = e /\ l' = l + 1
Pairs(s) == {<<s[i][1], s[i][2]>> : i \in 1..Len(s)}
ToSet(s) == {s[i] : i \in 1..Len(s)}

TInit == l = 1 /\ Init

TReset == /\ IsEvent("Reset")
          /\ recs' = {} /\ ixR' = {} /\ ixD' = {} /\ ixN' = {} /\ flag' = "none"
          /\ memDirty' = FALSE /\ prog' = <<>> /\ phase' = "idle"
          /\ nextId' = 1 /\ nops' = 0 /\ ncrash' = 0 /\ nstale' = 0 /\ keep' = {} /\ excused' = {}
          /\ cur' = [o |-> Call("none", 0, 0, FALSE, ""), res |-> "ok"]
          /\ rundev' = {} /\ UNCHANGED dev
TBegin == /\ IsEvent("Begin")
          /\ CASE Ev.op = "PinRec" -> BeginPinRec(Ev.c, Ev.name)
               [] Ev.op = "PinDir" -> BeginPinDir(Ev.c, Ev.name)
               [] Ev.op = "Unpin"  -> BeginUnpin(Ev.c, Ev.flag)
               [] Ev.op = "Update" -> BeginUpdate(Ev.c, Ev.c2, Ev.flag)
TW     == /\ IsEvent("W") /\ prog # <<>>
          /\ Head(prog) = W(Ev.k, Ev.id, Ev.c, Ev.mode, Ev.name)
          /\ Write
TEnd   == /\ IsEvent("End") /\ phase = "idle" /\ prog = <<>> /\ Ev.res = cur.res
          /\ UNCHANGED vars
TCrash == IsEvent("Crash") /\ Crash
TReopen == IsEvent("Reopen") /\ Reopen
\* the harness planted a cross-mode cid index entry for pin record Ev.id while the pinner was down
TStale == IsEvent("Stale") /\ Stale(Ev.id)
Recs(s) == {[id |-> s[i][1], c |-> s[i][2], mode |-> s[i][3], name |-> s[i][4]] : i \in 1..Len(s)}
TState == /\ IsEvent("State") /\ phase = "idle" /\ prog = <<>> /\ Ev.stray = 0
          /\ Recs(Ev.recs) = recs /\ Len(Ev.recs) = Cardinality(recs)
          /\ Pairs(Ev.ixR) = ixR /\ Pairs(Ev.ixD) = ixD /\ Pairs(Ev.ixN) = ixN /\ Ev.flag = flag
          /\ ToSet(Ev.pinned) = PinnedSet                          \* IsPinned of the (reopened) pinner
          /\ {p[1] : p \in Pairs(Ev.rkeys)} = {e[1] : e \in ixR}   \* RecursiveKeys(detailed)
          /\ \A p \in Pairs(Ev.rkeys) : \E q \in recs : q.c = p[1] /\ q.name = p[2] /\ q.mode = "r"
          /\ {p[1] : p \in Pairs(Ev.dkeys)} = {e[1] : e \in ixD}
          /\ \A p \in Pairs(Ev.dkeys) : \E q \in recs : q.c = p[1] /\ q.name = p[2] /\ q.mode = "d"
          /\ UNCHANGED vars

TNext == TReset \/ TBegin \/ TW \/ TEnd \/ TCrash \/ TStale \/ TReopen \/ TState
TSpec == TInit /\ [][TNext]_tvars

TraceConstraint == TLCSet(1, IF l - 1 > TLCGet(1) THEN l - 1 ELSE TLCGet(1))
TracePost == PrintT(<<"TRACE_HWM", TLCGet(1)>>)
DevReport == l <= Len(Trace) \/ \A d \in dev : PrintT(<<"DEV_USED", d>>)
=============================================================================
