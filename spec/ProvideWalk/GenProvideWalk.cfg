SPECIFICATION GSpec
CONSTANTS Devs = {}
          Cases <- GQuick
          GF = 4
          FPKeys = {}
INVARIANTS Emit1 StackIsRecursive EmitSafe EmitOnce NoFalseNegative CountRight
