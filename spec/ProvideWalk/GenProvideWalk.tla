--------------------------- MODULE GenProvideWalk ---------------------------
(* Phase G: with an exact tracker walkLoop is deterministic: one behaviour per configuration, printed
   as the exact sequence of callbacks (tracker.Visit, locality check, fetch, emit) with their results,
   the emission sequence the reference (recursive pre-order DFS) demands for every walk, and the keys
   the tracker must hold afterwards.  Cases: the E families of MCProvideWalk (exhaustive small DAGs) and
   cases.ndjson (larger DAGs with mixed codecs sampled by the driver). *)
EXTENDS MCProvideWalk
VARIABLES hist, want
gvars == <<vars, hist, want>>

FileCases == LET s == ndJsonDeserialize("cases.ndjson") IN {s[i] : i \in 1..Len(s)}
\* the selected exhaustive family plus the sampled cases; second pass (Family = "GAlt", Devs = {DF}, ab forced):
\* the as-built alternative of the configurations with a memoising fetcher
GSel == MCSel \cup (IF Family = "GAlt" THEN {c \in FileCases : c.cached} ELSE FileCases)

Log(e) == hist' = Append(hist, e)
GNext ==
  \/ Pop /\ UNCHANGED <<hist, want>>
  \/ \E r \in BOOLEAN : Visit(r) /\ ~fp' /\ Log([ev |-> "Visit", c |-> cur, ret |-> r]) /\ UNCHANGED want
  \/ Local /\ UNCHANGED want
     /\ IF cfg.locality THEN Log([ev |-> "Local", c |-> cur, ret |-> cfg.loc[cur]]) ELSE UNCHANGED hist
  \/ Fetch /\ Log([ev |-> "Fetch", c |-> cur, ok |-> cfg.fok[cur]]) /\ UNCHANGED want
  \/ Emit /\ UNCHANGED want
     /\ IF cfg.ident[cur] THEN UNCHANGED hist ELSE Log([ev |-> "Emit", c |-> cur, cont |-> (left # 1)])
  \/ EndWalk /\ Log([ev |-> "End", c |-> wi, want |-> exp.out]) /\ want' = Append(want, exp.out)
GInit == Init /\ hist = <<>> /\ want = <<>>
GSpec == GInit /\ [][GNext]_gvars
GInitAlt == GInit /\ ab = TRUE
GSpecAlt == GInitAlt /\ [][GNext]_gvars

Emit1 == ~done \/ PrintT(<<"BEHAVIOUR", ToJson([cfg |-> cfg, events |-> hist, want |-> want,
                                                 seen |-> Seen(chain), total |-> total, dedup |-> dedup, dev |-> dev])>>)
=============================================================================
