SPECIFICATION GSpecAlt
CONSTANTS Devs = {"Dev_C13_FetcherSliceReversed"}
          Cases <- GAltQ
          GF = 4
          FPKeys = {}
INVARIANTS Emit1 EmitSafe NoFalseNegative CountRight
