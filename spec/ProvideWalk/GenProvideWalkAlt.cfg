SPECIFICATION GSpecAlt
CONSTANTS Devs = {"Dev_C13_FetcherSliceReversed"}
          Cases <- GSel
          Family = "GAlt"
          GF = 4
          FPKeys = {}
INVARIANTS Emit1 EmitSafe NoFalseNegative CountRight
