SPECIFICATION GSpec
CONSTANTS Devs = {}
          Cases <- GSel
          Family = "GSmall"
          GF = 4
          FPKeys = {}
INVARIANTS Emit1 StackIsRecursive EmitSafe EmitOnce NoFalseNegative CountRight
