SPECIFICATION GSpec
CONSTANTS Devs = {}
          Cases <- GThorough
          GF = 4
          FPKeys = {}
INVARIANTS Emit1 StackIsRecursive EmitSafe EmitOnce NoFalseNegative CountRight
