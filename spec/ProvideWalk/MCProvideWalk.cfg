SPECIFICATION Spec
CONSTANTS Cases <- WalkCases
          GF = 4
          FPKeys = {}
          MCN = 4
          MCA = 3
          MCStops = {0, 2}
          MCTrks = {"map", "none"}
INVARIANTS StackIsRecursive EmitSafe EmitOnce NoFalseNegative ChainShape CountRight
