SPECIFICATION Spec
CONSTANTS Devs = {}
          Cases <- MQuick
          GF = 4
          FPKeys = {}
INVARIANTS StackIsRecursive EmitSafe EmitOnce NoFalseNegative ChainShape CountRight
