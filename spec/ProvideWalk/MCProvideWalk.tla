--------------------------- MODULE MCProvideWalk ---------------------------
(* Phase M / G case spaces for ProvideWalk.
   Shapes     : every ordered DAG on N nodes (link lists without repetition, sharing, unreachable nodes),
                plain available dag-pb nodes, one or two walks sharing the tracker, emit stop, tracker kind.
   AttrFam    : every DAG on N nodes x a per-node attribute (available / identity / file entity /
                fails locality / fetch error) x WalkDAG|WalkEntityRoots x locality on|off.
   AliasCases : a CIDv0/CIDv1 alias pair (3 aliases 2) in every 4-node DAG, MapTracker vs cid.Set.
   BloomCases : the tracker driven directly, capacity 1..2, growth factor GF, false positives allowed. *)
EXTENDS ProvideWalk

SeqsOver(S) == UNION {{s \in [1..k -> S] : \A i, j \in 1..k : i # j => s[i] # s[j]} : k \in 0..Cardinality(S)}
GraphsOn(N) == LET S == [i \in 1..N |-> SeqsOver((i + 1)..N)]
                   RECURSIVE G(_)
                   G(i) == IF i > N THEN {<<>>} ELSE {<<s>> \o t : s \in S[i], t \in G(i + 1)}
               IN G(1)
Const(N, v) == [i \in 1..N |-> v]

Base(N, g) == [n |-> N, links |-> g, kind |-> Const(N, "pb"), ident |-> Const(N, FALSE), aliasOf |-> Const(N, 0),
               loc |-> Const(N, TRUE), fok |-> Const(N, TRUE), mode |-> "dag", locality |-> FALSE,
               trk |-> "map", cap |-> 0, roots |-> <<1>>, stop |-> 0, cached |-> FALSE]

RootSeqs(N) == {<<1>>} \cup {<<r, 1>> : r \in 2..N} \cup {<<1, 1>>}
Shapes(N, Roots, Stops, Trks) ==
  {[Base(N, g) EXCEPT !.roots = rs, !.stop = st, !.trk = tk] : g \in GraphsOn(N), rs \in Roots, st \in Stops, tk \in Trks}

Attrs == {"ok", "id", "file", "nl", "ferr"}
WithAttrs(c, a) == [c EXCEPT !.ident = [i \in 1..c.n |-> a[i] = "id"],
                             !.kind  = [i \in 1..c.n |-> IF a[i] = "file" THEN "file" ELSE "dir"],
                             !.loc   = [i \in 1..c.n |-> a[i] # "nl"],
                             !.fok   = [i \in 1..c.n |-> a[i] # "ferr"]]
AttrFam(N, Roots) == {[WithAttrs(Base(N, g), a) EXCEPT !.mode = m, !.locality = lo, !.roots = rs] :
                        g \in GraphsOn(N), a \in [1..N -> Attrs], m \in {"dag", "entity"}, lo \in BOOLEAN, rs \in Roots}

AliasCases(u) == {[Base(4, g) EXCEPT !.aliasOf = <<0, 0, 2, 0>>, !.trk = tk] :
                 g \in {h \in GraphsOn(4) : h[2] = h[3]}, tk \in {"map", "cidset"}}

BloomCases(u) == {[Base(1, <<<<>>>>) EXCEPT !.roots = <<>>, !.trk = "bloom", !.cap = cp] : cp \in {1, 2}}
             \cup {[Base(1, <<<<>>>>) EXCEPT !.roots = <<>>, !.trk = "map"]}

\* a fetcher that memoises its link slices matters when nodes are fetched more than once: no tracker
CachedCases(u) == {[c EXCEPT !.cached = TRUE] : c \in Shapes(4, {<<1>>, <<1, 1>>, <<2, 1>>}, {0}, {"none"})}

\* TLC evaluates every parameterless constant definition at start-up, whatever the configuration uses; the
\* families therefore take a dummy parameter and the configuration selects one by name (CONSTANT Family).
CONSTANT Family
MCSel == CASE Family = "MQuick" -> BloomCases(0) \cup Shapes(4, RootSeqs(4), {0, 2}, {"map", "none"}) \cup AttrFam(3, {<<1>>})
                                   \cup AliasCases(0) \cup CachedCases(0)
           [] Family = "MThorough" -> BloomCases(0) \cup Shapes(5, {<<1>>, <<3, 1>>}, {0, 3}, {"map"})
                                      \cup AttrFam(3, {<<1>>, <<2, 1>>}) \cup AliasCases(0) \cup CachedCases(0)
           [] Family = "MDev" -> CachedCases(0)
           [] Family = "GQuick" -> Shapes(4, {<<1>>, <<2, 1>>, <<1, 1>>}, {0, 2}, {"map", "bloom"}) \cup AttrFam(3, {<<1>>})
                                   \cup AliasCases(0) \cup CachedCases(0)
           [] Family = "GThorough" -> Shapes(5, {<<1>>, <<3, 1>>}, {0, 3}, {"map"})
                                      \cup Shapes(4, RootSeqs(4), {0, 2}, {"map", "bloom", "cidset", "none"})
                                      \cup AttrFam(3, {<<1>>, <<2, 1>>}) \cup AliasCases(0) \cup CachedCases(0)
           [] Family = "GSmall" -> Shapes(3, {<<1>>, <<2, 1>>}, {0, 2}, {"map", "cidset"}) \cup AliasCases(0) \cup CachedCases(0)
           [] Family = "GAlt" -> CachedCases(0)
           [] OTHER -> {}
\* sanity of the deviation model: with DF enabled some memoising-fetcher configuration must behave observably differently
NoDeviation == dev = {}
BloomBound == cfg.roots # <<>> \/ dedup <= 2
=============================================================================
