--------------------------- MODULE MCProvideWalk ---------------------------
(* Phase M case spaces for ProvideWalk.
   ShapeCases : every ordered DAG on MCN nodes (link lists without repetition, sharing, unreachable
                nodes), plain available dag-pb nodes, one or two walks sharing the tracker, emit stop.
   AttrCases  : every DAG on MCA nodes x a per-node attribute (available / identity / file entity /
                fails locality / fetch error) x WalkDAG|WalkEntityRoots x locality on|off.
   AliasCases : a CIDv0/CIDv1 alias pair (3 aliases 2) in every 4-node DAG, MapTracker vs cid.Set.
   BloomCases : the tracker driven directly, capacity 1..2, growth factor GF, false positives allowed. *)
EXTENDS ProvideWalk
CONSTANTS MCN, MCA, MCStops, MCTrks

SeqsOver(S) == UNION {{s \in [1..k -> S] : \A i, j \in 1..k : i # j => s[i] # s[j]} : k \in 0..Cardinality(S)}
GraphsOn(N) == {g \in [1..N -> SeqsOver(2..N)] : \A i \in 1..N : g[i] \in SeqsOver((i + 1)..N)}
Const(N, v) == [i \in 1..N |-> v]

Base(N, g) == [n |-> N, links |-> g, kind |-> Const(N, "pb"), ident |-> Const(N, FALSE), aliasOf |-> Const(N, 0),
               loc |-> Const(N, TRUE), fok |-> Const(N, TRUE), mode |-> "dag", locality |-> FALSE,
               trk |-> "map", cap |-> 0, roots |-> <<1>>, stop |-> 0]

RootSeqs(N) == {<<1>>} \cup {<<r, 1>> : r \in 2..N} \cup {<<1, 1>>}
ShapeCases == {[Base(MCN, g) EXCEPT !.roots = rs, !.stop = st, !.trk = tk] :
                 g \in GraphsOn(MCN), rs \in RootSeqs(MCN), st \in MCStops, tk \in MCTrks}

Attrs == {"ok", "id", "file", "nl", "ferr"}
WithAttrs(c, a) == [c EXCEPT !.ident = [i \in 1..c.n |-> a[i] = "id"],
                             !.kind  = [i \in 1..c.n |-> IF a[i] = "file" THEN "file" ELSE "dir"],
                             !.loc   = [i \in 1..c.n |-> a[i] # "nl"],
                             !.fok   = [i \in 1..c.n |-> a[i] # "ferr"]]
AttrCases == {[WithAttrs(Base(MCA, g), a) EXCEPT !.mode = m, !.locality = lo, !.roots = rs] :
                g \in GraphsOn(MCA), a \in [1..MCA -> Attrs], m \in {"dag", "entity"}, lo \in BOOLEAN,
                rs \in {<<1>>, <<2, 1>>}}

AliasCases == {[Base(4, g) EXCEPT !.aliasOf = <<0, 0, 2, 0>>, !.trk = tk] :
                 g \in {h \in GraphsOn(4) : h[2] = h[3]}, tk \in {"map", "cidset"}}

BloomCases == {[Base(1, <<<<>>>>) EXCEPT !.roots = <<>>, !.trk = "bloom", !.cap = cp] : cp \in {1, 2}}
             \cup {[Base(1, <<<<>>>>) EXCEPT !.roots = <<>>, !.trk = "map"]}

WalkCases == ShapeCases \cup AttrCases \cup AliasCases
\* the dedup counter is the only unbounded variable of the tracker-driver configurations
BloomBound == dedup <= 3
=============================================================================
