SPECIFICATION Spec
CONSTANTS Cases <- BloomCases
          GF = 2
          FPKeys = {1, 2, 3, 4, 5, 6}
          MCN = 1
          MCA = 1
          MCStops = {0}
          MCTrks = {"map"}
INVARIANTS NoFalseNegative ChainShape CountRight
PROPERTY ChainMonotone
CONSTRAINT BloomBound
