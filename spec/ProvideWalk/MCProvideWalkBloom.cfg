SPECIFICATION Spec
CONSTANTS Devs = {}
          Cases <- BloomCases
          GF = 2
          FPKeys = {1, 2, 3, 4, 5}
INVARIANTS NoFalseNegative ChainShape CountRight
PROPERTY ChainMonotone
CONSTRAINT BloomBound
