SPECIFICATION Spec
CONSTANTS Devs = {"Dev_C13_FetcherSliceReversed"}
          Cases <- CachedCases
          GF = 2
          FPKeys = {}
INVARIANTS NoDeviation EmitSafe
