SPECIFICATION Spec
CONSTANTS Devs = {"Dev_C13_FetcherSliceReversed"}
          Cases <- MCSel
          Family = "MDev"
          GF = 2
          FPKeys = {}
INVARIANTS NoDeviation EmitSafe
