SPECIFICATION Spec
CONSTANTS Devs = {}
          Cases <- MCSel
          Family = "MThorough"
          GF = 2
          FPKeys = {1, 2, 3, 4, 5}
INVARIANTS StackIsRecursive EmitSafe EmitOnce NoFalseNegative ChainShape CountRight
PROPERTY ChainMonotone
CONSTRAINT BloomBound
