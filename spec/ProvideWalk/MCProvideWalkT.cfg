SPECIFICATION Spec
CONSTANTS Devs = {}
          Cases <- MThorough
          GF = 4
          FPKeys = {}
INVARIANTS StackIsRecursive EmitSafe EmitOnce NoFalseNegative ChainShape CountRight
