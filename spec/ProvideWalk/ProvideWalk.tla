----------------------------- MODULE ProvideWalk -----------------------------
(* C13 -- dag/walker: WalkDAG / WalkEntityRoots (walkLoop, the explicit-stack DFS), the visited
   trackers (MapTracker, cid.Set, BloomTracker with its chain of growing filters).

   A configuration (cfg):
     n        nodes 1..n; links only go to larger numbers
     links    links[i] = children of node i in link order (duplicates allowed)
     kind     kind[i] \in {"raw","file","dir","hamt","symlink","pb","cbor"}   (UnixFS entity / codec)
     ident    ident[i]  : node i is addressed by an identity-multihash CID (content inline)
     aliasOf  aliasOf[i] = j # 0 : CID i is the other CID version of block j (same multihash, same block)
     loc      loc[i]    : the locality check answers true for CID i
     fok      fok[i]    : fetching/decoding block i succeeds
     mode     "dag" (WalkDAG) | "entity" (WalkEntityRoots)
     locality WithLocality configured
     trk      "map" (MapTracker) | "bloom" (BloomTracker) | "cidset" (cid.Set) | "none"
     cap      designed capacity of the first bloom filter (0 for exact trackers = never grows)
     roots    the walks to run one after the other, all sharing the tracker
     stop     k > 0 : the k-th emit callback of every walk returns false; 0 : never
     cached   the fetcher hands out its own (memoised) link slice: the same backing array on every call

   walkLoop is single-threaded; one action per callback it makes:
     Pop (take the top of the stack), Visit (tracker.Visit), Local (locality check), Fetch (links
     fetcher: push the children reversed), Emit, EndWalk.
   The tracker is a chain of filters; filter f = [cap, n, pos]: designed capacity, inserts so far,
   keys that test positive in it (inserted ones and, for a Bloom filter, false positives).
   Exact trackers are the degenerate chain of one filter that never fills up and has no false
   positives.  In tracker-driver configurations (roots = <<>>) the tracker is called directly
   (TVisit / THas / TBulk).

   The module describes the IDEAL behaviour.  One recorded as-built defect is a guarded alternative
   (Devs, ab): walkLoop reverses the slice the fetcher returned IN PLACE, so a fetcher that memoises
   its result sees its slice flipped on every fetch and every second visit of a node walks its children
   right-to-left (DF).

   The property is stated against an independent reference: Rec, the textbook recursive pre-order
   DFS with mark-on-entry (theorem-as-invariant StackIsRecursive).                              *)
EXTENDS Integers, Sequences, FiniteSets, TLC, Json

CONSTANTS Devs,      \* enabled deviations; {} = ideal behaviour only
          Cases,     \* configurations Init may choose from
          GF,        \* BloomGrowthFactor
          FPKeys     \* tracker-driver model checking: keys that may become false positives

DF == "Dev_C13_FetcherSliceReversed"
VARIABLES cfg, wi, stack, pc, cur, chain, total, dedup, asked, fp, emitted, left, exp, done, ab, flip, dev
vars == <<cfg, wi, stack, pc, cur, chain, total, dedup, asked, fp, emitted, left, exp, done, ab, flip, dev>>
\* wi      index of the current walk in cfg.roots
\* stack   the explicit DFS stack (top = last element)
\* cur     the CID popped in this iteration
\* chain   the tracker: sequence of filters, oldest first
\* total   BloomTracker.totalInserts / number of distinct keys marked
\* dedup   Visit calls that returned false
\* asked   keys that were ever passed to Visit (history variable for NoFalseNegative)
\* fp      the tracker has answered "seen" for a key it had not seen (Bloom false positive)
\* emitted sequence of [w |-> walk, c |-> node] in emission order
\* left    emit calls left before the callback returns false (-1 = unlimited)
\* exp     reference result for the current walk, computed when it starts
\* ab      this run shows the as-built behaviour DF (chosen once per configuration; FALSE unless DF \in Devs)
\* flip    (as built) nodes whose memoised link slice is currently reversed
\* dev     deviations that made an observable difference so far

Nodes == 1..cfg.n
ToSet(s) == {s[i] : i \in 1..Len(s)}
Reverse(s) == [i \in 1..Len(s) |-> s[Len(s) + 1 - i]]
Exact == cfg.trk \in {"map", "cidset"}

\* the tracker key of a CID: its multihash (shared by CIDv0/CIDv1 aliases); cid.Set keys by the CID itself
KeyOfC(g, c) == IF g.trk = "cidset" THEN c ELSE IF g.aliasOf[c] # 0 THEN g.aliasOf[c] ELSE c
\* the children walkLoop pushes: entity walks stop below files and symlinks (raw leaves have none)
ChildrenC(g, c) == IF g.mode = "entity" /\ g.kind[c] \in {"file", "symlink", "raw"} THEN <<>> ELSE g.links[c]
KeyOf(c) == KeyOfC(cfg, c)
Children(c) == ChildrenC(cfg, c)

(* ---------------- tracker --------------------------------------------------------------------- *)
Has(ch, k) == \E i \in 1..Len(ch) : k \in ch[i].pos
Seen(ch)   == UNION {ch[i].pos : i \in 1..Len(ch)}
\* insert k into the newest filter; a filter that received more than cap inserts gets a successor
Insert(ch, k) == LET m == Len(ch)
                     f == [ch[m] EXCEPT !.pos = @ \cup {k}, !.n = @ + 1]
                     c1 == [ch EXCEPT ![m] = f]
                 IN IF f.cap > 0 /\ f.n > f.cap THEN Append(c1, [cap |-> f.cap * GF, n |-> 0, pos |-> {}]) ELSE c1
\* n anonymous fresh keys inserted one after the other
RECURSIVE InsertAnon(_, _)
InsertAnon(ch, n) ==
  IF n = 0 THEN ch
  ELSE LET m == Len(ch)
           room == IF ch[m].cap = 0 THEN n ELSE ch[m].cap + 1 - ch[m].n     \* inserts until this filter grows
       IN IF ch[m].cap = 0 \/ n < room THEN [ch EXCEPT ![m].n = @ + n]
          ELSE InsertAnon(Append([ch EXCEPT ![m].n = @ + room], [cap |-> ch[m].cap * GF, n |-> 0, pos |-> {}]), n - room)

NewChain(c) == << [cap |-> c.cap, n |-> 0, pos |-> {}] >>

(* ---------------- reference: recursive pre-order DFS with mark-on-entry ----------------------- *)
AvailC(g, c) == (g.locality => g.loc[c]) /\ g.fok[c]
RECURSIVE Rec(_, _, _), RecList(_, _, _, _)
\* st = [seen |-> marked keys, out |-> emitted nodes, left |-> emit budget, halt |-> emit said stop]
Rec(g, c, st) ==
  IF st.halt \/ (g.trk # "none" /\ KeyOfC(g, c) \in st.seen) THEN st
  ELSE LET s1 == [st EXCEPT !.seen = @ \cup {KeyOfC(g, c)}] IN
       IF ~AvailC(g, c) THEN s1
       ELSE IF g.ident[c] THEN RecList(g, ChildrenC(g, c), 1, s1)            \* traversed, not emitted
       ELSE LET s2 == [s1 EXCEPT !.out = Append(@, c), !.left = IF @ > 0 THEN @ - 1 ELSE @,
                                 !.halt = (s1.left = 1)]
            IN RecList(g, ChildrenC(g, c), 1, s2)
RecList(g, ls, j, st) == IF j > Len(ls) THEN st ELSE RecList(g, ls, j + 1, Rec(g, ls[j], st))
Expected(g, root, ch) == Rec(g, root, [seen |-> Seen(ch), out |-> <<>>,
                                       left |-> IF g.stop > 0 THEN g.stop ELSE -1, halt |-> FALSE])
NoExp == [seen |-> {}, out |-> <<>>, left |-> -1, halt |-> FALSE]

(* ---------------- initial state --------------------------------------------------------------- *)
StartWalk(c, i, ch) ==   \* values of (wi, stack, pc, left, exp, done) when walk i of configuration c starts
  IF i <= Len(c.roots)
  THEN [wi |-> i, stack |-> <<c.roots[i]>>, pc |-> "pop", left |-> IF c.stop > 0 THEN c.stop ELSE -1, done |-> FALSE]
  ELSE [wi |-> i, stack |-> <<>>, pc |-> "idle", left |-> -1, done |-> TRUE]
InitWith(c) ==
  /\ cfg = c /\ chain = NewChain(c) /\ total = 0 /\ dedup = 0 /\ asked = {} /\ fp = FALSE /\ emitted = <<>> /\ cur = 0
  /\ LET s == StartWalk(c, 1, NewChain(c)) IN
     wi = s.wi /\ stack = s.stack /\ pc = s.pc /\ left = s.left /\ done = s.done
  /\ exp = IF c.roots = <<>> THEN NoExp ELSE Expected(c, c.roots[1], NewChain(c))
  /\ flip = {} /\ dev = {} /\ ab \in (IF DF \in Devs /\ c.cached THEN BOOLEAN ELSE {FALSE})
Init == \E c \in Cases : InitWith(c)
\* the same as an action (a trace holds several configurations)
StartWith(c) ==
  /\ cfg' = c /\ chain' = NewChain(c) /\ total' = 0 /\ dedup' = 0 /\ asked' = {} /\ fp' = FALSE /\ emitted' = <<>> /\ cur' = 0
  /\ LET s == StartWalk(c, 1, NewChain(c)) IN
     wi' = s.wi /\ stack' = s.stack /\ pc' = s.pc /\ left' = s.left /\ done' = s.done
  /\ exp' = IF c.roots = <<>> THEN NoExp ELSE Expected(c, c.roots[1], NewChain(c))
  /\ flip' = {} /\ dev' = {} /\ ab' \in (IF DF \in Devs /\ c.cached THEN BOOLEAN ELSE {FALSE})

(* ---------------- walkLoop --------------------------------------------------------------------- *)
Pop == /\ pc = "pop" /\ stack # <<>>
       /\ cur' = stack[Len(stack)] /\ stack' = SubSeq(stack, 1, Len(stack) - 1)
       /\ pc' = IF cfg.trk = "none" THEN "local" ELSE "visit"
       /\ UNCHANGED <<cfg, wi, chain, total, dedup, asked, fp, emitted, left, exp, done, ab, flip, dev>>

\* tracker.Visit(k) = ret; a Bloom filter may answer "seen" for a key it never saw (fp)
VisitKey(k, ret) ==
  /\ asked' = asked \cup {k}
  /\ IF Has(chain, k)
     THEN ret = FALSE /\ dedup' = dedup + 1 /\ UNCHANGED <<chain, total, fp>>
     ELSE \/ ret = TRUE /\ chain' = Insert(chain, k) /\ total' = total + 1 /\ UNCHANGED <<dedup, fp>>
          \/ /\ ret = FALSE /\ cfg.trk = "bloom"                                  \* false positive: bits already set
             /\ chain' = [chain EXCEPT ![Len(chain)].pos = @ \cup {k}]
             /\ dedup' = dedup + 1 /\ fp' = TRUE /\ UNCHANGED total

Visit(ret) == /\ pc = "visit"
              /\ VisitKey(KeyOf(cur), ret)
              /\ pc' = IF ret THEN "local" ELSE "pop"
              /\ UNCHANGED <<cfg, wi, stack, cur, emitted, left, exp, done, ab, flip, dev>>

Local == /\ pc = "local"
         /\ pc' = IF cfg.locality /\ ~cfg.loc[cur] THEN "pop" ELSE "fetch"
         /\ UNCHANGED <<cfg, wi, stack, cur, chain, total, dedup, asked, fp, emitted, left, exp, done, ab, flip, dev>>

\* ideal: the children are pushed last-to-first so that the first link is popped next; the fetcher's slice
\* is left alone.  As built (ab): the fetcher's slice is reversed in place and pushed, so what is pushed is
\* the reverse of whatever the memoised slice holds at the moment.
Fetch == /\ pc = "fetch"
         /\ IF ~cfg.fok[cur] THEN pc' = "pop" /\ UNCHANGED <<stack, flip, dev>>
            ELSE /\ pc' = "emit"
                 /\ IF ab /\ Children(cur) # <<>>
                    THEN LET held == IF cur \in flip THEN Reverse(cfg.links[cur]) ELSE cfg.links[cur] IN
                         /\ stack' = stack \o Reverse(held)
                         /\ flip' = IF cur \in flip THEN flip \ {cur} ELSE flip \cup {cur}
                         /\ dev' = IF Reverse(held) # Reverse(Children(cur)) THEN dev \cup {DF} ELSE dev
                    ELSE stack' = stack \o Reverse(Children(cur)) /\ UNCHANGED <<flip, dev>>
         /\ UNCHANGED <<cfg, wi, cur, chain, total, dedup, asked, fp, emitted, left, exp, done, ab>>

Emit == /\ pc = "emit"
        /\ IF cfg.ident[cur]
           THEN pc' = "pop" /\ UNCHANGED <<emitted, left>>
           ELSE /\ emitted' = Append(emitted, [w |-> wi, c |-> cur])
                /\ left' = IF left > 0 THEN left - 1 ELSE left
                /\ pc' = IF left = 1 THEN "end" ELSE "pop"                       \* emit returned false
        /\ UNCHANGED <<cfg, wi, stack, cur, chain, total, dedup, asked, fp, exp, done, ab, flip, dev>>

EndWalk == /\ (pc = "pop" /\ stack = <<>>) \/ pc = "end"
           /\ LET s == StartWalk(cfg, wi + 1, chain) IN
              /\ wi' = s.wi /\ stack' = s.stack /\ pc' = s.pc /\ left' = s.left /\ done' = s.done
              /\ exp' = IF s.done THEN exp ELSE Expected(cfg, cfg.roots[wi + 1], chain)
           /\ UNCHANGED <<cfg, cur, chain, total, dedup, asked, fp, emitted, ab, flip, dev>>

(* ---------------- tracker driven directly (roots = <<>>) ------------------------------------------ *)
TVisit(k, ret) == /\ pc = "idle" /\ cfg.roots = <<>> /\ VisitKey(k, ret)
                  /\ UNCHANGED <<cfg, wi, stack, pc, cur, emitted, left, exp, done, ab, flip, dev>>
THas(k, ret) == /\ pc = "idle" /\ cfg.roots = <<>>
                /\ IF Has(chain, k) THEN ret = TRUE /\ UNCHANGED <<chain, fp>>
                   ELSE \/ ret = FALSE /\ UNCHANGED <<chain, fp>>
                        \/ ret = TRUE /\ cfg.trk = "bloom" /\ fp' = TRUE
                           /\ chain' = [chain EXCEPT ![Len(chain)].pos = @ \cup {k}]
                /\ UNCHANGED <<cfg, wi, stack, pc, cur, total, dedup, asked, emitted, left, exp, done, ab, flip, dev>>
\* n Visit calls on keys never used before or after, nt of which returned true
TBulk(n, nt) == /\ pc = "idle" /\ cfg.roots = <<>> /\ nt <= n /\ (cfg.trk # "bloom" => nt = n)
                /\ chain' = InsertAnon(chain, nt) /\ total' = total + nt /\ dedup' = dedup + (n - nt)
                /\ fp' = (fp \/ nt < n)
                /\ UNCHANGED <<cfg, wi, stack, pc, cur, asked, emitted, left, exp, done, ab, flip, dev>>

Terminated == done /\ cfg.roots # <<>> /\ UNCHANGED vars
Next == Pop \/ (\E r \in BOOLEAN : Visit(r)) \/ Local \/ Fetch \/ Emit \/ EndWalk \/ Terminated
        \/ \E k \in FPKeys, r \in BOOLEAN : TVisit(k, r) \/ THas(k, r)
Spec == Init /\ [][Next]_vars

(* ---------------- the property --------------------------------------------------------------------- *)
EmittedOf(w) == LET RECURSIVE Build(_, _)
                    Build(j, acc) == IF j > Len(emitted) THEN acc
                                     ELSE Build(j + 1, IF emitted[j].w = w THEN Append(acc, emitted[j].c) ELSE acc)
                IN Build(1, <<>>)
WalkOver == (pc = "pop" /\ stack = <<>>) \/ pc = "end"
\* theorem-as-invariant: the explicit-stack loop computes exactly the recursive pre-order DFS --
\* same emission sequence (each reachable, available, non-identity CID once, children in link order)
\* and same marked set -- for every walk, including walks that start from a tracker other walks filled
StackIsRecursive == (WalkOver /\ ~fp /\ DF \notin dev) => EmittedOf(wi) = exp.out /\ (cfg.trk # "none" => Seen(chain) = exp.seen)
\* nothing that fails the locality check, nothing inline, and (exact tracker) nothing twice
EmitSafe == \A j \in 1..Len(emitted) :
               /\ ~cfg.ident[emitted[j].c]
               /\ cfg.locality => cfg.loc[emitted[j].c]
               /\ cfg.fok[emitted[j].c]
EmitOnce == cfg.trk # "none" /\ ~fp => \A i, j \in 1..Len(emitted) : i # j => KeyOf(emitted[i].c) # KeyOf(emitted[j].c)
\* the tracker never forgets: every key ever passed to Visit tests positive, across any number of growth steps
NoFalseNegative == \A k \in asked : Has(chain, k)
\* the chain only grows, sealed filters never change, capacities multiply by GF
ChainShape == /\ \A i \in 1..(Len(chain) - 1) : chain[i + 1].cap = chain[i].cap * GF /\ chain[i].n = chain[i].cap + 1
              /\ LET f == chain[Len(chain)] IN f.cap > 0 => f.n <= f.cap
              /\ Exact => Len(chain) = 1
ChainMonotone == [][/\ Len(chain') >= Len(chain)
                    /\ \A i \in 1..(Len(chain) - 1) : chain'[i] = chain[i]
                    /\ \A i \in 1..Len(chain) : chain[i].pos \subseteq chain'[i].pos]_vars
\* Count(): total inserts = the sum over the chain (exact trackers: number of marked keys)
CountRight == /\ Exact => Cardinality(Seen(chain)) <= total /\ (cfg.roots # <<>> => Cardinality(Seen(chain)) = total)
              /\ LET RECURSIVE Sum(_)
                     Sum(i) == IF i = 0 THEN 0 ELSE chain[i].n + Sum(i - 1)
                 IN total = Sum(Len(chain))
=============================================================================
