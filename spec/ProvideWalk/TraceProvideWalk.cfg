SPECIFICATION TSpec
CONSTANTS Devs = @DEVS@
          Cases = {}
          GF = 4
          FPKeys = {}
INVARIANTS StackIsRecursive EmitSafe EmitOnce NoFalseNegative ChainShape CountRight DevReport
CONSTRAINT TraceConstraint
POSTCONDITION TracePost
CHECK_DEADLOCK FALSE
