-------------------------- MODULE TraceProvideWalk --------------------------
(* Phase T: recorded histories of the real walker / trackers must be behaviours of ProvideWalk.
   Walk runs: every callback walkLoop makes is one event -- Visit (tracker.Visit through a logging
   wrapper around the real MapTracker / BloomTracker / cid.Set), Local (locality check), Fetch (links /
   node fetcher), Emit, End (WalkDAG / WalkEntityRoots returned).  Pop is the only silent step and is
   forced.  Tracker runs (roots = <<>>): TVisit / THas / TBulk events on a real BloomTracker carry the
   tracker's internal counters (chain length, capacity and inserts of the newest filter, totalInserts,
   deduplicated), which must equal the model's after every call.
   Invariants of ProvideWalk (StackIsRecursive, EmitSafe, EmitOnce, NoFalseNegative, ChainShape,
   CountRight) are evaluated in every state. *)
EXTENDS ProvideWalk

Trace == ndJsonDeserialize("trace.ndjson")
VARIABLES l, devAll     \* devAll: deviations used by earlier configurations of this trace
tvars == <<vars, l, devAll>>
ASSUME TLCSet(1, 0)

HasEv == l <= Len(Trace)
Ev == Trace[l]
IsEvent(e) == HasEv /\ Trace[l].ev = e /\ l' = l + 1

CfgOf(e) == [n |-> e.n, links |-> e.links, kind |-> e.kind, ident |-> e.ident, aliasOf |-> e.aliasOf,
             loc |-> e.loc, fok |-> e.fok, mode |-> e.mode, locality |-> e.locality, trk |-> e.trk,
             cap |-> e.cap, roots |-> e.roots, stop |-> e.stop, cached |-> e.cached]
Dummy == [n |-> 1, links |-> << <<>> >>, kind |-> <<"raw">>, ident |-> <<FALSE>>, aliasOf |-> <<0>>,
          loc |-> <<TRUE>>, fok |-> <<TRUE>>, mode |-> "dag", locality |-> FALSE, trk |-> "map",
          cap |-> 0, roots |-> <<>>, stop |-> 0, cached |-> FALSE]

TInit == l = 1 /\ devAll = {} /\ InitWith(Dummy)

Quiescent == done \/ cfg.roots = <<>>
TReset == IsEvent("Reset") /\ Quiescent /\ StartWith(CfgOf(Ev)) /\ devAll' = devAll \cup dev

TPop == Pop /\ l' = l                    \* forced: every other walk action needs pc # "pop"
TVisitW == IsEvent("Visit") /\ cur = Ev.c /\ Visit(Ev.ret)
TLocal == /\ IsEvent("Local") /\ pc = "local" /\ cfg.locality /\ cur = Ev.c /\ Ev.ret = cfg.loc[cur]
          /\ Local
\* without WithLocality the locality step makes no call
TNoLocal == pc = "local" /\ ~cfg.locality /\ Local /\ l' = l
TFetch == /\ IsEvent("Fetch") /\ pc = "fetch" /\ cur = Ev.c /\ Ev.ok = cfg.fok[cur]
          /\ Fetch
TEmit == /\ IsEvent("Emit") /\ pc = "emit" /\ cur = Ev.c /\ ~cfg.ident[cur] /\ Ev.cont = (left # 1)
         /\ Emit
\* identity CIDs are traversed, not emitted: no callback
TNoEmit == pc = "emit" /\ cfg.ident[cur] /\ Emit /\ l' = l
TEnd == IsEvent("End") /\ Ev.c = wi /\ EndWalk

Counters == /\ Len(chain') = Ev.chain
            /\ chain'[Len(chain')].cap = Ev.cap /\ chain'[Len(chain')].n = Ev.cur
            /\ total' = Ev.total /\ dedup' = Ev.dedup
TTVisit == IsEvent("TVisit") /\ TVisit(Ev.k, Ev.ret) /\ Counters
TTHas   == IsEvent("THas") /\ THas(Ev.k, Ev.ret)
TTBulk  == IsEvent("TBulk") /\ TBulk(Ev.n, Ev.nt) /\ Counters

TNext == \/ TReset
         \/ /\ UNCHANGED devAll
            /\ \/ TPop \/ TVisitW \/ TLocal \/ TNoLocal \/ TFetch \/ TEmit \/ TNoEmit \/ TEnd
               \/ TTVisit \/ TTHas \/ TTBulk
TSpec == TInit /\ [][TNext]_tvars

DevReport == HasEv \/ \A d \in dev \cup devAll : PrintT(<<"DEV_USED", d>>)
TraceConstraint == TLCSet(1, IF l - 1 > TLCGet(1) THEN l - 1 ELSE TLCGet(1))
TracePost == PrintT(<<"TRACE_HWM", TLCGet(1)>>)
=============================================================================
