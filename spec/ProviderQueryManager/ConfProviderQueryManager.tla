---------------------- MODULE ConfProviderQueryManager ----------------------
(* Confluence of the manager's internal steps when stimuli arrive one at a time: from the state
   right after a stimulus, EVERY maximal sequence of internal steps (TLC explores all of them in
   cw) ends in the state the generator's Settle computes (ws[CV]).  This is what makes the
   expected observations of phase G a function of the stimulus sequence. *)
EXTENDS GenProviderQueryManager
CONSTANT CV          \* variant checked: 1 = ideal, 4 = as built
VARIABLE cw
cvars == <<w, ws, alive, hist, seen, fin, cw>>
CSucc == IntSucc(cw, VSet(CV)) \cup S_Read(cw)
CInit == GInit /\ cw = w
CNext == \/ /\ cw' \in CSucc /\ UNCHANGED gvars
         \/ /\ CSucc = {} /\ ~fin /\ Len(hist) < D /\ CV \in alive
            /\ \E s \in {s \in FreeStims : s.op \in Ops} : GStep(s) /\ StimEn(cw, s) /\ cw' = StimF(cw, s)
CSpec == CInit /\ [][CNext]_cvars
Confluent == (CSucc = {} /\ CV \in alive) => cw = ws[CV]
=============================================================================
