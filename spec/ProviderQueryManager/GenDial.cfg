SPECIFICATION GSpec
CONSTANTS Keys = {"a"}
          NReq = 1
          NProv = 2
          Devs = {}
          MipSet = {1}
          MpcSet = {0}
          FpSet = {FALSE, TRUE}
          IgnSets = {{}, {1}}
          MaxTicks = 0
          MaxArgs = {0}
          DialSet = {"ok", "self", "fail", "fpempty", "fpsame", "fpnewok", "fpnewfail", "fpnewself"}
          AllowClose = FALSE
          D = 4
          Ops = {"Call", "Emit", "Dial"}
INVARIANTS GEmit GAllClosed
CHECK_DEADLOCK FALSE
