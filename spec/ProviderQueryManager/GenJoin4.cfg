SPECIFICATION GSpec
CONSTANTS Keys = {"a"}
          NReq = 3
          NProv = 2
          Devs = {}
          MipSet = {1}
          MpcSet = {0}
          FpSet = {FALSE}
          IgnSets = {{}}
          MaxTicks = 0
          MaxArgs = {0, 1}
          DialSet = {"ok"}
          AllowClose = FALSE
          D = 4
          Ops = {"Call", "Emit", "Dial", "End", "Cancel", "Drain", "Tick", "Close"}
INVARIANTS GEmit GAllClosed
CHECK_DEADLOCK FALSE
