SPECIFICATION GSpec
CONSTANTS Keys = {"a", "b"}
          NReq = 2
          NProv = 1
          Devs = {}
          MipSet = {1}
          MpcSet = {0}
          FpSet = {FALSE}
          IgnSets = {{}}
          MaxTicks = 2
          MaxArgs = {0}
          DialSet = {"ok", "fail"}
          AllowClose = TRUE
          D = 4
          Ops = {"Call", "Emit", "Dial", "End", "Cancel", "Drain", "Tick", "Close"}
INVARIANTS GEmit GAllClosed
CHECK_DEADLOCK FALSE
