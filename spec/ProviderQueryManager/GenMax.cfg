SPECIFICATION GSpec
CONSTANTS Keys = {"a"}
          NReq = 2
          NProv = 2
          Devs = {}
          MipSet = {1}
          MpcSet = {0, 1}
          FpSet = {FALSE}
          IgnSets = {{}}
          MaxTicks = 0
          MaxArgs = {0, 1}
          DialSet = {"ok"}
          AllowClose = FALSE
          D = 6
          Ops = {"Call", "Emit", "Dial"}
INVARIANTS GEmit GAllClosed
CHECK_DEADLOCK FALSE
