---------------------- MODULE GenProviderQueryManager ----------------------
(* Phase G generator.  A behaviour is a sequence of STIMULI the harness can apply to the real
   manager from outside (call, cancel, drain a returned channel, let the scripted router emit /
   end, release a gated dial with a result class, advance the fake clock, Close), each followed
   by running the manager to QUIESCENCE (synctest.Wait in the harness; Settle = internal steps
   until none is enabled in the model).  With one stimulus at a time the internal steps are
   confluent (checked by ConfProviderQueryManager), so the projected state after each stimulus is a
   function of the stimulus sequence and can be compared with the real code.

   Four copies of the world run side by side: the ideal one (w = ws[1]) and the as-built ones for
   every non-empty set of named deviations.  Each step carries the ideal observation and, where an
   as-built copy is observably different, that alternative with the deviations it used; the
   behaviour is cut there.  After D free stimuli a deterministic epilogue lets every dial return,
   every router end and drains every request: every channel must then be closed, complete. *)
EXTENDS ProviderQueryManager, Json

CONSTANTS D,       \* number of free stimuli per behaviour
          Ops      \* the stimuli the free part may use (the epilogue is not restricted)
VARIABLES ws,      \* <<ideal, {DevS}, {DevO}, {DevS,DevO}>> worlds (ws[1] = w)
          alive,   \* variants that could follow the stimulus sequence so far
          hist, seen, fin
gvars == <<w, ws, alive, hist, seen, fin>>

VSet(v) == CASE v = 1 -> {} [] v = 2 -> {DevS} [] v = 3 -> {DevO} [] v = 4 -> {DevS, DevO}

RECURSIVE Settle(_, _)
Settle(x, V) == LET S == IntSucc(x, V) \cup S_Read(x)
                IN IF S = {} THEN x ELSE Settle(CHOOSE y \in S : TRUE, V)

St(op, x, y, s) == [op |-> op, x |-> x, y |-> y, s |-> s]

StimEn(u, s) ==
  CASE s.op = "Call"   -> CallEn(u, s.x)
    [] s.op = "Emit"   -> EmitEn(u, s.x)
    [] s.op = "Dial"   -> DialEn(u, s.x, s.y)
    [] s.op = "End"    -> EndEn(u, s.x)
    [] s.op = "Cancel" -> u.req[s.x].st # "idle"
    [] s.op = "Drain"  -> u.req[s.x].st # "idle"
    [] s.op = "Tick"   -> TickEn(u)
    [] s.op = "Close"  -> TRUE
StimF(u0, s) ==
  LET u == [u0 EXCEPT !.drain = IF s.op = "Drain" THEN s.x ELSE 0]
  IN CASE s.op = "Call"   -> CallF(u, s.x, s.s, s.y)
       [] s.op = "Emit"   -> EmitF(u, s.x)
       [] s.op = "Dial"   -> DialF(u, s.x, s.y, s.s)
       [] s.op = "End"    -> EndF(u, s.x)
       [] s.op = "Cancel" -> CancelF(u, s.x)
       [] s.op = "Drain"  -> u
       [] s.op = "Tick"   -> TickF(u)
       [] s.op = "Close"  -> CloseF(u)

\* what the harness can see after quiescence: the manager's status map (in-package), the router
\* calls in order with the state of the context each got, the dials in progress, and for Drain / Dial
\* the result of that stimulus
NS(u) == Cardinality(Started(u))
Obs(u, s) ==
  [st |-> [k \in Keys |-> IF u.closed THEN [has |-> FALSE, n |-> 0, sofar |-> <<>>]   \* the map is dead after Close
                          ELSE [has |-> Has(u, k), n |-> Cardinality(u.status[k].ls), sofar |-> u.status[k].sofar]],
   rq |-> SubSeq([q \in Qs |-> u.qry[q].key], 1, NS(u)),
   cx |-> SubSeq([q \in Qs |-> u.qry[q].cerr], 1, NS(u)),
   dl |-> SubSeq([q \in Qs |-> [i \in Idx |-> IF u.qry[q].dial[i] = "pending" THEN 1 ELSE 0]], 1, NS(u)),
   dr |-> IF s.op = "Drain" THEN [got |-> u.req[s.x].out, closed |-> u.req[s.x].st = "done"]
                            ELSE [got |-> <<>>, closed |-> FALSE],
   dc |-> IF s.op = "Dial" THEN <<ConnCalls(s.s, u.cfg.fp), FPCalls(s.s, u.cfg.fp)>> ELSE <<0, 0>>]

MinOf(S) == CHOOSE a \in S : \A b \in S : a <= b
PendingDials(u) == {p \in Qs \X Idx : DialEn(u, p[1], p[2])}
FreeStims ==
  {St("Call", r, m, k) : r \in {r \in Reqs : CallEn(w, r)}, m \in MaxArgs, k \in Keys}
  \cup {St("Emit", q, 0, "") : q \in {q \in Qs : EmitEn(w, q) /\ w.qry[q].cerr = ""}}   \* a conforming router
  \cup {St("Dial", p[1], p[2], c) : p \in PendingDials(w), c \in DialSet}
  \cup {St("End", q, 0, "") : q \in {q \in Qs : EndEn(w, q)}}
  \cup {St("Cancel", r, 0, "") : r \in {r \in Reqs : w.req[r].st \in {"active", "cancelling"} /\ ~w.req[r].can}}
  \cup {St("Drain", r, 0, "") : r \in {r \in Reqs : w.req[r].st # "idle" /\ r \notin seen}}
  \cup (IF TickEn(w) /\ \E q \in Qs : w.qry[q].st = "running" /\ w.qry[q].cerr = "" THEN {St("Tick", 0, 0, "")} ELSE {})
  \cup (IF AllowClose /\ ~w.closed THEN {St("Close", 0, 0, "")} ELSE {})
EpiStims ==
  LET pd == PendingDials(w)
      rn == {q \in Qs : EndEn(w, q)}
      dr == {r \in Reqs : w.req[r].st # "idle" /\ r \notin seen}
  IN IF pd # {} THEN LET q == MinOf({p[1] : p \in pd}) IN {St("Dial", q, MinOf({p[2] : p \in {p \in pd : p[1] = q}}), "ok")}
     ELSE IF rn # {} THEN {St("End", MinOf(rn), 0, "")}
     ELSE IF dr # {} THEN {St("Drain", MinOf(dr), 0, "")}
     ELSE {}
Stims == IF Len(hist) < D THEN {s \in FreeStims : s.op \in Ops} ELSE EpiStims

NextWorlds(s) == [v \in 1..4 |-> IF v \in alive /\ StimEn(ws[v], s) THEN Settle(StimF(ws[v], s), VSet(v)) ELSE ws[v]]
GStep(s) ==
  \E nx \in {NextWorlds(s)} :
    LET al   == {v \in alive : StimEn(ws[v], s)}
        o1   == Obs(nx[1], s)
        alts == {[d |-> nx[v].dev, o |-> Obs(nx[v], s)] : v \in {v \in al \ {1} : Obs(nx[v], s) # o1}}
    IN /\ ws' = nx /\ w' = nx[1] /\ alive' = al
       /\ hist' = Append(hist, [s |-> s, o |-> o1, alt |-> alts])
       /\ seen' = IF s.op = "Drain" /\ (nx[1].req[s.x].st = "done" \/ Len(hist) >= D) THEN seen \cup {s.x} ELSE seen
       /\ fin' = (alts # {})

GInit == /\ w \in {[World0(c) EXCEPT !.drain = 0] : c \in Cfgs}
         /\ ws = <<w, w, w, w>> /\ alive = 1..4 /\ hist = <<>> /\ seen = {} /\ fin = FALSE
GNext == /\ ~fin
         /\ IF Stims = {} THEN fin' = TRUE /\ UNCHANGED <<w, ws, alive, hist, seen>>
                          ELSE \E s \in Stims : GStep(s)
GSpec == GInit /\ [][GNext]_gvars

Beh == [cfg |-> w.cfg, steps |-> hist]
GEmit == ~fin \/ PrintT(<<"BEHAVIOUR", ToJson(Beh)>>)

\* -simulate: print from an action, then start a fresh behaviour with a fresh configuration
Flush == /\ fin /\ PrintT(<<"BEHAVIOUR", ToJson(Beh)>>)
         /\ w' \in {[World0(c) EXCEPT !.drain = 0] : c \in Cfgs}
         /\ ws' = <<w', w', w', w'>> /\ alive' = 1..4 /\ hist' = <<>> /\ seen' = {} /\ fin' = FALSE
\* (TLC's simulator computes ALL successors before it picks one: draw the stimulus first; the set-bound
\* variable makes TLC draw once per step)
GNextR == /\ ~fin
          /\ IF Stims = {} THEN fin' = TRUE /\ UNCHANGED <<w, ws, alive, hist, seen>>
                           ELSE \E s \in {RandomElement({c \in Stims : Len(hist) >= 0})} : GStep(s)
GNextSim == IF fin THEN Flush ELSE GNextR
GSpecSim == GInit /\ [][GNextSim]_gvars

\* the epilogue ends with every request closed (model-level sanity; the harness checks the real one)
GAllClosed == (fin /\ hist # <<>> /\ hist[Len(hist)].alt = {} /\ Len(hist) > D) => \A r \in Reqs : w.req[r].st \in {"idle", "done"}

=============================================================================
