SPECIFICATION GSpecSim
CONSTANTS Keys = {"a", "b"}
          NReq = 4
          NProv = 3
          Devs = {}
          MipSet = {0, 1, 2}
          MpcSet = {0, 1, 2}
          FpSet = {FALSE, TRUE}
          IgnSets = {{}, {2}}
          MaxTicks = 3
          MaxArgs = {0, 1, 2}
          DialSet = {"ok", "self", "fail", "fpempty", "fpsame", "fpnewok", "fpnewfail", "fpnewself"}
          AllowClose = TRUE
          D = 16
          Ops = {"Call", "Emit", "Dial", "End", "Cancel", "Drain", "Tick", "Close"}
INVARIANTS GAllClosed
CHECK_DEADLOCK FALSE
