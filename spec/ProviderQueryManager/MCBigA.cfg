SPECIFICATION Spec
CONSTANTS Keys = {"a"}
          NReq = 2
          NProv = 2
          Devs = {}
          MipSet = {1}
          MpcSet = {0}
          FpSet = {FALSE}
          IgnSets = {{}}
          MaxTicks = 0
          MaxArgs = {0, 1}
          DialSet = {"ok", "fail"}
          AllowClose = FALSE
INVARIANTS InvOnlyDialedForKey InvPrefixOrder InvExactlyOnce InvMaxRespected InvComplete InvSlots InvStatusSound InvBcastNeverBlocks InvProgress
CHECK_DEADLOCK FALSE
