SPECIFICATION Spec
CONSTANTS Keys = {"a"}
          NReq = 3
          NProv = 1
          Devs = {}
          MipSet = {1}
          MpcSet = {0}
          FpSet = {FALSE}
          IgnSets = {{}}
          MaxTicks = 0
          MaxArgs = {0}
          DialSet = {"ok"}
          AllowClose = FALSE
INVARIANTS InvOnlyDialedForKey InvPrefixOrder InvExactlyOnce InvMaxRespected InvComplete InvSlots InvStatusSound InvBcastNeverBlocks InvProgress
CHECK_DEADLOCK FALSE
