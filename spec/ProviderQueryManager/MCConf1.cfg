SPECIFICATION CSpec
CONSTANTS Keys = {"a", "b"}
          NReq = 3
          NProv = 2
          Devs = {}
          MipSet = {1}
          MpcSet = {0}
          FpSet = {FALSE}
          IgnSets = {{}}
          MaxTicks = 1
          MaxArgs = {0, 1}
          DialSet = {"ok", "fail"}
          AllowClose = TRUE
          D = 4
          Ops = {"Call", "Emit", "Dial", "End", "Cancel", "Drain", "Tick", "Close"}
          CV = 1
INVARIANTS Confluent
CHECK_DEADLOCK FALSE
