SPECIFICATION Spec
CONSTANTS Keys = {"a"}
          NReq = 2
          NProv = 2
          Devs = {"Dev_X04_MaxOvershoot"}
          MipSet = {1}
          MpcSet = {0}
          FpSet = {FALSE}
          IgnSets = {{}}
          MaxTicks = 0
          MaxArgs = {0, 1}
          DialSet = {"ok"}
          AllowClose = FALSE
INVARIANTS CtlMaxRespected
CHECK_DEADLOCK FALSE
