SPECIFICATION Spec
CONSTANTS Keys = {"a"}
          NReq = 2
          NProv = 1
          Devs = {"Dev_X04_StaleQueryMessage"}
          MipSet = {1}
          MpcSet = {0}
          FpSet = {FALSE}
          IgnSets = {{}}
          MaxTicks = 0
          MaxArgs = {0}
          DialSet = {"ok"}
          AllowClose = FALSE
INVARIANTS CtlComplete
CHECK_DEADLOCK FALSE
