SPECIFICATION FairSpec
CONSTANTS Keys = {"a"}
          NReq = 2
          NProv = 1
          Devs = {}
          MipSet = {1}
          MpcSet = {0}
          FpSet = {FALSE}
          IgnSets = {{}}
          MaxTicks = 0
          MaxArgs = {0}
          DialSet = {"ok"}
          AllowClose = TRUE
PROPERTIES CancelLeadsToClosed CloseLeadsToClosed
CHECK_DEADLOCK FALSE
