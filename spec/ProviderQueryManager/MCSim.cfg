SPECIFICATION Spec
CONSTANTS Keys = {"a", "b"}
          NReq = 3
          NProv = 3
          Devs = {}
          MipSet = {0, 1, 2}
          MpcSet = {0, 1, 2}
          FpSet = {FALSE, TRUE}
          IgnSets = {{}, {2}}
          MaxTicks = 2
          MaxArgs = {0, 1, 2}
          DialSet = {"ok", "self", "fail", "fpempty", "fpsame", "fpnewok", "fpnewfail", "fpnewself"}
          AllowClose = TRUE
INVARIANTS InvOnlyDialedForKey InvPrefixOrder InvExactlyOnce InvMaxRespected InvComplete InvSlots InvStatusSound InvBcastNeverBlocks InvProgress
CHECK_DEADLOCK FALSE
