SPECIFICATION Spec
CONSTANTS Keys = {"a", "b"}
          NReq = 2
          NProv = 1
          Devs = {}
          MipSet = {1}
          MpcSet = {0}
          FpSet = {FALSE}
          IgnSets = {{}}
          MaxTicks = 2
          MaxArgs = {0}
          DialSet = {"ok"}
          AllowClose = TRUE
INVARIANTS InvOnlyDialedForKey InvPrefixOrder InvExactlyOnce InvMaxRespected InvComplete InvSlots InvStatusSound InvBcastNeverBlocks InvProgress
CHECK_DEADLOCK FALSE
