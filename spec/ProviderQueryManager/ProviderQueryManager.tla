------------------------ MODULE ProviderQueryManager ------------------------
(* X04 -- routing/providerquerymanager: the provider query manager.

   Model of ProviderQueryManager at the grain of its goroutines' critical sections:
     * the run loop handling ONE message at a time (newProvideQuery / receivedProvider /
       finishedProviderQuery / cancelRequest); the broadcast of a received provider to the
       listeners is a sequence of blocking hand-offs (BcastStep), as in the code;
     * one receiver goroutine per request (receiveProviders / cancelProviderRequest);
     * the worker (FIFO queue + counting semaphore) and one goroutine per router query with one
       dial goroutine per found provider;
     * the environment: callers (Call/Cancel/Read), the router (Emit/End), the dialer (Dial),
       the clock (Tick) and Close.
   Senders blocked on the unbuffered message channel are the set `msgs`; the run loop may take
   any of them (all interleavings).

   The whole state is ONE record `w` (the "world") and every action is  guard(w,args) /\
   w' = F(w,args)  with F an ordinary operator, so that the generator (GenProviderQueryManager)
   can run the same transition functions for several deviation sets side by side and the trace
   spec can take them as silent steps.

   The model states the IDEAL behaviour.  `V` (a subset of AllDevs) switches on the as-built
   behaviour of a named deviation (open finding); `w.dev` records which ones a behaviour used. *)
EXTENDS Integers, Sequences, FiniteSets, TLC

CONSTANTS Keys,      \* the CIDs asked for
          NReq,      \* FindProvidersAsync calls 1..NReq (also bounds the number of router queries)
          NProv,     \* the router knows providers <<k,1>> .. <<k,NProv>> for key k, found in this order
          Devs       \* deviations enabled in this run (MC / Trace); {} = ideal

DevS == "Dev_X04_StaleQueryMessage"   \* messages of a query are matched by key only, not by query
DevO == "Dev_X04_MaxOvershoot"        \* providersSoFar handed to a joining request is not capped by max
AllDevs == {DevS, DevO}

Reqs == 1..NReq
Qs   == 1..NReq
Idx  == 1..NProv

\* --- the dialer contract (Connect, optional one-shot FindPeer fallback) as a class table ---------
DialClasses == {"ok", "self", "fail", "fpempty", "fpsame", "fpnewok", "fpnewfail", "fpnewself"}
\*  ok        first Connect succeeds                         self      first Connect = ErrDialToSelf (counts as reachable)
\*  fail      Connect fails, FindPeer (if configured) fails  fpempty   FindPeer returns no addresses
\*  fpsame    FindPeer returns only the addresses just tried fpnew*    FindPeer returns a new address; 2nd Connect ok/fail/self
Outcome(c, fp)   == c \in {"ok", "self"} \/ (fp /\ c \in {"fpnewok", "fpnewself"})
ConnCalls(c, fp) == IF fp /\ c \in {"fpnewok", "fpnewfail", "fpnewself"} THEN 2 ELSE 1
FPCalls(c, fp)   == IF fp /\ c \notin {"ok", "self"} THEN 1 ELSE 0

\* --- state ---------------------------------------------------------------------------------------
NoStatus == [q |-> 0, sofar |-> <<>>, ls |-> {}]
LoopIdle == [st |-> "idle", p |-> <<>>, todo |-> {}]
Req0 == [st |-> "idle", key |-> "", max |-> 0, q |-> 0, inbuf |-> <<>>, total |-> 0, inc |-> "nil",
         out |-> <<>>, can |-> FALSE, why |-> ""]
Qry0 == [key |-> "", st |-> "none", called |-> FALSE, ctx |-> FALSE, age |-> 0, em |-> 0, ended |-> FALSE,
         dial |-> [i \in Idx |-> "none"], dcls |-> [i \in Idx |-> ""], fin |-> FALSE, cerr |-> ""]
(* req[r].st : idle | calling (FindProvidersAsync blocked sending newProvideQuery) | active (receiver
                goroutine in its select loop) | cancelling (in cancelProviderRequest) | done (returned
                channel closed)
   req[r].inc : the request's listener channel as the receiver sees it: open | closed (closed by the
                run loop, not yet noticed) | nil
   qry[q].st  : none | queued | running (holds a semaphore slot; called = its goroutine has called
                router.FindProvidersAsync) | exited | dropped
   qry[q].ctx : the query context was cancelled by the manager; cerr = what the router's ctx.Err() shows
   qry[q].dial[i] : none | ign | pending (Connect in progress) | ok (receivedProvider message in flight)
                    | sent | fail
   status[k]  : the inProgressRequestStatus of key k (q = the query it belongs to, 0 = absent)
   arrived[q] : ghost, the providers given to the listeners of query q, in run-loop order          *)
World0(cfg) == [cfg |-> cfg, req |-> [r \in Reqs |-> Req0], status |-> [k \in Keys |-> NoStatus],
                loop |-> LoopIdle, msgs |-> {}, closed |-> FALSE, nq |-> 0, qry |-> [q \in Qs |-> Qry0],
                queue |-> <<>>, arrived |-> [q \in Qs |-> <<>>], dev |-> {}, drain |-> -1, ticks |-> 0]

VARIABLE w
vars == <<w>>

Msg(t, a, b) == [t |-> t, a |-> a, b |-> b]
Has(x, k) == x.status[k].q # 0
Running(x) == {q \in Qs : x.qry[q].st = "running"}
Started(x) == {q \in Qs : x.qry[q].called}

\* --- helpers -------------------------------------------------------------------------------------
Done(x, r) == [x EXCEPT !.req[r].st = "done", !.req[r].inc = "nil", !.req[r].inbuf = <<>>, !.req[r].why = "",
                        !.msgs = @ \ {Msg("cancel", r, 0), Msg("new", r, 0)}]
\* the receiver loop ends when nothing is buffered and the listener channel is gone
AfterRecv(x, r) == IF x.req[r].st = "active" /\ x.req[r].inbuf = <<>> /\ x.req[r].inc = "nil" THEN Done(x, r) ELSE x
EnterCancel(x, r, why) == [x EXCEPT !.req[r].st = "cancelling", !.req[r].why = why,
                                    !.msgs = @ \cup {Msg("cancel", r, 0)}]
\* stopWhenMaxReached
StopMax(x, r) == IF x.req[r].st = "active" /\ x.req[r].max > 0 /\ x.req[r].total >= x.req[r].max /\ x.req[r].inc # "nil"
                 THEN EnterCancel(x, r, "max") ELSE x
CancelQ(x, q) == [x EXCEPT !.qry[q].ctx = TRUE, !.qry[q].cerr = IF @ = "" THEN "canceled" ELSE @]
CloseListeners(x, S) == [x EXCEPT !.req = [r \in Reqs |-> IF r \in S /\ x.req[r].st # "done"
                                                          THEN [x.req[r] EXCEPT !.inc = "closed"] ELSE x.req[r]]]
RemoveStatus(x, k) == CancelQ(CloseListeners([x EXCEPT !.status[k] = NoStatus], x.status[k].ls), x.status[k].q)

\* ============================ the run loop ========================================================
HandleNewEn(x, r) == x.loop.st = "idle" /\ Msg("new", r, 0) \in x.msgs
HandleNewCore(x, V, r, alive) ==
  LET k      == x.req[r].key
      fresh  == ~Has(x, k)
      q      == IF fresh THEN x.nq + 1 ELSE x.status[k].q
      sofar  == x.status[k].sofar
      mx     == x.req[r].max
      over   == mx > 0 /\ Len(sofar) > mx
      useDev == over /\ DevO \in V /\ alive
      \* IDEAL: "The max parameter controls how many will be returned at most"
      buf    == IF over /\ ~useDev THEN SubSeq(sofar, 1, mx) ELSE sofar
      x1     == IF fresh THEN [x EXCEPT !.nq = q, !.qry[q] = [Qry0 EXCEPT !.key = k, !.st = "queued"],
                                        !.queue = Append(@, q)]
                         ELSE x
      x2     == [x1 EXCEPT !.status[k] = [q |-> q, sofar |-> sofar, ls |-> x.status[k].ls \cup {r}],
                           !.msgs = @ \ {Msg("new", r, 0)},
                           !.req[r] = [@ EXCEPT !.st = "active", !.q = q, !.inbuf = buf, !.total = Len(sofar),
                                                !.inc = "open"],
                           !.dev = IF useDev THEN @ \cup {DevO} ELSE @]
  IN IF alive THEN StopMax(x2, r) ELSE Done(x2, r)
HandleNewF(x, V, r) == HandleNewCore(x, V, r, TRUE)
\* after Close the handler (or the caller) may take the `closing` branch of one of its selects
HandleNewBailEn(x, r) == x.closed /\ HandleNewEn(x, r)
HandleNewBailEarlyF(x, r) == Done(x, r)
HandleNewBailLateF(x, V, r) == HandleNewCore(x, V, r, FALSE)

HandleRecvEn(x, q, i) == x.loop.st = "idle" /\ Msg("recv", q, i) \in x.msgs
HandleRecvF(x, V, q, i) ==
  LET k      == x.qry[q].key
      cur    == x.status[k].q
      stale  == cur # 0 /\ cur # q
      useDev == stale /\ DevS \in V
      p      == <<k, i>>
      x1     == [x EXCEPT !.msgs = @ \ {Msg("recv", q, i)}, !.qry[q].dial[i] = "sent"]
  IN IF cur = q \/ useDev
     THEN [x1 EXCEPT !.status[k].sofar = Append(@, p), !.arrived[cur] = Append(@, p),
                     !.loop = IF x.status[k].ls = {} THEN LoopIdle
                              ELSE [st |-> "bcast", p |-> p, todo |-> x.status[k].ls],
                     !.dev = IF useDev THEN @ \cup {DevS} ELSE @]
     ELSE x1      \* IDEAL: a message of a query that is no longer current is dropped

\* one blocking hand-off  `listener <- p`; the listener's goroutine is in its loop or draining
Listening(x, r) == x.req[r].st = "cancelling" \/ (x.req[r].st = "active" /\ x.req[r].inc = "open")
BcastStepEn(x, r) == x.loop.st = "bcast" /\ r \in x.loop.todo /\ Listening(x, r)
BcastStepF(x, r) ==
  LET todo == x.loop.todo \ {r}
      x1   == [x EXCEPT !.loop = IF todo = {} THEN LoopIdle ELSE [@ EXCEPT !.todo = todo]]
  IN IF x.req[r].st = "active"
     THEN StopMax([x1 EXCEPT !.req[r].inbuf = Append(@, x.loop.p), !.req[r].total = @ + 1], r)
     ELSE x1      \* cancelProviderRequest drains and discards
BcastBailEn(x) == x.closed /\ x.loop.st = "bcast"
BcastBailF(x) == [x EXCEPT !.loop = LoopIdle]

HandleFinEn(x, q) == x.loop.st = "idle" /\ Msg("fin", q, 0) \in x.msgs
HandleFinF(x, V, q) ==
  LET k      == x.qry[q].key
      cur    == x.status[k].q
      stale  == cur # 0 /\ cur # q
      useDev == stale /\ DevS \in V
      x1     == [x EXCEPT !.msgs = @ \ {Msg("fin", q, 0)}, !.qry[q].st = "exited"]
  IN IF cur = q \/ useDev
     THEN [RemoveStatus(x1, k) EXCEPT !.dev = IF useDev THEN @ \cup {DevS} ELSE @]
     ELSE x1

HandleCancelEn(x, r) == x.loop.st = "idle" /\ Msg("cancel", r, 0) \in x.msgs
HandleCancelF(x, r) ==
  LET k  == x.req[r].key
      s  == x.status[k]
      x1 == [x EXCEPT !.msgs = @ \ {Msg("cancel", r, 0)}]
  IN IF s.q # 0 /\ r \in s.ls
     THEN LET x2 == [x1 EXCEPT !.req[r].inc = "closed"]
          IN IF s.ls = {r} THEN CancelQ([x2 EXCEPT !.status[k] = NoStatus], s.q)
                           ELSE [x2 EXCEPT !.status[k].ls = @ \ {r}]
     ELSE x1

\* Close: run() returns; cleanupInProcessRequests closes every listener and cancels every query
LoopExitEn(x) == x.closed /\ x.loop.st # "exited"
LoopExitF(x) ==
  LET ls == UNION {x.status[k].ls : k \in Keys}
      qs == {x.status[k].q : k \in Keys} \ {0}
      x1 == CloseListeners(x, ls)
  IN [x1 EXCEPT !.status = [k \in Keys |-> NoStatus], !.loop = [LoopIdle EXCEPT !.st = "exited"],
                !.qry = [q \in Qs |-> IF q \in qs THEN [x.qry[q] EXCEPT !.ctx = TRUE, !.cerr = IF @ = "" THEN "canceled" ELSE @]
                                      ELSE x.qry[q]]]

\* ============================ the receiver goroutine of a request =================================
NoticeCtxEn(x, r) == x.req[r].st = "active" /\ x.req[r].can
NoticeCtxF(x, r) == IF x.req[r].inc = "nil" THEN Done(x, r) ELSE EnterCancel(x, r, "ctx")

NoticeClosedEn(x, r) == x.req[r].st = "active" /\ x.req[r].inc = "closed"
NoticeClosedF(x, r) == AfterRecv([x EXCEPT !.req[r].inc = "nil"], r)

\* cancelProviderRequest returns when the listener channel is closed
CancelSeeClosedEn(x, r) == x.req[r].st = "cancelling" /\ x.req[r].inc = "closed"
BackFromCancel(x, r) ==
  IF x.req[r].why = "ctx" THEN Done(x, r)
  ELSE AfterRecv([x EXCEPT !.req[r].st = "active", !.req[r].why = "", !.req[r].inc = "nil",
                           !.msgs = @ \ {Msg("cancel", r, 0)}], r)
CancelSeeClosedF(x, r) == BackFromCancel(x, r)

SeeClosingEn(x, r) == x.closed /\ x.req[r].st \in {"active", "cancelling"}
SeeClosingF(x, r) == IF x.req[r].st = "active" THEN Done(x, r) ELSE BackFromCancel(x, r)

\* the consumer reads one provider from the returned channel (environment)
ReadEn(x, r) == x.req[r].st = "active" /\ x.req[r].inbuf # <<>> /\ x.drain \in {-1, r}
ReadF(x, r) == AfterRecv([x EXCEPT !.req[r].out = Append(@, Head(x.req[r].inbuf)), !.req[r].inbuf = Tail(@)], r)

\* FindProvidersAsync's first select
CallerAbortEn(x, r) == x.req[r].st = "calling" /\ (x.req[r].can \/ x.closed)
CallerAbortF(x, r) == Done(x, r)

\* ============================ worker, query goroutines ============================================
StartQueryEn(x) == x.queue # <<>> /\ (x.cfg.mip = 0 \/ Cardinality(Running(x)) < x.cfg.mip)
StartQueryF(x) == [x EXCEPT !.queue = Tail(@), !.qry[Head(x.queue)].st = "running"]
\* the query goroutine calls the router (with several slots the goroutines race: not FIFO any more)
RouterCallEn(x, q) == x.qry[q].st = "running" /\ ~x.qry[q].called
RouterCallF(x, q) == [x EXCEPT !.qry[q].called = TRUE]
DropQueueEn(x) == x.closed /\ x.queue # <<>>
DropQueueF(x) == [x EXCEPT !.queue = <<>>,
                           !.qry = [q \in Qs |-> IF x.qry[q].st = "queued" THEN [x.qry[q] EXCEPT !.st = "dropped"] ELSE x.qry[q]]]

SendFinEn(x, q) == /\ x.qry[q].st = "running" /\ x.qry[q].ended /\ ~x.qry[q].fin
                   /\ \A i \in Idx : x.qry[q].dial[i] \notin {"pending", "ok"}
SendFinF(x, q) == [x EXCEPT !.qry[q].fin = TRUE, !.qry[q].cerr = IF @ = "" THEN "canceled" ELSE @,
                            !.msgs = @ \cup {Msg("fin", q, 0)}]
FinAbortEn(x, q) == x.closed /\ Msg("fin", q, 0) \in x.msgs
FinAbortF(x, q) == [x EXCEPT !.msgs = @ \ {Msg("fin", q, 0)}, !.qry[q].st = "exited"]
RecvAbortEn(x, q, i) == x.closed /\ Msg("recv", q, i) \in x.msgs
RecvAbortF(x, q, i) == [x EXCEPT !.msgs = @ \ {Msg("recv", q, i)}, !.qry[q].dial[i] = "sent"]

\* ============================ environment =========================================================
CallEn(x, r) == x.req[r].st = "idle" /\ (IF r = 1 THEN TRUE ELSE x.req[r - 1].st # "idle")
CallF(x, r, k, m) == [x EXCEPT !.req[r] = [Req0 EXCEPT !.st = "calling", !.key = k,
                                                       !.max = IF m = 0 THEN x.cfg.mpc ELSE m],
                               !.msgs = @ \cup {Msg("new", r, 0)}]
CancelEn(x, r) == x.req[r].st \in {"calling", "active", "cancelling"} /\ ~x.req[r].can
CancelF(x, r) == [x EXCEPT !.req[r].can = TRUE]
EmitEn(x, q) == x.qry[q].st = "running" /\ x.qry[q].called /\ ~x.qry[q].ended /\ x.qry[q].em < NProv
EmitF(x, q) == LET i == x.qry[q].em + 1
               IN [x EXCEPT !.qry[q].em = i, !.qry[q].dial[i] = IF i \in x.cfg.ign THEN "ign" ELSE "pending"]
DialEn(x, q, i) == x.qry[q].dial[i] = "pending"
DialF(x, q, i, c) == IF Outcome(c, x.cfg.fp)
                     THEN [x EXCEPT !.qry[q].dial[i] = "ok", !.qry[q].dcls[i] = c, !.msgs = @ \cup {Msg("recv", q, i)}]
                     ELSE [x EXCEPT !.qry[q].dial[i] = "fail", !.qry[q].dcls[i] = c]
EndEn(x, q) == x.qry[q].st = "running" /\ x.qry[q].called /\ ~x.qry[q].ended
EndF(x, q) == [x EXCEPT !.qry[q].ended = TRUE]
\* the clock advances by 0.6 * findProviderTimeout: a running query's context expires at its 2nd tick
\* (a tick without a running query whose deadline is still ahead changes nothing)
TickEn(x) == x.ticks < x.cfg.maxticks /\ \E q \in Qs : x.qry[q].st = "running" /\ x.qry[q].age < 2
TickF(x) == [x EXCEPT !.ticks = @ + 1,
                      !.qry = [q \in Qs |-> IF x.qry[q].st = "running" /\ x.qry[q].age < 2
                                            THEN [x.qry[q] EXCEPT !.age = @ + 1,
                                                                  !.cerr = IF x.qry[q].age = 1 /\ @ = "" THEN "deadline" ELSE @]
                                            ELSE x.qry[q]]]
CloseEn(x) == ~x.closed
CloseF(x) == [x EXCEPT !.closed = TRUE]

\* ============================ successor sets ======================================================
S_HandleNew(x, V)    == {HandleNewF(x, V, r) : r \in {r \in Reqs : HandleNewEn(x, r)}}
S_HandleNewBail(x, V)== UNION {{HandleNewBailEarlyF(x, r), HandleNewBailLateF(x, V, r)} : r \in {r \in Reqs : HandleNewBailEn(x, r)}}
S_HandleRecv(x, V)   == {HandleRecvF(x, V, m.a, m.b) : m \in {m \in x.msgs : m.t = "recv" /\ HandleRecvEn(x, m.a, m.b)}}
S_BcastStep(x)       == {BcastStepF(x, r) : r \in {r \in Reqs : BcastStepEn(x, r)}}
S_BcastBail(x)       == IF BcastBailEn(x) THEN {BcastBailF(x)} ELSE {}
S_HandleFin(x, V)    == {HandleFinF(x, V, q) : q \in {q \in Qs : HandleFinEn(x, q)}}
S_HandleCancel(x)    == {HandleCancelF(x, r) : r \in {r \in Reqs : HandleCancelEn(x, r)}}
S_LoopExit(x)        == IF LoopExitEn(x) THEN {LoopExitF(x)} ELSE {}
S_NoticeCtx(x)       == {NoticeCtxF(x, r) : r \in {r \in Reqs : NoticeCtxEn(x, r)}}
S_NoticeClosed(x)    == {NoticeClosedF(x, r) : r \in {r \in Reqs : NoticeClosedEn(x, r)}}
S_CancelSeeClosed(x) == {CancelSeeClosedF(x, r) : r \in {r \in Reqs : CancelSeeClosedEn(x, r)}}
S_SeeClosing(x)      == {SeeClosingF(x, r) : r \in {r \in Reqs : SeeClosingEn(x, r)}}
S_CallerAbort(x)     == {CallerAbortF(x, r) : r \in {r \in Reqs : CallerAbortEn(x, r)}}
S_StartQuery(x)      == IF StartQueryEn(x) THEN {StartQueryF(x)} ELSE {}
S_RouterCall(x)      == {RouterCallF(x, q) : q \in {q \in Qs : RouterCallEn(x, q)}}
S_DropQueue(x)       == IF DropQueueEn(x) THEN {DropQueueF(x)} ELSE {}
S_SendFin(x)         == {SendFinF(x, q) : q \in {q \in Qs : SendFinEn(x, q)}}
S_FinAbort(x)        == {FinAbortF(x, q) : q \in {q \in Qs : FinAbortEn(x, q)}}
S_RecvAbort(x)       == {RecvAbortF(x, m.a, m.b) : m \in {m \in x.msgs : m.t = "recv" /\ x.closed}}
S_Read(x)            == {ReadF(x, r) : r \in {r \in Reqs : ReadEn(x, r)}}

\* everything the manager does by itself (no caller, router, dialer, consumer, clock involved)
\* (IntSuccCore: without the call of the router, which the router observes)
IntSuccCore(x, V) == S_HandleNew(x, V) \cup S_HandleNewBail(x, V) \cup S_HandleRecv(x, V) \cup S_BcastStep(x)
                     \cup S_BcastBail(x) \cup S_HandleFin(x, V) \cup S_HandleCancel(x) \cup S_LoopExit(x)
                     \cup S_NoticeCtx(x) \cup S_NoticeClosed(x) \cup S_CancelSeeClosed(x) \cup S_SeeClosing(x)
                     \cup S_CallerAbort(x) \cup S_StartQuery(x) \cup S_DropQueue(x) \cup S_SendFin(x)
                     \cup S_FinAbort(x) \cup S_RecvAbort(x)
IntSucc(x, V) == IntSuccCore(x, V) \cup S_RouterCall(x)

\* ============================ named actions (MC) ==================================================
CONSTANTS MipSet, MpcSet, FpSet, IgnSets, MaxTicks, MaxArgs, DialSet, AllowClose
Cfgs == [mip : MipSet, mpc : MpcSet, fp : FpSet, ign : IgnSets, maxticks : {MaxTicks}]

Init == w \in {World0(c) : c \in Cfgs}

HandleNew       == w' \in S_HandleNew(w, Devs)
HandleNewBail   == w' \in S_HandleNewBail(w, Devs)
HandleRecv      == w' \in S_HandleRecv(w, Devs)
BcastStep       == w' \in S_BcastStep(w)
BcastBail       == w' \in S_BcastBail(w)
HandleFin       == w' \in S_HandleFin(w, Devs)
HandleCancel    == w' \in S_HandleCancel(w)
LoopExit        == w' \in S_LoopExit(w)
NoticeCtx       == w' \in S_NoticeCtx(w)
NoticeClosed    == w' \in S_NoticeClosed(w)
CancelSeeClosed == w' \in S_CancelSeeClosed(w)
SeeClosing      == w' \in S_SeeClosing(w)
CallerAbort     == w' \in S_CallerAbort(w)
StartQuery      == w' \in S_StartQuery(w)
RouterCall      == w' \in S_RouterCall(w)
DropQueue       == w' \in S_DropQueue(w)
SendFin         == w' \in S_SendFin(w)
FinAbort        == w' \in S_FinAbort(w)
RecvAbort       == w' \in S_RecvAbort(w)
Internal == HandleNew \/ HandleNewBail \/ HandleRecv \/ BcastStep \/ BcastBail \/ HandleFin \/ HandleCancel
            \/ LoopExit \/ NoticeCtx \/ NoticeClosed \/ CancelSeeClosed \/ SeeClosing \/ CallerAbort
            \/ StartQuery \/ RouterCall \/ DropQueue \/ SendFin \/ FinAbort \/ RecvAbort

Call   == \E r \in Reqs, k \in Keys, m \in MaxArgs : CallEn(w, r) /\ w' = CallF(w, r, k, m)
Cancel == \E r \in Reqs : CancelEn(w, r) /\ w' = CancelF(w, r)
Read   == w' \in S_Read(w)
Emit   == \E q \in Qs : EmitEn(w, q) /\ w' = EmitF(w, q)
Dial   == \E q \in Qs, i \in Idx, c \in DialSet : DialEn(w, q, i) /\ w' = DialF(w, q, i, c)
End    == \E q \in Qs : EndEn(w, q) /\ w' = EndF(w, q)
Tick   == TickEn(w) /\ w' = TickF(w)
Close  == AllowClose /\ CloseEn(w) /\ w' = CloseF(w)
RouterDialer == Emit \/ Dial \/ End

Next == Internal \/ Call \/ Cancel \/ Read \/ Emit \/ Dial \/ End \/ Tick \/ Close
Spec == Init /\ [][Next]_vars
\* fairness: the manager's own goroutines run; for AllClose also the router ends, dials return,
\* consumers read
FairSpec    == Spec /\ WF_vars(Internal)
FairEnvSpec == Spec /\ WF_vars(Internal) /\ WF_vars(RouterDialer) /\ WF_vars(Read)

\* ============================ properties ==========================================================
ToSet(s) == {s[i] : i \in 1..Len(s)}
IsPrefix(s, t) == Len(s) <= Len(t) /\ \A i \in 1..Len(s) : s[i] = t[i]
RECURSIVE IsSubseq(_, _)
IsSubseq(s, t) == IF s = <<>> THEN TRUE ELSE IF t = <<>> THEN FALSE
                  ELSE IF Head(s) = Head(t) THEN IsSubseq(Tail(s), Tail(t)) ELSE IsSubseq(s, Tail(t))
NoDupSeq(s) == \A i, j \in 1..Len(s) : i # j => s[i] # s[j]
Got(x, r) == x.req[r].out \o x.req[r].inbuf        \* delivered or committed to be delivered
Ideal(x) == x.dev = {}

\* P1  no provider of another key; only providers the router found for the key and that were dialed
\*     successfully (Connect ok / dial-to-self / rescued by the FindPeer fallback) in a query for that key
OnlyDialedForKey(x) ==
  \A r \in Reqs : \A p \in ToSet(Got(x, r)) :
      /\ p[1] = x.req[r].key
      /\ \E q \in Qs : x.qry[q].key = p[1] /\ x.qry[q].dial[p[2]] \in {"ok", "sent"}
                       /\ Outcome(x.qry[q].dcls[p[2]], x.cfg.fp) /\ p[2] \notin x.cfg.ign
InvOnlyDialedForKey == OnlyDialedForKey(w)

\* P2  one order for everybody: what a request gets is a prefix of the sequence in which the manager
\*     received the providers of ITS query -- including providers received before the request joined --
\*     without duplicates
\*     (once Close was called the run loop may abandon a broadcast half-way and still take another
\*     message, so after Close only the relative order is kept)
PrefixOrder(x) == \A r \in Reqs : x.req[r].q # 0 =>
                     IF x.closed THEN IsSubseq(Got(x, r), x.arrived[x.req[r].q])
                                 ELSE IsPrefix(Got(x, r), x.arrived[x.req[r].q])
InvPrefixOrder == PrefixOrder(w)
ExactlyOnce(x) == \A r \in Reqs : NoDupSeq(Got(x, r))
OwnQueryOnly(x) == \A q \in Qs : \A p \in ToSet(x.arrived[q]) : x.qry[q].dial[p[2]] \in {"sent"}
InvExactlyOnce == Ideal(w) => ExactlyOnce(w) /\ OwnQueryOnly(w)

\* P3  at most max providers
MaxRespected(x) == \A r \in Reqs : x.req[r].max > 0 => Len(Got(x, r)) <= x.req[r].max
InvMaxRespected == Ideal(w) => MaxRespected(w)

\* P4  completeness at close: a request that was neither cancelled nor cut by Close has, when its
\*     channel is closed, everything its query found and dialed (or the first max of it)
Complete(x) ==
  \A r \in Reqs : (x.req[r].st = "done" /\ ~x.req[r].can /\ ~x.closed /\ x.req[r].q # 0) =>
      LET q  == x.req[r].q
          mx == x.req[r].max
      IN IF mx > 0 /\ Len(x.arrived[q]) >= mx
         THEN x.req[r].out = SubSeq(x.arrived[q], 1, mx)
         ELSE /\ x.req[r].out = x.arrived[q]
              /\ x.qry[q].st = "exited" /\ x.qry[q].ended
              /\ \A i \in Idx : x.qry[q].dial[i] \in {"none", "ign", "fail", "sent"}
              /\ ToSet(x.arrived[q]) = {<<x.qry[q].key, i>> : i \in {i \in Idx : x.qry[q].dial[i] = "sent"}}
InvComplete == Ideal(w) => Complete(w)

\* P5  rate limit
SlotsRespected(x) == x.cfg.mip > 0 => Cardinality(Running(x)) <= x.cfg.mip
InvSlots == SlotsRespected(w)

\* P6  de-duplication / no leak / isolation: between two messages, a key has a status iff some live
\*     request listens on it, its listeners are served by a live goroutine, exactly the current query of a
\*     key has a live context (so cancelling one request never cancels the query of another, and the
\*     query of the last cancelled request IS cancelled), at most one current query per key
StatusSound(x) ==
  x.loop.st = "idle" /\ ~x.closed =>
    /\ \A k \in Keys : Has(x, k) =>
          /\ x.status[k].ls # {}
          /\ \A r \in x.status[k].ls : x.req[r].st \in {"active", "cancelling"} /\ x.req[r].inc = "open"
                                       /\ x.req[r].key = k
    /\ \A r \in Reqs : x.req[r].st \in {"active", "cancelling"} /\ x.req[r].inc = "open" => r \in x.status[x.req[r].key].ls
    /\ \A q \in Qs : q <= x.nq => (x.qry[q].ctx <=> x.status[x.qry[q].key].q # q)
InvStatusSound == Ideal(w) => StatusSound(w)

\* P7  the broadcast never blocks: every listener the run loop sends to has a goroutine receiving
BcastNeverBlocks(x) == x.loop.st = "bcast" /\ ~x.closed => \A r \in x.loop.todo : Listening(x, r)
InvBcastNeverBlocks == BcastNeverBlocks(w)

\* P8  progress, stated on the states in which the manager cannot move by itself (the transition
\*     relation is acyclic, so under weak fairness of Internal every behaviour ends in such a state):
\*     - a cancelled request is closed (needs neither consumer, router nor dialer): "promptly"
\*     - after Close every request is closed and no sender is left blocked
\*     - a queued query waits only for a slot
\*     - once the routers ended, the dials returned and the consumers read everything: every request is
\*       closed, every query goroutine is gone, no status is left
EnvPending(x) == \E q \in Qs : (x.qry[q].st = "running" /\ ~x.qry[q].ended) \/ \E i \in Idx : x.qry[q].dial[i] = "pending"
Readable(x) == \E r \in Reqs : x.req[r].st = "active" /\ x.req[r].inbuf # <<>>
Settled(x) ==
  /\ \A r \in Reqs : (x.req[r].can \/ x.closed) => x.req[r].st \in {"idle", "done"}
  /\ x.msgs = {} /\ x.loop.st # "bcast"
  /\ x.queue # <<>> => x.cfg.mip > 0 /\ Cardinality(Running(x)) = x.cfg.mip
  /\ (~EnvPending(x) /\ ~Readable(x)) =>
        /\ \A r \in Reqs : x.req[r].st \in {"idle", "done"}
        /\ \A q \in Qs : x.qry[q].st \in {"none", "exited", "dropped"}
        /\ x.queue = <<>> /\ \A k \in Keys : ~Has(x, k)
InvProgress == IntSucc(w, Devs) = {} => Settled(w)

\* non-vacuity controls (MCCtl*.cfg): with a deviation switched on these must be violated
CtlComplete == Complete(w) /\ ExactlyOnce(w) /\ OwnQueryOnly(w)
CtlMaxRespected == MaxRespected(w)

\* the same as temporal properties (small constants)
CancelLeadsToClosed == \A r \in Reqs : (w.req[r].can ~> w.req[r].st = "done")
CloseLeadsToClosed  == w.closed ~> (\A r \in Reqs : w.req[r].st \in {"idle", "done"})
QueuedEventuallyRuns == \A q \in Qs : (w.qry[q].st = "queued" ~> w.qry[q].st \in {"running", "exited", "dropped"})
AllEventuallyClosed == \A r \in Reqs : (w.req[r].st = "calling" ~> w.req[r].st = "done")
=============================================================================
