SPECIFICATION TSpec
CONSTANTS Keys = {"a", "b"}
          NReq = 4
          NProv = 3
          Devs = @DEVS@
          MipSet = {0}
          MpcSet = {0}
          FpSet = {FALSE}
          IgnSets = {{}}
          MaxTicks = 0
          MaxArgs = {0}
          DialSet = {"ok"}
          AllowClose = TRUE
INVARIANTS InvOnlyDialedForKey InvPrefixOrder InvExactlyOnce InvMaxRespected InvComplete InvSlots InvStatusSound InvBcastNeverBlocks InvProgress DevReport
CONSTRAINT TraceConstraint
POSTCONDITION TracePost
CHECK_DEADLOCK FALSE
