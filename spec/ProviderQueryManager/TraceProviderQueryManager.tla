--------------------- MODULE TraceProviderQueryManager ---------------------
(* Phase T: a trace recorded from the real manager under free-running goroutines (callers,
   consumers, cancellers, a free-running fake router and dialer) must be a behaviour of
   ProviderQueryManager: the logged events are the environment's actions and observations
   (causes logged before they take effect, observations after), everything the manager does
   in between is existentially quantified (silent internal steps). *)
EXTENDS ProviderQueryManager, Json

Trace == ndJsonDeserialize("trace.ndjson")
VARIABLES l, du,     \* du: deviations used so far (over all runs of the trace)
          qm         \* the harness numbers the router's queries by call order; qm maps them to the model's
tvars == <<w, l, du, qm>>
ASSUME TLCSet(1, 0)

Ev == Trace[l]
IsEvent(e) == l <= Len(Trace) /\ Trace[l].ev = e /\ l' = l + 1

QM0 == [h \in Qs |-> 0]
Q(h) == qm[h]
TInit == l = 1 /\ du = {} /\ qm = QM0 /\ w = World0([mip |-> 0, mpc |-> 0, fp |-> FALSE, ign |-> {}, maxticks |-> 0])

TReset  == /\ IsEvent("Reset") /\ qm' = QM0
           /\ w' = World0([mip |-> Ev.mip, mpc |-> Ev.mpc, fp |-> Ev.fp, ign |-> ToSet(Ev.ign), maxticks |-> 0])
TCall   == IsEvent("Call") /\ Ev.r \in Reqs /\ Ev.k \in Keys /\ CallEn(w, Ev.r) /\ w' = CallF(w, Ev.r, Ev.k, Ev.m)
TCancel == IsEvent("Cancel") /\ w.req[Ev.r].st # "idle" /\ w' = CancelF(w, Ev.r)
\* the router is called by the goroutine of some started query for that key
TRStart == /\ IsEvent("RStart") /\ Ev.q \in Qs
           /\ \E q \in Qs : /\ RouterCallEn(w, q) /\ w.qry[q].key = Ev.k
                            /\ w' = RouterCallF(w, q) /\ qm' = [qm EXCEPT ![Ev.q] = q]
TREmit  == IsEvent("REmit") /\ EmitEn(w, Q(Ev.q)) /\ Ev.i = w.qry[Q(Ev.q)].em + 1 /\ w' = EmitF(w, Q(Ev.q))
TDial   == IsEvent("Dial") /\ Ev.c \in DialClasses /\ DialEn(w, Q(Ev.q), Ev.i) /\ w' = DialF(w, Q(Ev.q), Ev.i, Ev.c)
TREnd   == IsEvent("REnd") /\ EndEn(w, Q(Ev.q)) /\ w' = EndF(w, Q(Ev.q))
\* the router saw its context done: the manager must have cancelled that query (no timeouts in T)
TRCtx   == IsEvent("RCtx") /\ Ev.err # "" /\ w.qry[Q(Ev.q)].cerr = Ev.err /\ UNCHANGED w
TRecv   == /\ IsEvent("Recv") /\ ReadEn(w, Ev.r) /\ Head(w.req[Ev.r].inbuf) = <<Ev.k, Ev.i>>
           /\ w' = ReadF(w, Ev.r)
TClosed == IsEvent("Closed") /\ w.req[Ev.r].st = "done" /\ UNCHANGED w
TClose  == IsEvent("Close") /\ w' = CloseF(w)
\* end of a run: routers ended, dials returned, every consumer saw its channel closed; the harness
\* measured: goroutines above the baseline after Close, entries left in the status map before it
TQuiet  == /\ IsEvent("Quiet") /\ Ev.leak = 0
           /\ IntSucc(w, Devs) = {} /\ ~EnvPending(w) /\ ~Readable(w)
           /\ (~w.closed => Ev.nstatus = Cardinality({k \in Keys : Has(w, k)}))
           /\ UNCHANGED w
TSilent == l <= Len(Trace) /\ w' \in IntSuccCore(w, Devs) /\ UNCHANGED l

TNextW == \/ TReset \/ TRStart
          \/ (TCall \/ TCancel \/ TREmit \/ TDial \/ TREnd \/ TRCtx \/ TRecv \/ TClosed \/ TClose \/ TQuiet \/ TSilent) /\ UNCHANGED qm
TNext == TNextW /\ du' = du \cup w'.dev
TSpec == TInit /\ [][TNext]_tvars

DevReport == l <= Len(Trace) \/ \A d \in du : PrintT(<<"DEV_USED", d>>)
TraceConstraint == TLCSet(1, IF l - 1 > TLCGet(1) THEN l - 1 ELSE TLCGet(1))
TracePost == PrintT(<<"TRACE_HWM", TLCGet(1)>>)
=============================================================================
