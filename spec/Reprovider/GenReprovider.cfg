SPECIFICATION Spec
CONSTANTS Keys = {1, 2, 3}
          MaxLen = 3
          BatchVals = {0, 1, 2}
          ThrVals = {0, 1, 2}
          BadSets = {{}, {3}, {1, 2, 3}}
          PlanModes = {"same", "set"}
INVARIANTS Emit
CHECK_DEADLOCK FALSE
