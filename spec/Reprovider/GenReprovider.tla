---------------------------- MODULE GenReprovider ----------------------------
(* Phase G: every (key stream, configuration) case run to completion by the spec; the expected
   router batches and throughput-callback calls are printed for replay on provider.New.    *)
EXTENDS Reprovider
Emit == pc # "done" \/ PrintT(<<"BEHAVIOUR", ToJson([stream |-> input, cfg |-> cfg,
                                   batches |-> batches, cb |-> cbCalls])>>)
=============================================================================
