---------------------------- MODULE GenReprovider ----------------------------
(* Phase G: every (key stream, configuration) case run to completion by the spec; the expected
   router batches and throughput-callback calls of every pass are printed for replay on provider.New.    *)
EXTENDS Reprovider
\* passes[p] = [stream, batches, cb] of pass p; plan[p] says how pass p+1 gets its stream
Emit == ~AllDone \/ PrintT(<<"BEHAVIOUR", ToJson([cfg |-> cfg, plan |-> plan,
                                   passes |-> Append(hist, [stream |-> input, batches |-> batches, cb |-> cbCalls])])>>)
=============================================================================
