SPECIFICATION Spec
CONSTANTS Keys = {1, 2, 3}
          MaxLen = 4
          BatchVals = {0, 1, 2, 3}
          ThrVals = {0, 1, 2, 3}
          BadSets = {{}, {3}, {1, 2}, {1, 2, 3}}
          PlanModes = {"same", "set", "setnil"}
INVARIANTS Emit
CHECK_DEADLOCK FALSE
