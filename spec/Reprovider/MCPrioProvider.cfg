SPECIFICATION Spec
CONSTANTS Keys = {1, 2}
          MaxStreams = 3
          MaxLen = 2
          Passes = 3
          Kinds = {"prio", "bufprio", "concat"}
          SmallStreams = 2
INVARIANTS EmitsEverything SuppressesEarlier FirstStreamWins ConcatForwardsAll EveryPassSame EveryPassComplete Emit
PROPERTIES Terminates
CHECK_DEADLOCK FALSE
