SPECIFICATION Spec
CONSTANTS Keys = {1, 2}
          MaxStreams = 3
          MaxLen = 2
INVARIANTS EmitsEverything SuppressesEarlier FirstStreamWins Emit
PROPERTIES Terminates
CHECK_DEADLOCK FALSE
