SPECIFICATION Spec
CONSTANTS Keys = {1, 2}
          MaxStreams = 4
          MaxLen = 2
          Passes = 1
          Kinds = {"prio", "concat"}
          SmallStreams = 3
INVARIANTS EmitsEverything SuppressesEarlier FirstStreamWins ConcatForwardsAll EveryPassSame EveryPassComplete
PROPERTIES Terminates
CHECK_DEADLOCK FALSE
