SPECIFICATION Spec
CONSTANTS Eff <- EffAsBuilt
          Keys = {1, 2, 3}
          MaxLen = 2
          BatchVals = {0, 1, 2, 3}
          ThrVals = {0, 1, 2, 3}
          BadSets = {{}, {3}, {1, 2}, {1, 2, 3}}
          PlanModes = {"same"}
INVARIANTS NoRejectedAnnounced OnlyStreamKeys BatchBound AllAllowedAnnounced CarryOnlyRejected EveryPassComplete
PROPERTIES Terminates
CHECK_DEADLOCK FALSE
