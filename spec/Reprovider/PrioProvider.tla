------------------------------ MODULE PrioProvider ------------------------------
(* C44, second clause -- the key-provider combinators of provider/provider.go.  A combinator
   returns ONE KeyChanFunc that the reprovider invokes again at every reprovide pass, so the
   model runs `Passes` consecutive invocations ("passes") of the same function over the same
   streams and states the clause for EVERY pass: nothing may be carried from pass to pass.

   kind "prio"    provider.NewPrioritizedProvider: streams are drained in order; a key already
                  emitted by an EARLIER stream (in this pass) is suppressed; a stream whose
                  KeyChanFunc fails is skipped (best effort).  Keys emitted by the last stream
                  are not remembered (the code only marks keys of non-last streams), so the
                  last stream may repeat its own duplicates.
   kind "bufprio" NewBufferedProvider(NewPrioritizedProvider(...)): the same sequence.
   kind "concat"  provider.NewConcatProvider: every key of every non-failing stream, in order,
                  no suppression.

   A stream may fail in some passes and work in others: pass p uses `errs` when p is odd and
   `errs2` (the same set, or none = every stream recovered) when p is even.                  *)
EXTENDS Integers, Sequences, FiniteSets, TLC, Json
CONSTANTS Keys, MaxStreams, MaxLen,
          Passes,        \* consecutive invocations of the same KeyChanFunc
          Kinds,         \* combinators explored
          SmallStreams   \* stream-count bound for the kinds other than "prio"

VARIABLES all,       \* the streams (sequence of sequences), fixed
          kind,      \* the combinator, fixed
          errs,      \* indices of streams whose KeyChanFunc returns an error in odd passes
          errs2,     \*  ... in even passes
          pass,      \* number of the current invocation, 1..Passes
          i, rest,   \* current stream and its unread suffix
          visited, out,
          emStreams, \* ghost: key -> set of stream indices during which it was emitted (this pass)
          outs       \* outputs of the completed passes
vars == <<all, kind, errs, errs2, pass, i, rest, visited, out, emStreams, outs>>
ToSet(s) == {s[k] : k \in 1..Len(s)}
SeqsUpTo(S, n) == UNION {[1..k -> S] : k \in 0..n}
N == Len(all)
ErrsAt(p) == IF p % 2 = 1 THEN errs ELSE errs2
ErrsNow == ErrsAt(pass)
Dedup == kind \in {"prio", "bufprio"}
FirstRest(p) == IF 1 \in ErrsAt(p) THEN <<>> ELSE all[1]

Init == /\ kind \in Kinds
        /\ \E n \in 1..MaxStreams : (kind = "prio" \/ n <= SmallStreams) /\ all \in [1..n -> SeqsUpTo(Keys, MaxLen)]
        /\ errs \in SUBSET (1..Len(all))
        /\ errs2 \in (IF Passes = 1 THEN {errs} ELSE {errs, {}})
        /\ pass = 1 /\ i = 1 /\ rest = IF 1 \in errs THEN <<>> ELSE all[1]
        /\ visited = {} /\ out = <<>> /\ emStreams = [c \in Keys |-> {}] /\ outs = <<>>

NextStream == /\ i <= N /\ rest = <<>>
              /\ i' = i + 1
              /\ rest' = IF i + 1 <= N /\ (i + 1) \notin ErrsNow THEN all[i + 1] ELSE <<>>
              /\ UNCHANGED <<all, kind, errs, errs2, pass, visited, out, emStreams, outs>>
Skip == /\ i <= N /\ rest # <<>> /\ Dedup /\ Head(rest) \in visited
        /\ rest' = Tail(rest) /\ UNCHANGED <<all, kind, errs, errs2, pass, i, visited, out, emStreams, outs>>
EmitKey == /\ i <= N /\ rest # <<>> /\ (Dedup => Head(rest) \notin visited)
           /\ out' = Append(out, Head(rest)) /\ rest' = Tail(rest)
           /\ visited' = IF Dedup /\ i < N THEN visited \cup {Head(rest)} ELSE visited
           /\ emStreams' = [emStreams EXCEPT ![Head(rest)] = @ \cup {i}]
           /\ UNCHANGED <<all, kind, errs, errs2, pass, i, outs>>
\* the returned KeyChanFunc is invoked again: a fresh pass, nothing remembered
NextPass == /\ i = N + 1 /\ pass < Passes
            /\ pass' = pass + 1 /\ outs' = Append(outs, out)
            /\ i' = 1 /\ rest' = FirstRest(pass + 1)
            /\ visited' = {} /\ out' = <<>> /\ emStreams' = [c \in Keys |-> {}]
            /\ UNCHANGED <<all, kind, errs, errs2>>
Next == NextStream \/ Skip \/ EmitKey \/ NextPass
Spec == Init /\ [][Next]_vars /\ WF_vars(Next)

Done == i = N + 1
AllDone == Done /\ pass = Passes
Live(p) == (1..N) \ ErrsAt(p)
EmitsEverything == Done => ToSet(out) = UNION {ToSet(all[j]) : j \in Live(pass)}
SuppressesEarlier == Dedup => \A c \in Keys : Cardinality(emStreams[c]) <= 1
FirstStreamWins == Dedup => \A c \in Keys : \A j \in emStreams[c] : \A k \in (1..(j-1)) \ ErrsNow : c \notin ToSet(all[k])
\* concat forwards everything, in order
Flat(p) == LET F[j \in 0..N] == IF j = 0 THEN <<>> ELSE F[j - 1] \o (IF j \in ErrsAt(p) THEN <<>> ELSE all[j]) IN F[N]
ConcatForwardsAll == (kind = "concat" /\ Done) => out = Flat(pass)
\* every pass is a pass over the full set again: two passes in which the same streams work
\* emit the same sequence (in particular a later pass is never thinner than the first one)
AllOuts == IF Done THEN Append(outs, out) ELSE outs
EveryPassSame == \A p, q \in 1..Len(AllOuts) : ErrsAt(p) = ErrsAt(q) => AllOuts[p] = AllOuts[q]
EveryPassComplete == \A p \in 1..Len(AllOuts) : ToSet(AllOuts[p]) = UNION {ToSet(all[j]) : j \in Live(p)}
Terminates == <>AllDone
Emit == ~AllDone \/ PrintT(<<"BEHAVIOUR", ToJson([kind |-> kind, streams |-> all,
                                 errs |-> [p \in 1..Passes |-> ErrsAt(p)], outs |-> Append(outs, out)])>>)

\* non-vacuity control (by hand, see notes): a `visited` that survives NextPass violates
\* EveryPassSame / EveryPassComplete in the model.
=============================================================================
