------------------------------ MODULE PrioProvider ------------------------------
(* C44, second clause -- provider.NewPrioritizedProvider: streams are drained in order; a key
   already emitted by an EARLIER stream is suppressed; a stream whose KeyChanFunc fails is
   skipped (best effort).  Keys emitted by the last stream are not remembered (the code only
   marks keys of non-last streams), so the last stream may repeat its own duplicates.       *)
EXTENDS Integers, Sequences, FiniteSets, TLC, Json
CONSTANTS Keys, MaxStreams, MaxLen

VARIABLES all,       \* the streams (sequence of sequences), fixed
          errs,      \* indices of streams whose KeyChanFunc returns an error
          i, rest,   \* current stream and its unread suffix
          visited, out,
          emStreams  \* ghost: key -> set of stream indices during which it was emitted
vars == <<all, errs, i, rest, visited, out, emStreams>>
ToSet(s) == {s[k] : k \in 1..Len(s)}
SeqsUpTo(S, n) == UNION {[1..k -> S] : k \in 0..n}
N == Len(all)

Init == /\ \E n \in 1..MaxStreams : all \in [1..n -> SeqsUpTo(Keys, MaxLen)]
        /\ errs \in SUBSET (1..Len(all))
        /\ i = 1 /\ rest = IF 1 \in errs THEN <<>> ELSE all[1]
        /\ visited = {} /\ out = <<>> /\ emStreams = [c \in Keys |-> {}]

NextStream == /\ i <= N /\ rest = <<>>
              /\ i' = i + 1
              /\ rest' = IF i + 1 <= N /\ (i + 1) \notin errs THEN all[i + 1] ELSE <<>>
              /\ UNCHANGED <<all, errs, visited, out, emStreams>>
Skip == /\ i <= N /\ rest # <<>> /\ Head(rest) \in visited
        /\ rest' = Tail(rest) /\ UNCHANGED <<all, errs, i, visited, out, emStreams>>
EmitKey == /\ i <= N /\ rest # <<>> /\ Head(rest) \notin visited
           /\ out' = Append(out, Head(rest)) /\ rest' = Tail(rest)
           /\ visited' = IF i < N THEN visited \cup {Head(rest)} ELSE visited
           /\ emStreams' = [emStreams EXCEPT ![Head(rest)] = @ \cup {i}]
           /\ UNCHANGED <<all, errs, i>>
Next == NextStream \/ Skip \/ EmitKey
Spec == Init /\ [][Next]_vars /\ WF_vars(Next)

Done == i = N + 1
EmitsEverything == Done => ToSet(out) = UNION {ToSet(all[j]) : j \in (1..N) \ errs}
SuppressesEarlier == \A c \in Keys : Cardinality(emStreams[c]) <= 1
FirstStreamWins == \A c \in Keys : \A j \in emStreams[c] : \A k \in (1..(j-1)) \ errs : c \notin ToSet(all[k])
Terminates == <>Done
Emit == ~Done \/ PrintT(<<"BEHAVIOUR", ToJson([streams |-> all, errs |-> errs, out |-> out])>>)
=============================================================================
