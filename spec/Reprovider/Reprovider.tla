------------------------------ MODULE Reprovider ------------------------------
(* C44 -- one reprovide pass (provider/reprovider.go Reprovide), at the grain of the code's
   loop: read up to `Eff` keys from the key channel into the carry-over map, validate against
   the allowlist, hand the valid ones to the router as ONE batch, report throughput, repeat
   until the channel is closed.

   A System runs MANY passes (one per interval, or explicit Reprovide calls); the key provider
   is invoked again at the start of every pass (SetKeyProvider may replace it in between).
   The model therefore runs a `plan` of further passes on the same system and states the
   property for EVERY pass: each pass announces the full allowed set of ITS stream again; the
   loop's carry-over map and the router batches start empty.  The only state that survives a
   pass is the throughput report (documented: the counter keeps counting until the threshold
   is met; a callback that returned false is never called again -- and then no longer lowers
   the batch size of later passes).

   Keys are small integers; cfg.bad is the set of keys whose CID the allowlist rejects.
   Ideal behaviour for a configured limit of 0 (MaxBatchSize(0) or a throughput threshold of
   0): the pass must still terminate and announce everything, so the effective batch size is
   max(1, limit) -- a limit of 0 cannot be met by any non-empty batch.                      *)
EXTENDS Naturals, Sequences, FiniteSets, TLC, Json

CONSTANTS Keys,      \* universe of keys
          MaxLen,    \* longest key stream (model checking)
          BatchVals, \* configured MaxBatchSize values explored
          ThrVals,   \* throughput thresholds explored
          BadSets,   \* sets of rejected keys explored
          PlanModes  \* how the passes after the first get their stream: subset of {"same", "set", "setnil"}

Unlimited == 9999   \* stands for math.MaxUint (default MaxBatchSize)

VARIABLES input,    \* the whole key stream of this pass (never changes)
          cfg,      \* [batch, many, hasThr, thr, cbStop, bad]
          stream,   \* keys not yet read from the channel
          cids,     \* carry-over map of the loop (set)
          got,      \* keys read in the current inner loop
          closed,   \* allCidsProcessed
          pc,       \* "read" | "validate" | "provide" | "done"
          keys,     \* batch being handed to the router
          batches,  \* sequence of batches given to the router so far (each a set)
          cbOn, cbCount, cbCalls,  \* throughput callback state / calls [n, complete] of this pass
          pass,     \* number of the current pass (1, 2, ...)
          plan,     \* the passes after the first: sequence of [how, arg]  (never changes)
          lowered,  \* the throughput report was active when this pass started (it then bounds the batch size)
          hist      \* completed passes: [stream, batches, cb]
vars == <<input, cfg, stream, cids, got, closed, pc, keys, batches, cbOn, cbCount, cbCalls, pass, plan, lowered, hist>>

ToSet(s) == {s[i] : i \in 1..Len(s)}
SeqsUpTo(S, n) == UNION {[1..k -> S] : k \in 0..n}
Min(a, b) == IF a < b THEN a ELSE b

\* the batch size the loop uses: a router without ProvideMany forces 1; an active throughput
\* report lowers it to its threshold; a resulting 0 is treated as 1 (see header)
Configured == LET base == IF cfg.many THEN cfg.batch ELSE 1
              IN  IF lowered /\ cfg.thr < base THEN cfg.thr ELSE base
Eff == IF Configured = 0 THEN 1 ELSE Configured

Cfgs == [batch : BatchVals \cup {Unlimited}, many : BOOLEAN, hasThr : BOOLEAN, thr : ThrVals,
         cbStop : BOOLEAN, bad : BadSets]

Start(s, c, pl) ==
    /\ input = s /\ stream = s /\ cfg = c
    /\ cids = {} /\ got = 0 /\ closed = FALSE /\ pc = "read" /\ keys = {} /\ batches = <<>>
    /\ cbOn = c.hasThr /\ cbCount = 0 /\ cbCalls = <<>>
    /\ pass = 1 /\ plan = pl /\ lowered = c.hasThr /\ hist = <<>>

\* the stream installed by SetKeyProvider before the second pass: other keys (so other
\* allowed/rejected ones), one key more
Alt(s) == [k \in 1..Len(s) |-> (s[k] % Cardinality(Keys)) + 1] \o <<1>>
\* one further pass: the same key provider is invoked again ("same"), SetKeyProvider(other)
\* ("set"), or SetKeyProvider(nil), which is documented to be ignored ("setnil").  To bound the
\* case count the Set variants are explored for the configurations without throughput report.
Plans(s, c) == {<<[how |-> m, arg |-> IF m = "set" THEN Alt(s) ELSE <<>>]>> :
                    m \in {m \in PlanModes : m = "same" \/ ~c.hasThr}}
               \cup (IF PlanModes = {} THEN {<<>>} ELSE {})

Init == \E s \in SeqsUpTo(Keys, MaxLen), c \in Cfgs :
           /\ c.hasThr \/ (c.thr = 0 /\ ~c.cbStop)
           /\ \E pl \in Plans(s, c) : Start(s, c, pl)

ReadOne ==
    /\ pc = "read" /\ got < Eff /\ stream # <<>>
    /\ cids' = cids \cup {Head(stream)} /\ stream' = Tail(stream) /\ got' = got + 1
    /\ UNCHANGED <<input, cfg, closed, pc, keys, batches, cbOn, cbCount, cbCalls, pass, plan, lowered, hist>>
ReadClosed ==
    /\ pc = "read" /\ got < Eff /\ stream = <<>>
    /\ closed' = TRUE /\ pc' = "validate"
    /\ UNCHANGED <<input, cfg, stream, cids, got, keys, batches, cbOn, cbCount, cbCalls, pass, plan, lowered, hist>>
ReadFull ==
    /\ pc = "read" /\ got = Eff
    /\ pc' = "validate"
    /\ UNCHANGED <<input, cfg, stream, cids, got, closed, keys, batches, cbOn, cbCount, cbCalls, pass, plan, lowered, hist>>
Validate ==
    /\ pc = "validate"
    /\ keys' = cids \ cfg.bad /\ cids' = cids \cap cfg.bad /\ got' = 0
    /\ pc' = IF keys' = {} THEN (IF closed THEN "done" ELSE "read") ELSE "provide"
    /\ UNCHANGED <<input, cfg, stream, closed, batches, cbOn, cbCount, cbCalls, pass, plan, lowered, hist>>
Provide ==
    /\ pc = "provide"
    /\ batches' = Append(batches, keys) /\ keys' = {}
    /\ LET n == cbCount + Cardinality(keys)
           fire == cbOn /\ n >= cfg.thr
       IN /\ cbCalls' = IF fire THEN Append(cbCalls, [n |-> n, complete |-> closed]) ELSE cbCalls
          /\ cbOn' = IF fire /\ cfg.cbStop THEN FALSE ELSE cbOn
          /\ cbCount' = IF fire THEN 0 ELSE n
    /\ pc' = IF closed THEN "done" ELSE "read"
    /\ UNCHANGED <<input, cfg, stream, cids, got, closed, pass, plan, lowered, hist>>

\* Reprovide is called again on the same system.  Everything the loop works with is fresh; the
\* throughput state (cbOn, cbCount) is what the previous pass left.
NextPassWith(how, arg) ==
    /\ pc = "done"
    /\ pass' = pass + 1
    /\ hist' = Append(hist, [stream |-> input, batches |-> batches, cb |-> cbCalls])
    /\ input' = (IF how = "set" THEN arg ELSE input) /\ stream' = input'
    /\ cids' = {} /\ got' = 0 /\ closed' = FALSE /\ pc' = "read" /\ keys' = {} /\ batches' = <<>>
    /\ cbCalls' = <<>> /\ lowered' = cbOn
    /\ UNCHANGED <<cfg, cbOn, cbCount, plan>>
NextPass == pass <= Len(plan) /\ NextPassWith(plan[pass].how, plan[pass].arg)

Step == ReadOne \/ ReadClosed \/ ReadFull \/ Validate \/ Provide
Next == Step \/ NextPass
Spec == Init /\ [][Next]_vars /\ WF_vars(Next)

(* ---- the property ------------------------------------------------------------------- *)
Announced == UNION {batches[i] : i \in 1..Len(batches)}
NoRejectedAnnounced == Announced \cap cfg.bad = {}
OnlyStreamKeys      == Announced \subseteq ToSet(input)
BatchBound          == \A i \in 1..Len(batches) : Cardinality(batches[i]) <= Eff /\ batches[i] # {}
AllAllowedAnnounced == pc = "done" => (ToSet(input) \ cfg.bad) \subseteq Announced
CarryOnlyRejected   == pc \in {"read", "provide", "done"} /\ got = 0 => cids \subseteq cfg.bad
AllDone             == pc = "done" /\ pass = Len(plan) + 1
Terminates          == <>AllDone
\* every completed pass announced the full allowed set of its own stream (nothing is skipped
\* because an earlier pass announced it already) and nothing else
EveryPassComplete   == \A p \in 1..Len(hist) :
                          LET ann == UNION {hist[p].batches[k] : k \in 1..Len(hist[p].batches)}
                          IN  ann = ToSet(hist[p].stream) \ cfg.bad

\* as-built batch size (no clamp): with this definition substituted for Eff, Terminates fails --
\* used as the non-vacuity control of the liveness check (MCReproviderAsBuilt.cfg)
EffAsBuilt == Configured
=============================================================================
