SPECIFICATION TSpec
CONSTANTS Keys = {1}
          MaxLen = 1
          BatchVals = {1}
          ThrVals = {0}
          BadSets = {{}}
          PlanModes = {}
INVARIANTS NoRejectedAnnounced OnlyStreamKeys BatchBound AllAllowedAnnounced CarryOnlyRejected EveryPassComplete
CONSTRAINT TraceConstraint
POSTCONDITION TracePost
CHECK_DEADLOCK FALSE
