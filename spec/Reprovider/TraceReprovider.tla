--------------------------- MODULE TraceReprovider ---------------------------
(* Phase T: events recorded from real Reprovide passes (Reset = new system: configuration + key
   stream, Pass = Reprovide called again on the same system after how = "same" (nothing),
   "set" (SetKeyProvider(stream)) or "setnil" (SetKeyProvider(nil)), Batch = one ProvideMany
   call / one Provide call of a single-provide router, Callback = one throughput report,
   Done = Reprovide returned) must be a behaviour of Reprovider; reading,
   validation and loop control are silent spec steps between events.                        *)
EXTENDS Reprovider, Integers

Trace == ndJsonDeserialize("trace.ndjson")
VARIABLES l, cbSeen
tvars == <<vars, l, cbSeen>>
ASSUME TLCSet(1, 0)

Ev == Trace[l]
IsEvent(e) == l <= Len(Trace) /\ Trace[l].ev = e /\ l' = l + 1

TInit == /\ l = 1 /\ cbSeen = 0
         /\ input = <<>> /\ stream = <<>> /\ cfg = [batch |-> 1, many |-> TRUE, hasThr |-> FALSE, thr |-> 0, cbStop |-> FALSE, bad |-> {}]
         /\ cids = {} /\ got = 0 /\ closed = TRUE /\ pc = "done" /\ keys = {} /\ batches = <<>>
         /\ cbOn = FALSE /\ cbCount = 0 /\ cbCalls = <<>>
         /\ pass = 1 /\ plan = <<>> /\ lowered = FALSE /\ hist = <<>>

TReset == /\ IsEvent("Reset") /\ pc = "done" /\ cbSeen = Len(cbCalls)
          /\ LET c == [batch |-> Ev.batch, many |-> Ev.many, hasThr |-> Ev.hasThr, thr |-> Ev.thr,
                       cbStop |-> Ev.cbStop, bad |-> ToSet(Ev.bad)]
             IN /\ input' = Ev.stream /\ stream' = Ev.stream /\ cfg' = c
                /\ cids' = {} /\ got' = 0 /\ closed' = FALSE /\ pc' = "read" /\ keys' = {} /\ batches' = <<>>
                /\ cbOn' = c.hasThr /\ cbCount' = 0 /\ cbCalls' = <<>> /\ cbSeen' = 0
                /\ pass' = 1 /\ plan' = <<>> /\ lowered' = c.hasThr /\ hist' = <<>>
TPass == /\ IsEvent("Pass") /\ cbSeen = Len(cbCalls)
         /\ Ev.how \in {"same", "set", "setnil"}
         /\ NextPassWith(Ev.how, Ev.stream) /\ cbSeen' = 0

Silent == /\ cbSeen = Len(cbCalls)
          /\ (ReadOne \/ ReadClosed \/ ReadFull \/ Validate)
          /\ UNCHANGED <<l, cbSeen>>
TBatch == /\ IsEvent("Batch") /\ cbSeen = Len(cbCalls)
          /\ pc = "provide" /\ ToSet(Ev.keys) = keys /\ Len(Ev.keys) = Cardinality(keys)
          /\ Provide /\ UNCHANGED cbSeen
TCallback == /\ IsEvent("Callback") /\ cbSeen < Len(cbCalls)
             /\ cbCalls[cbSeen + 1] = [n |-> Ev.n, complete |-> Ev.complete]
             /\ cbSeen' = cbSeen + 1 /\ UNCHANGED vars
TDone == /\ IsEvent("Done") /\ pc = "done" /\ cbSeen = Len(cbCalls) /\ Ev.err = ""
         /\ UNCHANGED <<vars, cbSeen>>

TNext == TReset \/ TPass \/ Silent \/ TBatch \/ TCallback \/ TDone
TSpec == TInit /\ [][TNext]_tvars

TraceConstraint == TLCSet(1, IF l - 1 > TLCGet(1) THEN l - 1 ELSE TLCGet(1))
TracePost == PrintT(<<"TRACE_HWM", TLCGet(1)>>)
=============================================================================
