SPECIFICATION Spec
CONSTANTS Threads = {1,2,3,4}
          Updaters = {1,2}
          Waiters = {3}
          Closers = {4}
          Values = {1,2}
          MaxUpd = 2
          MaxFail = 2
          InitVals = {1}
          Devs = {}
INVARIANTS TypeOK NoRegression NoDuplicatePublish WaitPubCovers ClosePublishesPending TimerImpliesPending NotStuck WaiterOnlyWhileRetrying
