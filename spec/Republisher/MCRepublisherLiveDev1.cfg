SPECIFICATION FairSpec
CONSTANTS Threads = {1,2,3}
          Updaters = {1}
          Waiters = {2}
          Closers = {3}
          Values = {1,2}
          MaxUpd = 2
          MaxFail = 1
          InitVals = {1}
          Devs = {"Dev_C21_IpStaysDisabled"}
PROPERTIES WaitPubReturns
