SPECIFICATION FairSpec
CONSTANTS Threads = {1,2,3}
          Updaters = {1}
          Waiters = {2}
          Closers = {3}
          Values = {1,2}
          MaxUpd = 1
          MaxFail = 1
          InitVals = {1}
          Devs = {}
PROPERTIES EventuallyLatest WaitPubReturns CloseReturns
