----------------------------- MODULE Republisher -----------------------------
(* C21 -- mfs/repub.go: the MFS republisher.

   One action per critical section of the code:
     Update   = ideal: atomic replacement of the channel content (UpdAtomic); as built:
                select{ <-update (drain) ; update<-c }  then  select{ update<-c ; default }    (UpdDrain/UpdPut/UpdDrop)
     WaitPub  = rendezvous on immediatePublish (LoopRecvWaiter), then wait for close(wait)     (Notify)
     Close    = closeOnce{ WaitPub(5s) ; cancel() } ; <-stopped
     run loop = select{ctx.Done | <-update | <-immediatePublish | quick.C | longer.C}, the inner
                "grab the latest value" select, cleanup (stop timers), pubfunc, notify waiter.
   Loop-local statements between two channel operations are invisible to every other goroutine
   and are merged into the action of the preceding channel operation.

   Values are small integers (0 = cid.Undef).  Every Update CALL gets a ghost identity
   1..nupd (allocation order = call order); the channel and toPublish carry identities so that
   the real-time order of calls (ghost relation `before`) can be stated.  The implementation
   only sees val[id].

   The module describes the IDEAL behaviour.  The as-built difference is the named deviation
   Dev_C21_IpStaysDisabled (action DevLoopRecvUpdDup): after a failed publish, an update equal
   to lastPublished clears toPublish but leaves immediatePublish disabled.
   Second as-built difference, Dev_C21_UpdateNotAtomic (action UpdDrain): Update empties the channel
   and refills it in two steps; the loop's "grab the latest value" select can run in between.  *)
EXTENDS Naturals, Sequences, FiniteSets, TLC, Json

CONSTANTS Threads,   \* client goroutines (positive integers)
          Values,    \* model CIDs (positive integers); 0 = cid.Undef
          MaxUpd,    \* bound on the number of Update calls in one run
          MaxFail,   \* bound on the total number of failing publishes the environment may order
          InitVals,  \* possible constructor arguments lastPublished (subset of Values \cup {0})
          Devs       \* enabled as-built deviations (set of strings)

VARIABLES
  chan,        \* rp.update, capacity 1: 0 = empty, else update identity
  toPub,       \* run(): toPublish (identity, 0 = cid.Undef)
  lastPub,     \* run(): lastPublished (a VALUE)
  quick, longer,   \* timers armed?
  waiter,      \* run(): thread whose `wait` channel the loop holds (0 = nil)
  ipEn,        \* run(): immediatePublish == rp.immediatePublish (FALSE: nil, waiters not read)
  lpc,         \* loop pc: "select" | "grab" | "publish" | "stopped"
  cancelled,   \* rp.cancel() has been called
  once,        \* closeOnce: "no" | "running" | "done"
  failBudget,  \* environment (harness gate): the next failBudget pubfunc calls fail
  failLeft,    \* remaining total of failures the environment may still order
  tpc,         \* [Threads -> pc of the client call in progress]
  tid,         \* [Threads -> identity of the Update in progress (0)]
  cerr,        \* [Threads -> "" | "ok" | "timeout" | "second"]  outcome of Close's WaitPub
  \* ---- ghost ----
  nupd,        \* identities allocated
  val,         \* sequence: val[u] = value of update u
  retd,        \* identities whose Update call has returned
  before,      \* <<u,p>> : Update u returned before Update p was called
  done,        \* identities published successfully or skipped because equal to lastPublished
  published,   \* sequence of identities passed to a successful pubfunc call
  wbefore,     \* [Threads -> retd at the time of the thread's current WaitPub/Close call]
  dev          \* deviations used so far

lvars == <<chan, toPub, lastPub, quick, longer, waiter, ipEn, lpc>>
evars == <<cancelled, once, failBudget, failLeft>>
tvars == <<tpc, tid, cerr>>
gvars == <<nupd, val, retd, before, done, published, wbefore, dev>>
vars  == <<lvars, evars, tvars, gvars>>

ValOf(u) == IF u = 0 THEN 0 ELSE val[u]
DevName  == "Dev_C21_IpStaysDisabled"
Dev2Name == "Dev_C21_UpdateNotAtomic"

Init == /\ chan = 0 /\ toPub = 0 /\ lastPub \in InitVals
        /\ quick = FALSE /\ longer = FALSE /\ waiter = 0 /\ ipEn = TRUE /\ lpc = "select"
        /\ cancelled = FALSE /\ once = "no" /\ failBudget = 0 /\ failLeft = MaxFail
        /\ tpc = [t \in Threads |-> "idle"] /\ tid = [t \in Threads |-> 0]
        /\ cerr = [t \in Threads |-> ""]
        /\ nupd = 0 /\ val = <<>> /\ retd = {} /\ before = {} /\ done = {} /\ published = <<>>
        /\ wbefore = [t \in Threads |-> {}] /\ dev = {}

(* ------------------------------------------------------------------ environment *)
FailNext(k) == /\ k \in 1..failLeft /\ failBudget = 0
               /\ failBudget' = k /\ failLeft' = failLeft - k
               /\ UNCHANGED <<lvars, cancelled, once, tvars, gvars>>

(* ------------------------------------------------------------------ Update(c) *)
UpdCall(t, v) ==
  /\ tpc[t] = "idle" /\ nupd < MaxUpd
  /\ nupd' = nupd + 1 /\ val' = Append(val, v)
  /\ before' = before \cup {<<u, nupd + 1>> : u \in retd}
  /\ tid' = [tid EXCEPT ![t] = nupd + 1]
  /\ tpc' = [tpc EXCEPT ![t] = "u_sel"]
  /\ UNCHANGED <<lvars, evars, cerr, retd, done, published, wbefore, dev>>

\* IDEAL: the hand-over is atomic: whatever sits in the channel is replaced by c
UpdAtomic(t) == /\ tpc[t] = "u_sel"
                /\ chan' = tid[t] /\ tpc' = [tpc EXCEPT ![t] = "u_ret"]
                /\ UNCHANGED <<toPub, lastPub, quick, longer, waiter, ipEn, lpc, evars, tid, cerr, gvars>>
\* AS BUILT (Dev_C21_UpdateNotAtomic): outer select, case <-rp.update -- the channel is EMPTY until the
\* inner select below runs; a WaitPub/Close served in this window finds nothing pending
UpdDrain(t) == /\ Dev2Name \in Devs
               /\ tpc[t] = "u_sel" /\ chan # 0
               /\ chan' = 0 /\ tpc' = [tpc EXCEPT ![t] = "u_put"]
               /\ dev' = dev \cup {Dev2Name}
               /\ UNCHANGED <<toPub, lastPub, quick, longer, waiter, ipEn, lpc, evars, tid, cerr,
                              nupd, val, retd, before, done, published, wbefore>>
\* inner select, case rp.update <- c
UpdPut(t)   == /\ tpc[t] = "u_put" /\ chan = 0
               /\ chan' = tid[t] /\ tpc' = [tpc EXCEPT ![t] = "u_ret"]
               /\ UNCHANGED <<toPub, lastPub, quick, longer, waiter, ipEn, lpc, evars, tid, cerr, gvars>>
\* inner select, default: a concurrent Update filled the channel, it wins
UpdDrop(t)  == /\ tpc[t] = "u_put" /\ chan # 0
               /\ tpc' = [tpc EXCEPT ![t] = "u_ret"]
               /\ UNCHANGED <<lvars, evars, tid, cerr, gvars>>
UpdRet(t)   == /\ tpc[t] = "u_ret"
               /\ retd' = retd \cup {tid[t]}
               /\ tid' = [tid EXCEPT ![t] = 0] /\ tpc' = [tpc EXCEPT ![t] = "idle"]
               /\ UNCHANGED <<lvars, evars, cerr, nupd, val, before, done, published, wbefore, dev>>

(* ------------------------------------------------------------------ WaitPub(ctx) *)
WaitCall(t) == /\ tpc[t] = "idle"
               /\ tpc' = [tpc EXCEPT ![t] = "w_send"]
               /\ wbefore' = [wbefore EXCEPT ![t] = retd]
               /\ UNCHANGED <<lvars, evars, tid, cerr, nupd, val, retd, before, done, published, dev>>
WaitRetOk(t) == /\ tpc[t] = "w_woken"
                /\ tpc' = [tpc EXCEPT ![t] = "idle"]
                /\ UNCHANGED <<lvars, evars, tid, cerr, gvars>>

\* A context given to WaitPub (and Close's 5 s) is, by assumption on the environment, far longer
\* than timers + bounded publish failures.  It can therefore only expire when the wait cannot
\* complete at all: the loop has been cancelled, or the loop sits in select with immediatePublish
\* disabled and nothing to retry (unreachable in the ideal spec: invariant NotStuck).
Stuck == ~ipEn /\ lpc = "select" /\ toPub = 0 /\ chan = 0
MayExpire(t, sendPc) == cancelled \/ (Stuck /\ tpc[t] = sendPc)

WaitTimeout(t) == /\ tpc[t] \in {"w_send", "w_wait", "w_woken"}
                  /\ MayExpire(t, "w_send")
                  /\ tpc' = [tpc EXCEPT ![t] = "idle"]
                  /\ UNCHANGED <<lvars, evars, tid, cerr, gvars>>

(* ------------------------------------------------------------------ Close() *)
CloseCall(t) == /\ tpc[t] = "idle"
                /\ wbefore' = [wbefore EXCEPT ![t] = retd]
                /\ IF once = "no"
                   THEN /\ once' = "running" /\ tpc' = [tpc EXCEPT ![t] = "c_send"]
                        /\ cerr' = [cerr EXCEPT ![t] = ""]
                   ELSE /\ once' = once /\ tpc' = [tpc EXCEPT ![t] = "c_oncewait"]
                        /\ cerr' = [cerr EXCEPT ![t] = "second"]
                /\ UNCHANGED <<lvars, cancelled, failBudget, failLeft, tid, nupd, val, retd, before, done, published, dev>>
\* WaitPub returned nil: rp.cancel()
CloseWoken(t) == /\ tpc[t] = "c_woken"
                 /\ cerr' = [cerr EXCEPT ![t] = "ok"] /\ cancelled' = TRUE /\ once' = "done"
                 /\ tpc' = [tpc EXCEPT ![t] = "c_stopwait"]
                 /\ UNCHANGED <<lvars, failBudget, failLeft, tid, gvars>>
\* WaitPub hit closeTimeout: error, rp.cancel()
CloseTimeout(t) == /\ tpc[t] \in {"c_send", "c_wait"}
                   /\ MayExpire(t, "c_send")
                   /\ cerr' = [cerr EXCEPT ![t] = "timeout"] /\ cancelled' = TRUE /\ once' = "done"
                   /\ tpc' = [tpc EXCEPT ![t] = "c_stopwait"]
                   /\ UNCHANGED <<lvars, failBudget, failLeft, tid, gvars>>
\* a second caller blocks in closeOnce.Do until the first one has finished
CloseOnceWait(t) == /\ tpc[t] = "c_oncewait" /\ once = "done"
                    /\ tpc' = [tpc EXCEPT ![t] = "c_stopwait"]
                    /\ UNCHANGED <<lvars, evars, tid, cerr, gvars>>
\* <-rp.stopped
CloseRet(t) == /\ tpc[t] = "c_stopwait" /\ lpc = "stopped"
               /\ tpc' = [tpc EXCEPT ![t] = "idle"]
               /\ UNCHANGED <<lvars, evars, tid, cerr, gvars>>

(* ------------------------------------------------------------------ run() *)
WakePc(p) == IF p = "w_wait" THEN "w_woken" ELSE IF p = "c_wait" THEN "c_woken" ELSE p
\* close(waiter); waiter = nil      (a waiter that already gave up is unaffected)
Notified == IF waiter # 0 THEN [tpc EXCEPT ![waiter] = WakePc(@)] ELSE tpc

\* case newValue := <-rp.update, newValue # lastPublished
LoopRecvUpdNew ==
  /\ lpc = "select" /\ chan # 0 /\ ValOf(chan) # lastPub
  /\ chan' = 0 /\ toPub' = chan /\ quick' = TRUE
  /\ longer' = (IF toPub = 0 THEN TRUE ELSE longer)
  /\ UNCHANGED <<lastPub, waiter, ipEn, lpc, evars, tvars, gvars>>

\* case newValue := <-rp.update, newValue = lastPublished: forget the pending value, stop the
\* timers, release the waiter -- and (ideal) resume reading waiters, nothing is left to retry
LoopRecvUpdDup ==
  /\ lpc = "select" /\ chan # 0 /\ ValOf(chan) = lastPub
  /\ chan' = 0 /\ toPub' = 0 /\ quick' = FALSE /\ longer' = FALSE
  /\ done' = done \cup {chan}
  /\ tpc' = Notified /\ waiter' = 0
  /\ ipEn' = TRUE
  /\ UNCHANGED <<lastPub, lpc, evars, tid, cerr, nupd, val, retd, before, published, wbefore, dev>>

\* AS BUILT: the same, but immediatePublish stays nil
DevLoopRecvUpdDup ==
  /\ DevName \in Devs /\ ~ipEn
  /\ lpc = "select" /\ chan # 0 /\ ValOf(chan) = lastPub
  /\ chan' = 0 /\ toPub' = 0 /\ quick' = FALSE /\ longer' = FALSE
  /\ done' = done \cup {chan}
  /\ tpc' = Notified /\ waiter' = 0
  /\ dev' = dev \cup {DevName}
  /\ UNCHANGED <<lastPub, ipEn, lpc, evars, tid, cerr, nupd, val, retd, before, published, wbefore>>

\* case waiter = <-immediatePublish      (rendezvous with the first select of WaitPub)
LoopRecvWaiter(t) ==
  /\ lpc = "select" /\ ipEn /\ tpc[t] \in {"w_send", "c_send"}
  /\ waiter' = t /\ lpc' = "grab"
  /\ tpc' = [tpc EXCEPT ![t] = IF @ = "w_send" THEN "w_wait" ELSE "c_wait"]
  /\ UNCHANGED <<chan, toPub, lastPub, quick, longer, ipEn, evars, tid, cerr, gvars>>

\* select{ case toPublish = <-rp.update: default: }; drop duplicates; stop timers; then publish
\* or, with nothing to publish, release the waiter
LoopGrab ==
  /\ lpc = "grab"
  /\ LET g   == IF chan # 0 THEN chan ELSE toPub
         dup == ValOf(g) = lastPub
         tp  == IF dup THEN 0 ELSE g
     IN /\ chan' = 0 /\ toPub' = tp /\ quick' = FALSE /\ longer' = FALSE
        /\ done' = (IF dup /\ g # 0 THEN done \cup {g} ELSE done)
        /\ IF tp # 0 THEN /\ lpc' = "publish" /\ UNCHANGED <<waiter, tpc>>
                     ELSE /\ lpc' = "select" /\ tpc' = Notified /\ waiter' = 0
  /\ UNCHANGED <<lastPub, ipEn, evars, tid, cerr, nupd, val, retd, before, published, wbefore, dev>>

\* case <-quick.C / <-longer.C
TimerBody == /\ quick' = FALSE /\ longer' = FALSE
             /\ IF toPub # 0 THEN /\ lpc' = "publish" /\ UNCHANGED <<waiter, tpc>>
                             ELSE /\ lpc' = "select" /\ tpc' = Notified /\ waiter' = 0
             /\ UNCHANGED <<chan, toPub, lastPub, ipEn, evars, tid, cerr, gvars>>
LoopQuick == lpc = "select" /\ quick /\ TimerBody
LoopLong  == lpc = "select" /\ longer /\ TimerBody

\* pubfunc(toPublish) = nil
LoopPubOk ==
  /\ lpc = "publish" /\ failBudget = 0
  /\ lastPub' = ValOf(toPub) /\ published' = Append(published, toPub)
  /\ done' = done \cup {toPub} /\ toPub' = 0 /\ ipEn' = TRUE
  /\ tpc' = Notified /\ waiter' = 0 /\ lpc' = "select"
  /\ UNCHANGED <<chan, quick, longer, evars, tid, cerr, nupd, val, retd, before, wbefore, dev>>
\* pubfunc(toPublish) # nil: retry after the long timeout, stop reading waiters, keep the waiter
LoopPubFail ==
  /\ lpc = "publish" /\ failBudget > 0
  /\ failBudget' = failBudget - 1
  /\ longer' = TRUE /\ ipEn' = FALSE /\ lpc' = "select"
  /\ UNCHANGED <<chan, toPub, lastPub, quick, waiter, cancelled, once, failLeft, tvars, gvars>>
\* case <-ctx.Done()
LoopStop == /\ lpc = "select" /\ cancelled
            /\ lpc' = "stopped"
            /\ UNCHANGED <<chan, toPub, lastPub, quick, longer, waiter, ipEn, evars, tvars, gvars>>

LoopNext == \/ LoopRecvUpdNew \/ LoopRecvUpdDup \/ DevLoopRecvUpdDup
            \/ (\E t \in Threads : LoopRecvWaiter(t))
            \/ LoopGrab \/ LoopQuick \/ LoopLong \/ LoopPubOk \/ LoopPubFail \/ LoopStop

\* steps of a client call that need no new decision by the client
ThreadStep(t) == \/ UpdAtomic(t) \/ UpdDrain(t) \/ UpdPut(t) \/ UpdDrop(t) \/ UpdRet(t)
                 \/ WaitRetOk(t) \/ CloseWoken(t) \/ CloseOnceWait(t) \/ CloseRet(t)
Expire(t) == WaitTimeout(t) \/ CloseTimeout(t)

(* ------------------------------------------------------------------ roles (model checking) *)
CONSTANTS Updaters, Waiters, Closers      \* subsets of Threads
Next == \/ LoopNext
        \/ \E t \in Threads : ThreadStep(t) \/ Expire(t)
        \/ \E t \in Updaters, v \in Values : UpdCall(t, v)
        \/ \E t \in Waiters : WaitCall(t)
        \/ \E t \in Closers : once = "no" /\ CloseCall(t)
        \/ \E k \in 1..MaxFail : FailNext(k)

Spec == Init /\ [][Next]_vars
\* fairness: the loop goroutine and every started client call keep running; Go's select chooses at random
\* among ready cases, so a WaitPub (or ctx.Done) that is ready again and again is eventually chosen (strong fairness);
\* contexts need not expire
FairSpec == /\ Spec /\ WF_vars(LoopNext) /\ SF_vars(LoopStop)
            /\ \A t \in Threads : WF_vars(ThreadStep(t)) /\ SF_vars(LoopRecvWaiter(t))

(* ------------------------------------------------------------------ properties *)
PCs == {"idle", "u_sel", "u_put", "u_ret", "w_send", "w_wait", "w_woken",
        "c_send", "c_wait", "c_woken", "c_oncewait", "c_stopwait"}
TypeOK == /\ chan \in 0..MaxUpd /\ toPub \in 0..MaxUpd /\ lastPub \in Values \cup {0}
          /\ quick \in BOOLEAN /\ longer \in BOOLEAN /\ ipEn \in BOOLEAN /\ cancelled \in BOOLEAN
          /\ waiter \in Threads \cup {0}
          /\ lpc \in {"select", "grab", "publish", "stopped"}
          /\ tpc \in [Threads -> PCs] /\ nupd \in 0..MaxUpd /\ Len(val) = nupd
          /\ failBudget \in 0..MaxFail /\ failLeft \in 0..MaxFail

\* u is published, or superseded by a published (or skipped-as-equal) update that is not older
Covered(u) == \E p \in done : <<p, u>> \notin before

\* never publishes a value older than one it already published (real-time order of Update calls)
NoRegression == \A j, k \in 1..Len(published) : j < k => <<published[k], published[j]>> \notin before
\* pubfunc is only called for a value different from the last published one
NoDuplicatePublish == \A k \in 2..Len(published) : val[published[k]] # val[published[k-1]]
\* WaitPub returns nil only after every value handed over before the call is covered
WaitPubCovers == \A t \in Threads : tpc[t] = "w_woken" => \A u \in wbefore[t] : Covered(u)
\* Close (the caller that ran the once-body) returning nil has published pending work
ClosePublishesPending ==
  \A t \in Threads : (tpc[t] = "c_stopwait" /\ cerr[t] = "ok") => \A u \in wbefore[t] : Covered(u)
\* structural invariants of the loop
TimerImpliesPending == (lpc = "select" /\ (quick \/ longer)) => toPub # 0
NotStuck == ~Stuck
WaiterOnlyWhileRetrying == (lpc = "select" /\ waiter # 0) => (~ipEn /\ toPub # 0)

\* liveness (FairSpec): every returned update is eventually covered unless the republisher is closed;
\* every WaitPub returns unless the republisher is closed
EventuallyLatest == \A u \in 1..MaxUpd : (u \in retd) ~> (Covered(u) \/ cancelled)
WaitPubReturns == \A t \in Threads : (tpc[t] \in {"w_send", "w_wait"}) ~> (tpc[t] = "idle" \/ cancelled)
CloseReturns == \A t \in Threads :
  (tpc[t] \in {"c_send", "c_wait", "c_woken", "c_oncewait", "c_stopwait"}) ~> (tpc[t] = "idle")
=============================================================================
