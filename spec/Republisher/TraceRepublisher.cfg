SPECIFICATION TSpec
CONSTANTS Threads = {1,2,3,4,5}
          Updaters = {}
          Waiters = {}
          Closers = {}
          Values <- TValues
          MaxUpd = 80
          MaxFail = 1000
          InitVals = {0}
          Devs = @DEVS@
INVARIANTS TTypeOK DevReport
CONSTRAINT TraceConstraint
POSTCONDITION TracePost
CHECK_DEADLOCK FALSE
