-------------------------- MODULE TraceRepublisher --------------------------
(* Phase T for C21: a history recorded from the real mfs.Republisher (call/return of Update, WaitPub,
   Close; every PubFunc invocation with its outcome; gate commands) must be a behaviour of Republisher.
   Everything the harness cannot see -- timer firings, the steps inside Update, the loop's selects,
   the expiry of Close's internal context -- is a silent action (l unchanged); TLC searches for an
   interleaving of silent actions that explains the logged events.  The safety properties are part of
   acceptance (constraint PropertyHolds): a history is accepted only if SOME explanation satisfies
   them throughout, so an accepted history never raises an alarm because of a hypothetical schedule,
   and a history whose every explanation breaks a property is rejected.
   Several runs per trace, separated by Reset events. *)
EXTENDS Republisher, Integers

Trace == ndJsonDeserialize("trace.ndjson")
TValues == 1..40      \* the harness uses values 1..39 (cfg: Values <- TValues)
VARIABLE l
tlvars == <<vars, l>>
ASSUME TLCSet(1, 0)

Ev == Trace[l]
IsEvent(e) == l <= Len(Trace) /\ Trace[l].ev = e /\ l' = l + 1

TInit == l = 1 /\ Init

TReset ==
  /\ IsEvent("Reset")
  /\ chan' = 0 /\ toPub' = 0 /\ lastPub' = Ev.init
  /\ quick' = FALSE /\ longer' = FALSE /\ waiter' = 0 /\ ipEn' = TRUE /\ lpc' = "select"
  /\ cancelled' = FALSE /\ once' = "no" /\ failBudget' = 0 /\ failLeft' = MaxFail
  /\ tpc' = [t \in Threads |-> "idle"] /\ tid' = [t \in Threads |-> 0]
  /\ cerr' = [t \in Threads |-> ""]
  /\ nupd' = 0 /\ val' = <<>> /\ retd' = {} /\ before' = {} /\ done' = {} /\ published' = <<>>
  /\ wbefore' = [t \in Threads |-> {}] /\ dev' = dev

TFailNext  == IsEvent("FailNext") /\ FailNext(Ev.k)
TUpdCall   == IsEvent("UpdCall") /\ Ev.t \in Threads /\ UpdCall(Ev.t, Ev.v)
TUpdRet    == IsEvent("UpdRet") /\ Ev.t \in Threads /\ UpdRet(Ev.t)
TWaitCall  == IsEvent("WaitCall") /\ Ev.t \in Threads /\ WaitCall(Ev.t)
TWaitRet   == /\ IsEvent("WaitRet") /\ Ev.t \in Threads
              /\ IF Ev.res = "ok" THEN WaitRetOk(Ev.t) ELSE WaitTimeout(Ev.t)
TCloseCall == IsEvent("CloseCall") /\ Ev.t \in Threads /\ CloseCall(Ev.t)
TCloseRet  == /\ IsEvent("CloseRet") /\ Ev.t \in Threads
              /\ Ev.res = (IF cerr[Ev.t] = "timeout" THEN "timeout" ELSE "ok")
              /\ CloseRet(Ev.t)
TPub       == /\ IsEvent("Pub") /\ lpc = "publish" /\ Ev.v = ValOf(toPub)
              /\ IF Ev.ok THEN LoopPubOk ELSE LoopPubFail

Silent == /\ l' = l /\ l <= Len(Trace)
          /\ \/ LoopRecvUpdNew \/ LoopRecvUpdDup \/ DevLoopRecvUpdDup
             \/ (\E t \in Threads : LoopRecvWaiter(t))
             \/ LoopGrab \/ LoopQuick \/ LoopLong \/ LoopStop
             \/ \E t \in Threads : \/ UpdAtomic(t) \/ UpdDrain(t) \/ UpdPut(t) \/ UpdDrop(t)
                                   \/ CloseWoken(t) \/ CloseTimeout(t) \/ CloseOnceWait(t)

TNext == \/ TReset \/ TFailNext \/ TUpdCall \/ TUpdRet \/ TWaitCall \/ TWaitRet
         \/ TCloseCall \/ TCloseRet \/ TPub \/ Silent
TSpec == TInit /\ [][TNext]_tlvars

\* the property, relaxed exactly where an enabled deviation is known to break it
PropertyHolds == /\ NoRegression /\ NoDuplicatePublish
                 /\ (WaitPubCovers \/ Dev2Name \in dev)
                 /\ (ClosePublishesPending \/ Dev2Name \in dev)
                 /\ (NotStuck \/ DevName \in dev)
TTypeOK == TypeOK

TraceConstraint == /\ TLCSet(1, IF l - 1 > TLCGet(1) THEN l - 1 ELSE TLCGet(1))
                   /\ PropertyHolds
TracePost == PrintT(<<"TRACE_HWM", TLCGet(1)>>)
DevReport == l <= Len(Trace) \/ \A d \in dev : PrintT(<<"DEV_USED", d>>)
=============================================================================
