----------------------------- MODULE FilterRules -----------------------------
(* C42 -- IPIP-484 filtering of delegated-routing records, stated declaratively (constants-only
   module: no variables, so that generator and trace specs can share it).

   A record is  [s |-> schema, ps |-> set of transfer-protocol names, as |-> sequence of
   addresses], an address being the SET of multiaddr protocol names it is made of
   (/ip4/1.2.3.4/tcp/1/ws = {"ip4","tcp","ws"}).  Names are canonical lower case: IPIP-484
   says filtering is case-insensitive, the spelling used on the wire is a harness matter.
   A bitswap-schema record is a provider whose protocol set is the singleton {Protocol}.

   filter-addrs  is a set of terms [neg |-> BOOLEAN, name |-> transport name | "unknown"];
   filter-protocols is a set of names (opaque strings; "unknown" is special).

   The rules below are transcribed from the IPIP-484 text as quoted in
   routing/http/filters/filters.go (doc comment of applyAddrFilter) and the routing/v1 spec:
     * protocols: logical OR over the listed names; `unknown` keeps providers whose protocol
       list is empty; no parameter = no filtering; a kept provider keeps its Protocols unchanged;
     * addresses: an address is kept iff it contains NONE of the negated names and, when there
       are positive names, at least one of them; `unknown` keeps providers without addresses;
       a provider none of whose addresses is kept is omitted; no parameter = addresses unchanged;
     * records of another schema are passed through untouched;
     * the response holds the kept records in the delegate's order, capped at the record limit
       AFTER filtering; a limit <= 0 means no cap (iter.Limit, WithRecordsLimit docs).        *)
EXTENDS Integers, Sequences, FiniteSets

Pos(fa) == {t.name : t \in {x \in fa : ~x.neg}}
Neg(fa) == {t.name : t \in {x \in fa : x.neg}}

AddrPass(a, fa) == /\ a \cap Neg(fa) = {}
                   /\ (Pos(fa) = {} \/ a \cap Pos(fa) # {})

Ident(n) == [i \in 1..n |-> i]
\* positions (in order) of the addresses of `as` that survive filter-addrs
KeptPos(as, fa) == IF fa = {} THEN Ident(Len(as))
                   ELSE SelectSeq(Ident(Len(as)), LAMBDA i : AddrPass(as[i], fa))

ProtoKeep(r, fp) == \/ fp = {}
                    \/ r.ps \cap fp # {}
                    \/ (r.ps = {} /\ "unknown" \in fp)
AddrKeep(r, fa)  == \/ fa = {}
                    \/ (Len(r.as) = 0 /\ "unknown" \in Pos(fa))
                    \/ Len(KeptPos(r.as, fa)) > 0
IsProvider(r) == r.s \in {"peer", "bitswap"}
Keep(r, fa, fp) == IsProvider(r) => (ProtoKeep(r, fp) /\ AddrKeep(r, fa))

\* what the client must receive for input record number i: <<i, positions of its addresses kept>>
OutOf(i, r, fa) == <<i, IF IsProvider(r) THEN KeptPos(r.as, fa) ELSE Ident(Len(r.as))>>

\* the kept records, in order
Filtered(recs, fa, fp) ==
  LET F[k \in 0..Len(recs)] ==
        IF k = 0 THEN <<>>
        ELSE IF Keep(recs[k], fa, fp) THEN Append(F[k-1], OutOf(k, recs[k], fa)) ELSE F[k-1]
  IN F[Len(recs)]

Take(n, s) == IF n <= 0 \/ n >= Len(s) THEN s ELSE SubSeq(s, 1, n)

(* ---- server configuration and content negotiation ------------------------------------------ *)
NoOpt == -2                       \* the limit option was not given: documented defaults apply
DefaultLimit(fmt) == IF fmt = "json" THEN 20 ELSE 0      \* DefaultRecordsLimit / DefaultStreamingRecordsLimit
EffLimit(limJ, limS, fmt) == LET l == IF fmt = "json" THEN limJ ELSE limS
                             IN IF l = NoOpt THEN DefaultLimit(fmt) ELSE l
\* accept: what the client's Accept header lists; disabled: WithStreamingResultsDisabled
Fmt(accept, disabled) == IF accept \in {"both", "ndjson"} /\ ~disabled THEN "ndjson"
                         ELSE IF accept \in {"both", "json", "any"} THEN "json"
                         ELSE "err"             \* 400 "no supported content types"

Expected(recs, fa, fp, lim) == Take(lim, Filtered(recs, fa, fp))
\* how many records the server may pull from the delegate's (lazy) iterator: it stops right after
\* the record that fills the cap
Pulled(recs, fa, fp, lim) == LET f == Filtered(recs, fa, fp)
                             IN IF lim > 0 /\ Len(f) >= lim THEN f[lim][1] ELSE Len(recs)

(* ---- applying the filter again (client-side "local filtering") ------------------------------- *)
\* the record a client holds after the server answered <<i, pos>> for recs[i]
Received(r, pos) == [s |-> IF r.s = "bitswap" THEN "peer" ELSE r.s, ps |-> r.ps,
                     as |-> [k \in 1..Len(pos) |-> r.as[pos[k]]]]
Refilter(recs, out, fa, fp) ==
  LET G[k \in 0..Len(out)] ==
        IF k = 0 THEN <<>>
        ELSE LET i == out[k][1]
                 r == Received(recs[i], out[k][2])
             IN IF Keep(r, fa, fp)
                THEN Append(G[k-1], <<i, LET kp == OutOf(i, r, fa)[2] IN [j \in 1..Len(kp) |-> out[k][2][kp[j]]]>>)
                ELSE G[k-1]
  IN G[Len(out)]

(* ---- a delegate that serves the same record objects to every request ------------------------------
   The records belong to the delegate: a request must leave them as they were, so a later request
   without filters gets every record with every address (IPIP-484: no parameter = unchanged).
   As-built server (open finding Dev_C42_DelegateRecordTrimmed): applyFilters stores the filtered
   address list INTO the peer record it was handed, so every peer-schema record that an earlier
   filtered request read and kept has lost the addresses that request filtered out.              *)
Unfiltered(recs) == Filtered(recs, {}, {})
TrimmedByEarlier(recs, fa, fp, lim) ==
  LET n == Pulled(recs, fa, fp, lim)
  IN [i \in 1..Len(recs) |->
        <<i, IF i <= n /\ recs[i].s = "peer" /\ fa # {} /\ Keep(recs[i], fa, fp) /\ Len(recs[i].as) > 0
             THEN KeptPos(recs[i].as, fa) ELSE Ident(Len(recs[i].as))>>]

(* as-built client (open finding Dev_C42_LocalFilterCase): filter terms spelled with upper-case
   letters are lower-cased by the server but compared verbatim by the client's local filter:
   no multiaddr protocol has such a name and `UNKNOWN` is not recognised, while transfer
   protocol names are still matched (EqualFold).                                              *)
Verbatim(fa) == {[neg |-> t.neg, name |-> "~nomatch"] : t \in fa}
VerbatimP(fp) == {IF p = "unknown" THEN "~nomatch" ELSE p : p \in fp}
DevLocalCase(recs, out, fa, fp) == Refilter(recs, out, Verbatim(fa), VerbatimP(fp))
=============================================================================
