SPECIFICATION Spec
CONSTANTS Names = {"a", "b"}
          D = 2
INVARIANTS OnlyValidStored GetIsValid RoundTrip Emit
CHECK_DEADLOCK FALSE
