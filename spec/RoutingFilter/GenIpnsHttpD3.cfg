SPECIFICATION Spec
CONSTANTS Names = {"a", "b"}
          D = 3
INVARIANTS OnlyValidStored GetIsValid RoundTrip Emit
CHECK_DEADLOCK FALSE
