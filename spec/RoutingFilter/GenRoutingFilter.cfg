SPECIFICATION GSpec
CONSTANTS MaxAddrs = 2
          NKinds = 3
          MaxList = 2
          DoA = TRUE
          DoB = TRUE
INVARIANTS Emit RulesSane
CHECK_DEADLOCK FALSE
