SPECIFICATION GSpec
CONSTANTS MaxAddrs = 2
          NKinds = 3
          MaxFA = 2
          BothSrc = FALSE
          MaxList = 2
          NRB = 4
          DoA = TRUE
          DoB = TRUE
INVARIANTS Emit
CHECK_DEADLOCK FALSE
