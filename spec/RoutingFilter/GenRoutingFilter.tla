-------------------------- MODULE GenRoutingFilter --------------------------
(* Phase G: class-product enumeration of requests with the response FilterRules dictates.

   kind "cat"  (one line)  the catalogue: every provider record over the vocabulary
               (schema x protocol set x address list of <= MaxAddrs addresses over AddrKinds)
               plus a record of an unknown schema, in a fixed order (`all`), and its peer-schema
               prefix (`peer`, usable on /routing/v1/peers as well);
   kind "A"    EVERY filter-addrs expression (subsets of FATerms) x EVERY filter-protocols
               expression (subsets of FPTerms) applied to the whole catalogue `src` in {"all",
               "peer"}: per-record semantics of every rule clause, address-list surgery; the
               record caps rotate over LimPairsA (incl. the documented defaults);
   kind "B"    every list of <= MaxList records over the alphabet RB x filters FAB x FPB x
               every pair of caps in LimPairs: order, cap-after-filter, pull-ahead.
   Each case carries the content-negotiation table (accept, disabled) -> format, the expected
   response per format (outJ/outS: sequences of <<input index, kept address positions>>), the
   number of records the server may pull from the delegate (pulledJ/pulledS) and, where the
   as-built client differs (open finding), the as-built response (devJ/devS).  Kind B cases also
   carry what a SECOND request without filters must receive from a delegate that serves the same
   record objects again (outNone; as-built: devNone).
   The case is picked in stages (pc) so that TLC enumerates it lazily and in parallel.        *)
EXTENDS FilterRules, TLC, Json

CONSTANTS MaxAddrs, NKinds,   \* catalogue: address lists of <= MaxAddrs addresses over the first NKinds kinds
          MaxFA,              \* kind A: filter-addrs expressions of at most MaxFA terms
          BothSrc,            \* kind A: TRUE = both catalogues for every filter; FALSE = alternate
          MaxList, NRB,       \* kind B: lists of <= MaxList records over the first NRB records of RB
          DoA, DoB

P1 == "transport-bitswap"
P2 == "transport-ipfs-gateway-http"
T(n) == [neg |-> FALSE, name |-> n]
N(n) == [neg |-> TRUE, name |-> n]

(* ---- vocabulary ------------------------------------------------------------------------------- *)
AKAll == << {"tcp"}, {}, {"tcp", "ws"}, {"p2p-circuit"}, {"tcp", "p2p-circuit"}, {"ws"},
            {"ws", "p2p-circuit"}, {"tcp", "ws", "p2p-circuit"} >>
AK == SubSeq(AKAll, 1, NKinds)
nk == Len(AK)
\* (`<<>> \o f` turns TLC's lazy function value into an evaluated tuple: computed once, at start-up)
AL1 == <<>> \o [k \in 1..nk |-> <<AK[k]>>]
AL2 == <<>> \o [k \in 1..(nk * nk) |-> <<AK[((k - 1) \div nk) + 1], AK[((k - 1) % nk) + 1]>>]
ALists == <<<<>>>> \o AL1 \o (IF MaxAddrs >= 2 THEN AL2 ELSE <<>>)
nl == Len(ALists)
PSets == << {}, {P1}, {P2}, {P1, P2} >>
PeerRecs == <<>> \o [k \in 1..(4 * nl) |-> [s |-> "peer", ps |-> PSets[((k - 1) \div nl) + 1], as |-> ALists[((k - 1) % nl) + 1]]]
BitRecs  == <<>> \o [k \in 1..nl |-> [s |-> "bitswap", ps |-> {P1}, as |-> ALists[k]]]
AllRecs  == PeerRecs \o BitRecs \o << [s |-> "unknown", ps |-> {}, as |-> <<>>] >>
Src(src) == IF src = "peer" THEN PeerRecs ELSE AllRecs

FATerms == {T("tcp"), T("ws"), T("p2p-circuit"), N("tcp"), N("ws"), N("p2p-circuit"), T("unknown"), T("bogus")}
FPTerms == {P1, P2, "unknown", "other"}
LimPairsA == << <<0, 0>>, <<NoOpt, NoOpt>>, <<7, 3>>, <<25, NoOpt>> >>

RB == << [s |-> "peer",    ps |-> {P1},     as |-> <<{"tcp"}>>],
         [s |-> "peer",    ps |-> {},       as |-> <<>>],
         [s |-> "unknown", ps |-> {},       as |-> <<>>],
         [s |-> "peer",    ps |-> {P2},     as |-> <<{"tcp", "ws"}, {"p2p-circuit"}>>],
         [s |-> "bitswap", ps |-> {P1},     as |-> <<{"p2p-circuit"}>>],
         [s |-> "peer",    ps |-> {P1, P2}, as |-> <<{"ws"}, {"tcp"}, {"tcp", "p2p-circuit"}>>] >>
FAB == { {}, {T("tcp")}, {N("p2p-circuit")}, {T("unknown")}, {T("unknown"), T("tcp")}, {T("ws"), N("tcp")} }
FPB == { {}, {P1}, {"unknown"}, {"unknown", P2} }
ListsB == UNION {[1..n -> 1..NRB] : n \in 0..MaxList}
RecsOf(ix) == <<>> \o [k \in 1..Len(ix) |-> RB[ix[k]]]
\* (limJ, limS): every value -2 (option absent), -1, 0..4 appears in both roles, always different
LimPairs == {<<j, IF j = 4 THEN NoOpt ELSE j + 1>> : j \in (NoOpt)..4}

Negot == { [accept |-> a, disabled |-> d, fmt |-> Fmt(a, d)] : a \in {"both", "ndjson", "json", "any"}, d \in BOOLEAN }

(* ---- staged choice of the case ------------------------------------------------------------------ *)
VARIABLES pc, kind, src, ix, fa, fp, lims
gvars == <<pc, kind, src, ix, fa, fp, lims>>

GInit == pc = 0 /\ kind = "cat" /\ src = "all" /\ ix = <<>> /\ fa = {} /\ fp = {} /\ lims = <<0, 0>>

PickA == /\ pc = 0 /\ DoA
         /\ kind' = "A" /\ fa' \in {x \in SUBSET FATerms : Cardinality(x) <= MaxFA}
         /\ src' \in IF BothSrc THEN {"all", "peer"} ELSE {IF Cardinality(fa') % 2 = 0 THEN "all" ELSE "peer"}
         /\ pc' = 1 /\ UNCHANGED <<ix, fp, lims>>
PickA2 == /\ pc = 1 /\ kind = "A"
          /\ fp' \in SUBSET FPTerms
          /\ lims' = LimPairsA[((Cardinality(fa) + Cardinality(fp')) % Len(LimPairsA)) + 1]
          /\ pc' = 3 /\ UNCHANGED <<kind, src, ix, fa>>
PickB == /\ pc = 0 /\ DoB
         /\ kind' = "B" /\ fa' \in FAB /\ fp' \in FPB /\ lims' \in LimPairs
         /\ pc' = 2 /\ UNCHANGED <<src, ix>>
PickB2 == /\ pc = 2 /\ kind = "B"
          /\ ix' \in ListsB
          /\ pc' = 3 /\ UNCHANGED <<kind, src, fa, fp, lims>>
GNext == PickA \/ PickA2 \/ PickB \/ PickB2
GSpec == GInit /\ [][GNext]_gvars

(* ---- what is printed ------------------------------------------------------------------------------ *)
Recs == IF kind = "A" THEN Src(src) ELSE RecsOf(ix)
PullOf(recs, f, l) == IF l > 0 /\ Len(f) >= l THEN f[l][1] ELSE Len(recs)
CaseRec(recs, f, lj, ls, oj, os) ==
     [kind |-> kind, src |-> IF kind = "A" THEN src ELSE "", recs |-> IF kind = "A" THEN <<>> ELSE recs,
      fa |-> fa, fp |-> fp, limJ |-> lims[1], limS |-> lims[2], negot |-> Negot,
      outJ |-> oj, outS |-> os, pulledJ |-> PullOf(recs, f, lj), pulledS |-> PullOf(recs, f, ls),
      devJ |-> DevLocalCase(recs, oj, fa, fp), devS |-> DevLocalCase(recs, os, fa, fp),
      \* kind B only: the same delegate objects served again, to a request without filters and cap
      outNone |-> IF kind = "B" THEN Unfiltered(recs) ELSE <<>>,
      devNone |-> IF kind = "B" THEN <<>> \o TrimmedByEarlier(recs, fa, fp, lj) ELSE <<>>]
\* the generator is also a check of the rules themselves on every enumerated case
Sane(recs, f) ==
     /\ Refilter(recs, f, fa, fp) = f                               \* filtering is idempotent
     /\ (fa = {} /\ fp = {} => Len(f) = Len(recs))                  \* no parameter = everything, unchanged
     /\ \A k \in 1..Len(f) : IsProvider(recs[f[k][1]]) /\ fa # {} /\ Len(recs[f[k][1]].as) > 0 => Len(f[k][2]) > 0
\* (bound variables of singleton sets force TLC to evaluate each value once)
Emit == /\ (pc # 0 \/ PrintT(<<"BEHAVIOUR", ToJson([kind |-> "cat", all |-> AllRecs, peer |-> PeerRecs])>>))
        /\ (pc # 3 \/ \A recs \in {Recs} : \A f \in {Filtered(recs, fa, fp)} :
                        \A lj \in {EffLimit(lims[1], lims[2], "json")} : \A ls \in {EffLimit(lims[1], lims[2], "ndjson")} :
                        \A oj \in {Take(lj, f)} : \A os \in {Take(ls, f)} :
                           /\ Sane(recs, f)
                           /\ PrintT(<<"BEHAVIOUR", ToJson(CaseRec(recs, f, lj, ls, oj, os))>>))
=============================================================================
