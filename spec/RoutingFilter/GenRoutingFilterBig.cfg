SPECIFICATION GSpec
CONSTANTS MaxAddrs = 2
          NKinds = 8
          MaxList = 3
          DoA = TRUE
          DoB = TRUE
INVARIANTS Emit RulesSane
CHECK_DEADLOCK FALSE
