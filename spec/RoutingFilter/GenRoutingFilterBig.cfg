SPECIFICATION GSpec
CONSTANTS MaxAddrs = 2
          NKinds = 5
          MaxFA = 8
          BothSrc = TRUE
          MaxList = 3
          NRB = 5
          DoA = TRUE
          DoB = TRUE
INVARIANTS Emit
CHECK_DEADLOCK FALSE
