------------------------------- MODULE IpnsHttp -------------------------------
(* C42, second half -- signed IPNS records through /routing/v1/ipns/{name}.

   A record is  [for |-> the name whose key signed it, k |-> kind]:
     "ok1", "ok2"  two different valid records (value, sequence number)
     "badsig"      signatureV2 damaged             "tampered"  pb value changed after signing
     "expired"     validly signed, EOL in the past "garbage"   not a protobuf record at all
   `store` is the delegate behind the server (name -> record it holds).  PUT goes through
   client.PutIPNS -> server.PutIPNS (UnmarshalRecord + ValidateWithName) -> delegate;
   GET through delegate -> server.GetIPNS -> client.GetIPNS (UnmarshalRecord + ValidateWithName).
   Plant changes the delegate's state behind the API (a faulty or malicious delegate).       *)
EXTENDS Naturals, Sequences, FiniteSets, TLC, Json

CONSTANTS Names, D

None == [for |-> "", k |-> "none"]
Other(n) == CHOOSE o \in Names : o # n
Own(n) == {[for |-> n, k |-> kd] : kd \in {"ok1", "ok2", "badsig", "tampered", "expired"}}
Garbage == [for |-> "", k |-> "garbage"]
Puttable(n) == Own(n) \cup {[for |-> Other(n), k |-> "ok1"], Garbage}
Plantable(n) == Puttable(n) \ {Garbage}            \* the delegate hands out *ipns.Record values
Valid(r, n) == r.for = n /\ r.k \in {"ok1", "ok2"}

VARIABLES store, planted, hist
vars == <<store, planted, hist>>

Init == store = [n \in Names |-> None] /\ planted = {} /\ hist = <<>>
Log(op, n, r, res, got) == hist' = Append(hist, [op |-> op, n |-> n, r |-> r, res |-> res, got |-> got])

Put(n, r) == /\ store' = IF Valid(r, n) THEN [store EXCEPT ![n] = r] ELSE store
             /\ planted' = IF Valid(r, n) THEN planted \ {n} ELSE planted
             /\ Log("Put", n, r, IF Valid(r, n) THEN "ok" ELSE "rejected", None)
Get(n) == /\ UNCHANGED <<store, planted>>
          /\ IF store[n] = None THEN Log("Get", n, None, "nf", None)
             ELSE IF Valid(store[n], n) THEN Log("Get", n, None, "ok", store[n])
             ELSE Log("Get", n, None, "invalid", None)
Plant(n, r) == /\ store' = [store EXCEPT ![n] = r] /\ planted' = planted \cup {n}
               /\ Log("Plant", n, r, "ok", None)

Next == /\ Len(hist) < D
        /\ \E n \in Names : (\E r \in Puttable(n) : Put(n, r)) \/ Get(n) \/ (\E r \in Plantable(n) : Plant(n, r))
Spec == Init /\ [][Next]_vars

\* what is stored through the API is always a valid record for that name
OnlyValidStored == \A n \in Names \ planted : store[n] = None \/ Valid(store[n], n)
\* a successful GET never hands out a record that is not valid for the name asked
GetIsValid == \A k \in 1..Len(hist) : hist[k].op = "Get" /\ hist[k].res = "ok" => Valid(hist[k].got, hist[k].n)
\* round trip: GET right after an accepted PUT returns that very record
RoundTrip == \A k \in 2..Len(hist) :
               (hist[k].op = "Get" /\ hist[k-1].op = "Put" /\ hist[k-1].res = "ok" /\ hist[k-1].n = hist[k].n)
                 => hist[k].res = "ok" /\ hist[k].got = hist[k-1].r
Emit == Len(hist) # D \/ PrintT(<<"BEHAVIOUR", ToJson([steps |-> hist])>>)
=============================================================================
