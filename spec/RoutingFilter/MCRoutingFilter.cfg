SPECIFICATION Spec
CONSTANTS MaxList = 2
          Lims <- LimsMC
INVARIANTS PrefixOfFiltered NeverOverCap ExactResponse InOrder AddrsSubsequence LocalIdempotent
PROPERTIES Terminates
CHECK_DEADLOCK FALSE
