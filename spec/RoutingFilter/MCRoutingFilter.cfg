SPECIFICATION Spec
CONSTANTS MaxList = 2
          Lims <- LimsQ
INVARIANTS PrefixOfFiltered NeverOverCap ExactResponse InOrder AddrsSubsequence LocalIdempotent
PROPERTIES Terminates
CHECK_DEADLOCK FALSE
