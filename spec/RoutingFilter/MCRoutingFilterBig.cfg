SPECIFICATION Spec
CONSTANTS MaxList = 3
          Lims <- LimsMC
INVARIANTS PrefixOfFiltered NeverOverCap ExactResponse InOrder AddrsSubsequence LocalIdempotent
PROPERTIES Terminates
CHECK_DEADLOCK FALSE
