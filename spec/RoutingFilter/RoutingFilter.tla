---------------------------- MODULE RoutingFilter ----------------------------
(* C42 -- the server's response pipeline for /routing/v1/providers and /routing/v1/peers at the
   grain of the iterator calls in routing/http/server/server.go:

       delegate iterator -> filters.ApplyFiltersToIter (Map + Filter) -> iter.Limit -> writer

   One request per behaviour (the case is chosen in Init).  `Pull` is one Next() that reaches the
   delegate's iterator, `Stop` is the Next() that iter.Limit answers itself once the cap is
   reached or the delegate's iterator is exhausted, followed by Close.
   The invariants state that this machine produces exactly the declarative IPIP-484 result of
   FilterRules (records, order, address lists, cap after filtering), that it never reads past the
   record that fills the cap, and that filtering the response again (client-side local
   filtering) changes nothing.                                                              *)
EXTENDS FilterRules, TLC

CONSTANTS MaxList, Lims

P1 == "transport-bitswap"
P2 == "transport-ipfs-gateway-http"
\* a small alphabet of records that exercises every clause of the rules
RB == << [s |-> "peer",    ps |-> {P1},     as |-> <<{"tcp"}>>],
         [s |-> "peer",    ps |-> {},       as |-> <<>>],
         [s |-> "peer",    ps |-> {P2},     as |-> <<{"tcp", "ws"}, {"p2p-circuit"}>>],
         [s |-> "bitswap", ps |-> {P1},     as |-> <<{"p2p-circuit"}>>],
         [s |-> "unknown", ps |-> {},       as |-> <<>>],
         [s |-> "peer",    ps |-> {P1, P2}, as |-> <<{"ws"}, {"tcp"}, {"tcp", "p2p-circuit"}>>] >>
T(n) == [neg |-> FALSE, name |-> n]
N(n) == [neg |-> TRUE, name |-> n]
FAB == { {}, {T("tcp")}, {N("p2p-circuit")}, {T("unknown")}, {T("unknown"), T("tcp")}, {T("ws"), N("tcp")},
         {T("bogus")}, {N("ws"), N("p2p-circuit")} }
FPB == { {}, {P1}, {"unknown"}, {"unknown", P2}, {"other"} }
ListsB == UNION {[1..n -> 1..Len(RB)] : n \in 0..MaxList}
RecsOf(ix) == [k \in 1..Len(ix) |-> RB[ix[k]]]
LimsMC == {-1, 0, 1, 2, 3, 20}      \* effective caps (negative numbers cannot be written in a cfg)
LimsQ  == {-1, 0, 1, 2}

VARIABLES recs, fa, fp, lim,     \* the request (constant during a behaviour); lim = effective cap
          i,                     \* records pulled from the delegate's iterator so far
          out,                   \* records handed to the writer so far
          st, closed
vars == <<recs, fa, fp, lim, i, out, st, closed>>

Init == /\ \E ix \in ListsB : recs = RecsOf(ix)
        /\ fa \in FAB /\ fp \in FPB /\ lim \in Lims
        /\ i = 0 /\ out = <<>> /\ st = "run" /\ closed = 0

Capped == lim > 0 /\ Len(out) >= lim
\* LimitIter.Next -> FilterIter.Next -> MapIter.Next -> delegate.Next: one record is read,
\* mapped by applyFilters and either dropped (FilterIter loops) or yielded to the writer
Pull == /\ st = "run" /\ ~Capped /\ i < Len(recs)
        /\ i' = i + 1
        /\ out' = IF Keep(recs[i+1], fa, fp) THEN Append(out, OutOf(i+1, recs[i+1], fa)) ELSE out
        /\ UNCHANGED <<recs, fa, fp, lim, st, closed>>
\* Next() = false (cap reached: answered by iter.Limit without touching the delegate; or the
\* delegate is exhausted), then the deferred / eager Close
Stop == /\ st = "run" /\ (Capped \/ i = Len(recs))
        /\ st' = "done" /\ closed' = closed + 1
        /\ UNCHANGED <<recs, fa, fp, lim, i, out>>
Next == Pull \/ Stop
Spec == Init /\ [][Next]_vars /\ WF_vars(Next)

(* ---- the property ------------------------------------------------------------------------------ *)
IsPrefix(s, t) == Len(s) <= Len(t) /\ s = SubSeq(t, 1, Len(s))
PrefixOfFiltered == IsPrefix(out, Filtered(recs, fa, fp))
NeverOverCap == lim > 0 => Len(out) <= lim
ExactResponse == st = "done" => /\ out = Expected(recs, fa, fp, lim)
                                /\ i = Pulled(recs, fa, fp, lim)
                                /\ closed = 1
InOrder == \A a, b \in 1..Len(out) : a < b => out[a][1] < out[b][1]
AddrsSubsequence == \A k \in 1..Len(out) : LET p == out[k][2] IN
                      /\ \A a, b \in 1..Len(p) : a < b => p[a] < p[b]
                      /\ \A a \in 1..Len(p) : p[a] \in 1..Len(recs[out[k][1]].as)
\* client-side local filtering is the identity on a filtered response
LocalIdempotent == st = "done" => Refilter(recs, out, fa, fp) = out
Terminates == <>(st = "done")
=============================================================================
