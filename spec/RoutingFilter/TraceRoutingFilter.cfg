SPECIFICATION TSpec
CONSTANTS Devs = @DEVS@
INVARIANTS ServedAll DevReport
CONSTRAINT TraceConstraint
POSTCONDITION TracePost
CHECK_DEADLOCK FALSE
