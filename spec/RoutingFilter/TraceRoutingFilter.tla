------------------------- MODULE TraceRoutingFilter -------------------------
(* Phase T: requests recorded from the real server.Handler + client (random record lists <= 30,
   random realistic multiaddrs, random filter expressions over a wide vocabulary, caps 0..40,
   every content-negotiation / endpoint / local-filtering configuration).  One event per request:
   the complete input, the configuration and what the client received, projected by the harness
   to <<input index, positions of the addresses received within the input record's list>>.
   Every event must be exactly what FilterRules dictates.                                   *)
EXTENDS FilterRules, TLC, Json
CONSTANT Devs

Trace == ndJsonDeserialize("trace.ndjson")
VARIABLES l, dev, served
tvars == <<l, dev, served>>
ASSUME TLCSet(1, 0)

Ev == Trace[l]
IsEvent(e) == l <= Len(Trace) /\ Trace[l].ev = e /\ l' = l + 1
ToSet(s) == {s[k] : k \in 1..Len(s)}

\* JSON -> model values
RecOf(j)  == [s |-> j.s, ps |-> ToSet(j.ps), as |-> <<>> \o [k \in 1..Len(j.as) |-> ToSet(j.as[k])]]
RecsOf(js) == <<>> \o [k \in 1..Len(js) |-> RecOf(js[k])]
FaOf(js)  == {[neg |-> js[k].neg, name |-> js[k].name] : k \in 1..Len(js)}
OutOf2(js) == <<>> \o [k \in 1..Len(js) |-> <<js[k].i, js[k].pos>>]

TInit == l = 1 /\ dev = {} /\ served = 0

Matches(e, expected, recs, fa, fp, lim) ==
    /\ OutOf2(e.out) = expected
    /\ \A k \in 1..Len(e.out) : e.out[k].same           \* ID, Schema class, Protocols (and bytes of unknown records) unchanged

TQuery ==
  /\ IsEvent("Query")
  /\ \E recs \in {RecsOf(Ev.recs)} : \E fa \in {FaOf(Ev.fa)} : \E fp \in {ToSet(Ev.fp)} :
     \E fmt \in {Fmt(Ev.accept, Ev.disabled)} :
       IF fmt = "err"
       THEN Ev.err = "badrequest" /\ Ev.pulled = 0 /\ dev' = dev
       ELSE \E lim \in {EffLimit(Ev.limJ, Ev.limS, fmt)} : \E exp \in {Expected(recs, fa, fp, lim)} :
            /\ Ev.err = "" /\ Ev.fmt = fmt
            /\ Ev.pulled = Pulled(recs, fa, fp, lim) /\ Ev.closed >= 1
            /\ \/ Matches(Ev, exp, recs, fa, fp, lim) /\ dev' = dev
               \/ /\ "Dev_C42_LocalFilterCase" \in Devs /\ Ev.upper /\ Ev.local
                  /\ ~Matches(Ev, exp, recs, fa, fp, lim)
                  /\ Matches(Ev, DevLocalCase(recs, exp, fa, fp), recs, fa, fp, lim)
                  /\ dev' = dev \cup {"Dev_C42_LocalFilterCase"}
  /\ served' = served + 1

TNext == TQuery
TSpec == TInit /\ [][TNext]_tvars

ServedAll == served = l - 1
DevReport == l <= Len(Trace) \/ \A d \in dev : PrintT(<<"DEV_USED", d>>)
TraceConstraint == TLCSet(1, IF l - 1 > TLCGet(1) THEN l - 1 ELSE TLCGet(1))
TracePost == PrintT(<<"TRACE_HWM", TLCGet(1)>>)
=============================================================================
