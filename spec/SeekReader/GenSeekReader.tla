---------------------------- MODULE GenSeekReader ----------------------------
(* Phase G: behaviours of SeekReader printed as JSON.  Every step carries the call and the
   complete expected outcome (`res`) plus the offset afterwards; the harness replays the calls
   on real DagReaders (every layout / leaf kind / chunk size / API variant) and compares.
   The read calls are <<api, cx>> of SeekReader!LiveCalls: Read, CtxReadFull with a context that stays
   alive ("bg") and CtxReadFull with a context of its own that the harness cancels right after the call
   has returned ("after"); the contract is the same for all three, and what is expected of the calls
   that follow does not depend on the contexts cancelled so far.  (A context cancelled BEFORE the call
   has a nondeterministic outcome -- it is exercised in phase T only, see TraceSeekReader.) *)
EXTENDS SeekReader
CONSTANTS D,  \* bound on behaviour length (BFS)
          E   \* emit when Len(hist) = E
VARIABLE hist
gvars == <<vars, hist>>

GInit == Init /\ hist = <<>>
Step(op, k, o, w) == hist' = Append(hist, [op |-> op, cx |-> res'.cx, k |-> k, o |-> o, w |-> w,
                                            n |-> res'.n, lo |-> res'.lo, eofs |-> res'.eofs,
                                            err |-> res'.err, ret |-> res'.ret, off |-> off'])
GStep == \/ \E c \in LiveCalls, k \in 0..MaxK : ReadCx(c[1], c[2], k) /\ Step(c[1], k, 0, 0)
         \/ \E o \in SeekOffsets, w \in Whences : Seek(o, w) /\ Step("Seek", 0, o, w)
         \/ Seek(0, BadWhence) /\ Step("Seek", 0, 0, BadWhence)
         \/ WriteTo /\ Step("WriteTo", 0, 0, 0)
GNext == Len(hist) < D /\ GStep
GSpec == GInit /\ [][GNext]_gvars

Out == [size |-> size, steps |-> hist]
Emit == Len(hist) # E \/ PrintT(<<"BEHAVIOUR", ToJson(Out)>>)

\* -simulate: print once per E steps from an action, then restart with a fresh file size
Flush == /\ Len(hist) = E
         /\ PrintT(<<"BEHAVIOUR", ToJson(Out)>>)
         /\ hist' = <<>> /\ size' \in 0..MaxSize /\ off' = 0 /\ res' = NoRes /\ dead' = 0
GNextSim == IF Len(hist) = E THEN Flush ELSE GStep
GSpecSim == GInit /\ [][GNextSim]_gvars
=============================================================================
