---------------------------- MODULE GenSeekReader ----------------------------
(* Phase G: behaviours of SeekReader printed as JSON.  Every step carries the call and the
   complete expected outcome (`res`) plus the offset afterwards; the harness replays the calls
   on real DagReaders (every layout / leaf kind / chunk size / API variant) and compares.
   The generator uses a single read API name; the harness maps it to Read / CtxReadFull
   (variants: all Read, all CtxReadFull, alternating) -- the contract is the same. *)
EXTENDS SeekReader
CONSTANTS D,  \* bound on behaviour length (BFS)
          E   \* emit when Len(hist) = E
VARIABLE hist
gvars == <<vars, hist>>

GInit == Init /\ hist = <<>>
Step(op, k, o, w) == hist' = Append(hist, [op |-> op, k |-> k, o |-> o, w |-> w,
                                            n |-> res'.n, lo |-> res'.lo, eofs |-> res'.eofs,
                                            err |-> res'.err, ret |-> res'.ret, off |-> off'])
GStep == \/ \E k \in 0..MaxK : Read("Read", k) /\ Step("Read", k, 0, 0)
         \/ \E o \in SeekOffsets, w \in Whences : Seek(o, w) /\ Step("Seek", 0, o, w)
         \/ Seek(0, BadWhence) /\ Step("Seek", 0, 0, BadWhence)
         \/ WriteTo /\ Step("WriteTo", 0, 0, 0)
GNext == Len(hist) < D /\ GStep
GSpec == GInit /\ [][GNext]_gvars

Out == [size |-> size, steps |-> hist]
Emit == Len(hist) # E \/ PrintT(<<"BEHAVIOUR", ToJson(Out)>>)

\* -simulate: print once per E steps from an action, then restart with a fresh file size
Flush == /\ Len(hist) = E
         /\ PrintT(<<"BEHAVIOUR", ToJson(Out)>>)
         /\ hist' = <<>> /\ size' \in 0..MaxSize /\ off' = 0 /\ res' = NoRes
GNextSim == IF Len(hist) = E THEN Flush ELSE GStep
GSpecSim == GInit /\ [][GNextSim]_gvars
=============================================================================
