SPECIFICATION GSpec
CONSTANTS MaxSize = 6
          MaxK = 6
          Slack = 2
          D = 2
          E = 2
INVARIANTS Emit
