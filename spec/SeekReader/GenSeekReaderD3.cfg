SPECIFICATION GSpec
CONSTANTS MaxSize = 4
          MaxK = 6
          Slack = 2
          D = 3
          E = 3
INVARIANTS Emit
