SPECIFICATION GSpec
CONSTANTS MaxSize = 6
          MaxK = 6
          Slack = 2
          D = 3
          E = 3
INVARIANTS Emit
