SPECIFICATION GSpec
CONSTANTS MaxSize = 2
          MaxK = 2
          Slack = 1
          D = 3
          E = 3
INVARIANTS Emit
