SPECIFICATION GSpecSim
CONSTANTS MaxSize = 6
          MaxK = 6
          Slack = 2
          D = 1000
          E = 30
