SPECIFICATION Spec
CONSTANTS MaxSize = 6
          MaxK = 7
          Slack = 2
INVARIANTS TypeOK DeliveredInsideFile NoSilentShortRead FullReadNoEof EofOnlyAtEnd ClosedFormIsReference ErrLeavesPosition CtxErrOnlyOwnCall
PROPERTIES SizeNeverChanges ReadAdvances DeadContextsIrrelevant
CONSTRAINT Bounded
