SPECIFICATION ISpec
CONSTANTS MaxSize = 6
          MaxK = 7
          Slack = 2
          MaxChunk = 3
INVARIANTS TypeOK Refines PositionInv
CONSTRAINT Bounded
