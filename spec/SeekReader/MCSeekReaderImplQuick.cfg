SPECIFICATION ISpec
CONSTANTS MaxSize = 5
          MaxK = 4
          Slack = 2
          MaxChunk = 2
INVARIANTS TypeOK Refines PositionInv
CONSTRAINT Bounded
