------------------------------ MODULE SeekReader ------------------------------
(* C09 -- the UnixFS file reader (ipld/unixfs/io/dagreader.go) as a seekable byte reader.

   The file content is an opaque byte string of length `size`; the reader is the pair
   (size, off).  Every call is one action and leaves its complete observable outcome in
   `res` (the harness compares each field with what the real dagReader returned):

     n     number of bytes delivered
     lo    file position of the first delivered byte: the delivered bytes are exactly
           content[lo .. lo+n)            ("which bytes")
     eofs  the SET of admissible end-of-file signals (TRUE = io.EOF returned)
     err   a non-EOF error is returned (Seek to a negative target / unknown whence)
     ret   the offset returned by a successful Seek

   Reference semantics (stated independently below and checked equal to the closed forms by
   the invariant ClosedFormIsReference): Go's bytes.Reader over the content, read through
   io.ReadFull -- CtxReadFull's doc comment: "It always attempts a full read of the DAG until
   the `out` buffer is full" -- with io.ErrUnexpectedEOF reported as io.EOF.  Hence for k > 0
   EOF accompanies a read iff fewer than k bytes were left (also when n > 0: an EOF returned
   together with the last bytes is the documented contract, not a defect; a read that ends
   exactly at the end of the file returns no EOF).  For an empty buffer io.Reader permits
   both (0, nil) and -- at the end of the data, like bytes.Reader -- (0, EOF); before the end
   only (0, nil).

   CONTEXTS.  Read uses the reader's own context; CtxReadFull carries a context of the caller's,
   which is part of the call alphabet (cx):
     "own"    Read: the context the reader was created with
     "bg"     CtxReadFull with a context that is never cancelled
     "after"  CtxReadFull with a context of its own that the caller cancels as soon as the call has
              returned (the usual `ctx, cancel := context.WithTimeout(..); defer cancel()`)
     "before" CtxReadFull with a context that is already cancelled when the call is made
   A context governs ONE call.  `dead` counts the per-call contexts that have been cancelled so far;
   no action reads it: whatever contexts earlier calls were given and whatever happened to them
   afterwards, Read / CtxReadFull / Seek / WriteTo behave as the byte reader (action property
   DeadContextsIrrelevant).  Only the call that is itself handed a cancelled context may fail with
   the context's error; it may deliver a prefix of what it was asked for before it notices (the
   documentation promises nothing more), and the reader stays a byte reader at the position behind
   the bytes it delivered (ReadCancelled).  *)
EXTENDS Integers, Sequences, FiniteSets, TLC, Json

CONSTANTS MaxSize,   \* file sizes 0..MaxSize
          MaxK,      \* read buffer lengths 0..MaxK
          Slack      \* seek offsets range over -size-Slack .. size+Slack

VARIABLES size, off, res,
          dead       \* number of per-call contexts cancelled so far (saturates at MaxDead); never read
vars == <<size, off, res, dead>>
MaxDead == 1

Min(a, b) == IF a < b THEN a ELSE b
Max(a, b) == IF a > b THEN a ELSE b

SeekStart == 0  SeekCurrent == 1  SeekEnd == 2
Whences   == {SeekStart, SeekCurrent, SeekEnd}
BadWhence == 3

(* ---- reference: bytes.Reader + io.ReadFull, transcribed from the Go standard library ---- *)
\* bytes.Reader.Read at index i with a buffer of k bytes
BytesRead(i, k) == IF i >= size THEN [n |-> 0, eof |-> TRUE]
                   ELSE [n |-> Min(k, size - i), eof |-> FALSE]
\* io.ReadAtLeast(r, buf, min = len(buf)):  for n < min && err == nil { nn, err = r.Read(buf[n:]); n += nn }
RECURSIVE ReadFullFrom(_, _, _)
ReadFullFrom(i, k, n) ==
    IF n >= k THEN [n |-> n, eof |-> FALSE]
    ELSE LET r == BytesRead(i + n, k - n)
         IN IF r.eof THEN [n |-> n, eof |-> TRUE]          \* EOF or ErrUnexpectedEOF: both "EOF"
            ELSE ReadFullFrom(i, k, n + r.n)
RefRead(i, k) ==
    IF k = 0 THEN [n |-> 0, eofs |-> {FALSE, BytesRead(i, 0).eof}]   \* ReadFull says nil, bytes.Reader says EOF at the end
    ELSE LET r == ReadFullFrom(i, k, 0) IN [n |-> r.n, eofs |-> {r.eof}]

(* ---- closed forms used by the actions ------------------------------------------------- *)
Avail(i)    == Max(size - i, 0)
ReadN(i, k) == Min(k, Avail(i))
ReadEofs(i, k) == IF k = 0 THEN (IF i >= size THEN {FALSE, TRUE} ELSE {FALSE})
                  ELSE {i + k > size}

Target(o, w) == CASE w = SeekStart   -> o
                  [] w = SeekCurrent -> off + o
                  [] w = SeekEnd     -> size + o
                  [] OTHER           -> -1

\* cerr: the call failed with the error of the (cancelled) context it was given
NoRes == [op |-> "Init", cx |-> "own", k |-> 0, n |-> 0, lo |-> 0, eofs |-> {FALSE}, err |-> FALSE, ret |-> 0, cerr |-> FALSE]

Init == size \in 0..MaxSize /\ off = 0 /\ res = NoRes /\ dead = 0

Contexts == {"own", "bg", "after", "before"}
\* the context handed to this call is cancelled by the time the call has returned
Dies(cx) == cx \in {"after", "before"}
Bury(cx) == dead' = IF Dies(cx) /\ dead < MaxDead THEN dead + 1 ELSE dead

\* Read / CtxReadFull with a context that is alive during the call (api is "Read" or "CtxReadFull": same
\* contract, different context plumbing).  What happens to the context afterwards is the caller's business.
ReadCx(api, cx, k) ==
    /\ res' = [op |-> api, cx |-> cx, k |-> k, n |-> ReadN(off, k), lo |-> off, eofs |-> ReadEofs(off, k), err |-> FALSE,
               ret |-> 0, cerr |-> FALSE]
    /\ off' = off + ReadN(off, k)
    /\ Bury(cx)
    /\ UNCHANGED size
Read(api, k) == ReadCx(api, IF api = "Read" THEN "own" ELSE "bg", k)

\* CtxReadFull with an already cancelled context: either it does not need the context (everything was at hand)
\* and completes like any read, or it fails with the context's error after delivering n <= ReadN bytes -- the
\* bytes content[off .. off+n), and the position moves behind exactly those.
ReadCancelled(k, n, cerr) ==
    /\ n \in 0..ReadN(off, k)
    /\ ~cerr => n = ReadN(off, k)
    /\ res' = [op |-> "CtxReadFull", cx |-> "before", k |-> k, n |-> n, lo |-> off,
               eofs |-> IF cerr THEN {FALSE} ELSE ReadEofs(off, k), err |-> FALSE, ret |-> 0, cerr |-> cerr]
    /\ off' = off + n
    /\ Bury("before")
    /\ UNCHANGED size

\* Seek: error iff unknown whence or negative target (position unchanged); any target >= 0 is
\* accepted, also beyond the end of the file.
Seek(o, w) ==
    LET t == Target(o, w) IN
    /\ IF w \notin Whences \/ t < 0
         THEN /\ res' = [op |-> "Seek", cx |-> "own", k |-> 0, n |-> 0, lo |-> off, eofs |-> {FALSE}, err |-> TRUE, ret |-> 0, cerr |-> FALSE]
              /\ off' = off
         ELSE /\ res' = [op |-> "Seek", cx |-> "own", k |-> 0, n |-> 0, lo |-> t, eofs |-> {FALSE}, err |-> FALSE, ret |-> t, cerr |-> FALSE]
              /\ off' = t
    /\ UNCHANGED <<size, dead>>

\* WriteTo: drains [off, size) into the writer, never reports EOF (bytes.Reader.WriteTo)
WriteTo ==
    /\ res' = [op |-> "WriteTo", cx |-> "own", k |-> 0, n |-> Avail(off), lo |-> off, eofs |-> {FALSE}, err |-> FALSE, ret |-> 0, cerr |-> FALSE]
    /\ off' = Max(off, size)
    /\ UNCHANGED <<size, dead>>

Apis == {"Read", "CtxReadFull"}
SeekOffsets == (0 - size - Slack)..(size + Slack)

\* the read calls with a live context: <<api, cx>>
LiveCalls == {<<"Read", "own">>, <<"CtxReadFull", "bg">>, <<"CtxReadFull", "after">>}
Next == \/ \E c \in LiveCalls, k \in 0..MaxK : ReadCx(c[1], c[2], k)
        \/ \E k \in 0..MaxK, n \in 0..MaxK, ce \in BOOLEAN : ReadCancelled(k, n, ce)
        \/ \E o \in SeekOffsets, w \in Whences : Seek(o, w)
        \/ Seek(0, BadWhence)
        \/ WriteTo

Spec == Init /\ [][Next]_vars
Bounded == off <= 2 * MaxSize + 2 * Slack     \* state constraint for model checking only

(* ---- the property --------------------------------------------------------------------- *)
TypeOK == /\ size \in 0..MaxSize /\ off \in Nat /\ dead \in 0..MaxDead /\ res.cx \in Contexts /\ res.cerr \in BOOLEAN
          /\ res.n \in Nat /\ res.lo \in Nat /\ res.eofs \subseteq BOOLEAN /\ res.eofs # {}

\* delivered bytes lie inside the file and start where the reader stood
DeliveredInsideFile == res.n > 0 => res.lo + res.n <= size
\* a read never returns fewer bytes than requested without signalling EOF, never signals EOF
\* together with a full buffer, and EOF is only ever signalled when the reader ends at/after the end
NoSilentShortRead == res.op \in Apis /\ res.n < res.k => (res.eofs = {TRUE} \/ res.cerr)
\* only a call that was itself given a cancelled context may fail with a context error
CtxErrOnlyOwnCall == res.cerr => (res.op = "CtxReadFull" /\ res.cx = "before")
FullReadNoEof     == res.op \in Apis /\ res.k > 0 /\ res.n = res.k => res.eofs = {FALSE}
EofOnlyAtEnd      == TRUE \in res.eofs => res.lo + res.n >= size
\* the closed forms are the reference semantics (bytes.Reader + io.ReadFull) at every reachable state
ClosedFormIsReference ==
    \A k \in 0..MaxK : RefRead(off, k) = [n |-> ReadN(off, k), eofs |-> ReadEofs(off, k)]
\* a failed call moves nothing; reads advance by exactly n
ErrLeavesPosition == res.err => off = res.lo
SizeNeverChanges == [][size' = size]_vars
ReadAdvances == [][res'.op \in Apis \cup {"WriteTo"} => off' = off + res'.n /\ res'.lo = off]_vars
\* A cancelled EARLIER context does not affect later calls: the outcome of every call whose own context is alive
\* (Read, CtxReadFull bg/after, Seek, WriteTo) is the byte-reader outcome, a function of (size, off) and the
\* arguments alone -- in particular the same in states with dead = 0 and dead > 0.
DeadContextsIrrelevant ==
    [][/\ (res'.op \in Apis /\ res'.cx # "before") =>
             (res'.n = ReadN(off, res'.k) /\ res'.eofs = ReadEofs(off, res'.k) /\ ~res'.cerr /\ ~res'.err)
       /\ res'.op = "WriteTo" => (res'.n = Avail(off) /\ ~res'.cerr /\ ~res'.err /\ off' = Max(off, size))
       /\ res'.op = "Seek" => ~res'.cerr]_vars
=============================================================================
