---------------------------- MODULE SeekReaderImpl ----------------------------
(* C09, design level: what dagreader.go actually does, at the grain of its critical sections,
   run in lock-step with the byte-reader specification SeekReader; the invariants state that
   the implementation design refines it (same n, same delivered positions, admissible EOF).

   The file DAG is flattened to its sequence of data leaves (fixed-size chunker: all leaves
   have Chunk bytes except the last).  `single` = the root itself is the only data node
   (balanced layout of a one-chunk file, any empty file): Seek then has no size hints and
   positions the leaf buffer blindly.

     cnd    dagReader.currentNodeData: NONE or [leaf, c] = buffer of `leaf` with c bytes consumed
            (c may exceed the leaf length after a blind seek: bytes.Reader allows it)
     nxt    index of the next leaf the ipld.Walker will visit on Iterate (NL+1: end of DAG)
     ioff   dagReader.offset
     ires   outcome of the last call: n, eof, err, ret and `got` = file positions of the
            delivered bytes, in delivery order  *)
EXTENDS SeekReader

CONSTANTS MaxChunk
VARIABLES Chunk,     \* chunk size of the fixed-size chunker that built the DAG (1..MaxChunk), never changes
          single, cnd, nxt, ioff, ires
ivars == <<vars, Chunk, single, cnd, nxt, ioff, ires>>

NONE == [leaf |-> 0, c |-> 0]
NL == IF size = 0 THEN 1 ELSE (size + Chunk - 1) \div Chunk        \* an empty file is one empty data node
Start(p) == (p - 1) * Chunk
LeafLen(p) == IF size = 0 THEN 0 ELSE Min(Chunk, size - Start(p))
Positions(a, n) == [j \in 1..n |-> a + j - 1]

\* readNodeDataBuffer(out[n:]) on buffer b with `want` bytes of room: (bytes taken, buffer afterwards)
TakeFrom(b, want) ==
    LET rem  == Max(LeafLen(b.leaf) - b.c, 0)
        take == Min(want, rem)
    IN [take |-> take,
        from |-> Start(b.leaf) + b.c,
        cnd  |-> IF rem - take = 0 THEN NONE ELSE [leaf |-> b.leaf, c |-> b.c + take]]

\* Walker.Iterate with the CtxReadFull visitor: visit leaf p, buffer it, copy, Pause when out is full
RECURSIVE Iterate(_, _, _)
Iterate(p, got, k) ==
    IF p > NL THEN [got |-> got, nxt |-> p, cnd |-> NONE, eof |-> TRUE]          \* EndOfDag
    ELSE LET t    == TakeFrom([leaf |-> p, c |-> 0], k - Len(got))
             got2 == got \o Positions(t.from, t.take)
         IN IF Len(got2) = k THEN [got |-> got2, nxt |-> p + 1, cnd |-> t.cnd, eof |-> FALSE]   \* Pause
            ELSE Iterate(p + 1, got2, k)

ImplRead(k) ==
    LET first == IF cnd = NONE THEN [take |-> 0, from |-> 0, cnd |-> NONE] ELSE TakeFrom(cnd, k)
        got1  == Positions(first.from, first.take)
        r     == IF cnd # NONE /\ first.take = k
                   THEN [got |-> got1, nxt |-> nxt, cnd |-> first.cnd, eof |-> FALSE]   \* "Output buffer full"
                   ELSE Iterate(nxt, got1, k)
    IN /\ cnd' = r.cnd /\ nxt' = r.nxt
       /\ ioff' = ioff + Len(r.got)
       /\ ires' = [n |-> Len(r.got), got |-> r.got, eof |-> r.eof, err |-> FALSE, ret |-> 0]

\* WriteTo: same walk, never pauses, EndOfDag is not an error
RECURSIVE Drain(_, _)
Drain(p, got) == IF p > NL THEN got ELSE Drain(p + 1, got \o Positions(Start(p), LeafLen(p)))
ImplWriteTo ==
    LET first == IF cnd = NONE THEN [take |-> 0, from |-> 0] ELSE TakeFrom(cnd, MaxSize + 1)
        got   == Drain(nxt, Positions(first.from, first.take))
    IN /\ cnd' = NONE /\ nxt' = NL + 1
       /\ ioff' = ioff + Len(got)
       /\ ires' = [n |-> Len(got), got |-> got, eof |-> FALSE, err |-> FALSE, ret |-> 0]

\* Seek(SeekStart branch) after the whence arithmetic
LeafOf(t) == CHOOSE p \in 1..NL : Start(p) <= t /\ t < Start(p) + LeafLen(p)
ImplSeekTo(t) ==
    IF t < 0 THEN /\ UNCHANGED <<cnd, nxt, ioff>>
                  /\ ires' = [n |-> 0, got |-> <<>>, eof |-> FALSE, err |-> TRUE, ret |-> ioff]
    ELSE /\ ires' = [n |-> 0, got |-> <<>>, eof |-> FALSE, err |-> FALSE, ret |-> t]
         /\ ioff' = t
         /\ IF t = ioff THEN UNCHANGED <<cnd, nxt>>                        \* "Already at the requested offset"
            ELSE IF t = 0 THEN cnd' = NONE /\ nxt' = 1                       \* resetPosition only
            ELSE IF single THEN cnd' = [leaf |-> 1, c |-> t] /\ nxt' = 2     \* blind seek inside the only node
            ELSE IF t >= size THEN cnd' = NONE /\ nxt' = NL + 1              \* every child skipped by its size hint
            ELSE cnd' = [leaf |-> LeafOf(t), c |-> t - Start(LeafOf(t))] /\ nxt' = LeafOf(t) + 1
ImplSeek(o, w) ==
    CASE w = SeekStart   -> ImplSeekTo(o)
      [] w = SeekCurrent -> IF o = 0 THEN /\ UNCHANGED <<cnd, nxt, ioff>>
                                          /\ ires' = [n |-> 0, got |-> <<>>, eof |-> FALSE, err |-> FALSE, ret |-> ioff]
                            ELSE ImplSeekTo(ioff + o)
      [] w = SeekEnd     -> ImplSeekTo(size + o)
      [] OTHER           -> /\ UNCHANGED <<cnd, nxt, ioff>>
                            /\ ires' = [n |-> 0, got |-> <<>>, eof |-> FALSE, err |-> TRUE, ret |-> 0]

IInit == /\ Init
         /\ Chunk \in 1..MaxChunk
         /\ single \in {s \in BOOLEAN : s => NL = 1}
         /\ (size = 0 => single)
         /\ cnd = NONE /\ nxt = 1 /\ ioff = 0
         /\ ires = [n |-> 0, got |-> <<>>, eof |-> FALSE, err |-> FALSE, ret |-> 0]

INext == \/ \E a \in Apis, k \in 0..MaxK : Read(a, k) /\ ImplRead(k) /\ UNCHANGED <<single, Chunk>>
         \/ \E o \in SeekOffsets, w \in Whences \cup {BadWhence} : Seek(o, w) /\ ImplSeek(o, w) /\ UNCHANGED <<single, Chunk>>
         \/ WriteTo /\ ImplWriteTo /\ UNCHANGED <<single, Chunk>>
ISpec == IInit /\ [][INext]_ivars

(* ---- refinement ---------------------------------------------------------------------- *)
Refines == /\ ires.n = res.n
           /\ ires.got = Positions(res.lo, res.n)          \* exactly the bytes [lo, lo+n), in order
           /\ ires.eof \in res.eofs
           /\ ires.err = res.err
           /\ (~res.err /\ res.op = "Seek" => ires.ret = res.ret)
           /\ ioff = off
\* the buffered leaf / walker position always describe the byte at `off`
PositionInv ==
    IF cnd # NONE THEN Start(cnd.leaf) + cnd.c = ioff /\ nxt = cnd.leaf + 1
    ELSE ioff >= size \/ (nxt <= NL /\ ioff = Start(nxt))
=============================================================================
