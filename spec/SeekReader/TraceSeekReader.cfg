SPECIFICATION TSpec
CONSTANTS MaxSize = 4194304
          MaxK = 4194304
          Slack = 2
INVARIANTS TypeOK DeliveredInsideFile NoSilentShortRead FullReadNoEof EofOnlyAtEnd ErrLeavesPosition CtxErrOnlyOwnCall
CONSTRAINT TraceConstraint
POSTCONDITION TracePost
CHECK_DEADLOCK FALSE
