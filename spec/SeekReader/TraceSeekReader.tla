--------------------------- MODULE TraceSeekReader ---------------------------
(* Phase T: a recorded history of real DagReaders (several runs separated by Reset events; files
   up to 2 MiB, every layout / chunker / width / leaf kind, modifier-produced DAGs) must be a
   behaviour of SeekReader.  Logged per call: arguments, results, and the reader's own position
   before (`pre`) and after (`post`) the call as reported by Seek(0, io.SeekCurrent).  `dataOK`
   is the projection "the delivered bytes equal content[pre .. pre+n)" computed by the harness
   relative to the position the *code* reported; the spec checks that this position is the
   model's offset, so together they pin which bytes were delivered.
   Read events carry the context of the call (`cx`: "own" for Read; "bg" / "after" / "before" for
   CtxReadFull, the harness cancels an "after" context right after the call and a "before" context
   right before it) and `err`: "" | "ctx" (the call returned its context's error) | other text. *)
EXTENDS SeekReader

Trace == ndJsonDeserialize("trace.ndjson")
VARIABLE l
tvars == <<vars, l>>
ASSUME TLCSet(1, 0)

Ev == Trace[l]
IsEvent(e) == l <= Len(Trace) /\ Trace[l].ev = e /\ l' = l + 1

TInit == l = 1 /\ size = 0 /\ off = 0 /\ res = NoRes /\ dead = 0

TReset == /\ IsEvent("Reset")
          /\ Ev.rsize = Ev.size                       \* Size() of the reader = length of the content
          /\ size' = Ev.size /\ off' = 0 /\ res' = NoRes /\ dead' = 0
\* a call whose own context is alive: earlier contexts, cancelled or not, play no role
TRead == /\ IsEvent("Read")
         /\ <<Ev.api, Ev.cx>> \in LiveCalls
         /\ Ev.err = "" /\ Ev.pre = off
         /\ ReadCx(Ev.api, Ev.cx, Ev.k)
         /\ Ev.n = res'.n /\ Ev.eof \in res'.eofs /\ Ev.dataOK
         /\ Ev.post = off'
\* CtxReadFull with an already cancelled context
TReadCancelled ==
         /\ IsEvent("Read")
         /\ Ev.api = "CtxReadFull" /\ Ev.cx = "before"
         /\ Ev.err \in {"", "ctx"} /\ Ev.pre = off
         /\ ReadCancelled(Ev.k, Ev.n, Ev.err = "ctx")
         /\ Ev.eof \in res'.eofs /\ Ev.dataOK
         /\ Ev.post = off'
TSeek == /\ IsEvent("Seek")
         /\ Ev.pre = off
         /\ Seek(Ev.o, Ev.w)
         /\ Ev.err = res'.err
         /\ (~res'.err => Ev.ret = res'.ret)
         /\ Ev.post = off'
TWriteTo == /\ IsEvent("WriteTo")
            /\ Ev.err = "" /\ Ev.pre = off
            /\ WriteTo
            /\ Ev.n = res'.n /\ Ev.dataOK
            /\ Ev.post = off'

TNext == TReset \/ TRead \/ TReadCancelled \/ TSeek \/ TWriteTo
TSpec == TInit /\ [][TNext]_tvars

TraceConstraint == TLCSet(1, IF l - 1 > TLCGet(1) THEN l - 1 ELSE TLCGet(1))
TracePost == PrintT(<<"TRACE_HWM", TLCGet(1)>>)
=============================================================================
