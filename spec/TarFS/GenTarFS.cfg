\* quick: every archive <= 2 entries over the reduced hostile alphabet, every body, 6 initial targets
SPECIFICATION GSpec
CONSTANTS Names <- NamesMid
          DirMeta <- MetaAll
          LinkTargets <- TargetsAll
          LinkTimes <- TimesAll
          Variants <- VariantsAll
          HarmTypes = {"dir", "file", "link"}
          MaxEntries = 2
          Reuse <- ReuseNone
          Devs = {}
INVARIANTS Emit
CHECK_DEADLOCK FALSE
