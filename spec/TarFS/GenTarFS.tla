------------------------------- MODULE GenTarFS -------------------------------
(* Phase G: archives (sequences of headers) chosen entry by entry against the ideal model; when the run is
   over the behaviour is printed with the initial file system and, for every header consumed and for the
   return of Extract, the CHANGE of the whole file system the model predicts (ideal, and as built where
   that differs) plus the error class.  The harness writes the archive as a real tar stream, realises the
   initial file system in a scratch directory, snapshots it every time the extractor asks for the next
   header, and compares.  With Reuse.calls > 1 a behaviour is a sequence of Extract calls on ONE Extractor
   value (field `more`: the later calls, each with its own target and the changes the owner of the previous
   target made in between); every call is compared in the same way, with respect to its own target.   *)
EXTENDS MCTarFS, Json

VARIABLES v,      \* the initial-target variant
          hist,   \* headers offered so far in the current Extract call
          past    \* the finished calls on this Extractor value: <<[tgt, entries]>>
gvars == <<w, fs0, v, hist, past>>

AllDevs == {"Dev_C38_DeferredMetaByPath"}
Gone == [k |-> "gone", c |-> "", m |-> 0, t |-> "", tg |-> ""]
FsSet(fs) == {[p |-> p, n |-> fs[p]] : p \in DOMAIN fs}
Diff(a, b) == {[p |-> p, n |-> b[p]] : p \in {q \in DOMAIN b : q \notin DOMAIN a \/ a[q] # b[q]}}
              \cup {[p |-> p, n |-> Gone] : p \in DOMAIN a \ DOMAIN b}

\* the worlds after each consumed header and after the end of the archive
RECURSIVE Worlds(_, _, _)
Worlds(ww, es, devs) ==
  IF ww.done THEN <<>>
  ELSE IF es = <<>> THEN <<Finish(ww, devs)>>
  ELSE LET x == Step(ww, Head(es), devs) IN <<x>> \o Worlds(x, Tail(es), devs)
\* one call: the predicted change of the file system per consumed header / at return, from the world at its start
StepsFrom(w0, es, devs) ==
  LET ws == Worlds(w0, es, devs)
  IN [i \in 1..Len(ws) |-> [done |-> ws[i].done, err |-> ws[i].err,
                            diff |-> Diff(IF i = 1 THEN w0.fs ELSE ws[i - 1].fs, ws[i].fs)]]
LastWorld(w0, es, devs) == LET ws == Worlds(w0, es, devs) IN ws[Len(ws)]
Steps(devs) == StepsFrom(NewRun(v), IF past = <<>> THEN hist ELSE past[1].entries, devs)

\* every call of the behaviour, the current one last
Calls == Append(past, [tgt |-> w.tgt, entries |-> hist])
\* the calls after the first: target, what the owner of the previous target changed before the call (age), the
\* archive and the prediction; all on the SAME Extractor value
RECURSIVE More(_, _)
More(prev, cs) ==       \* prev = the world in which the previous call ended
  IF cs = <<>> THEN <<>>
  ELSE LET w0 == Again(prev, Head(cs).tgt)
       IN <<[tgt |-> Head(cs).tgt, age |-> Diff(prev.fs, w0.fs), entries |-> Head(cs).entries,
             ideal |-> StepsFrom(w0, Head(cs).entries, {})]>>
          \o More(LastWorld(w0, Head(cs).entries, {}), Tail(cs))
Behaviour == LET ideal == Steps({})
                 dev   == IF Len(Calls) = 1 THEN Steps(AllDevs) ELSE ideal
             IN [v |-> v, init |-> FsSet(InitFS(v)), entries |-> Calls[1].entries, ideal |-> ideal,
                 dev |-> IF dev = ideal THEN <<>> ELSE <<dev>>,
                 more |-> More(LastWorld(NewRun(v), Calls[1].entries, {}), Tail(Calls))]

GInit == Init /\ v \in Variants /\ fs0 = InitFS(v) /\ hist = <<>> /\ past = <<>>
GEntry == /\ ~w.done /\ w.n < MaxEntriesAt(w)
          /\ \E h \in Offer(w) : w' = Step(w, h, {}) /\ hist' = Append(hist, h)
          /\ UNCHANGED <<fs0, v, past>>
GEnd == /\ ~w.done /\ w.n > 0
        /\ w' = Finish(w, {})
        /\ UNCHANGED <<fs0, v, hist, past>>
\* the same Extractor value is pointed at another target and used again
GReuse == /\ w.done /\ w.call < Reuse.calls
          /\ \E t \in Reuse.targets : w' = Again(w, t)
          /\ fs0' = AgeFS(w.fs, w.tgt)
          /\ past' = Append(past, [tgt |-> w.tgt, entries |-> hist]) /\ hist' = <<>>
          /\ UNCHANGED v
GNext == GEntry \/ GEnd \/ GReuse
GSpec == GInit /\ [][GNext]_gvars

Complete == w.done /\ w.call = Reuse.calls
Emit == ~Complete \/ PrintT(<<"BEHAVIOUR", ToJson(Behaviour)>>)

\* -simulate: one random archive after the other
Flush == /\ Complete
         /\ PrintT(<<"BEHAVIOUR", ToJson(Behaviour)>>)
         /\ \E nv \in Variants : v' = nv /\ w' = NewRun(nv) /\ fs0' = InitFS(nv)
         /\ hist' = <<>> /\ past' = <<>>
GNextSim == IF Complete THEN Flush ELSE GNext
GSpecSim == GInit /\ [][GNextSim]_gvars
=============================================================================
