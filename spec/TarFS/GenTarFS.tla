------------------------------- MODULE GenTarFS -------------------------------
(* Phase G: archives (sequences of headers) chosen entry by entry against the ideal model; when the run is
   over the behaviour is printed with the initial file system and, for every header consumed and for the
   return of Extract, the CHANGE of the whole file system the model predicts (ideal, and as built where
   that differs) plus the error class.  The harness writes the archive as a real tar stream, realises the
   initial file system in a scratch directory, snapshots it every time the extractor asks for the next
   header, and compares.                                                                          *)
EXTENDS MCTarFS, Json

VARIABLES v,      \* the initial-target variant
          hist    \* headers offered so far
gvars == <<w, fs0, v, hist>>

AllDevs == {"Dev_C38_DeferredMetaByPath"}
Gone == [k |-> "gone", c |-> "", m |-> 0, t |-> "", tg |-> ""]
FsSet(fs) == {[p |-> p, n |-> fs[p]] : p \in DOMAIN fs}
Diff(a, b) == {[p |-> p, n |-> b[p]] : p \in {q \in DOMAIN b : q \notin DOMAIN a \/ a[q] # b[q]}}
              \cup {[p |-> p, n |-> Gone] : p \in DOMAIN a \ DOMAIN b}

\* the worlds after each consumed header and after the end of the archive
RECURSIVE Worlds(_, _, _)
Worlds(ww, es, devs) ==
  IF ww.done THEN <<>>
  ELSE IF es = <<>> THEN <<Finish(ww, devs)>>
  ELSE LET x == Step(ww, Head(es), devs) IN <<x>> \o Worlds(x, Tail(es), devs)
Steps(devs) ==
  LET ws == Worlds(NewRun(v), hist, devs)
  IN [i \in 1..Len(ws) |-> [done |-> ws[i].done, err |-> ws[i].err,
                            diff |-> Diff(IF i = 1 THEN fs0 ELSE ws[i - 1].fs, ws[i].fs)]]
Behaviour == LET ideal == Steps({})
                 dev   == Steps(AllDevs)
             IN [v |-> v, init |-> FsSet(fs0), entries |-> hist, ideal |-> ideal,
                 dev |-> IF dev = ideal THEN <<>> ELSE <<dev>>]

GInit == Init /\ v \in Variants /\ fs0 = InitFS(v) /\ hist = <<>>
GEntry == /\ ~w.done /\ w.n < MaxEntries
          /\ \E h \in Offer(w) : w' = Step(w, h, {}) /\ hist' = Append(hist, h)
          /\ UNCHANGED <<fs0, v>>
GEnd == /\ ~w.done /\ w.n > 0
        /\ w' = Finish(w, {})
        /\ UNCHANGED <<fs0, v, hist>>
GNext == GEntry \/ GEnd
GSpec == GInit /\ [][GNext]_gvars

Emit == ~w.done \/ PrintT(<<"BEHAVIOUR", ToJson(Behaviour)>>)

\* -simulate: one random archive after the other
Flush == /\ w.done
         /\ PrintT(<<"BEHAVIOUR", ToJson(Behaviour)>>)
         /\ \E nv \in Variants : v' = nv /\ w' = NewRun(nv) /\ fs0' = InitFS(nv)
         /\ hist' = <<>>
GNextSim == IF w.done THEN Flush ELSE GNext
GSpecSim == GInit /\ [][GNextSim]_gvars
=============================================================================
