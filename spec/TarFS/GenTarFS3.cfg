\* quick: every archive <= 3 entries over the names that get anywhere, two metadata classes, 3 initial targets
SPECIFICATION GSpec
CONSTANTS Names <- NamesCore
          DirMeta <- MetaTwo
          LinkTargets <- TargetsAll
          LinkTimes = {"z"}
          Variants = {"fresh", "links", "tree"}
          HarmTypes = {"dir", "file", "link"}
          MaxEntries = 3
          Reuse <- ReuseNone
          Devs = {}
INVARIANTS Emit
CHECK_DEADLOCK FALSE
