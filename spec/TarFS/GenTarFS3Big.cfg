\* thorough: every archive <= 3 entries over the names that get anywhere, every body, 6 initial targets
SPECIFICATION GSpec
CONSTANTS Names <- NamesCore
          DirMeta <- MetaAll
          LinkTargets <- TargetsAll
          LinkTimes <- TimesAll
          Variants <- VariantsAll
          HarmTypes = {"file"}
          MaxEntries = 3
          Reuse <- ReuseNone
          Devs = {}
INVARIANTS Emit
CHECK_DEADLOCK FALSE
