\* quick: replacement chains -- every archive <= 4 entries over ONE chain of names r, r/a, r/a/a (entries of
\* different types sharing a name, followed by entries below that name), 9 bodies (dir/file x 2 metadata classes,
\* symlinks to the outside directory absolute and relative, other type; refused names with all 3 harmful bodies),
\* fresh and pre-populated target.  The design invariants are checked on the same run (ideal model, 4 entries).
SPECIFICATION GSpec
CONSTANTS Names <- NamesChain
          DirMeta <- MetaTwo
          LinkTargets <- TargetsTwo
          LinkTimes = {"z"}
          Variants = {"fresh", "tree"}
          HarmTypes = {"dir", "file", "link"}
          MaxEntries = 4
          Reuse <- ReuseNone
          Devs = {}
INVARIANTS Emit Confined NoStrayTouch NoTempLeft DoneClean WellFormed
CHECK_DEADLOCK FALSE
