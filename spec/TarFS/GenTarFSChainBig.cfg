\* thorough: replacement chains -- every archive <= 5 entries over the chain r, r/a, r/a/a, r/a/a/a (+ r/b), 6 bodies,
\* fresh and pre-populated target; design invariants checked on the same run (ideal model, 5 entries)
SPECIFICATION GSpec
CONSTANTS Names <- NamesChain4
          DirMeta <- MetaOne
          LinkTargets <- TargetsTwo
          LinkTimes = {"z"}
          Variants = {"fresh", "tree"}
          HarmTypes = {"file"}
          MaxEntries = 5
          Reuse <- ReuseNone
          Devs = {}
INVARIANTS Emit Confined NoStrayTouch NoTempLeft DoneClean WellFormed
CHECK_DEADLOCK FALSE
