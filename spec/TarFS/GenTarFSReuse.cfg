\* quick: ONE Extractor value used for two Extract calls.  First call: every archive <= 4 entries over r, r/a, r/b,
\* r/a/a and one name per refusal class x 6 bodies (dir / file with metadata, file whose body is TRUNCATED, symlink
\* to the outside directory, other type) into the fresh target -- so that it ends in every way: success, refused
\* name, type, traversal, non-empty directory, truncated body with deferred updates that can no longer be applied.
\* Then the owner of that target changes mode/mtime of everything in it and the same Extractor extracts <= 2
\* directories with metadata into ANOTHER target.  The design invariants are checked on the same run.
SPECIFICATION GSpec
CONSTANTS Names <- NamesReuse
          DirMeta <- MetaOne
          LinkTargets <- TargetsOne
          LinkTimes = {"z"}
          Variants = {"fresh"}
          HarmTypes = {"file"}
          MaxEntries = 4
          Reuse <- ReuseOther
          Devs = {}
INVARIANTS Emit Confined NoStrayTouch NoTempLeft DoneClean WellFormed DefsInside
CHECK_DEADLOCK FALSE
