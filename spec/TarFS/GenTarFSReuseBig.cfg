\* thorough: ONE Extractor value used for two Extract calls: as GenTarFSReuse.cfg, with fresh and pre-populated first
\* target, and the second call into another target or into the same target again
SPECIFICATION GSpec
CONSTANTS Names <- NamesReuse
          DirMeta <- MetaOne
          LinkTargets <- TargetsOne
          LinkTimes = {"z"}
          Variants = {"fresh", "tree"}
          HarmTypes = {"file"}
          MaxEntries = 4
          Reuse <- ReuseBoth
          Devs = {}
INVARIANTS Emit Confined NoStrayTouch NoTempLeft DoneClean WellFormed DefsInside
CHECK_DEADLOCK FALSE
