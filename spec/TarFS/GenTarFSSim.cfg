\* sampled: random archives <= 10 entries
SPECIFICATION GSpecSim
CONSTANTS Names <- NamesSim
          DirMeta <- MetaAll
          LinkTargets <- TargetsAll
          LinkTimes <- TimesAll
          Variants <- VariantsAll
          HarmTypes = {"dir", "file", "link"}
          MaxEntries = 10
          Reuse <- ReuseNone
          Devs = {}
CHECK_DEADLOCK FALSE
