\* design-level search for an escape: every archive <= 3 entries over the full hostile alphabet (399 names x
\* 9 bodies: two metadata classes; MCTarFSBig.cfg has all 17), 6 initial targets, IDEAL deferred-update rule
SPECIFICATION Spec
CONSTANTS Names <- NamesAll
          DirMeta <- MetaTwo
          LinkTargets <- TargetsAll
          LinkTimes = {"z"}
          Variants <- VariantsAll
          HarmTypes = {"file"}
          MaxEntries = 3
          Reuse <- ReuseNone
          Devs = {}
INVARIANTS Confined NoStrayTouch NoTempLeft DoneClean WellFormed
CHECK_DEADLOCK FALSE
