------------------------------- MODULE MCTarFS -------------------------------
(* Constant sets for the TarFS configurations (cfg files cannot write sequences/tuples). *)
EXTENDS TarFS

\* hostile name alphabet: plain names, "..", ".", the empty component (leading = absolute path, inner =
\* repeated slash, trailing = trailing slash) and "z" = a component containing a NUL byte
Tok == {"r", "a", "b", "..", ".", "", "z"}
NamesAll == UNION {[1..k -> Tok] : k \in 1..3}                      \* 7 + 49 + 343 names
\* the names an extraction can get anywhere with, plus one representative of each way of being refused
NamesCore == {<<"r">>, <<"r", "a">>, <<"r", "b">>, <<"r", "a", "a">>, <<"r", "a", "b">>, <<"r", "b", "a">>}
NamesHostile == {<<"a">>, <<"b", "a">>, <<"..">>, <<"r", "..">>, <<"r", "..", "a">>, <<"r", "a", "..">>,
                 <<"", "r", "a">>, <<"r", "", "a">>, <<"r", "a", "">>, <<"r", ".", "a">>, <<".">>, <<"">>,
                 <<"r", "z">>, <<"z">>}
NamesMid == NamesCore \cup NamesHostile
NamesSim == NamesCore \cup {<<"r", "b", "b">>, <<"r", "a", "..">>, <<"a">>, <<"r", "", "a">>}

\* replacement chains: an entry REPLACES an earlier entry of the same name by another type and later entries go
\* BELOW that name (dir -> symlink -> child, dir -> file -> child, symlink -> dir -> child ...).  Below the
\* archive root this needs >= 4 entries (root dir, x, x again, x/child), so the alphabet is one chain of names
\* (every prefix of r/a/a[/a]) and the archives are longer.
NamesChain == {<<"r">>, <<"r", "a">>, <<"r", "a", "a">>}
NamesChain4 == NamesChain \cup {<<"r", "a", "a", "a">>, <<"r", "b">>}
MetaOne == {<<M700, "t1">>}
TargetsTwo == {"abs_o", "up2_o"}

\* one Extractor value, several Extract calls.  ReuseNone: the single-call configurations.
ReuseNone == [calls |-> 1, targets |-> {}, names |-> {}, types |-> {}, max |-> 0, contents |-> {"X"}]
\* a second call into another (fresh) target [and into the same target again] with a short archive of directories
\* that carry metadata, after a first call that may end in every way -- success, every refusal, a truncated body
ReuseOther == [calls |-> 2, targets |-> {U}, names |-> {<<"r">>, <<"r", "a">>}, types |-> {"dir"}, max |-> 2,
               contents |-> {"X", "trunc"}]
ReuseBoth  == [ReuseOther EXCEPT !.targets = {U, T}]
\* first call: names that get somewhere (two siblings and a child: removal of a deferred directory, traversal of a
\* link / file, non-empty directory) and one per refusal class
NamesReuse == {<<"r">>, <<"r", "a">>, <<"r", "b">>, <<"r", "a", "a">>, <<"r", "..">>, <<"r", "z">>}
TargetsOne == {"abs_o"}

MetaAll == {<<0, "z">>, <<M700, "z">>, <<0, "t1">>, <<M700, "t1">>}
MetaTwo == {<<0, "z">>, <<M700, "t1">>}
TargetsAll == {"abs_o", "up2_o", "rel_a", "abs_of"}
TimesAll == {"z", "t1"}
VariantsAll == {"fresh", "links", "tree", "uplink", "tlink", "tfile"}
=============================================================================
