\* control: with the as-built deferred update (applied by path, chmod follows links) the search must find
\* the escape
SPECIFICATION Spec
CONSTANTS Names <- NamesCore
          DirMeta <- MetaTwo
          LinkTargets <- TargetsAll
          LinkTimes = {"z"}
          Variants = {"fresh"}
          HarmTypes = {"file"}
          MaxEntries = 4
          Reuse <- ReuseNone
          Devs = {"Dev_C38_DeferredMetaByPath"}
INVARIANTS Confined
CHECK_DEADLOCK FALSE
