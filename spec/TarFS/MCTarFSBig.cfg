\* design-level search for an escape: every archive <= 3 entries over the full hostile alphabet (399 names x
\* 17 bodies), 6 initial targets, IDEAL deferred-update rule
SPECIFICATION Spec
CONSTANTS Names <- NamesAll
          DirMeta <- MetaAll
          LinkTargets <- TargetsAll
          LinkTimes <- TimesAll
          Variants <- VariantsAll
          HarmTypes = {"file"}
          MaxEntries = 3
          Reuse <- ReuseNone
          Devs = {}
INVARIANTS Confined NoStrayTouch NoTempLeft DoneClean WellFormed
CHECK_DEADLOCK FALSE
