\* control: an Extractor value that does NOT reset its deferred updates at the start of a call must be found to
\* touch the previous target from the next call
SPECIFICATION SpecReuse
CONSTANTS Names <- NamesReuse
          DirMeta <- MetaOne
          LinkTargets <- TargetsOne
          LinkTimes = {"z"}
          Variants = {"fresh"}
          HarmTypes = {"file"}
          MaxEntries = 4
          Reuse <- ReuseOther
          Devs = {"Ctl_KeepDeferred"}
INVARIANTS Confined
CHECK_DEADLOCK FALSE
